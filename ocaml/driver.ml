(* driver.ml -- runs the extracted Coq model (model.ml) on case files and prints one
   canonical line per result, in the same format as the Rust harness (harness/src/main.rs).
   Trusted glue: parsing, printing, the hash oracle pipe. *)
open Model

(* ---------- conversions ---------- *)
let rec pos_of_int i = if i = 1 then XH else if i land 1 = 0 then XO (pos_of_int (i lsr 1)) else XI (pos_of_int (i lsr 1))
let n_of_int i = if i = 0 then N0 else Npos (pos_of_int i)
let rec int_of_pos = function XH -> 1 | XO p -> 2 * int_of_pos p | XI p -> 2 * int_of_pos p + 1
let int_of_n = function N0 -> 0 | Npos p -> int_of_pos p
let rec nat_of_int i = let rec go acc i = if i = 0 then acc else go (S acc) (i - 1) in go O i
let int_of_nat n = let rec go acc = function O -> acc | S m -> go (acc + 1) m in go 0 n

(* decimal strings up to 2^64-1 do not fit OCaml's int: parse into N through Z-free arithmetic *)
let n_of_decimal (s : string) : n =
  let acc = ref N0 in
  String.iter (fun c ->
    let d = Char.code c - 48 in
    if d < 0 || d > 9 then failwith ("bad number " ^ s);
    acc := N.add (N.mul !acc (n_of_int 10)) (n_of_int d)) s;
  !acc
let decimal_of_n (x : n) : string =
  (* repeated division by 10 *)
  if x = N0 then "0" else begin
    let b = Buffer.create 20 in
    let cur = ref x in
    while !cur <> N0 do
      let q = N.div !cur (n_of_int 10) and r = N.modulo !cur (n_of_int 10) in
      Buffer.add_char b (Char.chr (48 + int_of_n r)); cur := q
    done;
    let s = Buffer.contents b in
    String.init (String.length s) (fun i -> s.[String.length s - 1 - i])
  end

let bytes_of_string (s : string) : bytes = List.init (String.length s) (fun i -> n_of_int (Char.code s.[i]))
let string_of_bytes (b : bytes) : string =
  let buf = Buffer.create 64 in List.iter (fun x -> Buffer.add_char buf (Char.chr (int_of_n x land 255))) b; Buffer.contents buf
let hexchars = "0123456789abcdef"
let hex_of_string s =
  let b = Buffer.create (2 * String.length s) in
  String.iter (fun c -> let x = Char.code c in Buffer.add_char b hexchars.[x lsr 4]; Buffer.add_char b hexchars.[x land 15]) s;
  Buffer.contents b
let hexval c = match c with '0'..'9' -> Char.code c - 48 | 'a'..'f' -> Char.code c - 87 | 'A'..'F' -> Char.code c - 55 | _ -> failwith "bad hex"
let string_of_hex h =
  if h = "-" then "" else
  String.init (String.length h / 2) (fun i -> Char.chr (16 * hexval h.[2*i] + hexval h.[2*i+1]))
let gen_bytes_fwd_ref : (string -> string) ref = ref (fun _ -> "")
let gen_bytes_fwd h = !gen_bytes_fwd_ref h
let hex_of_bytes b = let s = string_of_bytes b in if s = "" then "-" else hex_of_string s
let bytes_of_hex h = bytes_of_string (string_of_hex h)
let key_of h = if String.length h > 2 && h.[1] = ':' then bytes_of_string (gen_bytes_fwd h) else bytes_of_hex h

(* content digest shared with the harness: length + Adler-32 style sums *)
let digest (s : string) : string =
  let a = ref 1 and b = ref 0 in
  String.iter (fun c -> a := (!a + Char.code c) mod 65521; b := (!b + !a) mod 65521) s;
  Printf.sprintf "%d:%04x%04x" (String.length s) !b !a
let show_content (s : string) : string =
  if String.length s <= 48 then digest s ^ ":" ^ (if s = "" then "-" else hex_of_string s) else digest s

(* generated contents: G:<seed>:<len> *)
let gen_bytes_off seed len off = String.init len (fun j -> let i = j + off in Char.chr ((seed * 131 + i * 31 + (i / 251) * 17) land 255))
let gen_bytes seed len = gen_bytes_off seed len 0
let parse_chunk (c : string) : string =
  if String.length c > 2 && c.[0] = 'S' && c.[1] = ':' then
    (match String.split_on_char ':' c with
     | [_; v; p; nn] -> string_of_bytes (enc_settings (n_of_decimal v) (p = "1") (n_of_decimal nn))
     | _ -> failwith "bad S chunk")
  else if String.length c > 2 && c.[0] = 'G' && c.[1] = ':' then
    (match String.split_on_char ':' c with
     | [_; s; l] -> gen_bytes (int_of_string s) (int_of_string l)
     | [_; s; l; o] -> gen_bytes_off (int_of_string s) (int_of_string l) (int_of_string o)
     | _ -> failwith "bad G chunk")
  else string_of_hex c
let () = gen_bytes_fwd_ref := parse_chunk
let parse_chunks (s : string) : bytes list =
  if s = "" || s = "." then [] else List.map (fun c -> bytes_of_string (parse_chunk c)) (String.split_on_char ',' s)

(* ---------- hash oracle ---------- *)
let toy_hash = ref false
let hash_cache : (string, bytes) Hashtbl.t = Hashtbl.create 1024
let oracle : (in_channel * out_channel) option ref = ref None
let oracle_cmd = ref ""
let hash_queries = ref 0
(* a deliberately weak but deterministic 32-byte function used only to cross-check the
   extraction against vm_compute (the same function is defined in coq/extract/ToyHash.v) *)
let toy (s : string) : bytes =
  let a = ref 7 in
  String.iter (fun c -> a := (!a * 31 + Char.code c + 1) mod 65521) s;
  List.init 32 (fun i -> n_of_int ((!a + i * 37 + (!a / 256)) land 255))
let hash_fn (b : bytes) : bytes =
  let s = string_of_bytes b in
  match Hashtbl.find_opt hash_cache s with
  | Some h -> h
  | None ->
    incr hash_queries;
    let h =
      if !toy_hash then toy s else begin
        let (ic, oc) = match !oracle with
          | Some p -> p
          | None -> let p = Unix.open_process !oracle_cmd in oracle := Some p; p in
        output_string oc (if s = "" then "-" else hex_of_string s); output_char oc '\n'; flush oc;
        bytes_of_hex (input_line ic)
      end in
    Hashtbl.replace hash_cache s h; h

(* ---------- printing ---------- *)
let printable s = String.concat "" (List.map (fun c -> if (c >= 'a' && c <= 'z') || (c >= 'A' && c <= 'Z') || (c >= '0' && c <= '9') || c = '.' || c = '_' || c = '-' then String.make 1 c else Printf.sprintf "%%%02x" (Char.code c)) (List.init (String.length s) (String.get s)))
let path_str = function
  | PLock -> "LOCK" | PSettings -> "db_settings.json" | PSettingsTmp -> "db_settings.json.tmp"
  | PIndex -> "index" | PIndexTmp -> "index.tmp"
  | PWal i -> decimal_of_n i ^ "_index.wal"
  | PStaging i -> "staging/#" ^ decimal_of_n i
  | PCas comps -> "cas/" ^ String.concat "/" (List.map (fun c -> printable (string_of_bytes c)) comps)
let dir_str (d : dir) = String.concat "/" (List.map (fun c -> printable (string_of_bytes c)) d)
let is_settings = function PSettings | PSettingsTmp -> true | _ -> false
let call_str = function
  | CMkdir d -> "mkdir " ^ dir_str d
  | CCreate p -> "create " ^ path_str p
  | CCreateExcl p -> "createx " ^ path_str p
  | COpenAppend p -> "opena " ^ path_str p
  | CAppend (p, b) ->
    if is_settings p then "append " ^ path_str p ^ " settings"
    else (match p with PStaging _ -> "append " ^ path_str p ^ " data"
                     | _ -> "append " ^ path_str p ^ " " ^ digest (string_of_bytes b))
  | CSync p -> "sync " ^ path_str p
  | CRename (p, q) -> "rename " ^ path_str p ^ " " ^ path_str q
  | CUnlink p -> "unlink " ^ path_str p
let tev_str = function TCall c -> call_str c | TFault c -> "FAULT " ^ call_str c

let derr_str = function DEof -> "Eof" | DInsufficient -> "Insufficient" | DBadTag -> "BadTag"
let serr_str = function
  | EStagingDir -> "io.CreateStagingDir" | ECasDir -> "io.CreateCasDir" | ELockFile -> "io.CreateLockFile"
  | ESettingsVersion -> "settings.UnsupportedVersion" | ESettingsN -> "settings.ValidationFailed"
  | ESettingsWrite -> "settings.AtomicWrite" | ESettingsParse -> "settings.ParseFailed"
  | EEmptyIndex -> "index.EmptyIndexFile" | EDecodeIndex -> "index.DecodeIndex" | EDecodeKey -> "index.DecodeKey"
  | EIndexWrite -> "index.AtomicWrite" | EWalIo -> "wal.Io" | EWalWrite -> "wal.WriteEntry"
  | EReplay RShortPayload -> "replay.ReadOpData" | EReplay RChecksum -> "replay.Checksum"
  | EReplay (RDeserialize _) -> "replay.Deserialize" | EReplay (RConvert _) -> "replay.Convert"
  | EReplay RPanic -> "panic"
  | EStageCreate -> "io.CreateStagingFile" | EStageWrite -> "io.StageWrite" | EStageSync -> "CommitFdatasyncIo"
  | ESubdir -> "cas.CreateSubdir" | EMoveStaged -> "cas.MoveStaged" | EBlobDeletion -> "index.BlobDeletion"
  | EBlobMissing -> "BlobDataMissing" | EInvalidRange -> "cas.InvalidRange" | EIntegrity -> "IntegrityCheckFailed"
  | ERemoveFile -> "io.RemoveFile" | EPanic -> "panic"

let entries_str (l : (bytes * item) list) =
  "[" ^ String.concat ";" (List.map (fun (k, it) -> hex_of_bytes k ^ "=" ^ hex_of_bytes it.ihash ^ ":" ^ decimal_of_n it.isize) l) ^ "]"
let sorted_strs l = String.concat "," (List.sort compare l)
let ostats_str (o : ostats) =
  Printf.sprintf "orph=[%s] invalid=[%s] missing=[%s] corrupted=[%s] staging=[%s] total=%s"
    (sorted_strs (List.map hex_of_bytes o.o_orphans)) (sorted_strs (List.map path_str o.o_invalid))
    (sorted_strs (List.map hex_of_bytes o.o_missing)) (sorted_strs (List.map hex_of_bytes o.o_corrupted))
    (sorted_strs (List.map path_str o.o_staging)) (decimal_of_n o.o_total)
let out_str = function
  | OutUnit -> "ok"
  | OutBool b -> if b then "ok:true" else "ok:false"
  | OutNum x -> "ok:" ^ decimal_of_n x
  | OutBytes None -> "none"
  | OutBytes (Some b) -> "bytes:" ^ show_content (string_of_bytes b)
  | OutSize None -> "none"
  | OutSize (Some x) -> "size:" ^ decimal_of_n x
  | OutEntries l -> "entries:" ^ entries_str l
  | OutStats (a, b, c) -> Printf.sprintf "stats:%s,%s,%s" (decimal_of_n a) (decimal_of_n b) (decimal_of_n c)
  | OutBlobs l -> "blobs:[" ^ String.concat ";" (List.map (fun (h, c) -> hex_of_bytes h ^ "=" ^ decimal_of_n c) l) ^ "]"
  | OutOpened None -> "opened"
  | OutOpened (Some o) -> "opened " ^ ostats_str o
  | OutRecovery r -> Printf.sprintf "recovery:del=%s,quar=%s,skip=%s,inv=%s,stag=%s,err=%s"
      (decimal_of_n r.r_deleted) (decimal_of_n r.r_quarantined) (decimal_of_n r.r_skipped)
      (decimal_of_n r.r_invalid) (decimal_of_n r.r_staging) (decimal_of_n r.r_errors)
  | OutErr e -> "err:" ^ serr_str e
  | OutClosed -> "closed"

let settings_str (data : bytes) =
  match dec_settings data with
  | Some ((v, pre), nn) -> Printf.sprintf "settings:v=%s,pre=%b,n=%s" (decimal_of_n v) pre (decimal_of_n nn)
  | None -> "settings:raw:" ^ hex_of_bytes data
(* summaries of log segments and snapshots through the MODEL's readers; the harness prints the
   same lines through its independent reader of the documented format *)
let op_summary (payload : bytes) : string =
  match dec_op payload with
  | Err _ -> "bad"
  | Ok (RPut (k, h, sz)) -> Printf.sprintf "put:%s:%s:%s" (hex_of_bytes k) (hex_of_bytes h) (decimal_of_n sz)
  | Ok (RRemove ks) -> "rm:" ^ String.concat "|" (List.map hex_of_bytes ks)
let wal_summary (data : bytes) : string =
  let (recs, e) = read_segment_lazy hash_fn (S (length data)) data in
  let consumed = List.fold_left (fun a (_, p) -> a + 44 + int_of_nat (length p)) 0 recs in
  let total = int_of_nat (length data) in
  let rem = total - consumed in
  let tail = match e with
    | Some RShortPayload -> "partial-payload"
    | Some RChecksum -> "badsum"
    | Some _ -> "error"
    | None ->
      if rem = 0 then "clean"
      else if rem < 44 then Printf.sprintf "partial-header:%d" rem
      else begin
        let rest = skipn (nat_of_int consumed) data in
        let ver = le_dec (firstn (nat_of_int 8) rest) in
        if ver = N0 then
          (if rem = 44 && List.for_all (fun b -> b = N0) rest then "sentinel" else Printf.sprintf "marker+%d" (rem - 44))
        else "zero-len"
      end in
  Printf.sprintf "[%s] tail=%s" (String.concat ";" (List.map (fun (v, p) -> decimal_of_n v ^ ":" ^ op_summary p) recs)) tail
let snapshot_summary (data : bytes) : string =
  match dec_snapshot data with
  | Err _ -> "bad"
  | Ok (ver, es) ->
    let used = List.fold_left (fun a (k, _) -> a + 44 + int_of_nat (length k)) 12 es in
    Printf.sprintf "ver=%s [%s]%s" (decimal_of_n ver)
      (String.concat ";" (List.map (fun (k, it) -> hex_of_bytes k ^ "=" ^ hex_of_bytes it.ihash ^ ":" ^ decimal_of_n it.isize) es))
      (if used = int_of_nat (length data) then "" else " trailing")

let dump_fs (out : Buffer.t) (prefix : string) (s : fs) (with_sync : bool) =
  let lines = List.concat_map (fun (p, f) ->
    let body = if is_settings p then settings_str f.fdata
      else (match p with
            | PStaging _ -> "staged"
            | PCas comps ->
              let ok = (match parse_path comps with Some h -> h = hash_fn f.fdata | None -> false) in
              show_content (string_of_bytes f.fdata) ^ (if ok then " hash=ok" else " hash=BAD")
            | _ -> show_content (string_of_bytes f.fdata)) in
    let sy = if with_sync then Printf.sprintf " synced=%d" (int_of_nat f.fsynced) else "" in
    let extra = match p with
      | PWal _ -> [Printf.sprintf "%sL %s %s\n" prefix (path_str p) (wal_summary f.fdata)]
      | PIndex -> [Printf.sprintf "%sS index %s\n" prefix (snapshot_summary f.fdata)]
      | _ -> [] in
    Printf.sprintf "%sF %s %s%s\n" prefix (path_str p) body sy :: extra) s.files in
  List.iter (Buffer.add_string out) (List.sort compare lines)

(* ---------- case parsing ---------- *)
let parse_bound (s : string) : bound =
  if s = "U" then Unb
  else if String.length s >= 2 && s.[0] = 'I' && s.[1] = ':' then Incl (bytes_of_hex (String.sub s 2 (String.length s - 2)))
  else if String.length s >= 2 && s.[0] = 'E' && s.[1] = ':' then Excl (bytes_of_hex (String.sub s 2 (String.length s - 2)))
  else failwith ("bad bound " ^ s)
let parse_kt (s : string) : ktype =
  match s with
  | "bytes" -> KBytes | "string" -> KString
  | "arr4" -> KArr (nat_of_int 4)
  | "u8" -> KUns (nat_of_int 1) | "u16" -> KUns (nat_of_int 2) | "u32" -> KUns (nat_of_int 4)
  | "u64" -> KUns (nat_of_int 8) | "u128" -> KUns (nat_of_int 16)
  | "i8" -> KSig (nat_of_int 1) | "i16" -> KSig (nat_of_int 2) | "i32" -> KSig (nat_of_int 4)
  | "i64" -> KSig (nat_of_int 8) | "i128" -> KSig (nat_of_int 16)
  | _ -> failwith ("bad key type " ^ s)
let default_cfg = { c_kt = KBytes; c_n = n_of_int 10000; c_sync = true; c_pre = false; c_scan = true; c_verify = false; c_failint = true }
let apply_kv (c : config) (kv : string) : config =
  match String.split_on_char '=' kv with
  | ["kt"; v] -> { c with c_kt = parse_kt v }
  | ["n"; v] -> { c with c_n = n_of_decimal v }
  | ["sync"; v] -> { c with c_sync = (v = "1") }
  | ["pre"; v] -> { c with c_pre = (v = "1") }
  | ["scan"; v] -> { c with c_scan = (v = "1") }
  | ["verify"; v] -> { c with c_verify = (v = "1") }
  | ["failint"; v] -> { c with c_failint = (v = "1") }
  | _ -> failwith ("bad cfg item " ^ kv)

type line =
  | LHold of string * string * bytes
  | LDrain of string * string
  | LSetSettings of n * bool * n
  | LRmBlob of bytes                (* a blob file disappears from a closed store (content given) *)
  | LOp of string * op           (* printable name, model op *)
  | LObs
  | LCfg of string list

let parse_line (cfg : config ref) (l : string) : line option =
  let toks = List.filter (fun s -> s <> "") (String.split_on_char ' ' l) in
  match toks with
  | [] -> None
  | t :: _ when t.[0] = '#' -> None
  | "cfg" :: kvs -> Some (LCfg kvs)
  | "fault" :: _ -> None
  | ["hold"; slot; k] -> Some (LHold (l, slot, key_of k))
  | ["drain"; slot] -> Some (LDrain (l, slot))
  | ["setsettings"; v; p; nn] -> Some (LSetSettings (n_of_decimal v, p = "1", n_of_decimal nn))
  | ["rmblob"; c] -> Some (LRmBlob (bytes_of_string (parse_chunk c)))
  | ["put"; k] -> Some (LOp (l, OpPut (key_of k, [])))
  | ["put"; k; cs] -> Some (LOp (l, OpPut (key_of k, parse_chunks cs)))
  | ["abort"; k] -> Some (LOp (l, OpAbort (key_of k, [])))
  | ["abort"; k; cs] -> Some (LOp (l, OpAbort (key_of k, parse_chunks cs)))
  | ["remove"; k] -> Some (LOp (l, OpRemove (key_of k)))
  | ["remove_range"; a; b] -> Some (LOp (l, OpRemoveRange (parse_bound a, parse_bound b)))
  | ["checkpoint"] -> Some (LOp (l, OpCheckpoint))
  | ["get"; k] -> Some (LOp (l, OpGet (key_of k)))
  | ["size"; k] -> Some (LOp (l, OpGetSize (key_of k)))
  | ["range"; k; a; b] -> Some (LOp (l, OpGetRange (key_of k, n_of_decimal a, n_of_decimal b)))
  | ["reader"; k] -> Some (LOp (l, OpGetReader (key_of k)))
  | ["iter"] -> Some (LOp (l, OpIter))
  | ["riter"; a; b] -> Some (LOp (l, OpRange (parse_bound a, parse_bound b)))
  | ["stats"] -> Some (LOp (l, OpStats))
  | ["blobs"] -> Some (LOp (l, OpBlobs))
  | ["close"] -> Some (LOp (l, OpClose))
  | "open" :: rest ->
    let gate = List.mem "gate" rest in
    let kvs = List.filter (fun s -> s <> "gate") rest in
    let c = List.fold_left apply_kv !cfg kvs in
    Some (LOp (l, OpOpen (c, gate)))
  | ["delorphans"] -> Some (LOp (l, OpDeleteOrphans))
  | ["quarantine"] -> Some (LOp (l, OpQuarantine))
  | ["delorphan"; h] -> Some (LOp (l, OpDeleteOrphan (bytes_of_hex h)))
  | ["obs"] -> Some LObs
  | _ -> failwith ("bad case line: " ^ l)

(* planted files: `plant <relative path> <hex content>` before the first open *)
let parse_plant_path (p : string) : path =
  let comps = String.split_on_char '/' p in
  match comps with
  | ["LOCK"] -> PLock | ["db_settings.json"] -> PSettings | ["db_settings.json.tmp"] -> PSettingsTmp
  | ["index"] -> PIndex | ["index.tmp"] -> PIndexTmp
  | "cas" :: rest -> PCas (List.map bytes_of_string rest)
  | ["staging"; x] when String.length x > 1 && x.[0] = '#' -> PStaging (n_of_decimal (String.sub x 1 (String.length x - 1)))
  | [w] when Filename.check_suffix w "_index.wal" -> PWal (n_of_decimal (List.hd (String.split_on_char '_' w)))
  | _ -> failwith ("bad plant path " ^ p)

(* ---------- running one case ---------- *)
type mode = Plain | CrashAll | Fault of int | FaultAll | DamageAll | PowerLossAll

let obs_model (out : Buffer.t) (hd : handle option) (w : world) (since : int ref) =
  (match hd with
   | Some h ->
     let i = h.h_mem.idx in
     Buffer.add_string out (Printf.sprintf "O entries:%s\n" (entries_str i.km));
     Buffer.add_string out (Printf.sprintf "O %s\n" (out_str (OutBlobs i.rc)));
     Buffer.add_string out (Printf.sprintf "O %s\n" (out_str (OutStats (i.ub, i.tb, i.ssz))))
   | None -> Buffer.add_string out "O closed\n");
  dump_fs out "O " w.wfs false;
  let tr = List.rev w.wtrace in
  List.iteri (fun idx e -> if idx >= !since then Buffer.add_string out (Printf.sprintf "T %s\n" (tev_str e))) tr;
  since := List.length tr

let run_lines (out : Buffer.t) (lines : string list) (fs0 : fs) (fault : int option) : world * fs =
  let fault = match fault with
    | Some _ -> fault
    | None -> List.fold_left (fun acc l -> match List.filter (fun s -> s <> "") (String.split_on_char ' ' l) with
        | ["fault"; k] -> Some (int_of_string k) | _ -> acc) None lines in
  let cfg = ref default_cfg in
  let w = ref (init_world fs0 (match fault with None -> None | Some k -> Some (nat_of_int k))) in
  let hd = ref None in
  let since = ref 0 in
  let idx = ref 0 in
  let held : (string, bytes) Hashtbl.t = Hashtbl.create 4 in
  List.iter (fun l ->
    match parse_line cfg l with
    | None -> ()
    | Some (LCfg kvs) -> cfg := List.fold_left apply_kv !cfg kvs
    | Some LObs -> obs_model out !hd !w since
    | Some (LHold (name, slot, k)) ->
      (* POSIX: an open file keeps its inode; in the model a reader is the file VALUE at open time *)
      let r = (match !hd with
          | None -> "closed"
          | Some _ ->
            let ((r, _), _) = step hash_fn !hd (OpGetReader k) !w in
            (match r with
             | OutBytes (Some b) -> Hashtbl.replace held slot b; "held"
             | OutBytes None -> "none"
             | x -> out_str x)) in
      Buffer.add_string out (Printf.sprintf "R %d %s -> %s\n" !idx name r); incr idx
    | Some (LDrain (name, slot)) ->
      let r = (match Hashtbl.find_opt held slot with
          | Some b -> Hashtbl.remove held slot; "bytes:" ^ show_content (string_of_bytes b)
          | None -> "none") in
      Buffer.add_string out (Printf.sprintf "R %d %s -> %s\n" !idx name r); incr idx
    | Some (LSetSettings (v, p, nn)) ->
      let d = enc_settings v p nn in
      let fs' = { !w.wfs with files = set_path !w.wfs.files PSettings { fdata = d; fsynced = length d } } in
      w := { !w with wfs = fs' }
    | Some (LRmBlob c) ->
      let p = PCas (hexpath (hash_fn c)) in
      let fs' = { !w.wfs with files = List.filter (fun (q, _) -> q <> p) !w.wfs.files } in
      w := { !w with wfs = fs' }
    | Some (LOp (name, o)) ->
      let ((r, hd'), w') = step hash_fn !hd o !w in
      hd := hd'; w := w';
      Buffer.add_string out (Printf.sprintf "R %d %s -> %s\n" !idx name (out_str r));
      incr idx) lines;
  Buffer.add_string out (Printf.sprintf "N counted=%d\n" (int_of_nat !w.wcount));
  (!w, fs0)

(* initial filesystem: `plant`/`mkdir` lines are consumed here *)
let initial_fs (lines : string list) : fs * string list =
  let fs = ref empty_fs in
  let rest = List.filter (fun l ->
    let toks = List.filter (fun s -> s <> "") (String.split_on_char ' ' l) in
    match toks with
    | ["plant"; p; h] ->
      let path = parse_plant_path p in
      let data = bytes_of_string (parse_chunk h) in
      let f = { fdata = data; fsynced = int_of_nat (length data) |> nat_of_int } in
      fs := { !fs with files = set_path !fs.files path f;
                       nstage = (match path with PStaging i -> N.max !fs.nstage (N.add i (n_of_int 1)) | _ -> !fs.nstage) };
      false
    | ["mkdir"; d] ->
      fs := { !fs with dirs = !fs.dirs @ [List.map bytes_of_string (String.split_on_char '/' d)] }; false
    | _ -> true) lines in
  (!fs, rest)

let case_cfg (lines : string list) : config =
  List.fold_left (fun c l ->
    match List.filter (fun s -> s <> "") (String.split_on_char ' ' l) with
    | "cfg" :: kvs -> List.fold_left apply_kv c kvs
    | _ -> c) default_cfg lines
let case_keys (lines : string list) : string list =
  List.fold_left (fun acc l ->
    match List.filter (fun s -> s <> "") (String.split_on_char ' ' l) with
    | ("put" | "abort" | "remove" | "get") :: k :: _ when not (List.mem k acc) -> acc @ [k]
    | _ -> acc) [] lines

(* what the harness's recovery_lines does on a crashed directory, on the model's image *)
let recovery (out : Buffer.t) (cfg : config) (keys : string list) (img : fs) =
  let w = ref (init_world img None) in
  let hd = ref None in
  let run o = let ((r, hd'), w') = step hash_fn !hd o !w in hd := hd'; w := w'; r in
  let r = run (OpOpen (cfg, false)) in
  Buffer.add_string out (Printf.sprintf "V open -> %s\n" (out_str r));
  (match !hd with
   | Some h ->
     let i = h.h_mem.idx in
     Buffer.add_string out (Printf.sprintf "V entries:%s\n" (entries_str i.km));
     Buffer.add_string out (Printf.sprintf "V %s\n" (out_str (OutBlobs i.rc)));
     Buffer.add_string out (Printf.sprintf "V %s\n" (out_str (OutStats (i.ub, i.tb, i.ssz))));
     List.iter (fun k -> Buffer.add_string out (Printf.sprintf "V get %s -> %s\n" k (out_str (run (OpGet (key_of k)))))) keys;
     (match keys with
      | k :: _ ->
        let probe = bytes_of_string "probe-after-recovery" in
        let r1 = run (OpPut (key_of k, [probe])) in
        let r2 = (match run (OpGet (key_of k)) with OutBytes (Some b) -> b = probe | _ -> false) in
        Buffer.add_string out (Printf.sprintf "V probe put=%s readback=%b\n" (out_str r1) r2)
      | [] -> ());
     ignore (run OpClose);
     let r = run (OpOpen (cfg, false)) in
     Buffer.add_string out (Printf.sprintf "V reopen -> %s\n" (match r with OutOpened _ -> "opened" | x -> out_str x));
     ignore (run OpClose)
   | None -> ());
  dump_fs out "W " !w.wfs false


(* ---------- damage-all (C10): every truncation / single-byte change of the uncheckpointed records ---------- *)
let sample_range (a : int) (b : int) : int list =
  let n = b - a in
  if n <= 120 then List.init n (fun i -> a + i)
  else List.filter (fun x -> x - a < 50 || b - x <= 50 || (x - a) mod 17 = 0) (List.init n (fun i -> a + i))
let damage_all (out : Buffer.t) (cfg : config) (s : fs) =
  dump_fs out "Z " s false;
  let c = match fget s PIndex with
    | Some f -> (match dec_snapshot f.fdata with Ok (v, _) -> int_of_n v | Err _ -> 0)
    | None -> 0 in
  let ids = List.sort compare (List.filter_map (fun (p, _) -> match p with PWal i -> Some (int_of_n i) | _ -> None) s.files) in
  List.iter (fun id ->
    let p = PWal (n_of_int id) in
    match fget s p with
    | None -> ()
    | Some f ->
      let data = f.fdata in
      let (recs, _) = read_segment_lazy hash_fn (S (length data)) data in
      let name = path_str p in
      let try_open (label : string) (data' : bytes) =
        let s' = { s with files = set_path s.files p { fdata = data'; fsynced = length data' } } in
        (* a truncation cuts the log short: later segments are gone as well *)
        let s' = if String.length label > 0 && label.[0] = 't'
          then { s' with files = List.filter (fun (q, _) -> match q with PWal j -> int_of_n j <= id | _ -> true) s'.files }
          else s' in
        let ((r, hd), _) = step hash_fn None (OpOpen (cfg, true)) (init_world s' None) in
        let ent = match hd with Some h -> " " ^ "entries:" ^ entries_str h.h_mem.idx.km | None -> "" in
        Buffer.add_string out (Printf.sprintf "D %s %s -> %s%s\n" name label
          (match r with OutOpened _ -> "opened" | x -> out_str x) ent) in
      let off = ref 0 in
      List.iter (fun (ver, payload) ->
        let l = int_of_nat (length payload) in
        let o = !off in
        if int_of_n ver > c then begin
          List.iter (fun cut -> try_open (Printf.sprintf "t %d" cut) (firstn (nat_of_int cut) data)) (sample_range o (o + 44 + l));
          let flip pos mask =
            let arr = Array.of_list data in
            arr.(pos) <- n_of_int ((int_of_n arr.(pos)) lxor mask);
            try_open (Printf.sprintf "x %d %d" pos mask) (Array.to_list arr) in
          List.iter (fun pos -> flip pos 1; flip pos 128) (sample_range (o + 8) (o + 40) @ sample_range (o + 44) (o + 44 + l))
        end;
        off := o + 44 + l) recs) ids

let run_case (name : string) (lines : string list) (mode : mode) =
  let out = Buffer.create 4096 in
  let (fs0, lines) = initial_fs lines in
  (match mode with
   | Plain ->
     Buffer.add_string out (Printf.sprintf "CASE %s\n" name);
     ignore (run_lines out lines fs0 None)
   | Fault k ->
     Buffer.add_string out (Printf.sprintf "CASE %s fault=%d\n" name k);
     ignore (run_lines out lines fs0 (Some k))
   | DamageAll ->
     let scratch = Buffer.create 4096 in
     let (w, _) = run_lines scratch lines fs0 None in
     Buffer.add_string out (Printf.sprintf "CASE %s\n" name);
     damage_all out (case_cfg lines) w.wfs
   | PowerLossAll ->
     let scratch = Buffer.create 4096 in
     let (w, _) = run_lines scratch lines fs0 None in
     let tr = List.rev w.wtrace in
     let total = List.length tr in
     Buffer.add_string out (Printf.sprintf "CASE %s crash-total=%d\n" name total);
     for k = 0 to total do
       let img = crash_fs (nat_of_int k) tr fs0 in
       let uns = List.sort (fun a b -> compare (path_str a) (path_str b))
           (List.filter_map (fun (p, f) -> if int_of_nat f.fsynced < int_of_nat (length f.fdata) then Some p else None) img.files) in
       let m = List.length uns in
       if m > 0 then begin
         let masks = if m <= 3 then List.init ((1 lsl m) - 1) (fun i -> i + 1)
           else List.init m (fun i -> 1 lsl i) @ [(1 lsl m) - 1] in
         List.iter (fun mask ->
           let victims = List.filteri (fun i _ -> mask land (1 lsl i) <> 0) uns in
           let lost = lose (fun p -> List.exists (fun q -> path_eqb p q) victims) img in
           Buffer.add_string out (Printf.sprintf "CRASH %d\n" k);
           Buffer.add_string out (Printf.sprintf "A victims=%s\n" (String.concat "," (List.map path_str victims)));
           dump_fs out "C " lost false;
           recovery out (case_cfg lines) (case_keys lines) lost) masks
       end
     done
   | FaultAll ->
     let scratch = Buffer.create 4096 in
     let (w, _) = run_lines scratch lines fs0 None in
     let total = int_of_nat w.wcount in
     for k = 0 to total - 1 do
       Buffer.add_string out (Printf.sprintf "CASE %s fault=%d\n" name k);
       ignore (run_lines out lines fs0 (Some k))
     done
   | CrashAll ->
     (* the images after every prefix of the effective-call trace, and what recovery makes of them;
        the recovery configuration is the one in force at the crash: taken from the last `open` line
        at or before that point (the harness does the same) *)
     let scratch = Buffer.create 4096 in
     let (w, _) = run_lines scratch lines fs0 None in
     let tr = List.rev w.wtrace in
     let total = List.length tr in
     Buffer.add_string out (Printf.sprintf "CASE %s crash-total=%d\n" name total);
     for k = 0 to total do
       let img = crash_fs (nat_of_int k) tr fs0 in
       Buffer.add_string out (Printf.sprintf "CRASH %d\n" k);
       dump_fs out "C " img false;
       recovery out (case_cfg lines) (case_keys lines) img
     done);
  print_string (Buffer.contents out)


(* ---------- K1: codec lines (same format as harness/src/codec.rs) ---------- *)
let run_codec (file : string) =
  let ic = open_in file in
  let i = ref 0 in
  let cmp_str = function Lt -> "Less" | Eq -> "Equal" | Gt -> "Greater" in
  let op_str = function
    | RPut (k, h, sz) -> Printf.sprintf "put %s %s %s" (hex_of_bytes k) (hex_of_bytes h) (decimal_of_n sz)
    | RRemove ks -> "rm " ^ (if ks = [] then "." else String.concat "," (List.map hex_of_bytes ks)) in
  (try while true do
      let l = String.trim (input_line ic) in
      let t = List.filter (fun s -> s <> "") (String.split_on_char ' ' l) in
      (match t with
       | [] -> ()
       | name :: _ ->
         let r = match t with
           | ["encop"; "put"; k; h; sz] -> hex_of_bytes (enc_op (RPut (bytes_of_hex k, bytes_of_hex h, n_of_decimal sz)))
           | ["encop"; "rm"; ks] -> hex_of_bytes (enc_op (RRemove (if ks = "." then [] else List.map bytes_of_hex (String.split_on_char ',' ks))))
           | ["decop"; h] -> (match dec_op (bytes_of_hex h) with Ok o -> "ok " ^ op_str o | Err e -> "err " ^ derr_str e)
           | "encidx" :: ver :: rest ->
             let es = (match rest with
               | [] | ["."] -> []
               | [e] -> List.map (fun x -> match String.split_on_char '=' x with
                   | [k; v] -> (match String.split_on_char ':' v with
                       | [h; sz] -> (bytes_of_hex k, { ihash = bytes_of_hex h; isize = n_of_decimal sz })
                       | _ -> failwith "bad entry")
                   | _ -> failwith "bad entry") (String.split_on_char ';' e)
               | _ -> failwith "bad encidx") in
             let sorted = List.fold_left (fun m (k, it) -> sm_ins lex_cmp m k it) [] es in
             hex_of_bytes (enc_snapshot (n_of_decimal ver) sorted)
           | ["rtidx"; kt; ver; e] ->
             (* typed snapshot round trip: entries ordered by the key type's order, encoded, decoded, compared as sets *)
             let t = parse_kt kt in
             let es = List.map (fun x -> match String.split_on_char '=' x with
                 | [k; v] -> (match String.split_on_char ':' v with
                     | [h; sz] -> (bytes_of_hex k, { ihash = bytes_of_hex h; isize = n_of_decimal sz })
                     | _ -> failwith "bad entry")
                 | _ -> failwith "bad entry") (String.split_on_char ';' e) in
             let es = List.filter (fun (k, _) -> key_valid t k) es in
             let sorted = List.fold_left (fun m (k, it) -> sm_ins (key_cmp t) m k it) [] es in
             (match dec_snapshot (enc_snapshot (n_of_decimal ver) sorted) with
              | Err e -> "err " ^ derr_str e
              | Ok (_, ds) ->
                let canon l = List.sort compare (List.map (fun (k, it) -> (hex_of_bytes k, hex_of_bytes it.ihash, decimal_of_n it.isize)) l) in
                if canon ds = canon sorted then Printf.sprintf "same %d" (List.length sorted) else "differs")
           | ["decidx"; h] ->
             (match dec_snapshot (bytes_of_hex h) with
              | Err e -> "err " ^ derr_str e
              | Ok (ver, es) ->
                let sorted = List.fold_left (fun m (k, it) -> sm_ins lex_cmp m k it) [] es in
                Printf.sprintf "ok %s [%s]" (decimal_of_n ver)
                  (String.concat ";" (List.map (fun (k, it) -> hex_of_bytes k ^ "=" ^ hex_of_bytes it.ihash ^ ":" ^ decimal_of_n it.isize) sorted)))
           | ["keydec"; kt; h] -> if key_valid (parse_kt kt) (bytes_of_hex h) then "some" else "none"
           | ["keycmp"; kt; a; b] -> cmp_str (key_cmp (parse_kt kt) (bytes_of_hex a) (bytes_of_hex b))
           | ["path"; h] -> String.concat "/" (List.map string_of_bytes (hexpath (bytes_of_hex h)))
           | ["unpath"; p] ->
             (match parse_path (List.map bytes_of_hex (String.split_on_char '/' p)) with
              | Some h -> "ok " ^ hex_of_bytes h | None -> "err")
           | _ -> failwith ("bad codec line " ^ l) in
         Printf.printf "K %d %s -> %s\n" !i name r);
      incr i
    done with End_of_file -> ());
  close_in ic

(* ---------- K6/K7: concurrent cases ---------- *)
let point_name (ts : tstate) : string =
  let wn w a = (match w with WPut _ -> "put." | WRm _ -> "rm.") ^ a in
  match ts.t_pc with
  | Idle -> (match ts.t_calls with [] -> "end" | _ -> "start")
  | PReg _ -> "commit.register" | PILock _ -> "intent.lock_I" | PRen _ -> "commit.rename"
  | PDropI _ -> "guard_drop.lock_I"
  | WLockI w -> wn w "lock_I" | WLockS w -> wn w "lock_S" | WLockW w -> wn w "lock_W"
  | WApplied (w, _, _) -> wn w "applied" | WUnlink _ -> "cas.unlink" | WReleased (w, _) -> wn w "released_I"
  | WCkS (_, who) -> (match int_of_n who with 0 -> "ckpt.lock_S" | 1 -> "put.ckpt.lock_S" | _ -> "rm.ckpt.lock_S")
  | WCkW (_, who) -> (match int_of_n who with 0 -> "ckpt.lock_W" | 1 -> "put.ckpt.lock_W" | _ -> "rm.ckpt.lock_W")
  | RRead _ | RRRead _ | GRead _ | GReread _ | ORead _ -> "read.lock_S"
  | RScanned _ -> "remove.scanned" | RRScanned _ -> "remove_range.scanned"
  | GLooked _ -> "read.looked_up" | GOpen _ | GOpenL _ -> "cas.open_blob"
  | OLockI _ -> "orphan.lock_I" | OUnlink _ -> "orphan.unlink"
  | IRead -> "read.lock_S"
let cres_str = function
  | CUnit -> "ok" | CBool b -> if b then "ok:true" else "ok:false" | CNum x -> "ok:" ^ decimal_of_n x
  | CBytes None -> "none" | CBytes (Some b) -> "bytes:" ^ show_content (string_of_bytes b)
  | CSize None -> "none" | CSize (Some x) -> "size:" ^ decimal_of_n x
  | CMissing -> "err:BlobDataMissing"
  | COrphans (d, sk) -> Printf.sprintf "orphans:del=%s,skip=%s" (decimal_of_n d) (decimal_of_n sk)
  | CErr -> "err:fault"
  | CInvalid -> "err:invalid-range"
  | CKeys ks -> "keys:[" ^ String.concat ";" (List.map hex_of_bytes ks) ^ "]"
let parse_ccall (toks : string list) (orphans : bytes list) : ccall =
  match toks with
  | ["put"; k; cs] -> KPut (key_of k, concat (parse_chunks cs))
  | ["put"; k] -> KPut (key_of k, [])
  | ["abort"; k; cs] -> KAbort (key_of k, concat (parse_chunks cs))
  | ["abort"; k] -> KAbort (key_of k, [])
  | ["remove"; k] -> KRemove (key_of k)
  | ["remove_range"; a; b] -> KRemoveRange (parse_bound a, parse_bound b)
  | ["get"; k] | ["reader"; k] -> KGet (key_of k)      (* two entry points, one read path *)
  | ["range"; k] -> KGetRange (key_of k, n_of_decimal "0", n_of_decimal "18446744073709551615")
  | ["range"; k; a; b] -> KGetRange (key_of k, n_of_decimal a, n_of_decimal b)
  | ["iter"] -> KIter
  | ["size"; k] -> KGetSize (key_of k)
  | ["checkpoint"] -> KCheckpoint
  | ["delorphans"] -> KDelOrphans orphans
  | _ -> failwith ("bad conc call " ^ String.concat " " toks)
let state_line (g : cstate) : string =
  let s_held = g.g_S <> None || g.g_R <> [] in
  let cas = String.concat "," (List.map (fun (h, _) -> hex_of_bytes h) g.g_cas) in
  let idx = if not s_held then entries_str g.g_idx.km else "-" in
  let intents = if g.g_I = None then
      "[" ^ String.concat ";" (List.map (fun (k, h) -> hex_of_bytes k ^ "=" ^ hex_of_bytes h) g.g_bykey) ^ "]" else "-" in
  let prot = if g.g_I = None then
      "[" ^ String.concat ";" (List.map (fun (h, c) -> hex_of_bytes h ^ "=" ^ decimal_of_n c) g.g_byhash) ^ "]" else "-" in
  Printf.sprintf "I=%s S=%s cas=[%s] idx=%s intents=%s prot=%s" (if g.g_I <> None then "*" else "-") (if s_held then "*" else "-") cas idx intents prot
let run_conc (name : string) (lines : string list) =
  let cfg = ref default_cfg in
  let cas0 = ref [] and orphans = ref [] in
  let setup = ref [] and threads : (int * string list list) list ref = ref [] in
  let seed = ref 1 and fixed : int list option ref = ref None in
  let badl : bytes list ref = ref [] and ckbad = ref false in
  List.iter (fun l ->
    match List.filter (fun s -> s <> "") (String.split_on_char ' ' l) with
    | "cfg" :: kvs -> cfg := List.fold_left apply_kv !cfg kvs
    | ["orphan"; c] ->
      let data = bytes_of_string (parse_chunk c) in
      let h = hash_fn data in
      cas0 := sm_ins lex_cmp !cas0 h data; orphans := !orphans @ [h]
    | "setup" :: rest -> setup := !setup @ [rest]
    | ["undeletable"; c] -> badl := hash_fn (bytes_of_string (parse_chunk c)) :: !badl
    | ["blockckpt"] -> ckbad := true
    | "fsched" :: _ -> ()
    | "thread" :: t :: rest ->
      let t = int_of_string t in
      threads := (if List.mem_assoc t !threads then List.map (fun (u, c) -> if u = t then (u, c @ [rest]) else (u, c)) !threads else !threads @ [(t, [rest])])
    | ["seed"; x] -> seed := int_of_string x
    | "sched" :: ts -> fixed := Some (List.map int_of_string ts)
    | [] -> ()
    | _ -> failwith ("bad conc line " ^ l)) lines;
  let cmp = key_cmp !cfg.c_kt in
  (* orphans are listed by the start-up scan in directory order: the harness sorts them by hash *)
  let orph = List.sort (fun a b -> compare (hex_of_bytes a) (hex_of_bytes b)) !orphans in
  let thr = (0, List.map (fun c -> parse_ccall c orph) !setup) ::
            List.map (fun (t, cs) -> (t, List.map (fun c -> parse_ccall c orph) cs)) !threads in
  let g = ref (init_c (List.map (fun (t, cs) -> (nat_of_int t, cs)) thr) !cas0) in
  (* the obstacles are put in place after the setup calls: the setup runs without them *)
  let nobad = fun _ -> false in
  let bad = fun h -> List.mem h !badl in
  let continue = ref true in
  while !continue do (match cstep hash_fn cmp !cfg.c_n nobad false !g (nat_of_int 0) with Some g' -> g := g' | None -> continue := false) done;
  let step t = cstep hash_fn cmp !cfg.c_n bad !ckbad !g (nat_of_int t) in
  Printf.printf "CASE %s\n" name;
  Printf.printf "S init %s\n" (state_line !g);
  let tids = List.map fst !threads in
  let rng = ref (!seed * 2654435761 land 0x3fffffff + 12345) in
  let next_rand n = rng := (!rng * 1103515245 + 12345) land 0x3fffffff; (!rng lsr 8) mod n in
  let i = ref 0 in
  let pending = ref (match !fixed with Some l -> l | None -> []) in
  let fin = ref false in
  while not !fin do
    let en = List.filter (fun t -> enabled hash_fn cmp !cfg.c_n bad !ckbad !g (nat_of_int t)) tids in
    if en = [] then begin
      fin := true;
      if not (List.for_all (fun t -> match tget !g.g_thr (nat_of_int t) with Some ts -> finished_t ts | None -> true) tids)
      then Printf.printf "S %d DEADLOCK\n" !i
    end else begin
      let t = match !fixed with
        | Some _ -> (match !pending with
            | x :: r -> pending := r; if List.mem x en then x else List.hd en
            | [] -> List.hd en)
        | None -> List.nth en (next_rand (List.length en)) in
      let before = (match tget !g.g_thr (nat_of_int t) with Some ts -> ts | None -> failwith "tid") in
      (match step t with
       | Some g' ->
         g := g';
         let after = (match tget !g.g_thr (nat_of_int t) with Some ts -> ts | None -> failwith "tid") in
         Printf.printf "S %d t%d %s -> %s %s\n" !i t (point_name before) (point_name after) (state_line !g);
         let nb = List.length before.t_res and na = List.length after.t_res in
         if na > nb then Printf.printf "F t%d %d -> %s\n" t nb (cres_str (List.nth after.t_res nb))
       | None -> ());
      incr i;
      if !i > 5000 then fin := true
    end
  done

(* ---------- K9: handle life cycle against the OpenLock model ---------- *)
let run_race (file : string) =
  let ic = open_in file in
  let evs = ref [] and name = ref "" in
  let flush_case () =
    if !name <> "" then begin
      Printf.printf "CASE %s\n" !name;
      let evl = List.rev !evs in
      (* map slots/processes to handle ids and pids while walking the events; the model is the
         inode-level one (OpenLock2), which refines OpenLock on atomic opens (C11_2_refines_atomic) *)
      let slots : (string, int) Hashtbl.t = Hashtbl.create 8 in
      let toks : (string, int) Hashtbl.t = Hashtbl.create 8 in
      let next_tok = ref 0 in
      let model_evs = ref [] in       (* reversed *)
      let current () = results2 (List.rev !model_evs) in
      let push e = model_evs := e :: !model_evs in
      let last_res () = (match List.rev (current ()) with r :: _ -> r | [] -> RNone) in
      let won s pid kind h =
        Hashtbl.replace slots s (int_of_nat h);
        Hashtbl.replace slots ("pid:" ^ s) pid;
        if kind = "openstats" then begin push (E2Clone h); Hashtbl.replace slots (s ^ ":stats") (int_of_nat h) end in
      List.iteri (fun i e ->
        let str = String.concat " " e in
        let out = match e with
          | ["open"; s] | ["openstats"; s] | ["spawn"; s] | ["openn"; s; _] ->
            let pid = (match e with "spawn" :: _ -> 1 + Hashtbl.hash s mod 1000 | _ -> 0) in
            let free_now = (match List.rev (results2 (List.rev (E2Open (nat_of_int 0) :: !model_evs))) with ROpened _ :: _ -> true | _ -> false) in
            if free_now && (match e with ["openn"; _; nn] -> nn <> "3" | _ -> false)
            then "err:settings.ValidationFailed"       (* the settings gate, not the lock: C19 *)
            else begin
            push (E2Open (nat_of_int pid));
            (match last_res () with
             | ROpened h -> won s pid (List.hd e) h; "opened"
             | RAlreadyOpened -> (match e with "spawn" :: _ -> "already" | _ -> "already same=true calls=[create LOCK]")
             | RNone -> "none") end
          | ["openfd"; s] ->
            incr next_tok; Hashtbl.replace toks s !next_tok;
            push (E2OpenFd (nat_of_int !next_tok, nat_of_int 0)); "none"
          | ["lock"; s] ->
            (match Hashtbl.find_opt toks s with
             | None -> "none"
             | Some t ->
               Hashtbl.remove toks s;
               push (E2Lock (nat_of_int t));
               (match last_res () with
                | ROpened h -> won s 0 "open" h; "opened"
                | RAlreadyOpened -> "already"
                | RNone -> "none"))
          | ["clone"; s; s2] ->
            (match Hashtbl.find_opt slots s with Some h -> push (E2Clone (nat_of_int h)); Hashtbl.replace slots s2 h | None -> ()); "none"
          | ["drop"; s] | ["dropcas"; s] ->
            (match Hashtbl.find_opt slots s with Some h -> push (E2Drop (nat_of_int h)); Hashtbl.remove slots s | None -> ()); "none"
          | ["dropstats"; s] ->
            (match Hashtbl.find_opt slots (s ^ ":stats") with Some h -> push (E2Drop (nat_of_int h)); Hashtbl.remove slots (s ^ ":stats") | None -> ()); "none"
          | ["kill"; s] ->
            (match Hashtbl.find_opt slots ("pid:" ^ s) with Some pid -> push (E2Kill (nat_of_int pid)) | None -> ()); "none"
          | ["racethreads"; n] | ["raceprocs"; n] ->
            (* n simultaneous opens whose handles are all dropped afterwards: in the model, any order *)
            let n = int_of_string n in
            let before = List.length (current ()) in
            for j = 1 to n do push (E2Open (nat_of_int (2000 + j))) done;
            let rs = List.filteri (fun idx _ -> idx >= before) (current ()) in
            let w = List.length (List.filter (function ROpened _ -> true | _ -> false) rs) in
            let l = List.length (List.filter (function RAlreadyOpened -> true | _ -> false) rs) in
            List.iter (function ROpened h -> push (E2Drop h) | _ -> ()) rs;
            Printf.sprintf "winners=%d already=%d other=%d" w l (n - w - l)
          | _ -> failwith ("bad race event " ^ str) in
        Printf.printf "E %d %s -> %s\n" i str out;
        let lf = (match List.rev (lockfile_from init2 (List.rev !model_evs)) with b :: _ -> b | [] -> false) in
        Printf.printf "L %d lock=%s\n" i (if lf then "present" else "absent")) evl
    end;
    evs := []; name := "" in
  (try while true do
      let l = String.trim (input_line ic) in
      match List.filter (fun s -> s <> "") (String.split_on_char ' ' l) with
      | ["race"; n] -> flush_case (); name := n
      | "ev" :: rest -> evs := rest :: !evs
      | ["end"] -> flush_case ()
      | _ -> ()
    done with End_of_file -> ());
  flush_case (); close_in ic

let () =
  let mode = ref Plain in
  let files = ref [] in
  let args = Array.to_list Sys.argv |> List.tl in
  let rec go = function
    | "--toy" :: r -> toy_hash := true; go r
    | "--oracle" :: c :: r -> oracle_cmd := c; go r
    | "--codec" :: f :: r -> run_codec f; go r
    | "--race" :: f :: r -> run_race f; go r
    | "--conc" :: f :: r ->
      let ic = open_in f in
      let cur_name = ref "" and cur = ref [] in
      let flush_c () = if !cur_name <> "" then run_conc !cur_name (List.rev !cur); cur := [] in
      (try while true do
          let l = String.trim (input_line ic) in
          if String.length l >= 5 && String.sub l 0 5 = "conc " then begin flush_c (); cur_name := String.sub l 5 (String.length l - 5) end
          else if l = "end" then begin flush_c (); cur_name := "" end
          else cur := l :: !cur
        done with End_of_file -> ());
      flush_c (); close_in ic; go r
    | "--crash-all" :: r -> mode := CrashAll; go r
    | "--fault" :: k :: r -> mode := Fault (int_of_string k); go r
    | "--fault-all" :: r -> mode := FaultAll; go r
    | "--damage-all" :: r -> mode := DamageAll; go r
    | "--powerloss-all" :: r -> mode := PowerLossAll; go r
    | f :: r -> files := f :: !files; go r
    | [] -> () in
  go args;
  List.iter (fun f ->
    let ic = open_in f in
    let cur_name = ref "" and cur = ref [] in
    let flush_case () =
      if !cur_name <> "" then run_case !cur_name (List.rev !cur) !mode;
      cur := [] in
    (try while true do
        let l = String.trim (input_line ic) in
        if String.length l >= 5 && String.sub l 0 5 = "case " then begin
          flush_case (); cur_name := String.sub l 5 (String.length l - 5)
        end else if l = "end" then begin flush_case (); cur_name := "" end
        else cur := l :: !cur
      done with End_of_file -> ());
    flush_case (); close_in ic) (List.rev !files);
  Printf.eprintf "hash_queries=%d\n" !hash_queries
