# texts.py -- the words of MANIFEST.json (level claimed, trusted base, technique) per property.
BASE_NOTE = ("Trusted: Coq 8.16.1 kernel; hand-written model (coq/theories) tied to the code only by the correspondence "
             "checks (generator-bounded differential testing); extraction via ExtrOcamlBasic; OCaml driver, Rust harness, "
             "LD_PRELOAD shim; Linux VFS / Rust std / blake3 / tempfile semantics are the model's assumptions. "
             "BLAKE3 is a Section variable (no axiom). ")
LEVEL_TEXT = {
 "C01": dict(text="Theorem C01_refines_ordered_map (all finite API histories, all keys/contents/chunkings, every N>=1, both sync modes): "
                  "the model's outputs equal those of a plain ordered map and the invariant Live0 is re-established; C01_from_fresh_directory "
                  "makes it unconditional from an empty directory. K2 ties the model to the code: random histories run on the real library "
                  "and on the extracted model, results diffed; an independent Python ordered-map oracle checks the real outputs.",
             note=BASE_NOTE + "Hypothesis NoCollide over the contents that occur in the history (no global injectivity). Both values of pre_create_cas_dirs. "
                              "Restart inside a history is C02's theorem."),
 "C06": dict(text="Theorem C06_cas_immutable: along every API history every recorded filesystem call is cas_safe (never creates, opens for writing, "
                  "appends to, syncs or renames away a path under cas/; CAS paths occur only as rename targets from staging/ and in unlink), and "
                  "CasNamed (content hashes to the name) is preserved; C06_every_crash_point; C06_blob_content_is_fixed_concurrent (between any two reachable states of the "
                  "concurrent model a hash never denotes two different contents). Readers (inode-level model theories/Inode.v: names -> inodes -> data, Linux "
                  "semantics of rename / unlink / O_TRUNC / append): C06_inode_model_agrees (it shows the same content under every name as the name-level model, on the same "
                  "traces), C06_reader_keeps_its_content(_always) (a descriptor opened on a blob reads the same bytes after ANY cas_safe trace, at every intermediate call, "
                  "whatever happens to the name), C06_reader_survives_history (a reader opened at any point of any API history keeps the content the key had then), and the "
                  "witness that an append or O_TRUNC on a cas path - what cas_safe excludes - does change what the reader sees. Correspondence: call traces (LD_PRELOAD shim) "
                  "and directory dumps of the real library equal the model's; the harness re-hashes every CAS file at every kill point and after every operation; readers "
                  "held across overwrites and removals are drained at the end of the history.",
             note=BASE_NOTE + "The call-level theorems are sequential (crash prefixes are prefixes of the proved trace); under concurrency the model is at the level of "
                              "blob contents per hash (C06_blob_content_is_fixed_concurrent), the call level is covered by the concurrent correspondence. That a descriptor refers to an inode whose data survives unlink and rename-over is the inode model's definition, i.e. an "
                              "assumption about Linux, exhibited by the held-reader cases."),
 "C07": dict(text="Theorem C07_exact_after_every_history: Clean (nothing under cas/ but the blobs of the current contents at their canonical paths, staging/ empty) "
                  "is preserved by every API history; C07_nothing_less: every content has its blob. K2 compares directory listings after every operation; "
                  "the oracle compares the real listing with the set of live contents.",
             note=BASE_NOTE + "Error-free histories (the property's premise): sequential ones by C07_exact_after_every_history, concurrent programs at quiescence by "
                              "C07_exact_at_quiescence_concurrent (exactly the referenced blobs, under every schedule, provided no call returned an error)."),
 "C11": dict(text="Theorems C11_at_most_one_live, C11_loser_noninterference (a losing open is the identity on the directory), C11_release_by_drop/kill, "
                  "C11_clones_keep_the_lock, C11_racing_opens over the OpenLock model, for all event sequences; over the inode-level model OpenLock2 (open(LOCK) and flock "
                  "as separate steps, name->inode binding, per-inode locks): C11_exclusive_under_any_interleaving (however the two halves of racing opens interleave "
                  "with drops and kills, as long as the name LOCK is never unlinked), C11_late_locker_loses, C11_loser_changes_nothing_2, "
                  "C11_inode_model_refines_atomic_model, and the vm_compute witness that unlinking the name gives two live handles. K9 runs the same event scripts "
                  "(threads and processes, kill -9, clones, OrphanStats, opens parked at the scheduling point `open.flock`) on the real library and observes after "
                  "every event that the name LOCK is still bound.",
             note=BASE_NOTE + "Kernel flock semantics (a lock belongs to the open file description of an inode, is released on last close or process death, conflicts with "
                              "every other description) are assumptions of the model, exhibited only by K9."),
 "C12": dict(text="Theorems C12_apply_preserves_exactness (IdxInv preserved, apply never errs), C12_counts_exact, C12_known_blobs_are_the_referenced, "
                  "C12_incremental_eq_recomputed, C12_load_rebuilds_counts, C12_store_counts/sizes (counts are those of the abstract key->content map under Live0), "
                  "C12_exact_after_crash_recovery, C12_exact_in_every_concurrent_state (every reachable state of the concurrent model, every schedule, also under injected faults). "
                  "K2/K4: known_blobs, stats, sizes of the real library after every op, reopen and crash recovery equal the model's and a recount from the spec map.",
             note=BASE_NOTE + "u32 refcount and u64 statistics overflow are outside the theorems (unbounded N in the model). Suites: sequential histories (incl. bulk histories with thousands of keys), every kill point, and the size-boundary suite (single-chunk and multi-chunk contents at 2^k-1, 2^k, 2^k+1)."),
 "C13": dict(text="Theorem C13_abort_identity: an abandoned transaction returns with memory and filesystem unchanged (same files, same directories), all its calls are "
                  "on its own staging file; C13_abort_preserves_state: invariant, exactness and CAS naming preserved. K2: aborts at random positions, "
                  "observation before == after on the real library, trace only staging.",
             note=BASE_NOTE + "The concurrent clause (another transaction on the same key open or committing) is C13_abort_touches_nothing_shared in the concurrent model: an "
                              "abandoned transaction never registers an intent, takes no lock and changes no shared state; K6 runs aborts next to commits on the same key."),
 "C16": dict(text="Theorems C16_*: op / snapshot / typed-op / record / segment / path round trips for all values within the format's size fields, decoders total by "
                  "construction with allocation measure bounded by the input length, key orders are strict total orders and numeric on integer keys. "
                  "K1: the real encoders/decoders on generated and malformed inputs vs the model, under catch_unwind with a counting allocator; typed snapshot round trips (`rtidx`) for every key type: the real encoder on a map ordered by the key type, the real decoder, compared as sets.",
             note=BASE_NOTE + "Partial on 'never panics or overflows' and on real allocation: decided by K1 sampling of the real code, not by the theorem."),
 "C17": dict(text="Theorems C17_range_total (every content, start, end of any magnitude: slice or rejection exactly as specified), C17_alloc_bounded, C17_read_loop "
                  "(for every short-read behaviour of the kernel). K8: exhaustive cube for small L plus boundary values on the real library vs the model and vs Python slices.",
             note=BASE_NOTE + "Memory safety of the unsafe read loop is not addressed by this technique."),
 "C18": dict(text="Theorems C18_put_identity, C18_chunking_irrelevant (hash, size and location depend only on the concatenation), C18_path_shape/injective/parses_back. "
                  "K2 with many chunkings; the oracle compares with blake3 (crate) of the whole content; K1 path lines.",
             note=BASE_NOTE + "Incremental hashing = one-shot hashing is the blake3 crate's contract (trusted)."),
}
TECHNIQUE = {}
NOT_APPLICABLE = {p: "check under construction in this round: the property is expressible in the Coq model (see DESIGN.md section 6) but is not claimed until its theorem and correspondence run end to end"
                  for p in ["C02", "C03", "C04", "C05", "C08", "C09", "C10", "C11", "C14", "C15", "C19", "C20"]}

LEVEL_TEXT.update({
 "C02": dict(text="Theorem C02_restart_transparent: for every history of API calls with restarts (close + open) anywhere, any number of times, from an empty "
                  "directory, every segment size and key type: the outputs equal the ordered map's on the history with the restarts erased, every open succeeds, and "
                  "the invariant Inv (memory, CAS, on-disk snapshot and log) holds at the end; C02_observations_equal: keys, refcounts, unique_blobs, total_bytes "
                  "identical with and without restarts; C02_one_restart from any Inv state (replay skipping versions <= snapshot, next version above everything, "
                  "after-replay checkpoint, pruning). C02_concurrent_log_replays (proofs/ConcDurable.v): for ANY schedule of the concurrent model, the records its commits appended "
                  "(version i+1, encoded operation of the i-th write-log entry) are replayed by the sequential recovery loop into exactly the index the threads left in memory "
                  "(keys, refcounts, statistics, next version). K2 with close/open and checkpoints at random positions; oracle: state before close == state after open on the real library; "
                  "K6: after every concurrent program (forced and model-free schedules) the handle is dropped and the directory reopened, state before == after.",
             note=BASE_NOTE + "hist_fits: sizes within the on-disk format's fields; both values of pre_create_cas_dirs. stats.index.serialized_size_bytes is specified as the index file's length "
                              "(proved in C02_one_restart), not compared across a reopen that checkpoints."),
 "C10": dict(text="Theorems C10_truncation / C10_any_truncation_yields_a_prefix / C10_payload_change_detected / C10_checksum_change_detected / "
                  "C10_accepted_records_are_checksummed (framing layer, any hash function) and C10_damage / C10_never_panics / C10_never_applies_an_altered_operation "
                  "(store at rest, any uncheckpointed record damaged: open_store fails with an error or yields exactly the state after the undamaged prefix). "
                  "K3: every truncation offset and single-bit change of checksum/payload bytes of every uncheckpointed record of logs from random histories, incl. "
                  "logs spanning two segments, opened by the real Cas::open vs the model and vs the prefix state.",
             note=BASE_NOTE + "Payload changes are detected unless the damaged payload collides with the original under BLAKE3 (explicit hypothesis). A truncation "
                              "means the log is cut short (later segments gone). 'Never panics' for the real code is K3 sampling under catch_unwind."),
 "C11": dict(text=LEVEL_TEXT["C11"]["text"], note=LEVEL_TEXT["C11"]["note"]),
 "C14": dict(text="Theorems C14_put_fault_contained, C14_fault_contained_partial, C14_reads_stay_correct_partial for EVERY fault plan: no operation panics, every "
                  "operation returns, other keys keep exactly their content, keys of a failed operation hold old or new, every later read agrees with such a map "
                  "(one process lifetime). Reopen clause: C14_reopen_after_any_single_fault (one operation hit by a fault at ANY of its calls, then a reopen: succeeds with "
                  "the old or the new map - F4 needs a later operation of the same process), C14_history_after_benign_fault (after a fault that struck before the blob was "
                  "published, every further history with restarts and crashes behaves as specified); in general the clause is REFUTED on the known class F4 "
                  "(C14_refuted_on_known_class, witness by vm_compute; the same history fails on the real code: KNOWN-FINDING F4). K5: one EIO injected at every effective filesystem call of every history on the real library vs the model's "
                  "run under the same fault, then reads, two restarts and reads.",
             note=BASE_NOTE + "Partial: full statement false for model and code (finding F4, recorded in known_findings.json, not repaired). 'Never hangs' for the real "
                              "code is the harness time-out."),
 "C19": dict(text="Theorems C19_rejected_before_anything_is_modified (wrong segment size, wrong stored version or unparsable settings: Err, filesystem literally "
                  "unchanged, only recorded call = CCreate of the empty LOCK), C19_rejected_open_is_invisible (any later history behaves identically), "
                  "C19_reopen_with_other_n_rejected, C19_first_open_records_the_choice, C19_stored_choice_wins, C19_precreation_is_unobservable (from a fresh directory the "
                  "same history on a pre-creating and on a lazily-creating configuration yields the same outputs - the ordered map's - and the same key map, both "
                  "blob directories clean), C19_precreated_handle_restarts. K3: creation value x reopen value, stored versions, "
                  "directory compared byte for byte before/after the rejected open on the real library.",
             note=BASE_NOTE + "serde_json rendering of db_settings.json is trusted (the model stores the typed document). The unobservability theorem compares outputs and "
                              "final key maps of fault-free histories from a fresh directory; the OutOpened payloads (scan statistics) are not compared."),
 "C20": dict(text="Theorem C20_at_rest: under DiskOk (preserved by every operation and restart: C02) every segment parses into complete checksummed records whose "
                  "versions lie in (i*N,(i+1)*N], strictly increase through the log, every version above the snapshot's is present, the snapshot decodes, and a "
                  "declarative reader (snapshot, then records above its version) yields exactly the acknowledged key map; C20_restart_keeps_next_version (no reuse "
                  "across restarts). Every-instant part: the harness's independent decoder (written from the format comments) parses index and *.wal at every kill "
                  "point of the real library and compares with the acknowledged history (and, with no operation in flight, after every operation of every sequential history: "
                  "snapshot + log = acknowledged history, the highest version on disk never goes down); the crash invariant theorem is in props/C03.v when claimed.",
             note=BASE_NOTE + "The at-every-instant clause is a theorem only through the crash development (C03); until that is claimed it is covered by K4 + the independent decoder."),
})
for _p in ["C02", "C10", "C11", "C14", "C19", "C20"]:
    NOT_APPLICABLE.pop(_p, None)

LEVEL_TEXT.update({
 "C03": dict(text="Theorem C03_crash_atomic: for every extended history (API calls, restarts, a crash after ANY number of filesystem calls of any operation, crashes during "
                  "recovery nested to any depth, incl. first-time initialisation) from an empty directory, every open succeeds and the final handle satisfies the invariant "
                  "for a map obtained by applying acknowledged operations in order and each crashed operation entirely or not at all; C03_crash_any_instant, "
                  "C03_recovery_is_crash_safe, C03_nested_crashes_during_recovery, C03_put_every_prefix, plus C20 / C12 / C06 at every crash point as corollaries of the "
                  "memory-less invariant Rest. K4: the real process is killed before every effective call of every sampled history (LD_PRELOAD shim), the crashed "
                  "directory equals the model's crash image, and the real reopen is checked by an independent oracle (acked subset, in-flight all-or-nothing, usable). "
                  "C03_concurrent_kill_any_position(_programs) (proofs/ConcDurable.v): a kill at any position of any schedule of CONCURRENT calls - recovery replays the records logged so far into "
                  "the key map of that position, every recovered key has its complete blob, every returned write is in the replayed log; K6 takes a crash image of the real directory at every step of "
                  "the forced schedules (all threads parked) and checks recovery = the index of that instant, no missing or corrupted blob.",
             note=BASE_NOTE + "Process-kill model: completed calls persist, a call is atomic (a write(2) torn by the kill itself is outside it). Both values of pre_create_cas_dirs (a kill inside the 65,536-mkdir loop of the first open included: C03_first_open_crash_safe); sizes within the "
                              "format's fields (ext_fits). Recovery after a crash establishes Inv' (DiskOk with a relaxed seal bound; counterexample to the strict one is proved)."),
 "C08": dict(text="Theorems C08_scan_exact (orphans / missing / corrupted / invalid / staging lists are exactly what directory and index imply, for arbitrary planted files), "
                  "C08_cleanup_restores_C07 (delete_orphans removes exactly the reported garbage, keeps every referenced blob, restores exactness), "
                  "C08_cleanup_rechecks_the_live_index, C08_cleanup_racing_with_commits_never_harms (concurrent model: no step of any thread, an orphan deletion included, removes a "
                  "referenced or protected blob, under every schedule). K3: planted garbage at every level + crash images, scan and clean-up of the real library vs the model and vs the "
                  "directory listing; K6: clean-up racing puts of orphaned content under model-chosen and model-free schedules (oracle: no indexed key without its blob).",
             note=BASE_NOTE + "Scan and clean-up theorems are sequential; the race clause (clean-up vs concurrent put of the same content) is the concurrent model's invariant "
                              "(restated as C08_cleanup_racing_with_commits_never_harms) plus the concurrent correspondence. quarantine_orphans / delete_orphan follow the same "
                              "protocol in the code and are modelled sequentially only."),
})
for _p in ["C03", "C08"]:
    NOT_APPLICABLE.pop(_p, None)

LEVEL_TEXT.update({
 "C04": dict(text="Theorems C04_no_dangling (every reachable state of the concurrent model, any number of threads, any programs, every schedule: every indexed key has its blob "
                  "with the committed bytes), C04_commit_window_protected, C04_never_deletes_protected (no step of any thread removes a referenced or protected blob), "
                  "C04_C07_quiescent_exact, by the thread-modular invariant ConcInv - all for ARBITRARY injected obstacles (`bad`: blob paths whose unlink / rename-onto / read fails, "
                  "`ckbad`: failing checkpoints; proofs/ConcFault.v): C04_no_dangling_with_faults, C04_failed_delete_keeps_other_intents (the per-hash intent ledger is exact "
                  "in every reachable state: finding F6), F6_fixed_run and F6_prefix_refuted (the pre-fix behaviour reaches a dangling key). K6/K7: small concurrent programs run on the real library under schedules chosen by the "
                  "model (threads parked at the `verif` scheduling points), every step's next point, lock bits, cas listing, index, per-key intents and the per-hash intent ledger compared; plus model-free "
                  "random exploration of the same programs (uniform and priority-based with one change point), both also with injected obstacles (`undeletable <content>`, "
                  "`blockckpt`); oracle: after every step every indexed key's blob file exists.",
             note=BASE_NOTE + "Atomicity of the code between two scheduling points, parking_lot's mutual exclusion and the thread scheduler (any interleaving of the "
                              "hook-delimited steps) are assumptions of the model; K6 covers small programs only. Bytes of WAL/snapshot are not in this model."),
 "C05": dict(text="Theorems (props/C05.v, for every schedule of every set of thread programs of the concurrent model): C05_read_never_fails; "
                  "C05_read_returns_whole_indexed_content; C05_read_linearizable (a finished get(k) has a step q of its own thread, strictly after the step that took the "
                  "call and not after the step that returned, at which the key map held exactly what the read returned, and the returned bytes are the blob stored "
                  "under that item's hash at q); C05_final_contents_are_a_sequential_order_of_the_writes (when all threads have finished, the key map is the fold of a "
                  "log of write operations, sorted by application step, with exactly one entry per acknowledged writing call, each strictly inside its call's interval); "
                  "C05_write_order_respects_real_time; C05_completed_put_is_visible; C05_range_read_linearizable and C05_range_answer_is_sequential_get_range (a ranged read "
                  "returns what the sequential get_range gives on the blob the key held at one instant of the call, including the empty-range and invalid-range exits); "
                  "C05_iteration_is_a_snapshot (an iteration returns the key list of one instant); C05_calls_linearizable (every call kind); the bridge to the sequential "
                  "development: C05_single_thread_is_the_ordered_map / C05_single_thread_refines_the_sequential_spec (one thread of the concurrent model, under every "
                  "schedule, returns exactly the outputs of the ordered-map specification used by C01 and ends with its key map and exactly its blobs). K6 with get / get_reader / "
                  "get_range / get_size / iteration, readers parked between lookup and open, and model-free schedule exploration; oracle: each read result is the WHOLE "
                  "content (or the exact slice) of a value the key held during the call, each iteration the key list of one instant; after a put has returned, every visible index holds its value "
                  "or that of a write not ordered before it (put_visible).",
             note=BASE_NOTE + "The model interleaves whole lock-protected sections of the real code (scheduling points = the verif::point hooks); relaxed-memory effects and "
                              "the fairness of the real RwLock/Mutex are outside it. remove/remove_range are documented as not strictly atomic (they scan, then apply): the "
                              "theorems linearize their read at the scan step and their write at the apply step."),
 "C09": dict(text="Theorems C09_powerloss_any_instant (one operation cut after ANY number of calls, ANY set of files losing their unsynced bytes: the next open succeeds "
                  "with the old or the new map), C09_at_rest_nothing_is_lost, C09_powerloss_history (histories with power losses during operations and during recovery), "
                  "and the Async counterexample. K3: power-loss images built from the REAL recorded call trace (shim log with data) for every cut point x every subset "
                  "of files with unsynced bytes, recovered by the real library and compared with the model's `lose` images and with the C03 oracle.",
             note=BASE_NOTE + "Power-loss model as worded in the property (unsynced bytes lost, directory operations persist in order). The history theorem treats bytes that "
                              "survived a power loss as durable afterwards (`settle`): after a reboot a file's content is what the disk holds, so this is the physical reading "
                              "of the model; a variant in which surviving bytes may still vanish at a LATER power loss is proved only when earlier losses hit all segment "
                              "files (C09_powerloss_partial in proofs/PowerLossHist.v). C09_first_open_powerloss covers a power loss inside the very first open."),
 "C15": dict(text="Theorems C15_lock_order (every code path of the model acquires I < S < W, W never held across a step), C15_deadlock_free (every reachable state with "
                  "unfinished threads has an enabled thread), C15_progress (any schedule makes at most total_work steps), C15_calls_complete. K6/K7: the real lock bits at "
                  "every scheduling point equal the model's, every worker reaches its next point within the time-out under every explored schedule (a lock taken without a "
                  "scheduling point shows up as a hang with the schedule as replay).",
             note=BASE_NOTE + "The model sees lock acquisitions only at the `verif` scheduling points; an acquisition added elsewhere is caught by K6 (hang / lock-bit mismatch), "
                              "not by the theorem. Writer-preference fairness of parking_lot's RwLock plays no role because no thread waits inside a lock in the model."),
})
for _p in ["C04", "C05", "C09", "C15"]:
    NOT_APPLICABLE.pop(_p, None)
