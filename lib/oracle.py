# oracle.py -- property oracles evaluated on what the REAL library did.  They use a plain
# Python dict as the specification (no Coq model involved) and the blake3 oracle of the harness.
import re
import subprocess

import gen
import run


class Hasher:
    """blake3 through `hx hashd` (the blake3 crate, not the library under test), memoised."""

    def __init__(self):
        self.p = None
        self.memo = {}

    def __call__(self, data: bytes) -> str:
        if data in self.memo:
            return self.memo[data]
        if self.p is None:
            self.p = subprocess.Popen([run.HX, "hashd"], stdin=subprocess.PIPE, stdout=subprocess.PIPE, text=True)
        self.p.stdin.write((data.hex() if data else "-") + "\n")
        self.p.stdin.flush()
        h = self.p.stdout.readline().strip()
        self.memo[data] = h
        return h

    def close(self):
        if self.p:
            self.p.stdin.close(); self.p.wait(); self.p = None


HASH = Hasher()


def digest(d: bytes) -> str:
    a, b = 1, 0
    for x in d:
        a = (a + x) % 65521
        b = (b + a) % 65521
    return f"{len(d)}:{b:04x}{a:04x}"


def show_content(d: bytes) -> str:
    return f"{digest(d)}:{d.hex() if d else '-'}" if len(d) <= 48 else digest(d)


def unhex(s):
    if s.startswith("G:"):
        _, a, b = s.split(":")
        return gen.content_bytes(("G", int(a), int(b)))
    return b"" if s in ("-", "") else bytes.fromhex(s)


def parse_chunk(c: str) -> bytes:
    if c.startswith("G:"):
        t = c.split(":")
        return gen.content_bytes(("G", int(t[1]), int(t[2])), int(t[3]) if len(t) > 3 else 0)
    return unhex(c)


def parse_chunks(s: str) -> bytes:
    if s in ("", "."):
        return b""
    return b"".join(parse_chunk(c) for c in s.split(","))


def in_range(kt, lo, hi, k):
    sk = gen.sort_key(kt, k)
    if lo != "U":
        b = gen.sort_key(kt, unhex(lo[2:]))
        if lo[0] == "I" and sk < b: return False
        if lo[0] == "E" and sk <= b: return False
    if hi != "U":
        b = gen.sort_key(kt, unhex(hi[2:]))
        if hi[0] == "I" and sk > b: return False
        if hi[0] == "E" and sk >= b: return False
    return True


def hexpath(h: str) -> str:
    return f"cas/{h[0:2]}/{h[2:4]}/{h[4:]}"


def case_cfg(lines):
    cfg = {"kt": "bytes", "n": "10000", "sync": "1", "pre": "0", "scan": "1", "verify": "0", "failint": "1"}
    for l in lines:
        if l.startswith("cfg "):
            for kv in l.split()[1:]:
                k, v = kv.split("="); cfg[k] = v
    return cfg


class Spec:
    """the plain ordered map"""

    def __init__(self, kt):
        self.kt = kt
        self.m = {}

    def keys(self):
        return sorted(self.m, key=lambda k: gen.sort_key(self.kt, k))

    def apply(self, t):
        """apply a mutating case line (tokens); returns the expected result string or None"""
        op = t[0]
        if op == "put":
            self.m[unhex(t[1])] = parse_chunks(t[2] if len(t) > 2 else "")
            return "ok"
        if op == "abort":
            return "ok"
        if op == "remove":
            k = unhex(t[1])
            if k in self.m:
                del self.m[k]; return "ok:true"
            return "ok:false"
        if op == "remove_range":
            ks = [k for k in self.keys() if in_range(self.kt, t[1], t[2], k)]
            for k in ks:
                del self.m[k]
            return f"ok:{len(ks)}"
        if op == "checkpoint":
            return "ok"
        return None

    def entries(self, with_hash=True):
        out = []
        for k in self.keys():
            c = self.m[k]
            out.append(f"{k.hex() if k else '-'}={HASH(c)}:{len(c)}")
        return "entries:[" + ";".join(out) + "]"

    def blobs(self):
        cnt = {}
        for c in self.m.values():
            h = HASH(c); cnt[h] = cnt.get(h, 0) + 1
        return "blobs:[" + ";".join(f"{h}={cnt[h]}" for h in sorted(cnt)) + "]"

    def cas_stats(self):
        distinct = set(self.m.values())
        return len(distinct), sum(len(c) for c in distinct)

    def cas_files(self):
        return sorted(hexpath(HASH(c)) for c in set(self.m.values()))

    def expect_read(self, t):
        op = t[0]
        k = unhex(t[1]) if len(t) > 1 and op in ("get", "size", "range", "reader") else None
        if op in ("get", "reader"):
            return "bytes:" + show_content(self.m[k]) if k in self.m else "none"
        if op == "size":
            return f"size:{len(self.m[k])}" if k in self.m else "none"
        if op == "range":
            if k not in self.m:
                return "none"
            c = self.m[k]; a, b = int(t[2]), int(t[3]); L = len(c)
            if a > b and a < L:
                return "err:cas.InvalidRange"
            return "bytes:" + show_content(c[min(a, L):min(b, L)])
        if op == "iter":
            return self.entries()
        if op == "riter":
            ks = [k for k in self.keys() if in_range(self.kt, t[1], t[2], k)]
            return "entries:[" + ";".join(f"{k.hex() if k else '-'}={HASH(self.m[k])}:{len(self.m[k])}" for k in ks) + "]"
        if op == "stats":
            return self.cas_stats()
        if op == "blobs":
            return self.blobs()
        return None


R_RE = re.compile(r"^R (\d+) (.*) -> (.*)$")


def _robust(arity):
    """an oracle that cannot parse the library's output reports that as a failure (tag `malformed`,
    relevant to every property using the suite) instead of crashing the check: output of an
    unexpected shape means an operation ended in a way no specification allows"""
    def deco(fn):
        def wrapped(*a, **kw):
            try:
                return fn(*a, **kw)
            except (IndexError, ValueError, KeyError, AttributeError, TypeError) as e:
                import traceback
                where = traceback.extract_tb(e.__traceback__)[-1]
                msg = f"library output of unexpected shape ({type(e).__name__}: {e} at oracle.py:{where.lineno} `{where.line}`)"
                return [("malformed", msg)] if arity == 2 else [("malformed", 0, msg)]
        wrapped.__name__ = fn.__name__
        return wrapped
    return deco


@_robust(2)
def seq_oracle(case_text, real_lines):
    """Replays a plain-mode case against the spec.  Returns a list of (tag, message).
    Tags: returns reads order sizes counts stats cas_exact staging_empty reopen_same open_clean
          abort_noop hash_identity disk_wellformed disk_history nofail"""
    lines = [l for l in case_text.splitlines() if l and not l.startswith(("case ", "end"))]
    cfg = case_cfg(lines)
    spec = Spec(cfg["kt"])
    fails = []
    last_obs = None          # (entries, blobs, stats2, casfiles) of the previous obs
    before_close = None
    pending_abort_obs = None
    results = {}
    obs_blocks = []          # list of lists of O lines, in order
    cur = None
    for l in real_lines:
        m = R_RE.match(l)
        if m:
            results[int(m.group(1))] = (m.group(2), m.group(3)); cur = None
        elif l.startswith("O "):
            if cur is None or l.startswith(("O entries:", "O closed")):
                cur = []; obs_blocks.append(cur)
            cur.append(l[2:])
        elif l.startswith("T "):
            if cur is not None:
                cur.append(l)
        elif l.startswith("X "):
            fails.append(("nofail", f"runner: {l}"))
    idx = 0
    obs_i = 0
    prev_state_obs = None
    last_state, dirty, after_open = None, True, False
    held = {}
    disk_top = 0
    for l in lines:
        t = l.split()
        if t[0] in ("cfg", "plant", "mkdir", "fault", "setsettings", "rmblob"):
            continue
        if t[0] == "obs":
            if obs_i >= len(obs_blocks):
                fails.append(("nofail", "missing obs block")); continue
            blk = obs_blocks[obs_i]; obs_i += 1
            ent = next((x for x in blk if x.startswith("entries:")), None)
            blo = next((x for x in blk if x.startswith("blobs:")), None)
            sta = next((x for x in blk if x.startswith("stats:")), None)
            files = [x.split()[1] for x in blk if x.startswith("F ")]
            casf = sorted(f for f in files if f.startswith("cas/"))
            stag = [f for f in files if f.startswith("staging/")]
            if ent is not None:
                state_now = (ent, blo, sta.split(":")[1].split(",")[:2] if sta else None)
                if after_open and before_close is not None and state_now != before_close:
                    fails.append(("reopen_same", f"obs {obs_i}: state after reopen {state_now} differs from state before close {before_close}"))
                after_open = False
                last_state, dirty = state_now, False
                exp = spec.entries()
                if ent != exp:
                    strip = lambda e: [(x.split("=")[0], x.rsplit(":", 1)[-1]) for x in e[9:-1].split(";") if x]
                    if [a for a, _ in strip(ent)] != [a for a, _ in strip(exp)]:
                        fails.append(("order", f"obs {obs_i}: keys {ent} expected {exp}"))
                    elif strip(ent) != strip(exp):
                        fails.append(("sizes", f"obs {obs_i}: sizes {ent} expected {exp}"))
                    else:
                        fails.append(("hash_identity", f"obs {obs_i}: hashes {ent} expected {exp}"))
                if blo != spec.blobs():
                    fails.append(("counts", f"obs {obs_i}: {blo} expected {spec.blobs()}"))
                ub, tb = spec.cas_stats()
                if sta is not None and sta.split(":")[1].split(",")[:2] != [str(ub), str(tb)]:
                    fails.append(("stats", f"obs {obs_i}: {sta} expected unique={ub} bytes={tb}"))
                if casf != spec.cas_files():
                    fails.append(("cas_exact", f"obs {obs_i}: cas files {casf} expected {spec.cas_files()}"))
                if stag:
                    fails.append(("staging_empty", f"obs {obs_i}: staging not empty: {stag}"))
                # C06: every blob file (canonical path) holds the bytes its name says (re-hashed by the harness)
                for x in blk:
                    if x.startswith("F cas/") and x.endswith("hash=BAD") and len(x.split()[1].split("/")) == 4 and not any(l.startswith("plant ") for l in lines):
                        fails.append(("cas_content", f"obs {obs_i}: CAS file whose bytes do not hash to its name: {x[:160]}"))
                # C20 with no operation in flight: the files decoded by the harness's independent reader
                # are well-formed, snapshot + log above the snapshot's version equal the acknowledged
                # history, and the highest version on disk never goes down (versions are not reused)
                if any(x.startswith("L ") for x in blk):
                    for msg in disk_wellformed(blk, int(cfg["n"]), prefix=""):
                        fails.append(("disk_wellformed", f"obs {obs_i}: {msg}"))
                    try:
                        segs = sorted(parse_L(x) for x in blk if x.startswith("L "))
                        snap = next((x[len("S index "):] for x in blk if x.startswith("S index ")), None)
                        snap_ver, st = 0, {}
                        if snap is not None and not snap.startswith("bad") and not snap.endswith("trailing"):
                            snap_ver = int(snap.split()[0][4:])
                            for e in snap.split(" ", 1)[1][1:-1].split(";"):
                                if e:
                                    kk, v = e.split("="); h, sz = v.split(":"); st[kk] = (h, int(sz))
                        top = snap_ver
                        for seg, recs, tail in segs:
                            for v, op in recs:
                                top = max(top, v)
                                if v > snap_ver:
                                    apply_logged(st, op)
                        want = spec_entries_map(spec)
                        if st != want:
                            fails.append(("disk_history", f"obs {obs_i}: snapshot (version {snap_ver}) + log decode to {st}, the acknowledged history gives {want}"))
                        if top < disk_top:
                            fails.append(("disk_history", f"obs {obs_i}: the highest version on disk went down from {disk_top} to {top}: later operations will reuse versions"))
                        disk_top = max(disk_top, top)
                    except (ValueError, IndexError) as e:
                        fails.append(("disk_wellformed", f"obs {obs_i}: undecodable listing: {e}"))
            continue
        got = results.get(idx)
        idx += 1
        if t[0] in ("put", "abort", "remove", "remove_range", "checkpoint", "delorphans", "quarantine", "delorphan"):
            dirty = True
        if t[0] == "close":
            before_close = None if dirty else last_state
        if t[0] == "open":
            after_open = True
        if got is None:
            fails.append(("nofail", f"no result for op {idx - 1}: {l}")); continue
        res = got[1]
        if t[0] in ("put", "abort", "remove", "remove_range", "checkpoint"):
            exp = spec.apply(t)
            if res != exp:
                fails.append(("returns" if not res.startswith("err:") else "nofail", f"op {idx - 1} `{l}` returned {res}, expected {exp}"))
        elif t[0] == "hold":
            k = unhex(t[2])
            if k in spec.m:
                held[t[1]] = spec.m[k]
                if res != "held":
                    fails.append(("reads", f"op {idx - 1} `{l}` returned {res}, expected a reader"))
            elif res != "none":
                fails.append(("reads", f"op {idx - 1} `{l}` returned {res}, expected none"))
        elif t[0] == "drain":
            exp = ("bytes:" + show_content(held.pop(t[1]))) if t[1] in held else "none"
            if res != exp:
                fails.append(("reader_stable", f"op {idx - 1} `{l}`: a reader opened before later overwrites/removals streamed {res}, expected the original content {exp}"))
        elif t[0] in ("get", "size", "range", "reader", "iter", "riter", "blobs"):
            exp = spec.expect_read(t)
            if res != exp:
                tag = "counts" if t[0] == "blobs" else ("sizes" if t[0] == "size" else ("order" if t[0] in ("iter", "riter") else "reads"))
                fails.append((tag, f"op {idx - 1} `{l}` returned {res}, expected {exp}"))
        elif t[0] == "stats":
            ub, tb = spec.cas_stats()
            if res.split(":")[1].split(",")[:2] != [str(ub), str(tb)]:
                fails.append(("stats", f"op {idx - 1} stats {res} expected unique={ub} bytes={tb}"))
        elif t[0] == "close":
            if res != "ok":
                fails.append(("nofail", f"close returned {res}"))
        elif t[0] == "open":
            if not res.startswith("opened"):
                fails.append(("reopen_same", f"op {idx - 1} open failed: {res}"))
            elif "orph=[]" not in res or "missing=[]" not in res or "staging=[]" not in res or "invalid=[]" not in res:
                fails.append(("open_clean", f"op {idx - 1} open reported garbage after a clean history: {res}"))
    return fails


# ---------------------------------------------------------------------------------------------
# crash-all oracle (C03, C06, C08, C12, C20)

def op_lines(case_text):
    return [l for l in case_text.splitlines()
            if l and not l.startswith(("case ", "end", "cfg ", "obs", "plant ", "mkdir ", "fault ", "setsettings ", "rmblob "))]


def split_crash_blocks(lines):
    blocks, cur = [], None
    for l in lines:
        if l.startswith("CRASH "):
            cur = {"k": int(l.split()[1]), "lines": []}; blocks.append(cur)
        elif cur is not None:
            cur["lines"].append(l)
    return blocks


def parse_L(line):
    """'L 0_index.wal [v:op;...] tail=x' -> (segment id, [(ver, op)], tail)"""
    t = line.split(" ", 2)
    seg = int(t[1].split("_")[0])
    body, tail = t[2].rsplit(" tail=", 1)
    recs = []
    for r in body[1:-1].split(";"):
        if r:
            v, op = r.split(":", 1)
            recs.append((int(v), op))
    return seg, recs, tail


def apply_logged(state, op):
    """state: dict keyhex -> (hashhex, size); op: 'put:k:h:s' | 'rm:k|k'"""
    if op.startswith("put:"):
        _, k, h, s = op.split(":")
        state[k] = (h, int(s))
    elif op.startswith("rm:"):
        for k in op[3:].split("|"):
            state.pop(k, None)
    else:
        raise ValueError("undecodable logged operation: " + op)


def spec_entries_map(spec):
    return {(k.hex() if k else "-"): (HASH(c), len(c)) for k, c in spec.m.items()}


@_robust(3)
def crash_oracle(case_text, real_lines):
    """returns list of (tag, k, message); tags: recover_open recover_state usable disk_wellformed
    disk_history cas_content scan_exact counts nofail"""
    fails = []
    lines = [l for l in case_text.splitlines() if l]
    cfg = case_cfg(lines)
    N = int(cfg["n"])
    ops = op_lines(case_text)
    for blk in split_crash_blocks(real_lines):
        k = blk["k"]
        bl = blk["lines"]
        a = next((l for l in bl if l.startswith("A ")), None)
        if a is None:
            fails.append(("nofail", k, "no status line")); continue
        acked = int(a.split("acked=")[1].split()[0])
        # expected states
        spec = Spec(cfg["kt"])
        for l in ops[:acked]:
            spec.apply(l.split())
        s_old = spec_entries_map(spec)
        old_blobs, old_stats = spec.blobs(), spec.cas_stats()
        spec2 = Spec(cfg["kt"]); spec2.m = dict(spec.m)
        if acked < len(ops):
            spec2.apply(ops[acked].split())
        s_new = spec_entries_map(spec2)
        allowed = [s_old, s_new]
        # ---- the image on disk (C lines) ----
        segs, snap = [], None
        for l in bl:
            if l.startswith("C L "):
                try:
                    segs.append(parse_L(l[2:]))
                except Exception as e:
                    fails.append(("disk_wellformed", k, f"unparsable segment summary {l}: {e}"))
            elif l.startswith("C S index "):
                snap = l[len("C S index "):]
            elif l.startswith("C F cas/") and l.endswith("hash=BAD"):
                p = l.split()[2]
                if len(p.split("/")) == 4:
                    fails.append(("cas_content", k, f"CAS file whose bytes do not hash to its name: {l}"))
        segs.sort()
        snap_ver, snap_state = 0, {}
        if snap is not None:
            if snap.startswith("bad") or snap.endswith("trailing"):
                fails.append(("disk_wellformed", k, f"snapshot not complete: {snap}"))
            else:
                snap_ver = int(snap.split()[0][4:])
                body = snap.split(" ", 1)[1]
                for e in body[1:-1].split(";"):
                    if e:
                        kk, v = e.split("=")
                        h, sz = v.split(":")
                        snap_state[kk] = (h, int(sz))
        prev = 0
        for seg, recs, tail in segs:
            if tail not in ("clean", "sentinel"):
                fails.append(("disk_wellformed", k, f"segment {seg}: tail={tail} (incomplete or invalid record)"))
            for v, op in recs:
                if v <= prev:
                    fails.append(("disk_wellformed", k, f"segment {seg}: version {v} not above previous {prev}"))
                if not (seg * N < v <= (seg + 1) * N):
                    fails.append(("disk_wellformed", k, f"segment {seg}: version {v} outside ({seg * N},{(seg + 1) * N}]"))
                prev = v
        try:
            st = dict(snap_state)
            for seg, recs, tail in segs:
                for v, op in recs:
                    if v > snap_ver:
                        apply_logged(st, op)
            if st not in allowed:
                fails.append(("disk_history", k, f"snapshot+log decode to {st}, allowed {allowed}"))
        except ValueError as e:
            fails.append(("disk_wellformed", k, str(e)))
        # ---- recovery (V lines) ----
        vopen = next((l for l in bl if l.startswith("V open -> ")), None)
        if vopen is None or not vopen.startswith("V open -> opened"):
            fails.append(("recover_open", k, f"open after crash failed: {vopen}")); continue
        vent = next((l for l in bl if l.startswith("V entries:")), "")
        got = {}
        for e in vent[len("V entries:["):-1].split(";"):
            if e:
                kk, v = e.split("=")
                h, sz = v.split(":")
                got[kk] = (h, int(sz))
        if got not in allowed:
            fails.append(("recover_state", k, f"recovered {got}; acknowledged {s_old}; with in-flight op {s_new}"))
        else:
            which = spec if got == s_old else spec2
            for l in bl:
                if l.startswith("V get "):
                    kk = l.split()[2]
                    res = l.split(" -> ")[1]
                    exp = which.expect_read(["get", kk])
                    if res != exp:
                        fails.append(("recover_state", k, f"get {kk} after recovery = {res}, expected {exp}"))
            vb = next((l for l in bl if l.startswith("V blobs:")), "")[2:]
            if vb != which.blobs():
                fails.append(("counts", k, f"after recovery {vb} expected {which.blobs()}"))
            vs = next((l for l in bl if l.startswith("V stats:")), "V stats:?,?")[2:]
            ub, tb = which.cas_stats()
            if vs.split(":")[1].split(",")[:2] != [str(ub), str(tb)]:
                fails.append(("counts", k, f"after recovery {vs} expected unique={ub} bytes={tb}"))
            # scan exactness: orphans = canonical cas files - referenced; missing = none; staging = all
            casfiles = sorted(l.split()[2] for l in bl if l.startswith("C F cas/"))
            refd = set(which.cas_files())
            exp_orph = sorted(f.replace("cas/", "").replace("/", "") for f in casfiles if f not in refd and len(f.split("/")) == 4)
            m = re.search(r"orph=\[([^\]]*)\]", vopen)
            got_orph = sorted(x for x in m.group(1).split(",") if x) if m else []
            if got_orph != exp_orph:
                fails.append(("scan_exact", k, f"reported orphans {got_orph} expected {exp_orph}"))
            if "missing=[]" not in vopen:
                fails.append(("scan_exact", k, f"missing blobs after crash: {vopen}"))
            nst = sum(1 for l in bl if l.startswith("C F staging/"))
            m = re.search(r"staging=\[([^\]]*)\]", vopen)
            if (len([x for x in m.group(1).split(",") if x]) if m else 0) != nst:
                fails.append(("scan_exact", k, f"staging files on disk {nst}, reported {vopen}"))
        probe = next((l for l in bl if l.startswith("V probe ")), None)
        if probe is not None and probe != "V probe put=ok readback=true":
            fails.append(("usable", k, f"store not usable after recovery: {probe}"))
        reo = next((l for l in bl if l.startswith("V reopen -> ")), None)
        if reo is not None and reo != "V reopen -> opened":
            fails.append(("usable", k, f"second open after recovery failed: {reo}"))
        if any(l.startswith(("V hang", "V exit")) for l in bl):
            fails.append(("usable", k, "recovery process hung or died"))
    return fails


# ---------------------------------------------------------------------------------------------
# fault-all oracle (C14)

def disk_blocks(real_lines, prefix="O "):
    """the directory listings of a run, one list of lines per `obs`"""
    blocks, cur = [], None
    for l in real_lines:
        if l.startswith(prefix + "entries:") or l.startswith(prefix + "closed"):
            cur = []; blocks.append(cur)
        elif l.startswith(prefix) and cur is not None:
            cur.append(l)
    return blocks


def disk_wellformed(block, N, prefix="O "):
    """C20's format clauses on one directory listing decoded by the harness's independent reader:
    complete records only (+ at most one end marker), versions strictly increasing through the
    whole log, each inside its segment's range, snapshot complete."""
    out, segs = [], []
    for l in block:
        if l.startswith(prefix + "L "):
            try:
                segs.append(parse_L(l[len(prefix):]))
            except Exception as e:
                out.append(f"unparsable segment summary {l}: {e}")
        elif l.startswith(prefix + "S index "):
            snap = l[len(prefix + "S index "):]
            if snap.startswith("bad") or snap.endswith("trailing"):
                out.append(f"snapshot not complete: {snap}")
    segs.sort()
    prev = 0
    for seg, recs, tail in segs:
        if tail not in ("clean", "sentinel"):
            out.append(f"segment {seg}: tail={tail} (incomplete or invalid record)")
        for v, op in recs:
            if v <= prev:
                out.append(f"segment {seg}: version {v} not above previous {prev}")
            if not (seg * N < v <= (seg + 1) * N):
                out.append(f"segment {seg}: version {v} outside ({seg * N},{(seg + 1) * N}]")
            prev = v
    return out


@_robust(2)
def fault_oracle(case_text, real_lines, header):
    """One injected EIO.  Every op returns (no panic, no hang); keys outside the failed op keep
    exactly their content; keys of the failed op hold old or new; later reopen succeeds.
    returns list of (tag, message); tags: contained nofail reopen"""
    fails = []
    lines = [l for l in case_text.splitlines() if l]
    cfg = case_cfg(lines)
    kt = cfg["kt"]
    ops = op_lines(case_text)
    results = {}
    for l in real_lines:
        m = R_RE.match(l)
        if m:
            results[int(m.group(1))] = m.group(3)
        if l.startswith("X "):
            fails.append(("nofail", f"{header}: process {l[2:]}"))
    fault_call = next((l[8:] for l in real_lines if l.startswith("T FAULT ")), "")
    # a transaction that did not commit must not leave its staging file behind (unless the injected
    # error hit the removal of that very file)
    stag = sorted({l.split()[2] for l in real_lines if l.startswith("O F staging/")})
    if stag and not fault_call.startswith("unlink staging/"):
        fails.append(("staging_leftover", f"{header}: staging files left behind {stag} (injected fault: {fault_call})"))
    # the files on disk stay well-formed whatever call failed (C20's format clauses)
    for bi, blk in enumerate(disk_blocks(real_lines)):
        for msg in disk_wellformed(blk, int(cfg["n"])):
            fails.append(("disk_wellformed", f"{header}: listing {bi} after injected fault `{fault_call}`: {msg}"))
    # possible values per key: set of contents (None = absent)
    poss = {}
    def cur(k):
        return poss.get(k, {None})
    open_failed = False
    for i, l in enumerate(ops):
        t = l.split()
        res = results.get(i)
        if res is None:
            fails.append(("nofail", f"{header}: op {i} `{l}` never returned")); break
        if res == "err:panic":
            fails.append(("nofail", f"{header}: op {i} `{l}` panicked")); 
        if res == "closed":
            continue
        op = t[0]
        if op == "put":
            k = unhex(t[1]); c = parse_chunks(t[2] if len(t) > 2 else "")
            if res == "ok":
                poss[k] = {c}
            else:
                poss[k] = cur(k) | {c}
        elif op == "remove":
            k = unhex(t[1])
            if res == "ok:true":
                if cur(k) == {None}:
                    fails.append(("contained", f"{header}: op {i} `{l}` = true but key was absent"))
                poss[k] = {None}
            elif res == "ok:false":
                if None not in cur(k):
                    fails.append(("contained", f"{header}: op {i} `{l}` = false but key was present"))
                # nothing is logged by a remove that finds nothing: an earlier failed put of this key may
                # still become durable, so the uncertainty (old or new) stays
                poss[k] = cur(k) | {None}
            else:
                poss[k] = cur(k) | {None}
        elif op == "remove_range":
            ks = [k for k in poss if in_range(kt, t[1], t[2], k)]
            for k in ks:
                poss[k] = {None} if (res.startswith("ok:") and len(cur(k)) == 1) else cur(k) | {None}
        elif op in ("get", "reader"):
            k = unhex(t[1])
            allowed = {("none" if c is None else "bytes:" + show_content(c)) for c in cur(k)}
            if res not in allowed:
                fails.append(("contained", f"{header}: op {i} `{l}` = {res}, allowed {sorted(allowed)}"))
        elif op == "open":
            if not res.startswith("opened"):
                # an open hit by the fault itself may fail; the next open (no more faults) must work
                if open_failed:
                    fails.append(("reopen", f"{header}: op {i} open failed again: {res}"))
                open_failed = True
            else:
                open_failed = False
    return fails


# ---------------------------------------------------------------------------------------------
# damage-all oracle (C10)

def payload_len(op):
    if op.startswith("put:"):
        _, k, h, s = op.split(":")
        return 1 + 4 + (0 if k == "-" else len(k) // 2) + 32 + 8
    ks = op[3:].split("|") if op[3:] else []
    return 1 + 4 + sum(4 + (0 if k == "-" else len(k) // 2) for k in ks)


@_robust(3)
def damage_oracle(case_text, real_lines):
    """every D line: the open fails with an error, or yields exactly the state after the longest
    undamaged prefix of the logged operations; never a panic, hang or crash.
    returns [(tag, where, message)] with tags damage_accepted / damage_panic"""
    fails = []
    cfg = case_cfg([l for l in case_text.splitlines() if l])
    kt = cfg["kt"]
    segs, snap_ver, snap_state = {}, 0, {}
    for l in real_lines:
        if l.startswith("Z L "):
            seg, recs, tail = parse_L(l[2:])
            segs[seg] = recs
        elif l.startswith("Z S index ") and not l.startswith("Z S index bad"):
            snap = l[len("Z S index "):]
            snap_ver = int(snap.split()[0][4:])
            for e in snap.split(" ", 1)[1][1:-1].split(";"):
                if e:
                    kk, v = e.split("="); h, sz = v.split(":")
                    snap_state[kk] = (h, int(sz))
    def render(st):
        ks = sorted(st, key=lambda k: gen.sort_key(kt, unhex(k)))
        return "entries:[" + ";".join(f"{k}={st[k][0]}:{st[k][1]}" for k in ks) + "]"
    for l in real_lines:
        if not l.startswith("D "):
            continue
        t = l.split()
        seg = int(t[1].split("_")[0])
        pos = int(t[3])
        res = l.split(" -> ", 1)[1]
        if res.startswith(("exit=", "hang", "err:panic")) or res == "":
            fails.append(("damage_panic", l.split(" -> ")[0], f"open on a damaged log did not return cleanly: {l[:200]}")); continue
        if res.startswith("err:"):
            continue
        # accepted: must be the prefix state
        st = dict(snap_state)
        done = False
        for sid in sorted(segs):
            off = 0
            for v, op in segs[sid]:
                ln = 44 + payload_len(op)
                if sid == seg and off <= pos < off + ln:
                    done = True; break
                if sid > seg:
                    done = True; break
                if v > snap_ver:
                    apply_logged(st, op)
                off += ln
            if done:
                break
        got = res.split(" ", 1)[1] if " " in res else ""
        if got != render(st):
            fails.append(("damage_accepted", l.split(" -> ")[0], f"damaged log silently accepted: recovered {got[:300]}, longest undamaged prefix gives {render(st)[:300]}"))
    return fails



# ---------------------------------------------------------------------------------------------
# settings gate oracle (C19)

@_robust(2)
def settings_oracle(case_text, real_lines):
    """an open whose configuration or stored version does not match must fail, and the obs block
    after it must equal the obs block before it; tags: gate_accepts gate_modifies"""
    fails = []
    lines = [l for l in case_text.splitlines() if l and not l.startswith(("case ", "end"))]
    cfg = case_cfg(lines)
    stored_n, stored_v = cfg["n"], "4"
    created = False
    results = {}
    for l in real_lines:
        m = R_RE.match(l)
        if m:
            results[int(m.group(1))] = m.group(3)
    blocks, cur = [], None
    for l in real_lines:
        if l.startswith(("O entries:", "O closed")):
            cur = []; blocks.append(cur)
        if l.startswith("O ") and cur is not None:
            cur.append(l)
    idx, bi, last_block, expect_same = 0, 0, None, None
    for l in lines:
        t = l.split()
        if t[0] in ("cfg", "plant", "mkdir", "fault"):
            continue
        if t[0] == "setsettings":
            stored_v, stored_n = t[1], t[3]; continue
        if t[0] == "obs":
            blk = [x for x in (blocks[bi] if bi < len(blocks) else []) if x.startswith(("O F", "O L", "O S"))]
            bi += 1
            if expect_same is not None and blk != expect_same[1]:
                d = [x for x in blk if x not in expect_same[1]] + [x for x in expect_same[1] if x not in blk]
                fails.append(("gate_modifies", f"rejected `{expect_same[0]}` modified the directory: {d[:4]}"))
            expect_same = None
            last_block = blk
            continue
        res = results.get(idx); idx += 1
        if t[0] == "open":
            n = cfg["n"]
            for kv in t[1:]:
                if kv.startswith("n="):
                    n = kv[2:]
            if not created:
                created = True; stored_n = n
                continue
            bad = (n != stored_n) or (stored_v != "4")
            if bad:
                if res is None or not res.startswith("err:settings."):
                    fails.append(("gate_accepts", f"`{l}` on a store created with n={stored_n}, stored version {stored_v} returned {res}"))
                expect_same = (l, last_block)
            elif res is None or not res.startswith("opened"):
                fails.append(("gate_accepts", f"correct `{l}` (n={stored_n}) failed: {res}"))
    return fails


# ---------------------------------------------------------------------------------------------
# concurrent oracle (C04, C05, C07, C08, C15) on the REAL lines of a conc run

@_robust(2)
def conc_oracle(case_text, real_lines):
    """tags: dangling (C04/C08), read_atomic (C05), quiescent_exact (C07), stuck (C15), restart_conc (C02), crash_conc (C03), put_visible (C05), nofail"""
    fails = []
    calls = {}                     # tid -> list of call token lists
    for l in case_text.splitlines():
        t = l.split()
        if t and t[0] == "thread":
            calls.setdefault(int(t[1]), []).append(t[2:])
    setup_state = {}
    # per step: visible index
    steps = []                     # (step no, tid, from, to, idx dict or None, cas set)
    idx_re = re.compile(r"idx=(\[[^\]]*\]|-)")
    cas_re = re.compile(r"cas=\[([^\]]*)\]")
    def parse_idx(s):
        if s == "-":
            return None
        d = {}
        for e in s[1:-1].split(";"):
            if e:
                k, v = e.split("="); h, sz = v.split(":")
                d[k] = (h, int(sz))
        return d
    results = {}
    started, ended = {}, {}        # (tid, call#) -> step number
    callno = {}
    for l in real_lines:
        if l.startswith("X ") or "-> HANG" in l or "DEADLOCK" in l:
            fails.append(("stuck", l[:300])); continue
        if "DESYNC" in l or "-> BLOCKED" in l:
            continue
        if l.startswith("S init"):
            steps.append((-1, None, None, None, parse_idx(idx_re.search(l).group(1)), set(x for x in cas_re.search(l).group(1).split(",") if x)))
        elif l.startswith("S "):
            t = l.split()
            i, tid, frm, to = int(t[1]), int(t[2][1:]), t[3], t[5]
            steps.append((i, tid, frm, to, parse_idx(idx_re.search(l).group(1)), set(x for x in cas_re.search(l).group(1).split(",") if x)))
            if frm == "start":
                c = callno.get(tid, 0); started[(tid, c)] = i
            if to in ("start", "end"):
                c = callno.get(tid, 0); ended[(tid, c)] = i; callno[tid] = c + 1
        elif l.startswith("F "):
            t = l.split(" -> ")
            a = t[0].split()
            results[(int(a[1][1:]), int(a[2]))] = t[1]
    # C02 under concurrency (proofs/ConcDurable.v): after the threads have finished, dropping the handle
    # and opening the directory again shows the same keys, contents, sizes, reference counts and statistics
    rb = [l[len("R before "):] for l in real_lines if l.startswith("R before ")]
    ra = [l[len("R reopen "):] for l in real_lines if l.startswith("R reopen ")]
    if rb and ra:
        if ra[0].startswith("FAILED"):
            fails.append(("restart_conc", f"reopen after the concurrent run failed: {ra[0][:200]}"))
        elif ra[0] != rb[0]:
            fails.append(("restart_conc", f"state before dropping the handle `{rb[0][:300]}` differs from the state after reopening `{ra[0][:300]}`"))
    # C03 under concurrency (proofs/ConcDurable.v, C03_concurrent_kill_any_position): a crash image taken
    # with every thread parked recovers to the index of that instant (or, when the index was locked at
    # that instant, to the last one seen before or the first one seen after), with no missing or corrupted blob
    kimgs = [l.split(" ", 2) for l in real_lines if l.startswith("K ")]
    if kimgs:
        order = [(i, idx) for (i, tid, frm, to, idx, cas) in steps]
        for _, st_no, rest in kimgs:
            if rest.startswith("FAILED"):
                fails.append(("crash_conc", f"recovery from the crash image taken after step {st_no} failed: {rest[:200]}")); continue
            m = re.match(r"idx=(\[[^\]]*\]) missing=(\d+) corrupted=(\d+)", rest)
            if not m:
                fails.append(("malformed", f"unparsable crash-image line: K {st_no} {rest[:120]}")); continue
            got = parse_idx(m.group(1))
            pos = next((j for j, (i, _) in enumerate(order) if str(i) == st_no), None)
            if pos is None:
                continue
            here = order[pos][1]
            if here is not None:
                allowed = [here]
            else:
                before = next((x for (_, x) in reversed(order[:pos]) if x is not None), None)
                after = next((x for (_, x) in order[pos + 1:] if x is not None), None)
                allowed = [x for x in (before, after) if x is not None]
            if allowed and got not in allowed:
                fails.append(("crash_conc", f"crash image after step {st_no}: recovery yields {m.group(1)[:200]}, the index at that instant was {allowed}"))
            elif int(m.group(2)) or int(m.group(3)):
                fails.append(("crash_conc", f"crash image after step {st_no}: recovery reports {m.group(2)} missing and {m.group(3)} corrupted blobs"))
    # C04: every visible index entry has its blob (except a blob the case itself turned into a directory)
    sabotaged = {HASH(parse_chunks(l.split()[1])) for l in case_text.splitlines() if l.startswith("undeletable ")}
    for (i, tid, frm, to, idx, cas) in steps:
        if idx is not None:
            for k, (h, sz) in idx.items():
                if h not in cas and h not in sabotaged:
                    fails.append(("dangling", f"after step {i} (t{tid} {frm} -> {to}): key {k} -> blob {h[:16]}.. but no such file under cas/"))
    # C07: at the end everything is quiescent
    if steps and all(ended.get((tid, c)) is not None for tid in calls for c in range(len(calls[tid]))):
        last = steps[-1]
        if last[4] is not None and not any(r.startswith("err:") for r in results.values()):
            ref = {h for (h, _) in last[4].values()}
            had_orphans = any(l.split()[0] == "orphan" for l in case_text.splitlines() if l.split())
            ran_cleanup = any(c[0] == "delorphans" for cs in calls.values() for c in cs)
            if (last[5] - sabotaged) != (ref - sabotaged) and not (had_orphans and not ran_cleanup) and not had_orphans:
                fails.append(("quiescent_exact", f"at quiescence cas/ holds {sorted(last[5])}, referenced {sorted(ref)}"))
    # C05: a put that has returned is seen from then on: at every later instant at which the index is
    # visible, the key holds the put's value or the value of a write that is not ordered before the put
    # (a write of the same key by a call that had not returned when the put was taken)
    def written(c):
        if c[0] == "put":
            cont = parse_chunks(c[2] if len(c) > 2 else "")
            return (HASH(cont), len(cont))
        return None
    for (tid, ci), res in results.items():
        c = calls.get(tid, [None] * (ci + 1))[ci] if ci < len(calls.get(tid, [])) else None
        if not c or c[0] != "put" or res != "ok":
            continue
        eA, sA = ended.get((tid, ci)), started.get((tid, ci))
        if eA is None or sA is None:
            continue
        k = c[1]
        allowed = {written(c)}
        for t2, cs in calls.items():
            for c2i, c2 in enumerate(cs):
                if (t2, c2i) == (tid, ci):
                    continue
                e2 = ended.get((t2, c2i))
                if e2 is not None and e2 < sA:
                    continue                     # returned before the put was taken: ordered before it
                if c2[0] == "put" and c2[1] == k:
                    allowed.add(written(c2))
                elif c2[0] == "remove" and c2[1] == k:
                    allowed.add(None)
                elif c2[0] == "remove_range":
                    allowed.add(None)
        for (i, tid2, frm, to, idx, cas) in steps:
            if i is not None and i > eA and idx is not None and idx.get(k) not in allowed:
                fails.append(("put_visible", f"t{tid} `{' '.join(c)}` returned ok at step {eA}, but after step {i} key {k} holds {idx.get(k)}: neither the put's value nor that of a write not ordered before it {sorted(map(str, allowed))}"))
                break
    # C05: reads
    def value_sets(k, s0, s1):
        vals = set()
        # last visible index at or before the start of the call
        base = None
        for (i, tid, frm, to, idx, cas) in steps:
            if i < s0 and idx is not None:
                base = idx
            if s0 <= i <= s1 and idx is not None:
                vals.add(idx.get(k))
        if base is not None or not vals:
            vals.add((base or {}).get(k))
        # writes of k overlapping the call
        for tid, cs in calls.items():
            for ci, c in enumerate(cs):
                st, en = started.get((tid, ci)), ended.get((tid, ci), 10**9)
                if st is None or st > s1 or en < s0:
                    continue
                if c[0] == "put" and c[1] == k:
                    cont = parse_chunks(c[2] if len(c) > 2 else "")
                    vals.add((HASH(cont), len(cont)))
                if c[0] in ("remove", "remove_range") and (c[0] == "remove_range" or c[1] == k):
                    vals.add(None)
        return vals
    # every content the case mentions, by hash: a read must return one of them WHOLE
    known = {}
    for l in case_text.splitlines():
        t = l.split()
        if len(t) >= 2 and t[0] == "orphan":
            cont = parse_chunks(t[1]); known[HASH(cont)] = cont
        for i, w in enumerate(t):
            if w in ("put", "abort") and i + 1 < len(t):
                cont = parse_chunks(t[i + 2] if i + 2 < len(t) else ""); known[HASH(cont)] = cont
    for (tid, ci), res in results.items():
        c = calls[tid][ci]
        if res == "err:panic":
            fails.append(("nofail", f"t{tid} call {ci} `{' '.join(c)}` panicked"))
        if c[0] == "iter":
            s0, s1 = started.get((tid, ci), 0), ended.get((tid, ci), 10**9)
            snaps, base = set(), None
            for (i, tid2, frm, to, idx, cas) in steps:
                if idx is not None and i < s0: base = idx
                if idx is not None and s0 <= i <= s1: snaps.add(tuple(sorted(idx, key=lambda k: bytes.fromhex(k) if k != "-" else b"")))
            if base is not None or not snaps: snaps.add(tuple(sorted(base or {}, key=lambda k: bytes.fromhex(k) if k != "-" else b"")))
            # a write whose lock section overlaps the call may be (in)visible without an observed index in between
            writers = any(cc[0] in ("put", "remove", "remove_range") and started.get((t2, ci2), 10**9) <= s1 and ended.get((t2, ci2), 10**9) >= s0 for t2, cs in calls.items() for ci2, cc in enumerate(cs) if t2 != tid)
            got = tuple(x for x in res[len("keys:["):-1].split(";") if x) if res.startswith("keys:[") else None
            if got is None:
                fails.append(("read_atomic", f"t{tid} iter failed: {res}"))
            elif got not in snaps and not writers:
                fails.append(("read_atomic", f"t{tid} iter (steps {s0}..{s1}) = {res}: not the key list of the index at any instant of the call {sorted(snaps)}"))
            continue
        if c[0] in ("get", "size", "reader", "range"):
            s0, s1 = started.get((tid, ci), 0), ended.get((tid, ci), 10**9)
            vals = value_sets(c[1], s0, s1)
            if c[0] == "range" and len(c) >= 4 and res.startswith("err:cas.InvalidRange"):
                # the sequential specification of get_range: start above the clamped end of a non-empty remainder
                a_, b_ = int(c[2]), int(c[3])
                if not any(v and v[1] > a_ and min(b_, v[1]) < a_ for v in vals):
                    fails.append(("read_atomic", f"t{tid} `{' '.join(c)}` (steps {s0}..{s1}) = {res}, but no value the key held during the call makes that range invalid: {vals}"))
                continue
            if res.startswith("err:") and res != "err:BlobDataMissing" and c[0] in ("get", "reader", "range") and any(v and v[0] in sabotaged for v in vals):
                pass                                   # reading a blob the case itself obstructed
            elif res.startswith("err:"):
                fails.append(("read_atomic", f"t{tid} `{' '.join(c)}` (steps {s0}..{s1}) failed: {res}"))
            elif res == "none":
                if None not in vals:
                    fails.append(("read_atomic", f"t{tid} `{' '.join(c)}` (steps {s0}..{s1}) = none but the key was present throughout"))
            elif res.startswith("size:"):
                if int(res[5:]) not in {v[1] for v in vals if v}:
                    fails.append(("read_atomic", f"t{tid} `{' '.join(c)}` = {res}, sizes held {vals}"))
            elif res.startswith("bytes:"):
                def cut(b):
                    if c[0] == "range" and len(c) >= 4:
                        a_, b_ = int(c[2]), min(int(c[3]), len(b))
                        return b"" if len(b) <= a_ else b[a_:b_]
                    return b
                ok = {"bytes:" + show_content(cut(known[v[0]])) for v in vals if v and v[0] in known}
                ln = int(res[6:].split(":")[0])
                if (res not in ok) if ok else (ln not in {v[1] for v in vals if v}):
                    fails.append(("read_atomic", f"t{tid} `{' '.join(c)}` (steps {s0}..{s1}) = {res}: not the whole content of any value the key held during the call {sorted(ok)}"))
    return fails



# ---------------------------------------------------------------------------------------------
# K9 oracle (C11): exclusive ownership, computed from the events alone

@_robust(2)
def race_oracle(case_text, real_lines):
    fails = []
    evs = [l[3:].split() for l in case_text.splitlines() if l.startswith("ev ")]
    res = {}
    for l in real_lines:
        if l.startswith("E "):
            a, b = l.split(" -> ", 1)
            res[int(a.split()[1])] = b
    owner_refs = {}            # slot -> True while it holds a reference to the live handle
    owner_proc = None
    pending = set()            # opens that hold a descriptor of LOCK but have not tried the lock yet
    def live():
        return bool(owner_refs) or owner_proc is not None
    for i, e in enumerate(evs):
        r = res.get(i)
        if r is None:
            fails.append(("exclusive", f"event {i} `{' '.join(e)}` produced no result")); continue
        if e[0] == "openfd":
            if r != "none":
                fails.append(("exclusive", f"event {i} `{' '.join(e)}`: the open did not reach its lock attempt: {r}"))
            else:
                pending.add(e[1])
        elif e[0] == "lock":
            if e[1] in pending:
                pending.discard(e[1])
                if live():
                    if not r.startswith("already"):
                        fails.append(("exclusive", f"event {i} `{' '.join(e)}`: a live handle exists but the open that was waiting to lock returned `{r}`"))
                elif r == "opened":
                    owner_refs[e[1]] = True
                else:
                    fails.append(("release", f"event {i} `{' '.join(e)}`: no live handle but the open returned `{r}`"))
        elif e[0] in ("open", "openstats", "openn"):
            if live():
                if not r.startswith("already"):
                    fails.append(("exclusive", f"event {i} `{' '.join(e)}`: a live handle exists but the open returned `{r}`"))
                elif "same=true" not in r or "calls=[create LOCK]" not in r:
                    fails.append(("loser_modifies", f"event {i} `{' '.join(e)}`: the losing open touched the directory: {r}"))
            else:
                exp_ok = (e[0] != "openn") or True
                if r == "opened":
                    owner_refs[e[1]] = True
                    if e[0] == "openstats": owner_refs[e[1] + "!stats"] = True
                elif e[0] == "openn" and r.startswith("err:settings"):
                    pass        # a mismatching configuration on a free directory is C19's business
                else:
                    fails.append(("release", f"event {i} `{' '.join(e)}`: no live handle but the open returned `{r}`"))
        elif e[0] == "clone":
            if e[1] in owner_refs: owner_refs[e[2]] = True
        elif e[0] in ("drop", "dropcas"):
            owner_refs.pop(e[1], None)
        elif e[0] == "dropstats":
            owner_refs.pop(e[1] + "!stats", None)
        elif e[0] == "spawn":
            if live():
                if r != "already": fails.append(("exclusive", f"event {i} spawn: live handle exists but child got `{r}`"))
            elif r == "opened":
                owner_proc = e[1]
            else:
                fails.append(("release", f"event {i} spawn on a free directory returned `{r}`"))
        elif e[0] == "kill":
            if owner_proc == e[1]: owner_proc = None
        elif e[0] in ("racethreads", "raceprocs"):
            n = int(e[1])
            exp = f"winners={0 if live() else 1} already={n if live() else n - 1} other=0"
            if r != exp:
                fails.append(("exclusive", f"event {i} `{' '.join(e)}` gave `{r}`, expected `{exp}`"))
    return fails


# ---------------------------------------------------------------------------------------------
# orphan scan / clean-up oracle (C08) on plain-mode lines with planted garbage

@_robust(2)
def orphan_oracle(case_text, real_lines):
    """after every `open`: the reported lists equal what the directory listing (O F lines of the obs
    block BEFORE the open... we use the obs block right after the open, nothing changes in between)
    and the spec map imply; after `delorphans`: only referenced blobs remain, staging empty.
    tags: scan_exact cleanup_complete cleanup_harmful"""
    fails = []
    lines = [l for l in case_text.splitlines() if l and not l.startswith(("case ", "end"))]
    cfg = case_cfg(lines)
    spec = Spec(cfg["kt"])
    results = {}
    for l in real_lines:
        m = R_RE.match(l)
        if m:
            results[int(m.group(1))] = (m.group(2), m.group(3))
    blocks = []
    for l in real_lines:
        if l.startswith(("O entries:", "O closed")):
            blocks.append([])
        if l.startswith("O ") and blocks:
            blocks[-1].append(l)
    idx, bi = 0, 0
    pending_open = None
    last_files = None
    after_cleanup = False
    for l in lines:
        t = l.split()
        if t[0] in ("cfg", "plant", "mkdir", "fault", "rmblob"):
            continue
        if t[0] == "obs":
            blk = blocks[bi] if bi < len(blocks) else []
            bi += 1
            files = {}
            for x in blk:
                if x.startswith("O F "):
                    p = x.split()
                    files[p[2]] = x
            cas = sorted(f for f in files if f.startswith("cas/"))
            stag = sorted(f for f in files if f.startswith("staging/"))
            refd = set(spec.cas_files())
            if pending_open is not None:
                res = pending_open
                def lst(name):
                    m = re.search(name + r"=\[([^\]]*)\]", res)
                    return sorted(x for x in m.group(1).split(",") if x) if m else []
                canon_blob = lambda f: len(f.split("/")) == 4 and re.fullmatch(r"cas/[0-9a-f]{2}/[0-9a-f]{2}/[0-9a-f]{60}", f)
                exp_orph = sorted(f.replace("cas/", "").replace("/", "") for f in cas if canon_blob(f) and f not in refd)
                exp_inv = sorted(f for f in cas if not canon_blob(f))
                exp_missing = sorted(f.replace("cas/", "").replace("/", "") for f in refd if f not in cas)
                if lst("orph") != exp_orph:
                    fails.append(("scan_exact", f"open reported orphans {lst('orph')}, the directory and index imply {exp_orph}"))
                if lst("invalid") != exp_inv:
                    fails.append(("scan_exact", f"open reported invalid files {lst('invalid')}, the directory implies {exp_inv}"))
                if lst("missing") != exp_missing:
                    fails.append(("scan_exact", f"open reported missing blobs {lst('missing')}, expected {exp_missing}"))
                if len(lst("staging")) != len(stag):
                    fails.append(("scan_exact", f"open reported staging files {lst('staging')}, directory has {stag}"))
                if cfg["verify"] == "1":
                    exp_cor = sorted(f.replace("cas/", "").replace("/", "") for f in cas if f in refd and files[f].endswith("hash=BAD"))
                    if lst("corrupted") != exp_cor:
                        fails.append(("scan_exact", f"open reported corrupted {lst('corrupted')}, expected {exp_cor}"))
                pending_open = None
            if after_cleanup:
                extra = [f for f in cas if f not in refd]
                gone = [f for f in refd if f not in cas]
                if extra or stag:
                    fails.append(("cleanup_complete", f"after clean-up garbage remains: {extra + stag}"))
                if gone:
                    fails.append(("cleanup_harmful", f"clean-up removed referenced blobs: {gone}"))
                after_cleanup = False
            continue
        res = results.get(idx); idx += 1
        r = res[1] if res else ""
        if t[0] in ("put", "abort", "remove", "remove_range", "checkpoint"):
            spec.apply(t); pending_open = None
        elif t[0] == "open":
            pending_open = r
        elif t[0] == "delorphans":
            after_cleanup = True
            if "err=0" not in r:
                fails.append(("cleanup_complete", f"delete_orphans reported errors: {r}"))
        elif t[0] == "get":
            exp = spec.expect_read(t)
            if r != exp:
                fails.append(("cleanup_harmful", f"`{l}` = {r} after clean-up, expected {exp}"))
    return fails
