# check.py -- `bin/check <Cxx> [--tier quick|thorough] [--replay file]`
# 1. proof obligations (Coq build of props/Cxx.v, statement pins, forbidden tokens, assumptions)
# 2. build harness / shim / extracted model from /repo's current working tree
# 3. correspondence obligations of the property (model vs implementation)
# 4. property oracle on the implementation (search for a failing input)
# 5. verdict (VIOLATION / KNOWN-FINDING lines), 6. evidence/Cxx.json
import hashlib
import json
import os
import random
import re
import subprocess
import sys
import time

sys.path.insert(0, os.path.dirname(os.path.abspath(__file__)))
import gen
import oracle
import run
import suites
from props import PROPS

VERIF = run.VERIF
EVID = os.environ.get("VERIF_EVIDENCE", os.path.join(VERIF, "evidence"))   # bin/selftest redirects it: evidence/ only ever describes runs against /repo
REPLAYS = os.path.join(EVID, "replays")

FORBIDDEN = re.compile(r"\b(Admitted|admit|Axiom|Axioms|Parameter|Parameters|Conjecture|Conjectures|Abort All)\b|Unset Guard|bypass_check|type-in-type|impredicative-set|Admit Obligations|Unset Positivity|Unset Universe")


def strip_comments(src):
    out, depth, i = [], 0, 0
    while i < len(src):
        if src.startswith("(*", i):
            depth += 1; i += 2
        elif src.startswith("*)", i) and depth:
            depth -= 1; i += 2
        else:
            if not depth:
                out.append(src[i])
            i += 1
    return "".join(out)


def proof_step(pid, tier):
    """returns dict(ok, reason, obligations, discharged, theorems, assumptions, checker_cmd, wall_s)"""
    t0 = time.time()
    coq = run.COQ
    res = dict(ok=False, reason="", obligations=0, discharged=0, theorems=[], assumptions="", wall_s=0.0,
               checker_cmd=f"cd coq && make props/{pid}.vo && coqc props/{pid}.v (Print Assumptions)")
    pf = os.path.join(coq, "props", f"{pid}.v")
    if os.environ.get("VERIF_DEV_SKIP_PROOF"):      # development aid only; never set by MANIFEST commands
        res.update(ok=True, obligations=1, discharged=1, reason="skipped (dev)"); return res
    if not os.path.exists(pf):
        res["reason"] = f"props/{pid}.v missing"; return res
    # forbidden tokens anywhere in the development
    for d, _, files in os.walk(coq):
        for f in files:
            if f.endswith(".v"):
                m = FORBIDDEN.search(strip_comments(open(os.path.join(d, f)).read()))
                if m:
                    res["reason"] = f"forbidden token `{m.group(0)}` in {os.path.join(d, f)}"; return res
    # statement pins
    lock = json.load(open(os.path.join(coq, "props", "statements.lock")))
    digest = hashlib.sha256(open(pf, "rb").read()).hexdigest()
    if lock.get(pid) != digest:
        res["reason"] = f"props/{pid}.v does not match its pinned text (statements.lock)"; return res
    ok, log, dt = run.build_coq([f"props/{pid}.vo"])
    if not ok:
        err = [l for l in log.splitlines() if "Error" in l or l.startswith("File ")][-6:]
        res["reason"] = "coq build failed: " + " | ".join(err); return res
    # re-run the property file alone to read its Print Assumptions output
    os.makedirs(os.path.join(run.BUILD, "tmpvo"), exist_ok=True)
    p = run.sh(f"timeout 600 coqc -q -Q theories Cas -Q proofs CasProofs -Q props CasProps -o {run.BUILD}/tmpvo/{pid}.vo props/{pid}.v",
               cwd=coq, check=False)
    if p.returncode != 0:
        res["reason"] = "coqc on the property file failed: " + p.stdout[-500:]; return res
    out = p.stdout
    res["assumptions"] = out.strip()
    blocks = re.findall(r"(Closed under the global context|Axioms:.*?(?=\n\S|\Z))", out, re.S)
    src = strip_comments(open(pf).read())
    thms = re.findall(r"\b(?:Theorem|Corollary)\s+(\w+)", src)
    n_print = len(re.findall(r"Print Assumptions", src))
    res["theorems"] = thms
    if n_print < len(thms) or len(blocks) < n_print:
        res["reason"] = f"{len(thms)} theorems but {n_print} Print Assumptions / {len(blocks)} reports"; return res
    allowed = PROPS[pid].get("allowed_axioms", [])
    for b in blocks:
        if b.startswith("Axioms:"):
            names = re.findall(r"^\s*([\w.]+)\s*:", b, re.M)
            bad = [n for n in names if n not in allowed]
            if bad:
                res["reason"] = f"assumptions outside the allow-list: {bad}"; return res
    # obligations: lemmas/theorems in the transitive dependencies of the property file (all compiled)
    dep = run.sh(f"coqdep -Q theories Cas -Q proofs CasProofs -Q props CasProps -sort props/{pid}.v", cwd=coq, check=False).stdout.split()
    n = 0
    for f in dep:
        f = f if f.endswith(".v") else f + ".v"
        fp = os.path.join(coq, f)
        if os.path.exists(fp):
            n += len(re.findall(r"^\s*(?:Theorem|Lemma|Corollary|Fact|Example|Remark)\s", strip_comments(open(fp).read()), re.M))
    res["obligations"] = res["discharged"] = n
    if tier == "thorough":
        c = run.sh(f"timeout 1500 coqchk -silent -o -Q theories Cas -Q proofs CasProofs -Q props CasProps CasProps.{pid}", cwd=coq, check=False, timeout=1600)
        res["coqchk"] = c.stdout.strip()[-1500:]
        if c.returncode != 0:
            res["reason"] = "coqchk failed: " + c.stdout[-400:]; return res
        ax = re.search(r"\* Axioms:\s*(.*?)\n\s*\n", c.stdout + "\n\n", re.S)
        if ax and "<none>" not in ax.group(1):
            bad = [n for n in re.findall(r"([\w.]+)", ax.group(1)) if n not in allowed]
            if bad:
                res["reason"] = f"coqchk reports axioms outside the allow-list: {bad[:5]}"; return res
    res["ok"] = True
    res["wall_s"] = time.time() - t0
    return res


def load_known():
    p = os.path.join(VERIF, "known_findings.json")
    return json.load(open(p)) if os.path.exists(p) else []


def match_known(pid, failure, known):
    for kf in known:
        if kf.get("status") != "open" or pid not in kf.get("properties", []):
            continue
        pred = suites.KNOWN_CLASSES.get(kf["class"])
        if pred and pred(failure):
            return kf
    return None


def main():
    args = sys.argv[1:]
    if not args:
        print("usage: check <Cxx> [--tier quick|thorough] [--replay file]"); sys.exit(2)
    pid = args[0]
    tier = os.environ.get("VERIF_TIER", "quick")
    seed = int(os.environ.get("VERIF_SEED", "20260923"))
    replay = None
    i = 1
    while i < len(args):
        if args[i] == "--tier":
            tier = args[i + 1]; i += 2
        elif args[i] == "--replay":
            replay = args[i + 1]; i += 2
        else:
            i += 1
    if tier not in ("quick", "thorough"):
        tier = "quick"
    if pid not in PROPS:
        print(f"unknown property {pid}"); sys.exit(2)
    if replay:
        sys.exit(suites.replay(pid, replay))
    t0 = time.time()
    os.makedirs(REPLAYS, exist_ok=True)
    for f in os.listdir(REPLAYS):
        if f.startswith(pid + "-"):
            os.remove(os.path.join(REPLAYS, f))
    spec = PROPS[pid]
    problems = []        # (kind, text) - broken proof obligation / correspondence
    # 1. proof
    proof = proof_step(pid, tier)
    if not proof["ok"]:
        problems.append(("proof", f"theorem(s) of props/{pid}.v no longer check: {proof['reason']}"))
    # 2. build from the current working tree
    try:
        run.build_ocaml(); run.build_shim(); run.build_harness()
        if spec.get("release"):
            run.build_harness(True)
    except run.BuildError as e:
        problems.append(("build", str(e)[-1500:]))
    # 3+4. suites
    failures, cov = [], dict(evaluations=0, distinct=set(), samples=[], dist={}, traces=0, suites={})
    if not any(k == "build" for k, _ in problems):
        for sname in spec["suites"]:
            r = suites.SUITES[sname](pid, tier, seed)
            cov["evaluations"] += r["evaluations"]
            cov["distinct"] |= r["distinct"]
            cov["traces"] += r.get("traces", 0)
            cov["samples"] += r["samples"][:2]
            cov["suites"][sname] = r.get("stats", {})
            for d in r["diffs"]:
                problems.append(("correspondence", d))
            failures += r["failures"]
    # 5. verdict
    known = load_known()
    exit_code = 0
    nviol = 0
    seen_known = set()
    reported = 0
    for n, f in enumerate(failures):
        kf = match_known(pid, f, known)
        if kf:
            if kf["id"] not in seen_known:
                seen_known.add(kf["id"])
                print(f"KNOWN-FINDING: property={pid} {kf['id']} {kf['summary']} (e.g. {f['where']})")
            continue
        nviol += 1
        if reported < 3:
            rp = os.path.join(REPLAYS, f"{pid}-{reported}.json")
            if reported == 0:
                try:
                    small = suites.minimise(f)
                except Exception:
                    small = None
                if small:
                    f = dict(f, case=small, original_case=f.get("case"), minimised=True)
            json.dump(dict(property=pid, kind="failing-input", suite=f["suite"], where=f["where"], tag=f["tag"],
                           message=f["message"], case=f.get("case"), mode=f.get("mode"), seed=seed, tier=tier,
                           fault_call=f.get("fault_call"), minimised=f.get("minimised", False), original_case=f.get("original_case"),
                           how_to_replay=f"bin/check {pid} --replay {rp}"), open(rp, "w"), indent=1)
            print(f"VIOLATION property={pid} replay={rp}")
            reported += 1
        exit_code = 1
    if problems and not nviol:
        rp = os.path.join(REPLAYS, f"{pid}-unproved.json")
        json.dump(dict(property=pid, kind="obligation-no-longer-checks",
                       obligations=[dict(kind=k, detail=t) for k, t in problems][:10], seed=seed, tier=tier,
                       note="no failing input was found on the implementation; the property is no longer shown to hold"),
                  open(rp, "w"), indent=1)
        print(f"VIOLATION property={pid} replay={rp} no-failing-input-found")
        exit_code = 1
    elif problems:
        for k, t in problems[:1]:
            print(f"NOTE {k}: {t[:300]}")
    # 6. evidence
    ev = dict(
        property_id=pid, tier=tier, seed=seed, level="proof",
        coverage=dict(
            obligations=max(proof["obligations"], 1) if proof["ok"] else max(proof["obligations"], 1),
            discharged=proof["discharged"] if proof["ok"] else 0,
            checker_cmd=proof["checker_cmd"],
            trusted_base=spec.get("trusted_base", []) + suites.COMMON_TRUSTED,
            theorems=proof["theorems"], print_assumptions=proof["assumptions"][-2000:],
            proof_ok=proof["ok"], proof_reason=proof["reason"],
            coqchk=(proof.get("coqchk") or "not run in this tier (quick): coqchk -o re-checks the compiled property file and everything it depends on in the thorough tier")[-600:],
            evaluations=cov["evaluations"], distinct_nontrivial=len(cov["distinct"]),
            rule=spec.get("rule", ""), samples=cov["samples"][:4] or [dict(note="proof-only run")],
            traces_validated_against_impl=cov["traces"], suites=cov["suites"],
            correspondence_breaks=len([1 for k, _ in problems if k == "correspondence"]),
            known_findings_seen=sorted(seen_known),
            explanation=spec.get("explanation", "")),
        assumptions=spec.get("assumptions", []),
        wall_s=round(time.time() - t0, 2), violations=nviol + (1 if (problems and not nviol) else 0))
    if not proof["ok"]:
        ev["coverage"]["discharged"] = 0
    os.makedirs(EVID, exist_ok=True)
    json.dump(ev, open(os.path.join(EVID, f"{pid}.json"), "w"), indent=1)
    oracle.HASH.close()
    print(f"{pid}: proof={'ok' if proof['ok'] else 'BROKEN'} evaluations={cov['evaluations']} distinct={len(cov['distinct'])} "
          f"violations={nviol} known={len(seen_known)} correspondence_breaks={len([1 for k, _ in problems if k == 'correspondence'])} "
          f"wall={time.time() - t0:.1f}s")
    sys.exit(exit_code)


if __name__ == "__main__":
    main()
