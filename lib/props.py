# props.py -- per property: which suites run, which oracle tags decide it, which parts of the
# model/implementation correspondence it depends on.
PROPS = {
    "C01": dict(
        suites=["seq"], tags={"returns", "reads", "order", "sizes", "reader_stable"}, corr={"ret"},
        rule="random sequential histories (3-4 keys incl. empty key, shared/empty/large contents, all chunkings, "
             "6 key types, N in {1,2,3,4,7,100}, both sync modes); distinct = distinct case bodies with >= 2 mutating ops",
        assumptions=["K: Ord agrees with key_cmp (checked by the iteration-order correspondence)"]),
    "C02": dict(
        suites=["seq", "conc"], tags={"reopen_same", "open_clean", "restart_conc"}, corr={"ret_open", "state"},
        rule="histories with close/open and checkpoint at random positions; state before close vs after open; after every concurrent program of K6 "
             "(forced and model-free schedules, no injected obstacle) the handle is dropped and the directory reopened: keys, sizes, reference counts and statistics unchanged",
        assumptions=["stats.index.serialized_size_bytes is specified as the length of the index file, not compared across restarts"]),
    "C03": dict(
        suites=["crash", "conc"], tags={"recover_open", "recover_state", "usable", "crash_conc"}, crash_corr={"image", "recovery"},
        rule="real process killed before every effective filesystem call of every history (incl. first-time init and "
             "crash during recovery via close/open in the history); distinct = distinct crash images; plus crash images of CONCURRENT runs (K6 programs, every step of the forced "
             "schedules and of a third of the model-free rounds, all threads parked): recovery = the index of that instant, no missing or corrupted blob",
        assumptions=["process-kill model: completed calls persist, a call is atomic"]),
    "C06": dict(
        suites=["seq", "crash", "sizes"], tags={"cas_content", "cas_immutable", "reader_stable"}, corr={"trace", "dir"}, crash_corr={"image"},
        rule="every CAS file re-hashed by the harness at every kill point and after every op; call traces never write under cas/"),
    "C07": dict(
        suites=["seq"], tags={"cas_exact", "staging_empty"}, corr={"dir"},
        rule="directory listing after every op of error-free sequential histories vs the set of live contents"),
    "C12": dict(
        suites=["seq", "crash", "sizes"], tags={"counts", "stats", "sizes"}, corr={"state", "ret_stats"}, crash_corr={"recovery"},
        rule="known_blobs / stats / sizes after every op, after reopen and after every crash recovery vs recount from the spec map"),
    "C13": dict(
        suites=["seq", "fault"], tags={"abort_noop", "staging_leftover"}, corr={"trace", "state", "dir"},
        rule="aborted transactions at random positions with all write patterns; observation before == after, trace only staging"),
    "C14": dict(
        suites=["fault"], tags={"contained", "nofail", "reopen"}, fault_corr={"ret"},
        rule="one EIO injected at every effective filesystem call of every history, then reads, two restarts and reads"),
    "C18": dict(
        suites=["seq", "codec", "sizes"], tags={"hash_identity", "roundtrip", "decoder_total", "cas_exact", "reads", "sizes", "counts"}, corr={"state", "dir"}, codec_kinds={"path", "unpath"},
        rule="entry hash == blake3(concat chunks) (blake3 crate oracle), file at hexpath(hash), for all chunkings"),
    "C20": dict(
        suites=["crash", "seq", "fault"], tags={"disk_wellformed", "disk_history"}, corr={"dir"}, crash_corr={"image"},
        rule="independent decoder of index and *.wal at every kill point: complete records, valid checksums, versions "
             "increasing and in their segment's range, snapshot+log == acknowledged history (or + in-flight op); the "
             "format clauses also on every directory listing of every history with one injected I/O error"),
    "C16": dict(
        suites=["codec"], tags={"decoder_total", "roundtrip", "alloc_bound"},
        rule="K1: random values of every encodable type through the real encoders, byte strings (valid, mutated, truncated, "
             "length fields straddling the input, huge counts) through the real decoders under catch_unwind with a counting allocator; "
             "distinct = distinct input lines",
        assumptions=["'never panics or overflows' and the allocation bound are decided for the real code by K1 sampling (debug build, "
                     "catch_unwind, counting allocator); the model has no overflow to exhibit"]),
    "C17": dict(
        suites=["range"], tags={"range_slice", "range_alloc"},
        rule="K8: all (L, start, end) with L in {0,1,2,5,9[,17,40]}, bounds 0..L+2 plus 2^32, 2^63, 2^64-1, and L around 8191/8192/8193"),
    "C10": dict(
        suites=["damage"], tags={"damage_accepted", "damage_panic"},
        rule="every truncation offset and every single-bit change (masks 0x01, 0x80) of checksum and payload bytes of every "
             "uncheckpointed record of logs produced by random clean histories (sampled positions for records above 120 bytes); "
             "real Cas::open on a copy with the damaged segment vs the model and vs the longest-undamaged-prefix state"),
    "C19": dict(
        suites=["settings"], tags={"gate_accepts", "gate_modifies", "precreate_observable"},
        rule="creation value x reopen value of num_ops_per_wal, stored version numbers 0,1,3,5,2^32-1, after random histories; "
             "directory compared byte for byte before/after the rejected open; same history with and without the pre-created tree (real library only)",
        assumptions=["JSON rendering/parsing of db_settings.json is serde_json's (trusted); the model stores the typed settings document",
                     "the pre-created tree is exercised on the real library only (the list-based model is quadratic in 65,536 directories)"]),
    "C04": dict(
        suites=["conc"], tags={"dangling", "nofail"},
        rule="K6: small concurrent programs (2-4 threads, puts/removes/range removes/reads/checkpoints/clean-up over 2-3 keys and 2-4 contents incl. same key and same "
             "content, pre-existing shared blobs and orphans) under schedules chosen by the Coq model at the granularity of lock acquisitions and filesystem calls; "
             "after every step: every indexed key's blob exists; distinct = distinct (thread, point) step sequences"),
    "C05": dict(
        suites=["conc"], tags={"read_atomic", "put_visible", "nofail"},
        rule="K6 schedules with readers parked between lookup and blob open; each read result must be a value the key held during the call"),
    "C15": dict(
        suites=["conc"], tags={"stuck"},
        rule="K6/K7: every worker reaches its next scheduling point within 10 s under every schedule; lock bits (pending_intents, state, wal) at every point equal the model's"),
    "C11": dict(
        suites=["race"], tags={"exclusive", "loser_modifies", "release"},
        rule="K9: random handle life-cycle scripts (opens with equal and differing configuration, clones, OrphanStats kept alive, drops, "
             "child processes holding the store, kill -9, 2-8 racing threads, 2-4 racing processes); every losing open is checked for "
             "AlreadyOpened, an identical directory and a call trace of exactly `create LOCK`"),
    "C09": dict(
        suites=["powerloss"], tags={"recover_open", "recover_state", "usable", "cas_content", "disk_wellformed", "disk_history"},
        rule="every cut point of the real recorded call trace (shim log with data) x every non-empty set of files that have unsynced bytes at that instant "
             "(all subsets up to 3 files) -> directory materialised -> real reopen -> acknowledged operations survive with intact blobs, in-flight op all-or-nothing",
        assumptions=["power-loss model of the property: bytes not covered by an explicit sync of their file are lost, directory operations persist in issue order"]),
    "C08": dict(
        suites=["orphans", "crash", "conc"], tags={"scan_exact", "cleanup_complete", "cleanup_harmful", "dangling"}, crash_corr={"recovery"},
        rule="planted garbage at every level of cas/ (unreferenced blobs, wrong bytes under canonical names, bad names, files at level 1 and 2, "
             "non-canonical spellings of a hash) and in staging/, after random histories and at every crash image; scan lists vs directory listing and spec map; "
             "delete_orphans / quarantine_orphans / delete_orphan then directory vs live contents; clean-up racing puts of orphaned content under model-chosen "
             "and model-free schedules"),
}
