# suites.py -- the correspondence suites (model vs implementation) with their oracles.
# Each suite returns dict(evaluations, distinct:set, samples, diffs:[str], failures:[dict], traces, stats)
import hashlib
import json
import os
import random
import re

import gen
import oracle
import run
from props import PROPS

COMMON_TRUSTED = [
    "Coq 8.16.1 kernel (coqc .vo build; coqchk in the thorough tier); vm_compute in Examples; no native_compute",
    "extraction: Require Extraction + ExtrOcamlBasic only (no Extract Constant / Extract Inductive of our own)",
    "OCaml driver ocaml/driver.ml (case parsing, printing, blake3 oracle pipe) and harness/src (Rust) are trusted glue",
    "LD_PRELOAD shim shim/fsshim.c: call tracing, kill-at-k, fail-at-k",
    "modelled, not verified: Linux VFS semantics (atomic rename, O_APPEND, O_EXCL, unlink with open readers, flock), "
    "Rust std (BufWriter 8 KiB rules, BTreeMap order), crates blake3/tempfile/serde_json/hex/parking_lot",
    "BLAKE3 is a Section variable of the Coq development (no axiom); collision-freedom appears only as explicit hypotheses",
]

STAGING_RE = re.compile(r"staging/#[^\] ,]*")


def canon_staging(l):
    return STAGING_RE.sub("staging/#", l)


def part_of(line):
    if line.startswith("R "):
        t = line.split()
        op = t[2] if len(t) > 2 else ""
        if op in ("stats", "blobs"): return "ret_stats"
        if op in ("open", "close"): return "ret_open"
        if op in ("delorphans", "quarantine", "delorphan"): return "ret_orphan"
        return "ret"
    if line.startswith(("O entries", "O blobs", "O stats", "O closed")): return "state"
    if line.startswith(("O F ", "O L ", "O S ")): return "dir"
    if line.startswith("T "): return "trace"
    if line.startswith("N "): return "count"
    if line.startswith("X "): return "proc"
    if line.startswith(("C ", "W ")): return "image"
    if line.startswith("V "): return "recovery"
    if line.startswith("CRASH "): return "image"
    if line.startswith("D "): return "damage"
    return "other"


def filt(lines, parts, sub=None):
    """the lines of the compared parts; write calls on a staging file are not compared (how a staged
    blob is cut into write calls, and whether an abandoned one is written at all, is a buffer size,
    not behaviour)"""
    out = []
    for l in lines:
        p = part_of(l)
        if p in parts or p == "proc":
            if sub and not sub(l):
                continue
            c = canon_staging(l)
            if c.startswith("T append staging/"):
                continue                      # what they must satisfy is the oracles' business (cas_immutable, abort_noop)
            if p == "trace" and "cas/" not in c and "staging/" not in c:
                continue                      # the compared trace is the traffic on blobs and staging files; index, log and
                                              # settings files are compared by content (dir / image parts)
            out.append(c)
    return out


def crash_blocks_collapsed(lines, parts):
    """kill-point blocks of a crash-all run reduced to the compared parts, without their number and
    without consecutive repetitions: a kill point that leaves the same image and the same recovery
    as its predecessor adds nothing (e.g. one more write call on a staging file)"""
    blocks, cur = [], None
    for l in lines:
        if l.startswith("CRASH "):
            cur = []; blocks.append(cur); continue
        if cur is None:
            continue
        if part_of(l) in parts or part_of(l) == "proc":
            cur.append(canon_staging(l))
    out = []
    for b in blocks:
        t = tuple(b)
        if not out or out[-1] != t:
            out.append(t)
    return out


def case_name(c):
    return c.split("\n", 1)[0][5:]


def case_hash(c):
    return hashlib.sha1(c.split("\n", 1)[1].encode()).hexdigest()[:16]


def dist_of(cases):
    d = {}
    for c in cases:
        for l in c.splitlines():
            t = l.split()
            if not t: continue
            if t[0] == "cfg":
                for kv in t[1:]:
                    d[kv] = d.get(kv, 0) + 1
            elif t[0] not in ("case", "end", "obs"):
                d["op:" + t[0]] = d.get("op:" + t[0], 0) + 1
                if t[0] == "put" and len(t) > 2 and "G:" in t[2]:
                    d["put:large"] = d.get("put:large", 0) + 1
    return d


def cached(key, fn):
    """cache suite outputs for identical (repo tree, verif sources, seed, tier, suite)"""
    h = hashlib.sha256((key + run.tree_hash(os.path.join(run.REPO, "src"), (".rs",)) +
                        run.tree_hash(os.path.join(run.VERIF, "harness", "src"), (".rs",)) +
                        run.tree_hash(os.path.join(run.VERIF, "coq", "theories"), (".v",)) +
                        run.tree_hash(os.path.join(run.VERIF, "lib"), (".py",)) +
                        run.tree_hash(os.path.join(run.VERIF, "ocaml"), ("driver.ml",)) +
                        run.tree_hash(os.path.join(run.VERIF, "shim"), (".c",)) +
                        open(os.path.join(run.REPO, "Cargo.toml")).read()).encode()).hexdigest()[:24]
    d = os.path.join(run.BUILD, "cache")
    os.makedirs(d, exist_ok=True)
    p = os.path.join(d, h + ".json")
    if os.path.exists(p) and not os.environ.get("VERIF_NOCACHE"):
        return json.load(open(p))
    v = fn()
    json.dump(v, open(p + ".tmp", "w"))
    os.replace(p + ".tmp", p)
    # keep the cache small: the 40 most recent results
    try:
        fs = sorted((os.path.join(d, f) for f in os.listdir(d) if f.endswith(".json")), key=os.path.getmtime)
        for old in fs[:-40]:
            os.remove(old)
    except OSError:
        pass
    return v


def both_sides(key, cases, mode, extra_env=None):
    names = [case_name(c) for c in cases]
    assert len(set(names)) == len(names), "duplicate case names: " + str([n for n in set(names) if names.count(n) > 1][:5])
    def go():
        real = run.run_sharded(cases, mode, "real", extra_env=extra_env)
        model = run.run_sharded(cases, mode, "model")
        return dict(real=real, model=model)
    r = cached(key, go)
    return r["real"], r["model"]


def headers_split(out):
    res, cur = {}, None
    for l in out.splitlines():
        if l.startswith("CASE "):
            cur = res.setdefault(l, [])
        elif cur is not None:
            cur.append(l)
    return res


def mk_failure(suite, mode, case, where, tag, message):
    return dict(suite=suite, mode=mode, case=case, where=where, tag=tag, message=message[:2000])


# ------------------------------------------------------------------------------- seq
def seq_extra_oracle(case_text, real_lines):
    """C06: no call ever writes, creates or truncates a path under cas/; C13: abort leaves no trace"""
    fails = []
    for l in real_lines:
        if l.startswith("T ") and re.match(r"T (FAULT )?(append|create|createx|opena) cas/", l):
            fails.append(("cas_immutable", f"a call writes into the CAS directory: {l}"))
    # abort: the obs block before and after must be identical, and the trace in between
    # touches only the transaction's own staging file
    lines = [l for l in case_text.splitlines() if l and not l.startswith(("case ", "end", "cfg "))]
    blocks, cur = [], None
    for l in real_lines:
        if l.startswith("R "):
            cur = None
        elif l.startswith(("O ", "T ")):
            if cur is None:
                cur = []; blocks.append(cur)
            cur.append(l)
    bi = 0
    prev_block = None
    prev_op = None
    for l in lines:
        if l == "obs":
            if bi < len(blocks):
                blk = blocks[bi]; bi += 1
                if prev_op and prev_op.startswith("abort ") and prev_block is not None:
                    a = [canon_staging(x) for x in prev_block if x.startswith("O ")]
                    b = [canon_staging(x) for x in blk if x.startswith("O ")]
                    if a != b:
                        d = [x for x in b if x not in a] + [x for x in a if x not in b]
                        fails.append(("abort_noop", f"`{prev_op}` changed the store: {d[:4]}"))
                    tr = [x for x in blk if x.startswith("T ")]
                    badtr = [x for x in tr if not re.match(r"T (createx|append|unlink) staging/", x)]
                    if badtr:
                        fails.append(("abort_noop", f"`{prev_op}` issued calls outside its staging file: {badtr[:4]}"))
                prev_block = blk
            prev_op = None
        else:
            prev_op = l if prev_op is None else "other"
    return fails


def suite_seq(pid, tier, seed):
    spec = PROPS[pid]
    n = spec.get("seq_n", {}).get(tier, 240 if tier == "quick" else 4000)
    rng = random.Random(seed * 1000003 + 17)
    cases = [gen.seq_case(f"s{i}", rng, length=rng.choice([6, 10, 14]), big=0.06) for i in range(n)]
    brng = random.Random(seed * 7919 + 5)
    cases += [gen.bulk_case(f"bulk{i}", brng, large=(i % 3 == 2)) for i in range(8 if tier == "quick" else 64)]
    if tier != "quick":
        cases += gen.exhaustive_histories(4, n=2) + [c.replace("case x", "case y", 1) for c in gen.exhaustive_histories(3, n=1)]
    real, model = both_sides(f"seq2-{tier}-{seed}-{n}", cases, "plain")
    R, M = run.by_case(real), run.by_case(model)
    parts = spec.get("corr", {"ret"})
    diffs, failures = [], []
    distinct = set()
    for c in cases:
        name = case_name(c)
        rl, ml = R.get(name, []), M.get(name, [])
        d = run.first_diff(filt(rl, parts), filt(ml, parts))
        if d:
            diffs.append(f"K2 history correspondence ({'+'.join(sorted(parts))}) differs in case {name}: impl `{d[1]}` vs model `{d[2]}`")
        fs = oracle.seq_oracle(c, rl) + seq_extra_oracle(c, rl)
        for tag, msg in fs:
            if tag in spec["tags"] or tag in ("nofail", "malformed"):
                failures.append(mk_failure("seq", "plain", c, name, tag, msg))
        muts = sum(1 for l in c.splitlines() if l.split()[0] in ("put", "remove", "remove_range", "abort", "checkpoint", "close"))
        if muts >= 2:
            distinct.add("seq:" + case_hash(c))
    return dict(evaluations=len(cases), distinct=distinct, samples=[dict(suite="seq", case=cases[0].splitlines()[:12])],
                diffs=diffs[:5], failures=failures, traces=sum(1 for c in cases if case_name(c) in R),
                stats=dict(cases=len(cases), distribution=dist_of(cases), diffs=len(diffs)))


# ------------------------------------------------------------------------------- crash
def suite_crash(pid, tier, seed):
    spec = PROPS[pid]
    n = spec.get("crash_n", {}).get(tier, 40 if tier == "quick" else 600)
    rng = random.Random(seed * 1000003 + 29)
    cases = [gen.crash_case(f"c{i}", rng, length=rng.choice([3, 4, 5, 6])) for i in range(n)]
    cases += gen.crash_corpus()
    if tier != "quick":
        # every history of length <= 2 over the small alphabet, killed at every call
        cases += [c.replace("case x", "case cx", 1) for c in gen.exhaustive_histories(2, n=1, tail=False)]
        cases += [c.replace("case x", "case cy", 1) for c in gen.exhaustive_histories(2, n=2, sync=0, tail=False)]
    real, model = both_sides(f"crash-{tier}-{seed}-{n}", cases, "crash-all")
    R, M = headers_split(real), headers_split(model)
    Rn = {h.split()[1]: (h, v) for h, v in R.items()}
    Mn = {h.split()[1]: (h, v) for h, v in M.items()}
    parts = spec.get("crash_corr", {"image", "recovery"})
    diffs, failures, distinct = [], [], set()
    points = 0
    for c in cases:
        name = case_name(c)
        if name not in Rn:
            diffs.append(f"K4 no output for case {name}"); continue
        rh, rl = Rn[name]
        mh, ml = Mn.get(name, ("", []))
        rb, mb = crash_blocks_collapsed(rl, parts), crash_blocks_collapsed(ml, parts)
        if rb != mb:
            # the sequence of DISTINCT crash states differs (kill points that repeat their predecessor's state do not count)
            i = next((i for i in range(max(len(rb), len(mb))) if i >= len(rb) or i >= len(mb) or rb[i] != mb[i]), 0)
            x = rb[i] if i < len(rb) else ("<missing>",)
            y = mb[i] if i < len(mb) else ("<missing>",)
            dl = next(((a, b) for a, b in zip(x, y) if a != b), (x[0] if x else "<empty>", y[0] if y else "<empty>"))
            if len(x) != len(y) and all(a == b for a, b in zip(x, y)):
                dl = ((x[len(y)] if len(x) > len(y) else "<missing>"), (y[len(x)] if len(y) > len(x) else "<missing>"))
            diffs.append(f"K4/K3 crash image / recovery correspondence differs in case {name} (distinct crash state #{i}; impl {rh.split()[-1]}, model {mh.split()[-1] if mh else '?'}): impl `{dl[0]}` vs model `{dl[1]}`")
        blocks = oracle.split_crash_blocks(rl)
        points += len(blocks)
        for tag, k, msg in oracle.crash_oracle(c, rl):
            if tag in spec["tags"] or tag in ("nofail", "malformed"):
                failures.append(mk_failure("crash", "crash-all", c, f"{name}@kill={k}", tag, msg))
        for b in blocks:
            img = hashlib.sha1("\n".join(canon_staging(l) for l in b["lines"] if l.startswith("C ")).encode()).hexdigest()[:16]
            distinct.add("img:" + img)
    return dict(evaluations=points, distinct=distinct,
                samples=[dict(suite="crash", case=cases[0].splitlines(), kill_points=len(oracle.split_crash_blocks(Rn[case_name(cases[0])][1])) if case_name(cases[0]) in Rn else 0)],
                diffs=diffs[:5], failures=failures, traces=points,
                stats=dict(cases=len(cases), kill_points=points, distribution=dist_of(cases), diffs=len(diffs)))


# ------------------------------------------------------------------------------- fault
def suite_fault(pid, tier, seed):
    spec = PROPS[pid]
    n = spec.get("fault_n", {}).get(tier, 40 if tier == "quick" else 600)
    rng = random.Random(seed * 1000003 + 31)
    cases = [gen.fault_case(f"f{i}", rng, length=rng.choice([3, 4, 5])) for i in range(n)]
    cases += gen.fault_corpus()
    real, model = both_sides(f"fault-{tier}-{seed}-{n}", cases, "fault-all")
    R, M = headers_split(real), headers_split(model)
    diffs, failures, distinct = [], [], set()
    bycase = {case_name(c): c for c in cases}
    # runs are matched by WHICH call failed (its description and its occurrence number among equal
    # descriptions), not by its position: one more or one fewer write call on a staging file shifts
    # all positions without changing behaviour.  Unmatched runs whose failed call is a staging write
    # are tolerated; any other unmatched run is a difference.
    def keyed(H):
        out, seen = {}, {}
        for h, ls in H.items():
            name = h.split()[1]
            fc = next((canon_staging(l[8:]) for l in ls if l.startswith("T FAULT ")), "no-fault")
            if fc.startswith("append staging/"):
                fc = "append staging/#"
            n = seen.get((name, fc), 0); seen[(name, fc)] = n + 1
            out[(name, fc, n)] = (h, ls)
        return out
    RK, MK = keyed(R), keyed(M)
    for key, (mh_, _) in MK.items():
        if key not in RK and not key[1].startswith("append staging/") and key[1] != "no-fault":
            diffs.append(f"K5 fail-at-k: implementation has no run in which `{key[1]}` (occurrence {key[2]}) of case {key[0]} fails")
    for key, (h, rl) in RK.items():
        name = key[0]
        ml = MK.get(key, (None, None))[1]
        if ml is None:
            if not key[1].startswith("append staging/") and key[1] != "no-fault":
                diffs.append(f"K5 fail-at-k: model has no run in which `{key[1]}` (occurrence {key[2]}) of case {name} fails")
            ml = None
        fparts = spec.get("fault_corr", {"ret"})
        # which write call of a staging file fails depends on the buffer size: such runs are judged by the oracle only
        d = run.first_diff(filt(rl, fparts), filt(ml, fparts)) if (ml is not None and not key[1].startswith("append staging/")) else None
        if d:
            diffs.append(f"K5 fail-at-k correspondence differs in `{h}` (failed call `{key[1]}`): impl `{d[1]}` vs model `{d[2]}`")
        fcall = next((l[8:] for l in rl if l.startswith("T FAULT ")), "")
        for tag, msg in oracle.fault_oracle(bycase[name], rl, h):
            if tag in spec["tags"] or tag == "malformed":
                f = mk_failure("fault", "fault:" + h.split("fault=")[1], bycase[name], h[5:], tag, msg)
                f["fault_call"] = fcall
                f["fault_op"] = next((l.split(" ", 2)[2].split(" -> ")[0] for l in rl if l.startswith("R ") and " -> err:" in l), "")
                failures.append(f)
        distinct.add("fault:" + hashlib.sha1("\n".join(l for l in rl if l.startswith("R ")).encode()).hexdigest()[:16])
    return dict(evaluations=len(R), distinct=distinct,
                samples=[dict(suite="fault", case=cases[0].splitlines(), fault_positions=sum(1 for h in R if h.split()[1] == case_name(cases[0])))],
                diffs=diffs[:5], failures=failures, traces=len(R),
                stats=dict(cases=len(cases), fault_runs=len(R), distribution=dist_of(cases), diffs=len(diffs)))



# ------------------------------------------------------------------------------- codec (K1)
def suite_codec(pid, tier, seed):
    import subprocess, tempfile
    spec = PROPS[pid]
    n = 6000 if tier == "quick" else 200000
    rng = random.Random(seed * 1000003 + 41)
    items = gen.codec_lines(rng, n)
    want = spec.get("codec_kinds")
    if want:
        items = [it for it in items if it[0].split()[0] in want]
    def go():
        d = run.scratch_dir()
        try:
            outs = {"real": [], "model": []}
            chunks = [items[i::run.NPROC] for i in range(run.NPROC)]
            from concurrent.futures import ThreadPoolExecutor
            def one(i):
                f = os.path.join(d, f"k{i}.txt")
                open(f, "w").write("\n".join(l for l, _ in chunks[i]) + "\n")
                r = subprocess.run([run.HX, "codec", f], stdout=subprocess.PIPE, text=True, timeout=1200).stdout.splitlines()
                m = subprocess.run([run.DRIVER, "--codec", f], stdout=subprocess.PIPE, stderr=subprocess.DEVNULL, text=True, timeout=1200).stdout.splitlines()
                return r, m
            with ThreadPoolExecutor(max_workers=run.NPROC) as ex:
                res = list(ex.map(one, range(run.NPROC)))
            return dict(res=res)
        finally:
            import shutil; shutil.rmtree(d, ignore_errors=True)
    res = cached(f"codec-{tier}-{seed}-{n}-{sorted(want) if want else ''}", go)["res"]
    diffs, failures, distinct = [], [], set()
    chunks = [items[i::run.NPROC] for i in range(run.NPROC)]
    nlines = 0
    kinds = {}
    for ci, (r, m) in enumerate(res):
        for li, (line, exp) in enumerate(chunks[ci]):
            nlines += 1
            kind = line.split()[0]
            kinds[kind] = kinds.get(kind, 0) + 1
            rl = r[li] if li < len(r) else "<missing>"
            ml = m[li] if li < len(m) else "<missing>"
            body = rl.split(" -> ", 1)[1] if " -> " in rl else rl
            val, _, peak = body.rpartition(" peak=")
            mval = ml.split(" -> ", 1)[1] if " -> " in ml else ml
            if val != mval:
                diffs.append(f"K1 codec correspondence differs on `{line[:120]}`: impl `{val[:120]}` vs model `{mval[:120]}`")
            where = f"codec line `{line[:200]}`"
            if val == "PANIC" or rl == "<missing>":
                failures.append(mk_failure("codec", "codec", line, where, "decoder_total", f"decoder panicked or died on {line[:300]}"))
            elif exp is not None and val != exp:
                failures.append(mk_failure("codec", "codec", line, where, "roundtrip", f"`{line[:300]}` gave `{val[:300]}`, the documented format gives `{exp[:300]}`"))
            if kind in ("decop", "decidx") and peak.isdigit():
                inlen = (len(line.split()[1]) // 2) if line.split()[1] != "-" else 0
                if int(peak) > 64 * inlen + 8192:
                    failures.append(mk_failure("codec", "codec", line, where, "alloc_bound", f"decoder allocated {peak} bytes for an input of {inlen} bytes"))
            distinct.add("k1:" + hashlib.sha1(line.encode()).hexdigest()[:16])
    failures = [f for f in failures if f["tag"] in spec["tags"] or f["tag"] == "malformed"]
    return dict(evaluations=nlines, distinct=distinct, samples=[dict(suite="codec", lines=[l for l, _ in items[:6]])],
                diffs=diffs[:5], failures=failures, traces=nlines, stats=dict(lines=nlines, kinds=kinds, diffs=len(diffs)))


# ------------------------------------------------------------------------------- range cube (K8)
def suite_range(pid, tier, seed):
    spec = PROPS[pid]
    rng = random.Random(seed * 1000003 + 43)
    cases = gen.range_cases(rng, tier == "thorough")
    real, model = both_sides(f"range-{tier}-{seed}", cases, "plain")
    R, M = run.by_case(real), run.by_case(model)
    diffs, failures, distinct = [], [], set()
    nreq = 0
    for c in cases:
        name = case_name(c)
        rl, ml = R.get(name, []), M.get(name, [])
        d = run.first_diff(filt(rl, {"ret"}), filt(ml, {"ret"}))
        if d:
            diffs.append(f"K8 range correspondence differs in case {name}: impl `{d[1]}` vs model `{d[2]}`")
        for tag, msg in oracle.seq_oracle(c, rl):
            if tag in ("reads", "sizes", "nofail", "returns"):
                failures.append(mk_failure("range", "plain", c, name, "range_slice", msg))
        # allocation: `A <idx> peak=<n> len=<L>` lines follow range results
        L = None
        for l in rl:
            if l.startswith("R ") and " size " in l and "size:" in l:
                L = int(l.rsplit("size:", 1)[1])
            if l.startswith("A "):
                pk = int(l.split("peak=")[1].split()[0])
                if L is not None and pk > L + 16384:
                    failures.append(mk_failure("range", "plain", c, name, "range_alloc", f"range request allocated {pk} bytes for a blob of {L} bytes: {l}"))
        for l in rl:
            if l.startswith("R ") and " range " in l:
                nreq += 1
                distinct.add("rg:" + name + ":" + l.split(" -> ")[0].split(" ", 2)[2])
    failures = [f for f in failures if f["tag"] in spec["tags"] or f["tag"] == "malformed"]
    return dict(evaluations=nreq, distinct=distinct, samples=[dict(suite="range", case=cases[1].splitlines()[:10])],
                diffs=diffs[:5], failures=failures, traces=len(cases), stats=dict(cases=len(cases), requests=nreq, diffs=len(diffs)))



def two_segment_bases(rng, count):
    """histories whose last rollover checkpoint fails (injected error at `create index.tmp`): at rest
    the uncheckpointed records then span two segment files.  The fault index is read off the
    model's own call trace."""
    protos = []
    for i in range(count):
        n = rng.choice([2, 2, 3])
        kt = "bytes"
        keys = gen.key_pool(kt, rng, 3)
        lines = [f"case dd{i}", f"cfg kt={kt} n={n} sync=1", "open"]
        nops = n + rng.choice([1, 1, 2]) if n > 2 else n + 1
        for j in range(nops):
            k = gen.hexs(keys[j % len(keys)])
            lines.append(f"put {k} {bytes([65 + j, 66 + i % 20]).hex()}" if rng.random() < 0.8 or j < 2 else f"remove {k}")
        protos.append(lines)
    probe = ["\n".join(l + ["obs", "close", "end"]) + "\n" for l in protos]
    out = run.run_sharded(probe, "plain", "model")
    M = run.by_case(out)
    res = []
    for l in protos:
        name = l[0][5:]
        tl = [x for x in M.get(name, []) if x.startswith("T ")]
        idxs = [i for i, x in enumerate(tl) if x == "T create index.tmp"]
        if not idxs:
            continue
        res.append("\n".join(l[:2] + [f"fault {idxs[-1]}"] + l[2:] + ["close", "end"]) + "\n")
    return res


# ------------------------------------------------------------------------------- damage (C10)
def suite_damage(pid, tier, seed):
    spec = PROPS[pid]
    n = 10 if tier == "quick" else 60          # every byte offset and every bit of every record: ~1000 opens per case
    rng = random.Random(seed * 1000003 + 47)
    cases = [gen.damage_case(f"d{i}", rng, length=rng.choice([3, 4, 5, 6])) for i in range(n)]
    cases += two_segment_bases(rng, max(4, n // 3))
    # runs of identical records (the same key and content put twice in a row, the same absent-again key
    # removed after a re-put of unchanged content): damage in the repeat must be detected like any other
    cases.append("case dcorpus_repeat\ncfg kt=bytes n=100 sync=1\nopen\nput 616c706861 4141\nput 686f74 4444\nput 686f74 4444\nput 686f74 4444\nremove 616c706861\nput 616c706861 4141\nput 616c706861 4141\nclose\nend\n")
    real, model = both_sides(f"damage2-{tier}-{seed}-{n}", cases, "damage-all")
    R, M = run.by_case(real), run.by_case(model)
    diffs, failures, distinct = [], [], set()
    nd = 0
    kinds = {"t": 0, "x": 0, "opened": 0, "err": 0}
    for c in cases:
        name = case_name(c)
        rl, ml = R.get(name, []), M.get(name, [])
        d = run.first_diff(filt(rl, {"damage"}), filt(ml, {"damage"}))
        if d:
            diffs.append(f"K3 damaged-log correspondence differs in case {name}: impl `{d[1][:160]}` vs model `{d[2][:160]}`")
        for tag, where, msg in oracle.damage_oracle(c, rl):
            if tag in spec["tags"] or tag == "malformed":
                failures.append(mk_failure("damage", "damage-all", c, f"{name} {where}", tag, msg))
        for l in rl:
            if l.startswith("D "):
                nd += 1
                t = l.split()
                kinds[t[2]] = kinds.get(t[2], 0) + 1
                kinds["opened" if " -> opened" in l else "err"] += 1
                distinct.add("dm:" + hashlib.sha1((name + l).encode()).hexdigest()[:16])
    return dict(evaluations=nd, distinct=distinct, samples=[dict(suite="damage", case=cases[0].splitlines(), first_damages=[l for l in R.get(case_name(cases[0]), []) if l.startswith("D ")][:3])],
                diffs=diffs[:5], failures=failures, traces=nd, stats=dict(cases=len(cases), damages=nd, kinds=kinds, diffs=len(diffs)))



# ------------------------------------------------------------------------------- settings gate (C19)
def suite_settings(pid, tier, seed):
    spec = PROPS[pid]
    n = 60 if tier == "quick" else 1500
    rng = random.Random(seed * 1000003 + 53)
    cases = [gen.settings_case(f"g{i}", rng) for i in range(n)]
    real, model = both_sides(f"settings-{tier}-{seed}-{n}", cases, "plain")
    R, M = run.by_case(real), run.by_case(model)
    diffs, failures, distinct = [], [], set()
    for c in cases:
        name = case_name(c)
        rl, ml = R.get(name, []), M.get(name, [])
        d = run.first_diff(filt(rl, {"ret", "ret_open", "dir"}), filt(ml, {"ret", "ret_open", "dir"}))
        if d:
            diffs.append(f"K3 settings-gate correspondence differs in case {name}: impl `{d[1][:160]}` vs model `{d[2][:160]}`")
        for tag, msg in oracle.settings_oracle(c, rl) + [(t, m) for t, m in oracle.seq_oracle(c, rl) if t in ("reads", "nofail")]:
            if tag in spec["tags"] or tag in ("nofail", "malformed"):
                failures.append(mk_failure("settings", "plain", c, name, tag, msg))
        distinct.add("st:" + case_hash(c))
    # pre-created directory tree: real library only (the list-based model is quadratic in 65,536 directories);
    # the same history with and without pre-creation, and a reopen with the opposite configuration
    npre = 2 if tier == "quick" else 8
    pre_cases = []
    for i in range(npre):
        r2 = random.Random(seed * 7919 + i)
        base = gen.seq_case(f"p{i}", r2, length=8, obs_every=False, big=0.0, kt="bytes", n=3, sync=1)
        pre_cases.append(base)
        pre_cases.append(base.replace(f"case p{i}", f"case p{i}pre", 1).replace("sync=1", "sync=1 pre=1", 1).replace("\nclose\nopen\n", "\nclose\nopen pre=0\n"))
    def go():
        return dict(real=run.run_sharded(pre_cases, "plain", "real"))
    pr = run.by_case(cached(f"settings-pre-{tier}-{seed}-{npre}", go)["real"])
    for i in range(npre):
        a = [l.split(" ", 2)[2] for l in pr.get(f"p{i}", []) if l.startswith("R ")]
        b = [l.split(" ", 2)[2].replace(" pre=0", "") for l in pr.get(f"p{i}pre", []) if l.startswith("R ")]
        if a != b or not a:
            dd = next(((x, y) for x, y in zip(a, b) if x != y), ("<length>", "<length>"))
            failures.append(mk_failure("settings", "plain", pre_cases[2 * i + 1], f"p{i}pre", "precreate_observable",
                                       f"pre-created directory tree changes behaviour: without `{dd[0][:150]}` with `{dd[1][:150]}`"))
        distinct.add("stp:" + str(i))
    # first open with pre-creation interrupted by an I/O error inside the 65,536-mkdir loop (real library
    # only): the failed open must not leave state that later opens rely on - a later open succeeds and
    # every put lands, whichever pre-creation flag that open passes
    nint = 3 if tier == "quick" else 12
    int_cases = []
    for i in range(nint):
        r3 = random.Random(seed * 104729 + i)
        k = r3.choice([9, 40, 700, 5000, 30000, 65000])
        conts = [("%02x" % (r3.randrange(256))) * r3.choice([1, 3, 9]) + ("%02x" % j) for j in range(14)]
        later = "" if r3.random() < 0.5 else " pre=0"
        lines = [f"case pi{i}", "cfg kt=bytes n=3 sync=1 pre=1", f"fault {k}", "open", f"open{later}"]
        lines += [f"put {('%02x' % (97 + j))} {c}" for j, c in enumerate(conts)] + [f"get {('%02x' % (97 + j))}" for j in range(len(conts))]
        lines += ["close", "open"] + [f"get {('%02x' % (97 + j))}" for j in range(len(conts))] + ["close", "end"]
        int_cases.append("\n".join(lines) + "\n")
    ir = run.by_case(cached(f"settings-int-{tier}-{seed}-{nint}", lambda: dict(real=run.run_sharded(int_cases, "plain", "real")))["real"])
    for c in int_cases:
        name = case_name(c)
        res = {int(m.group(1)): m.group(3) for m in (oracle.R_RE.match(l) for l in ir.get(name, [])) if m}
        ops = oracle.op_lines(c)
        if not res or res.get(0, "").startswith("opened"):
            distinct.add("sti:" + name); continue          # the fault did not hit the first open
        for j, l in enumerate(ops[1:], start=1):
            t = l.split(); r = res.get(j)
            bad = None
            if t[0] == "open" and not (r or "").startswith("opened"):
                bad = f"open after an interrupted creating open failed: {r}"
            elif t[0] == "put" and r != "ok":
                bad = f"`{l}` after an interrupted creating open returned {r}"
            elif t[0] == "get":
                cont = bytes.fromhex(ops[2 + (ord(bytes.fromhex(t[1])) - 97)].split()[2])
                if r != "bytes:" + oracle.show_content(cont):
                    bad = f"`{l}` returned {r}"
            elif t[0] == "close" and r != "ok":
                bad = f"close returned {r}"
            if bad:
                failures.append(mk_failure("settings", "plain", c, name, "precreate_observable", bad)); break
        distinct.add("sti:" + name)
    failures = [f for f in failures if f["tag"] in spec["tags"] or f["tag"] in ("nofail", "malformed")]
    return dict(evaluations=len(cases) + len(pre_cases) + len(int_cases), distinct=distinct, samples=[dict(suite="settings", case=cases[0].splitlines())],
                diffs=diffs[:5], failures=failures, traces=len(cases), stats=dict(cases=len(cases), precreate_pairs=npre, diffs=len(diffs)))



# ------------------------------------------------------------------------------- sizes (C18)
def suite_sizes(pid, tier, seed):
    spec = PROPS[pid]
    rng = random.Random(seed * 1000003 + 59)
    cases = gen.sizes_cases(rng, tier == "thorough")
    real, model = both_sides(f"sizes-{tier}-{seed}", cases, "plain")
    R, M = run.by_case(real), run.by_case(model)
    diffs, failures, distinct = [], [], set()
    for c in cases:
        name = case_name(c)
        rl, ml = R.get(name, []), M.get(name, [])
        d = run.first_diff(filt(rl, {"ret", "state", "dir"}), filt(ml, {"ret", "state", "dir"}))
        if d:
            diffs.append(f"K2 size-boundary correspondence differs in case {name}: impl `{d[1][:160]}` vs model `{d[2][:160]}`")
        for tag, msg in oracle.seq_oracle(c, rl):
            if tag in spec["tags"] or tag in ("nofail", "malformed"):
                failures.append(mk_failure("sizes", "plain", c, name, tag, msg[:600]))
        distinct.add("sz:" + case_hash(c))
    return dict(evaluations=sum(c.count("\nput ") for c in cases), distinct=distinct, samples=[dict(suite="sizes", case=cases[3].splitlines())],
                diffs=diffs[:5], failures=failures, traces=len(cases), stats=dict(cases=len(cases), diffs=len(diffs)))



# ------------------------------------------------------------------------------- conc (K6/K7)
def suite_conc(pid, tier, seed):
    import subprocess
    from concurrent.futures import ThreadPoolExecutor
    spec = PROPS[pid]
    nprog = 120 if tier == "quick" else 3000
    nsched = 4 if tier == "quick" else 10
    rng = random.Random(seed * 1000003 + 61)
    corpus = gen.conc_corpus() + gen.conc_fault_corpus()
    cases = list(corpus)
    for i in range(nprog):
        prog = gen.conc_case(f"q{i}", rng)
        for j in range(nsched):
            cases.append(prog.replace(f"conc q{i}\n", f"conc q{i}s{j}\n", 1).rsplit("seed ", 1)[0] + f"seed {rng.randrange(1, 10**6)}\nend\n")
    def go():
        d = run.scratch_dir()
        try:
            shards = [cases[i::run.NPROC] for i in range(run.NPROC)]
            def one(i):
                f = os.path.join(d, f"c{i}.case"); mo = os.path.join(d, f"c{i}.model")
                open(f, "w").write("".join(shards[i]))
                m = subprocess.run([run.DRIVER, "--oracle", f"{run.HX} hashd", "--conc", f], stdout=subprocess.PIPE, stderr=subprocess.DEVNULL, text=True, timeout=2400).stdout
                open(mo, "w").write(m)
                r = subprocess.run([run.HX, "conc", f, mo], stdout=subprocess.PIPE, stderr=subprocess.DEVNULL, text=True, timeout=2400, env=dict(run.ENV, HX_TMP=d)).stdout
                return r, m
            with ThreadPoolExecutor(max_workers=run.NPROC) as ex:
                res = list(ex.map(one, range(run.NPROC)))
            return dict(real="".join(r for r, _ in res), model="".join(m for _, m in res))
        finally:
            import shutil; shutil.rmtree(d, ignore_errors=True)
    r = cached(f"conc-{tier}-{seed}-{nprog}-{nsched}", go)
    R, M = run.by_case(r["real"]), run.by_case(r["model"])
    # model-free exploration of the same programs on the real library: schedules the (correct) model
    # would never choose, e.g. a thread entering a critical section the model considers locked
    rounds = 18 if tier == "quick" else 90
    # model-free runs: the corpus, and one copy of (at most 400 of) the random programs, `rounds` times each
    free_cases = gen.conc_corpus() * 3 + gen.conc_fault_corpus() * 2 + [c for c in cases[len(corpus)::nsched]][:400]
    free_cases = [c.replace("\n", f"_f{i}\n", 1) for i, c in enumerate(free_cases)]
    def go_free():
        d = run.scratch_dir()
        try:
            outs = []
            shards = [free_cases[i::run.NPROC] for i in range(run.NPROC)]
            def one(args):
                i, rd = args
                f = os.path.join(d, f"f{i}_{rd}.case")
                open(f, "w").write("".join(shards[i]))
                return subprocess.run([run.HX, "conc", f, f"free:{seed * 131 + rd}"], stdout=subprocess.PIPE, stderr=subprocess.DEVNULL, text=True, timeout=2400, env=dict(run.ENV, HX_TMP=d)).stdout
            with ThreadPoolExecutor(max_workers=run.NPROC) as ex:
                for rd in range(rounds):
                    outs.append((rd, "".join(ex.map(one, [(i, rd) for i in range(run.NPROC)]))))
            return dict(rounds=outs)
        finally:
            import shutil; shutil.rmtree(d, ignore_errors=True)
    fr = cached(f"concfree-{tier}-{seed}-{nprog}-{rounds}", go_free)["rounds"]
    nfree = 0
    free_fail = []
    for rd, out in fr:
        FR = run.by_case(out)
        for c in free_cases:
            name = c.split("\n", 1)[0][5:]
            rl = FR.get(name, [])
            nfree += 1
            for tag, msg in oracle.conc_oracle(c, rl):
                if tag in spec["tags"] or tag == "malformed":
                    sched_txt = "\n".join(" ".join(l.split()[1:6]) for l in rl if l.startswith("S ") and not l.startswith("S init"))
                    free_fail.append(mk_failure("conc", "conc-free", c + f"# model-free exploration, seed {seed * 131 + rd}; observed schedule:\n" + sched_txt + "\n", f"{name} (free round {rd})", tag, msg))
    diffs, failures, distinct = [], [], set()
    nsteps = 0
    # an injected obstacle makes a call return an error: which error type the library wraps it in is not modelled
    # (the `R ...` lines - restart after the run - and `K ...` lines - crash images - are judged by the oracle alone: the model carries no log bytes)
    canon = lambda ls: [re.sub(r"-> err:(?!panic|BlobDataMissing)\S+.*$", "-> err:fault", re.sub(r" (I|S)=\d+", r" \1=*", l)) for l in ls[1:] if not l.startswith(("R ", "K "))]
    for c in cases:
        name = c.split("\n", 1)[0][5:]
        rl, ml = R.get(name, []), M.get(name, [])
        d = run.first_diff(canon(rl), canon(ml))
        if d:
            diffs.append(f"K6/K7 forced-schedule correspondence differs in case {name}: impl `{d[1][:200]}` vs model `{d[2][:200]}`")
        for tag, msg in oracle.conc_oracle(c, rl):
            if tag in spec["tags"] or tag == "malformed":
                failures.append(mk_failure("conc", "conc", c + "# schedule (model steps)\n" + "\n".join(" ".join(l.split()[1:6]) for l in ml if l.startswith("S ") and not l.startswith("S init")) + "\n", name, tag, msg))
        nsteps += sum(1 for l in rl if l.startswith("S "))
        distinct.add("cc:" + hashlib.sha1("\n".join(" ".join(l.split()[2:6]) for l in rl if l.startswith("S ")).encode()).hexdigest()[:16])
    failures += free_fail
    # a worker that misses its time-out on a loaded machine is not a deadlock: every `stuck` report of a
    # model-driven case is confirmed by running that case again, alone; a real deadlock under a forced
    # schedule reproduces, a scheduling hiccup does not
    stuck = [f for f in failures if f["tag"] == "stuck" and f.get("mode") == "conc"]
    if stuck:
        bycase = {c.split("\n", 1)[0][5:]: c for c in cases}
        d = run.scratch_dir()
        try:
            confirmed = []
            for f in stuck[:6]:
                c = bycase.get(f["where"])
                if c is None:
                    confirmed.append(f); continue
                cf = os.path.join(d, "confirm.case"); open(cf, "w").write(c)
                mf = os.path.join(d, "confirm.model")
                m = subprocess.run([run.DRIVER, "--oracle", f"{run.HX} hashd", "--conc", cf], stdout=subprocess.PIPE, stderr=subprocess.DEVNULL, text=True, timeout=600).stdout
                open(mf, "w").write(m)
                r = subprocess.run([run.HX, "conc", cf, mf], stdout=subprocess.PIPE, stderr=subprocess.DEVNULL, text=True, timeout=600, env=dict(run.ENV, HX_TMP=d)).stdout
                if any(t == "stuck" for t, _ in oracle.conc_oracle(c, run.by_case(r).get(f["where"], []))):
                    confirmed.append(f)
            drop = [f for f in stuck[:6] if f not in confirmed]
            failures = [f for f in failures if f not in drop]
        finally:
            import shutil; shutil.rmtree(d, ignore_errors=True)
    return dict(evaluations=len(cases) + nfree, distinct=distinct, samples=[dict(suite="conc", case=cases[0].splitlines())],
                diffs=diffs[:5], failures=failures, traces=len(cases), stats=dict(programs=nprog, model_schedules=len(cases), free_schedules=nfree, steps=nsteps, diffs=len(diffs)))



# ------------------------------------------------------------------------------- race (K9, C11)
def suite_race(pid, tier, seed):
    import subprocess
    from concurrent.futures import ThreadPoolExecutor
    spec = PROPS[pid]
    n = 40 if tier == "quick" else 800
    rng = random.Random(seed * 1000003 + 67)
    cases = gen.race_cases(rng, n)
    def go():
        d = run.scratch_dir()
        try:
            shards = [cases[i::run.NPROC] for i in range(run.NPROC)]
            def one(i):
                f = os.path.join(d, f"r{i}.txt"); open(f, "w").write("".join(shards[i]))
                r = subprocess.run([run.HX, "race", f], stdout=subprocess.PIPE, stderr=subprocess.DEVNULL, text=True, timeout=1200, env=dict(run.ENV, LD_PRELOAD=run.SHIM, HX_TMP=d)).stdout
                m = subprocess.run([run.DRIVER, "--race", f], stdout=subprocess.PIPE, stderr=subprocess.DEVNULL, text=True, timeout=1200).stdout
                return r, m
            with ThreadPoolExecutor(max_workers=run.NPROC) as ex:
                res = list(ex.map(one, range(run.NPROC)))
            return dict(real="".join(r for r, _ in res), model="".join(m for _, m in res))
        finally:
            import shutil; shutil.rmtree(d, ignore_errors=True)
    r = cached(f"race-{tier}-{seed}-{n}", go)
    R, M = run.by_case(r["real"]), run.by_case(r["model"])
    diffs, failures, distinct = [], [], set()
    nev = 0
    for c in cases:
        name = c.split("\n", 1)[0][5:]
        rl, ml = R.get(name, []), M.get(name, [])
        d = run.first_diff(rl[1:], ml[1:])
        if d:
            diffs.append(f"K9 open/lock correspondence differs in case {name}: impl `{d[1][:160]}` vs model `{d[2][:160]}`")
        for tag, msg in oracle.race_oracle(c, rl):
            if tag in spec["tags"] or tag == "malformed":
                failures.append(mk_failure("race", "race", c, name, tag, msg))
        nev += sum(1 for l in rl if l.startswith("E "))
        distinct.add("rc:" + hashlib.sha1(c.split("\n", 1)[1].encode()).hexdigest()[:16])
    return dict(evaluations=nev, distinct=distinct, samples=[dict(suite="race", case=cases[0].splitlines()[:12])],
                diffs=diffs[:5], failures=failures, traces=len(cases), stats=dict(scripts=len(cases), events=nev, diffs=len(diffs)))



# ------------------------------------------------------------------------------- power loss (C09)
def suite_powerloss(pid, tier, seed):
    spec = PROPS[pid]
    n = 48 if tier == "quick" else 800
    rng = random.Random(seed * 1000003 + 71)
    cases = [gen.crash_case(f"w{i}", rng, length=rng.choice([3, 4, 5, 6]), big=0.2, sync_only=True) for i in range(n)]
    cases += [c.replace("case corpus_", "case plcorpus_", 1) for c in gen.crash_corpus()] + gen.powerloss_corpus()
    real, model = both_sides(f"powerloss2-{tier}-{seed}-{n}", cases, "powerloss-all", extra_env={"HX_SHIM_DATA": "1"})
    R, M = headers_split(real), headers_split(model)
    Rn = {h.split()[1]: (h, v) for h, v in R.items()}
    Mn = {h.split()[1]: (h, v) for h, v in M.items()}
    diffs, failures, distinct = [], [], set()
    points = 0
    for c in cases:
        name = case_name(c)
        if name not in Rn:
            diffs.append(f"K3 power-loss: no output for case {name}"); continue
        rh, rl = Rn[name]
        mh, ml = Mn.get(name, ("", []))
        strip = lambda ls: [re.sub(r"^A .*victims=", "A victims=", l) for l in ls]
        d = run.first_diff(filt(strip(rl), {"image", "recovery"}) + [canon_staging(l) for l in strip(rl) if l.startswith("A ")],
                           filt(strip(ml), {"image", "recovery"}) + [canon_staging(l) for l in strip(ml) if l.startswith("A ")])
        if rh != mh:
            diffs.append(f"K3 power-loss: number of effective calls differs in case {name}: impl `{rh}` vs model `{mh}`")
        elif d:
            diffs.append(f"K3 power-loss image / recovery correspondence differs in case {name}: impl `{d[1][:160]}` vs model `{d[2][:160]}`")
        blocks = oracle.split_crash_blocks(rl)
        points += len(blocks)
        for tag, k, msg in oracle.crash_oracle(c, rl):
            if tag in spec["tags"] or tag in ("nofail", "malformed"):
                vic = next((l for b in blocks if b["k"] == k for l in b["lines"] if l.startswith("A ")), "")
                failures.append(mk_failure("powerloss", "powerloss-all", c, f"{name}@cut={k} {vic[vic.find('victims='):][:200]}", tag, msg))
        for b in blocks:
            distinct.add("pl:" + hashlib.sha1("\n".join(canon_staging(l) for l in b["lines"] if l.startswith(("C ", "A "))).encode()).hexdigest()[:16])
    return dict(evaluations=points, distinct=distinct,
                samples=[dict(suite="powerloss", case=cases[0].splitlines(), images=len(oracle.split_crash_blocks(Rn[case_name(cases[0])][1])) if case_name(cases[0]) in Rn else 0)],
                diffs=diffs[:5], failures=failures, traces=points, stats=dict(cases=len(cases), images=points, distribution=dist_of(cases), diffs=len(diffs)))



# ------------------------------------------------------------------------------- orphans (C08)
def suite_orphans(pid, tier, seed):
    spec = PROPS[pid]
    n = 60 if tier == "quick" else 1500
    rng = random.Random(seed * 1000003 + 73)
    cases = [gen.orphan_case(f"o{i}", rng, noncanonical=(i % 6 == 5)) for i in range(n)]
    cases += [gen.orphan_case(f"om{i}", rng, missing=True) for i in range(n // 4)]
    real, model = both_sides(f"orphans2-{tier}-{seed}-{n}", cases, "plain")
    R, M = run.by_case(real), run.by_case(model)
    diffs, failures, distinct = [], [], set()
    for c in cases:
        name = case_name(c)
        rl, ml = R.get(name, []), M.get(name, [])
        d = run.first_diff(filt(rl, {"ret", "ret_open", "ret_orphan", "dir"}), filt(ml, {"ret", "ret_open", "ret_orphan", "dir"}))
        if d:
            diffs.append(f"K3 orphan scan / clean-up correspondence differs in case {name}: impl `{d[1][:200]}` vs model `{d[2][:200]}`")
        for tag, msg in oracle.orphan_oracle(c, rl):
            if tag in spec["tags"] or tag == "malformed":
                failures.append(mk_failure("orphans", "plain", c, name, tag, msg))
        distinct.add("or:" + case_hash(c))
    return dict(evaluations=len(cases), distinct=distinct, samples=[dict(suite="orphans", case=cases[0].splitlines())],
                diffs=diffs[:5], failures=failures, traces=len(cases), stats=dict(cases=len(cases), distribution=dist_of(cases), diffs=len(diffs)))


SUITES = dict(seq=suite_seq, crash=suite_crash, fault=suite_fault, codec=suite_codec, range=suite_range, damage=suite_damage, settings=suite_settings, sizes=suite_sizes, conc=suite_conc, race=suite_race, powerloss=suite_powerloss, orphans=suite_orphans)

# ------------------------------------------------------------------------------- known findings
KNOWN_CLASSES = {}


def known_class(name):
    def deco(f):
        KNOWN_CLASSES[name] = f
        return f
    return deco


@known_class("wal_fault_then_reclaim")
def _f4(f):
    """F4: the injected error hit the WAL append or WAL sync of an operation (its record stays in the
    writer's buffer or in the file and becomes durable later) and the blob it names was reclaimed
    afterwards: a later read or open reports the blob missing."""
    fc = f.get("fault_call", "")
    is_wal = fc.startswith(("append ", "sync ")) and fc.split()[1].endswith("_index.wal")
    sym = ("BlobDataMissing" in f["message"]) or ("IntegrityCheckFailed" in f["message"]) or ("missing=[" in f["message"] and "missing=[]" not in f["message"])
    fop = f.get("fault_op", "").split()
    is_put = len(fop) >= 2 and fop[0] == "put"
    same_key = is_put and (f" {fop[1]}`" in f["message"] or f"get {fop[1]} " in f["message"] or "open" in f["message"])
    return f["suite"] == "fault" and is_wal and sym and is_put and same_key


# ------------------------------------------------------------------------------- minimisation
def _oracle_tags(suite, case, real_out):
    """tags the suite's oracle raises for one case on one real output"""
    if suite in ("seq", "sizes", "range"):
        rl = run.by_case(real_out).get(case_name(case), [])
        return {t for t, _ in oracle.seq_oracle(case, rl) + seq_extra_oracle(case, rl)} | ({"range_slice"} if suite == "range" and oracle.seq_oracle(case, rl) else set())
    if suite == "settings":
        rl = run.by_case(real_out).get(case_name(case), [])
        return {t for t, _ in oracle.settings_oracle(case, rl)}
    if suite == "orphans":
        rl = run.by_case(real_out).get(case_name(case), [])
        return {t for t, _ in oracle.orphan_oracle(case, rl)}
    if suite in ("crash", "powerloss"):
        H = headers_split(real_out)
        rl = next((v for h, v in H.items() if h.split()[1] == case_name(case)), [])
        return {t for t, _, _ in oracle.crash_oracle(case, rl)}
    if suite == "fault":
        tags = set()
        for h, rl in headers_split(real_out).items():
            tags |= {t for t, _ in oracle.fault_oracle(case, rl, h)}
        return tags
    return None


def minimise(f, budget=30):
    """drop operations from the failing case while the same oracle tag still fires on the real library"""
    suite, mode, case, tag = f["suite"], f.get("mode", "plain"), f.get("case"), f["tag"]
    if not case or mode not in ("plain", "crash-all", "fault-all", "powerloss-all") and not mode.startswith("fault:"):
        return None
    if mode.startswith("fault:"):
        mode = "fault-all"
    env = {"HX_SHIM_DATA": "1"} if suite == "powerloss" else None
    lines = case.rstrip("\n").split("\n")
    keep = lambda l: l.split()[0] in ("case", "cfg", "end", "fault", "open", "close", "conc", "race") if l.split() else True
    tries = 0
    i = len(lines) - 1
    changed = False
    while i >= 0 and tries < budget:
        if keep(lines[i]):
            i -= 1; continue
        cand = lines[:i] + lines[i + 1:]
        text = "\n".join(cand) + "\n"
        tries += 1
        try:
            out = run.run_sharded([text], mode, "real", nshards=1, timeout=300, extra_env=env)
            tags = _oracle_tags(suite, text, out)
        except Exception:
            tags = None
        if tags is not None and tag in tags:
            lines = cand; changed = True
        i -= 1
    return "\n".join(lines) + "\n" if changed else None


# ------------------------------------------------------------------------------- replay
def replay(pid, path):
    """re-executes one replay file on the current tree, model and implementation side by side"""
    rp = json.load(open(path))
    if rp.get("kind") != "failing-input" or not rp.get("case"):
        print(json.dumps(rp, indent=1)); return 0
    run.build_ocaml(); run.build_shim(); run.build_harness()
    mode = rp.get("mode", "plain")
    real = run.run_sharded([rp["case"]], mode, "real", nshards=1)
    model = run.run_sharded([rp["case"]], mode, "model", nshards=1)
    print("---- case ----"); print(rp["case"])
    print("---- recorded failure ----"); print(rp["tag"], rp["message"])
    ra, mb = [canon_staging(l) for l in real.splitlines()], [canon_staging(l) for l in model.splitlines()]
    print("---- implementation vs model (first 40 differing lines) ----")
    n = 0
    for i in range(max(len(ra), len(mb))):
        x = ra[i] if i < len(ra) else "<none>"; y = mb[i] if i < len(mb) else "<none>"
        if x != y and not x.startswith(("A ", "P ")):
            print(f"impl : {x}\nmodel: {y}"); n += 1
            if n >= 40: break
    print(f"{n} differing lines")
    return 0
