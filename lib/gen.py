# gen.py -- seeded generators of case files (format: ocaml/driver.ml / harness/src/cases.rs).
import random
import struct

KEY_TYPES = ["bytes", "string", "u32", "i64", "u128", "arr4"]


def hexs(b: bytes) -> str:
    return b.hex() if b else "-"


def key_pool(kt: str, rng: random.Random, n: int):
    """Valid keys of the type; the order of the type differs from byte order where possible."""
    if kt == "bytes":
        base = [b"", b"a", b"ab", b"b", b"\xff", b"a\x00", b"\x00", b"zz", b"k1", b"k2"]
    elif kt == "string":
        base = ["", "a", "ab", "b", "é", "z", "中", "k1", "\U0001f600", "~"]
        base = [s.encode() for s in base]
    elif kt == "u32":
        base = [struct.pack("<I", v) for v in [0, 1, 256, 2, 65536, 255, 2**32 - 1, 257, 16777216, 3]]
    elif kt == "i64":
        base = [struct.pack("<q", v) for v in [0, -1, 1, -256, 256, 2**63 - 1, -2**63, 255, -255, 2]]
    elif kt == "u128":
        base = [int(v).to_bytes(16, "little") for v in [0, 1, 2**64, 2**127, 255, 256, 2**128 - 1, 2, 2**64 + 1, 3]]
    elif kt == "arr4":
        base = [bytes(v) for v in [[0, 0, 0, 0], [0, 0, 0, 1], [1, 0, 0, 0], [255, 255, 255, 255], [0, 1, 0, 0], [97, 98, 99, 100], [1, 1, 1, 1], [2, 0, 0, 0], [0, 0, 1, 0], [9, 9, 9, 9]]]
    else:
        raise ValueError(kt)
    idx = list(range(len(base)))
    rng.shuffle(idx)
    chosen = [base[i] for i in idx[:n]]
    if kt in ("bytes", "string") and rng.random() < 0.5 and b"" not in chosen:
        chosen[0] = b""
    return chosen


def content_pool(rng: random.Random, n: int, big: float):
    """Contents as lists of chunk specs (strings); includes empty, shared, and large ones."""
    pool = []
    small = [b"", b"x", b"hello", b"hello world", b"\x00\x01\x02", b"A" * 40, b"B" * 100]
    for _ in range(n):
        r = rng.random()
        if r < big:
            ln = rng.choice([8100, 8148, 8149, 8191, 8192, 8193, 9000, 16384, 20000, 70000])
            pool.append(("G", rng.randrange(1, 200), ln))
        else:
            pool.append(("L", rng.choice(small)))
    if all(p != ("L", b"") for p in pool) and rng.random() < 0.6:
        pool[0] = ("L", b"")
    return pool


def chunking(spec, rng: random.Random) -> str:
    """Render one content as a chunk list, split in a random way (incl. empty chunks)."""
    if spec[0] == "G":
        _, seed, ln = spec
        # generated contents are split on the generator's own offsets: G:seed:len is position
        # dependent, so a split uses explicit hex for small pieces only; keep large ones whole or
        # in two literal-free parts is impossible -> whole
        return big_chunking(seed, ln, rng)
    data = spec[1]
    if not data:
        r = rng.random()
        return "." if r < 0.4 else ("-" if r < 0.8 else "-,-")
    cuts = sorted(rng.sample(range(len(data) + 1), k=min(len(data) + 1, rng.choice([0, 0, 1, 2, 3]))))
    parts, prev = [], 0
    for c in cuts:
        parts.append(data[prev:c]); prev = c
    parts.append(data[prev:])
    if rng.random() < 0.2:
        parts.insert(rng.randrange(len(parts) + 1), b"")
    return ",".join(hexs(p) for p in parts)


def content_bytes(spec, off=0) -> bytes:
    if spec[0] == "G":
        _, seed, ln = spec[:3]
        return bytes(((seed * 131 + i * 31 + (i // 251) * 17) & 255) for i in range(off, off + ln))
    return spec[1]


def big_chunking(seed, ln, rng):
    """split a generated content of length ln into chunks (offset syntax G:seed:len:off)"""
    r = rng.random()
    if r < 0.3 or ln == 0:
        return f"G:{seed}:{ln}"
    if rng.random() < 0.3:
        # writes of mixed sizes around the buffer sizes in use (small after large, large after small)
        pool = [1, 7, 100, 4095, 4096, 8191, 8192, 8193, 16383, 16384, 16385, 32768, 65535, 65536, 65537, 100000]
        parts, off = [], 0
        while off < ln:
            l = min(rng.choice(pool), ln - off)
            parts.append(f"G:{seed}:{l}:{off}"); off += l
            if rng.random() < 0.1:
                parts.append("-")
        return ",".join(parts)
    if r < 0.55:
        step = rng.choice([4096, 8192, 65536, 100000])
    elif r < 0.8:
        step = rng.choice([1000, 8191, 8193, 30000])
    else:
        cut = rng.randrange(ln + 1)
        return ",".join(x for x in [f"G:{seed}:{cut}:0" if cut else "-", f"G:{seed}:{ln - cut}:{cut}" if ln - cut else "-"])
    parts, off = [], 0
    while off < ln:
        l = min(step, ln - off)
        parts.append(f"G:{seed}:{l}:{off}"); off += l
    return ",".join(parts)


def sort_key(kt, b: bytes):
    if kt in ("u8", "u16", "u32", "u64", "u128"):
        return (int.from_bytes(b, "little"), b)
    if kt in ("i8", "i16", "i32", "i64", "i128"):
        return (int.from_bytes(b, "little", signed=True), b)
    return (0, b)


def bounds(kt, keys, rng):
    """A pair of range bounds that BTreeMap::range accepts (start <= end, not both excluded when
    equal); inverted bounds panic in a plain BTreeMap as well and are outside every property."""
    def one():
        if rng.random() < 0.25:
            return None
        return rng.choice(keys)
    a, b = one(), one()
    if a is not None and b is not None and sort_key(kt, a) > sort_key(kt, b):
        a, b = b, a
    ia, ib = rng.random() < 0.5, rng.random() < 0.5
    if a is not None and a == b and not ia and not ib:
        ia = True
    f = lambda k, inc: "U" if k is None else (("I:" if inc else "E:") + hexs(k))
    return f(a, ia), f(b, ib)


def seq_case(name, rng: random.Random, length=12, obs_every=True, big=0.08, allow_reopen=True,
             kt=None, n=None, sync=None, reads=True):
    kt = kt or rng.choice(KEY_TYPES)
    n = n or rng.choice([1, 2, 3, 4, 7, 100])
    sync = rng.choice([1, 1, 0]) if sync is None else sync
    keys = key_pool(kt, rng, rng.choice([2, 3, 4]))
    contents = content_pool(rng, rng.choice([2, 3, 4]), big)
    lines = [f"case {name}", f"cfg kt={kt} n={n} sync={sync}", "open"]
    holds, readers_ok = [], True
    if obs_every:
        lines.append("obs")
    for _ in range(length):
        r = rng.random()
        k = hexs(rng.choice(keys))
        if r < 0.40:
            lines.append(f"put {k} {chunking(rng.choice(contents), rng)}")
        elif r < 0.47:
            lines.append(f"abort {k} {chunking(rng.choice(contents), rng)}")
        elif r < 0.60:
            lines.append(f"remove {k}")
        elif r < 0.68:
            lo, hi = bounds(kt, keys, rng)
            lines.append(f"remove_range {lo} {hi}")
        elif r < 0.70 and readers_ok:
            slot = f"r{len(holds)}"
            lines.append(f"hold {slot} {k}"); holds.append(slot)
        elif r < 0.74:
            lines.append("checkpoint")
        elif r < 0.84 and allow_reopen:
            lines.append("close"); lines.append("open")
        elif reads:
            q = rng.random()
            if q < 0.3:
                lines.append(f"get {k}")
            elif q < 0.4:
                lines.append(f"size {k}")
            elif q < 0.6:
                a = rng.choice([0, 1, 2, 5, 11, 12, 100, 8192, 2**32, 2**63, 2**64 - 1])
                b = rng.choice([0, 1, 3, 5, 11, 12, 100, 8193, 2**32, 2**63, 2**64 - 1])
                lines.append(f"range {k} {a} {b}")
            elif q < 0.7:
                lines.append(f"reader {k}")
            elif q < 0.8:
                lo, hi = bounds(kt, keys, rng)
                lines.append(f"riter {lo} {hi}")
            else:
                lines.append("iter")
        else:
            lines.append(f"get {k}")
        if obs_every:
            lines.append("obs")
    for k in keys:
        lines.append(f"get {hexs(k)}")
    for slot in holds:
        lines.append(f"drain {slot}")
    lines += ["iter", "stats", "blobs", "close", "open", "obs", "close", "end"]
    return "\n".join(lines) + "\n"


def bulk_case(name, rng: random.Random, large=False):
    """Many keys at once: histories whose ranges span hundreds of keys (large: one to three thousand,
    with long keys, so that a single range removal is logged as a record of 64-200 KiB), so that
    anything done per batch, per page, per chunk of keys or per record size is exercised past its
    first unit."""
    kt = rng.choice(["u32", "i64", "bytes", "string"])
    nk = rng.choice([1100, 1700, 2600]) if large else rng.choice([129, 130, 200, 257, 300, 385, 513])
    span = max(400, nk)
    vals = rng.sample(range(-span, span) if kt == "i64" else range(0, 2 * span), nk)
    if kt == "u32":
        keys = [struct.pack("<I", v * 257 % 100003) for v in vals]
    elif kt == "i64":
        keys = [struct.pack("<q", v * 1000003) for v in vals]
    elif large:
        keys = [b"key-%05d-" % v + b"x" * 54 for v in vals]
    else:
        keys = [b"k%03d" % v for v in vals]
    keys = list(dict.fromkeys(keys))
    contents = [hexs(bytes([65 + i]) * (i + 1)) for i in range(4)]
    n = rng.choice([100, 1000]) if large else rng.choice([7, 100, 1000])
    lines = [f"case {name}", f"cfg kt={kt} n={n} sync=0", "open"]
    # in half of the large cases every key has its own content: a range removal then drops the last
    # reference of hundreds of blobs at once
    own = large and rng.random() < 0.5
    for i, k in enumerate(keys):
        lines.append(f"put {hexs(k)} {hexs(b'own-%05d' % i) if own else rng.choice(contents)}")
    lines += ["iter", "stats"]
    srt = sorted(keys, key=lambda b: sort_key(kt, b))
    for rnd in range(3):
        q = rng.random()
        if q < 0.35:
            lo, hi = "U", "U"
        elif large and rnd == 0:
            # the first removal of a large case always spans (nearly) everything: well over a thousand keys
            i, j = rng.randrange(0, 20), len(srt) - rng.randrange(0, 20)
            lo = ("I:" if rng.random() < 0.5 else "E:") + hexs(srt[i])
            hi = "U" if j >= len(srt) else ("I:" if rng.random() < 0.5 else "E:") + hexs(srt[j])
        else:
            i = rng.randrange(0, len(srt) // 3)
            j = rng.randrange(max(i + 129, len(srt) * 2 // 3), len(srt) + 1) if len(srt) - i > 130 else len(srt)
            j = min(j, len(srt))
            lo = ("I:" if rng.random() < 0.5 else "E:") + hexs(srt[i])
            hi = "U" if j >= len(srt) else ("I:" if rng.random() < 0.5 else "E:") + hexs(srt[j])
        if rng.random() < 0.4:
            lines.append(f"riter {lo} {hi}")
        lines.append(f"remove_range {lo} {hi}")
        lines += ["iter", "stats", "blobs"]
        for k in rng.sample(keys, 4):
            lines.append(f"get {hexs(k)}")
        if rng.random() < 0.5:
            lines += ["close", "open", "iter", "stats"]
        for k in rng.sample(keys, min(len(keys), 140)):
            lines.append(f"put {hexs(k)} {rng.choice(contents)}")
        srt = sorted(keys, key=lambda b: sort_key(kt, b))
    lines += ["iter", "stats", "blobs", "obs", "close", "open", "obs", "close", "end"]
    return "\n".join(lines) + "\n"


def exhaustive_histories(maxlen, n=2, sync=1, tail=True):
    """EVERY history up to a length over a small alphabet (two keys, two contents, all operation
    kinds, restart): the thorough tier runs them all - small-scope completeness next to the random
    large-scope cases"""
    import itertools
    alpha = ["put 6b31 4141", "put 6b31 4242", "put 6b32 4141", "remove 6b31", "remove_range U U", "checkpoint", "close\nopen", "abort 6b31 4141"]
    out = []
    for ln in range(1, maxlen + 1):
        for i, combo in enumerate(itertools.product(alpha, repeat=ln)):
            lines = [f"case x{ln}_{i}", f"cfg kt=bytes n={n} sync={sync}", "open"] + (["obs"] if tail else [])
            for o in combo:
                lines += o.split("\n") + (["obs"] if tail else [])
            if tail:
                lines += ["get 6b31", "get 6b32", "iter", "stats", "blobs", "close", "open", "obs", "close", "end"]
            else:
                lines += ["close", "end"]
            out.append("\n".join(lines) + "\n")
    return out


def crash_case(name, rng: random.Random, length=5, big=0.15, kt=None, sync_only=False):
    """Short write-heavy histories for kill-at-k / fail-at-k; no obs lines (they cost nothing in
    the model but the harness dumps after the kill anyway)."""
    kt = kt or rng.choice(["bytes", "bytes", "string", "u32", "i64"])
    n = rng.choice([1, 2, 2, 3, 4, 100])
    keys = key_pool(kt, rng, rng.choice([2, 3]))
    contents = content_pool(rng, rng.choice([2, 3]), big)
    lines = [f"case {name}", f"cfg kt={kt} n={n} sync={1 if sync_only else rng.choice([1, 1, 0])}", "open"]
    for _ in range(length):
        r = rng.random()
        k = hexs(rng.choice(keys))
        if r < 0.55:
            lines.append(f"put {k} {chunking(rng.choice(contents), rng)}")
        elif r < 0.70:
            lines.append(f"remove {k}")
        elif r < 0.80:
            lo, hi = bounds(kt, keys, rng)
            lines.append(f"remove_range {lo} {hi}")
        elif r < 0.87:
            lines.append("checkpoint")
        elif r < 0.93:
            lines.append(f"abort {k} {chunking(rng.choice(contents), rng)}")
        else:
            lines.append("close"); lines.append("open")
    lines += ["close", "end"]
    return "\n".join(lines) + "\n"


def fault_case(name, rng: random.Random, length=4, big=0.12):
    """history + read-back of every key + two restart cycles with read-backs (for fail-at-k)"""
    base = crash_case(name, rng, length=length, big=big).splitlines()
    body = base[:-2]                      # drop the trailing close / end
    keys = []
    for l in body:
        t = l.split()
        if t[0] in ("put", "abort", "remove") and t[1] not in keys:
            keys.append(t[1])
    gets = [f"get {k}" for k in keys]
    tail = gets + ["obs", "close", "open"] + gets + ["close", "open"] + gets + ["obs", "close", "end"]
    return "\n".join(body + tail) + "\n"


def crash_corpus():
    """hand-written cases that run first: records straddling the 8 KiB writer buffer, rollover at
    every position, crash during first-time initialisation and during recovery"""
    return [
        "case corpus_bigkey\ncfg kt=bytes n=100 sync=1\nopen\nput 6b31 68656c6c6f\nput G:7:9000 78\nremove G:7:9000\nclose\nend\n",
        "case corpus_bigkey_edge\ncfg kt=bytes n=2 sync=1\nopen\nput G:3:8103 78\nput G:3:8104 79\nput G:3:8105 7a\nclose\nend\n",
        "case corpus_roll1\ncfg kt=bytes n=1 sync=1\nopen\nput 61 01\nput 62 01\nput 61 02\nremove 62\nclose\nopen\nput 63 03\nclose\nend\n",
        "case corpus_reopen\ncfg kt=string n=3 sync=1\nopen\nput 61 01\nput 62 02\nclose\nopen\nput 63 03\nput 61 03\nclose\nopen\nremove_range U U\nclose\nend\n",
        "case corpus_ckpt\ncfg kt=u32 n=2 sync=1\nopen\nput 01000000 aa\ncheckpoint\nput 00010000 aa\nput 02000000 bb\ncheckpoint\nremove 01000000\nclose\nend\n",
        # eleven rollovers of two-operation segments (segment ids reach two digits: 9_index.wal, still holding an
        # operation above the snapshot's version, and 10_index.wal live together in the
        # window between the append into a new segment and the snapshot rename), conflicting operations in
        # consecutive segments
        "case corpus_roll22\ncfg kt=bytes n=2 sync=1\nopen\n" + "".join(f"put 61 {i:02x}\n" if i % 6 else "remove 61\n" for i in range(1, 24)) + "close\nend\n",
    ]


def fault_corpus():
    return [
        "case corpus_shared_roll\ncfg kt=bytes n=3 sync=1\nopen\nput 6f 30\nput 61 5858\nput 62 5858\nremove 61\nremove 62\nget 61\nget 62\nobs\nclose\nopen\nget 61\nget 62\nclose\nopen\nget 61\nget 62\nobs\nclose\nend\n",
        "case corpus_shared_roll2\ncfg kt=bytes n=2 sync=1\nopen\nput 61 5858\nput 62 5858\nput 61 5959\nput 62 5a5a\nget 61\nget 62\nobs\nclose\nopen\nget 61\nget 62\nclose\nopen\nget 61\nget 62\nobs\nclose\nend\n",
        "case corpus_shared_rm\ncfg kt=bytes n=100 sync=1\nopen\nput 61 5858\nput 62 5858\nremove 61\nremove 62\nget 61\nget 62\nobs\nclose\nopen\nget 61\nget 62\nclose\nopen\nget 61\nget 62\nobs\nclose\nend\n",
        "case corpus_shared_ow\ncfg kt=bytes n=100 sync=1\nopen\nput 61 5858\nput 62 5858\nput 61 5959\nput 62 5a5a\nget 61\nget 62\nobs\nclose\nopen\nget 61\nget 62\nclose\nopen\nget 61\nget 62\nobs\nclose\nend\n",
        "case corpus_f4\ncfg kt=bytes n=100 sync=1\nopen\nput 6b32 5858\nput 6b 5858\nremove 6b32\nget 6b\nget 6b32\nobs\nclose\nopen\nget 6b\nget 6b32\nclose\nopen\nget 6b\nclose\nend\n",
        "case corpus_froll\ncfg kt=bytes n=1 sync=1\nopen\nput 61 01\nput 62 02\nput 61 03\nget 61\nget 62\nobs\nclose\nopen\nget 61\nget 62\nclose\nopen\nget 61\nget 62\nclose\nend\n",
    ]


# ------------------------------------------------------------------ K1: codec lines
def rand_bytes(rng, n):
    return bytes(rng.randrange(256) for _ in range(n))


def codec_lines(rng: random.Random, n: int):
    """structured mostly-valid inputs plus a malformed stream (mutations, truncations, length
    fields straddling the input, huge counts)"""
    lines = []
    def rkey():
        r = rng.random()
        if r < 0.15: return b""
        if r < 0.8: return rand_bytes(rng, rng.choice([1, 2, 3, 8, 17]))
        if r < 0.97: return rand_bytes(rng, rng.choice([100, 255, 256, 300]))
        return rand_bytes(rng, rng.choice([65535, 65536, 65537, 70000]))      # past every 16-bit length
    def rsize():
        return rng.choice([0, 1, 255, 256, 2**32 - 1, 2**32, 2**63, 2**64 - 1, rng.randrange(2**64)])
    def enc_put(k, h, sz):
        return b"\x00" + struct.pack("<I", len(k)) + k + h + struct.pack("<Q", sz)
    def enc_rm(ks):
        return b"\x01" + struct.pack("<I", len(ks)) + b"".join(struct.pack("<I", len(k)) + k for k in ks)
    def enc_idx(ver, es):
        return struct.pack("<QI", ver, len(es)) + b"".join(struct.pack("<I", len(k)) + k + h + struct.pack("<Q", s) for k, h, s in es)
    def mutate(b):
        b = bytearray(b)
        r = rng.random()
        if not b: return bytes(b)
        if r < 0.35:
            b[rng.randrange(len(b))] ^= 1 << rng.randrange(8)
        elif r < 0.65:
            del b[rng.randrange(len(b)):]
        elif r < 0.8:
            b += rand_bytes(rng, rng.choice([1, 4, 9]))
        else:
            i = rng.randrange(len(b)); b[i:i + 4] = struct.pack("<I", rng.choice([0xffffffff, 0x7fffffff, len(b), len(b) + 1, 0x10000]))
        return bytes(b)
    for _ in range(n):
        r = rng.random()
        if r < 0.12:
            k, h, sz = rkey(), rand_bytes(rng, 32), rsize()
            lines.append((f"encop put {hexs(k)} {h.hex()} {sz}", hexs(enc_put(k, h, sz))))
        elif r < 0.2:
            ks = [rkey() for _ in range(rng.choice([0, 1, 2, 5, 40]))]
            lines.append(("encop rm " + (",".join(hexs(k) for k in ks) if ks else "."), hexs(enc_rm(ks))))
        elif r < 0.32:
            if rng.random() < 0.5:
                k, h, sz = rkey(), rand_bytes(rng, 32), rsize()
                b, exp = enc_put(k, h, sz), f"ok put {hexs(k)} {h.hex()} {sz}"
            else:
                ks = [rkey() for _ in range(rng.choice([0, 1, 3, 9]))]
                b, exp = enc_rm(ks), "ok rm " + (",".join(hexs(k) for k in ks) if ks else ".")
            lines.append((f"decop {hexs(b + (rand_bytes(rng, 3) if rng.random() < 0.2 else b''))}", exp))
        elif r < 0.5:
            b = enc_put(rkey(), rand_bytes(rng, 32), rsize()) if rng.random() < 0.5 else enc_rm([rkey() for _ in range(rng.choice([0, 1, 3, 9]))])
            lines.append((f"decop {hexs(mutate(b))}", None))
        elif r < 0.55:
            lines.append((f"decop {hexs(rand_bytes(rng, rng.choice([0, 1, 4, 5, 9, 45])))}", None))
        elif r < 0.6:
            # huge count, tiny input
            hb = bytes([1]) + struct.pack('<I', rng.choice([0xffffffff, 0x80000000, 1000])) + rand_bytes(rng, rng.choice([0, 3, 4, 8]))
            lines.append((f"decop {hexs(hb)}", None))
        elif r < 0.63:
            # typed snapshot round trip: keys of one key type (numeric types: little-endian, so that the
            # type's order differs from the byte order), ordered by the type, through encoder and decoder
            kt, nb = rng.choice([("u16", 2), ("u32", 4), ("u64", 8), ("u128", 16), ("i8", 1), ("i16", 2), ("i32", 4), ("i64", 8), ("i128", 16), ("u8", 1), ("arr4", 4), ("bytes", 0), ("string", 0)])
            def tkey():
                if kt == "string": return rng.choice([b"", b"a", b"ab", "é".encode(), b"zz", b"k%d" % rng.randrange(50)])
                if kt == "bytes": return rkey()
                q = rng.random()
                if q < 0.4: return rand_bytes(rng, nb)
                if q < 0.6: return (rng.randrange(0, 600)).to_bytes(16, "little")[:nb]
                if q < 0.8: return ((2 ** (8 * nb) - 1 - rng.randrange(0, 300)) % 2 ** (8 * nb)).to_bytes(nb, "little")
                return bytes([0] * nb)
            keys = list(dict.fromkeys(tkey() for _ in range(rng.choice([1, 2, 3, 6, 12]))))
            es = ";".join(f"{hexs(k)}={rand_bytes(rng, 32).hex()}:{rsize()}" for k in keys)
            lines.append((f"rtidx {kt} {rng.choice([0, 1, 7, 2**64 - 1])} {es}", f"same {len(keys)}"))
        elif r < 0.66:
            keys = sorted({rkey() for _ in range(rng.choice([0, 1, 2, 6]))})
            es = ";".join(f"{hexs(k)}={rand_bytes(rng, 32).hex()}:{rsize()}" for k in keys)
            lines.append((f"encidx {rng.choice([0, 1, 7, 2**64 - 1])} {es if es else '.'}", None))
        elif r < 0.82:
            keys = [rkey() for _ in range(rng.choice([0, 1, 2, 6]))]      # unsorted, duplicates possible
            b = enc_idx(rng.choice([0, 1, 7, 2**64 - 1]), [(k, rand_bytes(rng, 32), rsize()) for k in keys])
            if rng.random() < 0.6: b = mutate(b)
            if rng.random() < 0.1: b = struct.pack("<QI", 3, rng.choice([0xffffffff, 0x80000000])) + rand_bytes(rng, 5)
            lines.append((f"decidx {hexs(b)}", None))
        elif r < 0.88:
            kt = rng.choice(["string", "u8", "u16", "u32", "u64", "u128", "i8", "i32", "i64", "i128", "arr4", "bytes"])
            if kt == "string":
                cand = rng.choice([b"", b"abc", "é".encode(), b"\xc3", b"\xe4\xb8\xad", b"\xed\xa0\x80", b"\xf0\x9f\x98\x80", b"\xf4\x90\x80\x80", b"\xc0\x80", b"\xff", b"a\xe2\x82", rand_bytes(rng, 3)])
            else:
                cand = rand_bytes(rng, rng.choice([0, 1, 2, 4, 8, 16, 3]))
            lines.append((f"keydec {kt} {hexs(cand)}", None))
        elif r < 0.94:
            kt, nb = rng.choice([("u8", 1), ("u16", 2), ("u32", 4), ("u64", 8), ("u128", 16), ("i8", 1), ("i16", 2), ("i32", 4), ("i64", 8), ("i128", 16), ("arr4", 4)])
            def num():
                q = rng.random()
                if q < 0.3: return rand_bytes(rng, nb)
                if q < 0.5: return bytes([0] * nb)
                if q < 0.7: return bytes([255] * nb)
                return bytes([0] * (nb - 1) + [rng.choice([127, 128, 1])])
            lines.append((f"keycmp {kt} {hexs(num())} {hexs(num())}", None))
        elif r < 0.97:
            hx = rand_bytes(rng, 32).hex()
            lines.append((f"path {hx}", f"{hx[0:2]}/{hx[2:4]}/{hx[4:]}"))
        else:
            hx = rand_bytes(rng, 32).hex()
            comps = [hx[0:2], hx[2:4], hx[4:]]
            q = rng.random()
            exp = None
            if q < 0.3: exp = "ok " + hx
            elif q < 0.45: comps = [c.upper() for c in comps]
            elif q < 0.6: comps = [hx[0:1], hx[1:4], hx[4:]]
            elif q < 0.7: comps = [hx[0:2], hx[2:4], hx[4:-1]]
            elif q < 0.8: comps = [hx[0:2], hx[2:4], hx[4:-1] + "g"]
            elif q < 0.9: comps = ["xx"] + comps
            else: comps = comps[1:]
            lines.append(("unpath " + "/".join(c.encode().hex() for c in comps), exp))
    return lines


# ------------------------------------------------------------------ K8: range cube
def range_cases(rng: random.Random, thorough: bool):
    cases = []
    small = [0, 1, 2, 5, 9] + ([17, 40] if thorough else [])
    big = [2**32, 2**63, 2**64 - 1]
    i = 0
    for L in small:
        lines = [f"case r{i}", "cfg kt=bytes n=100 sync=1", "open", f"put 6b {'G:%d:%d' % (L + 3, L) if L else '.'}", "size 6b", "reader 6b"]
        bnds = list(range(0, L + 3)) + big
        for a in bnds:
            for b in bnds:
                lines.append(f"range 6b {a} {b}")
        lines += ["range 6e6f 0 1", "close", "end"]
        cases.append("\n".join(lines) + "\n"); i += 1
    for L in [8191, 8192, 8193, 65537, 140000] + ([70000, 262145] if thorough else []):
        lines = [f"case r{i}", "cfg kt=bytes n=100 sync=1", "open", f"put 6b G:{L % 200}:{L}", "size 6b", "reader 6b"]
        bnds = sorted(set([0, 1, 8190, 8191, 8192, 8193, L - 1, L, L + 1] + [x for x in (65535, 65536, 65537, 131072, 131073) if x <= L + 1])) + big
        for a in bnds:
            for b in bnds:
                lines.append(f"range 6b {a} {b}")
        lines += ["close", "end"]
        cases.append("\n".join(lines) + "\n"); i += 1
    # one blob above 1 MiB, ranges longer than 1 MiB and 2 MiB
    for L in [3 * 2**20 + 17] + ([2**20 + 1, 5 * 2**20] if thorough else []):
        lines = [f"case r{i}", "cfg kt=bytes n=100 sync=1", "open", f"put 6b G:{L % 200}:{L}", "size 6b"]
        for a, b in [(0, 2**20), (0, 2**20 + 1), (5, 2**20 + 6), (1, 2**63), (0, 2**64 - 1), (2**20 - 1, L), (2**20, L + 1), (L - 2**20 - 1, L), (2 * 2**20, 2**32), (0, L)]:
            lines.append(f"range 6b {a} {b}")
        lines += ["close", "end"]
        cases.append("\n".join(lines) + "\n"); i += 1
    return cases


def damage_case(name, rng: random.Random, length=5):
    """clean history without rollover at the end, so that uncheckpointed records exist at rest"""
    kt = rng.choice(["bytes", "bytes", "string", "u32"])
    keys = key_pool(kt, rng, rng.choice([2, 3]))
    contents = content_pool(rng, rng.choice([2, 3]), 0.0)
    lines = [f"case {name}", f"cfg kt={kt} n={rng.choice([100, 1000])} sync=1", "open"]
    for i in range(length):
        r = rng.random()
        k = hexs(rng.choice(keys))
        if r < 0.6:
            lines.append(f"put {k} {chunking(rng.choice(contents), rng)}")
        elif r < 0.75:
            lines.append(f"remove {k}")
        elif r < 0.85:
            lo, hi = bounds(kt, keys, rng)
            lines.append(f"remove_range {lo} {hi}")
        elif r < 0.93 and i < length - 2:
            lines.append("checkpoint")
        else:
            lines.append(f"put {k} {chunking(rng.choice(contents), rng)}")
    lines += ["close", "end"]
    return "\n".join(lines) + "\n"



def settings_case(name, rng: random.Random, pre=0):
    """create with n, some history, close; rejected opens (other n, other stored version) with the
    directory observed before and after; then a correct open and read-back"""
    kt = rng.choice(["bytes", "string", "u32"])
    n = rng.choice([1, 2, 3, 7, 100])
    keys = key_pool(kt, rng, 3)
    contents = content_pool(rng, 3, 0.0)
    lines = [f"case {name}", f"cfg kt={kt} n={n} sync=1 pre={pre}", "open"]
    for _ in range(rng.choice([2, 3, 5])):
        k = hexs(rng.choice(keys))
        lines.append(f"put {k} {chunking(rng.choice(contents), rng)}" if rng.random() < 0.75 else f"remove {k}")
    gets = [f"get {hexs(k)}" for k in keys]
    lines += ["close", "obs"]
    for _ in range(rng.choice([1, 2])):
        other = rng.choice([x for x in [1, 2, 3, 4, 7, 100, 10000, 2**63] if x != n])
        lines += [f"open n={other}" + (" gate" if rng.random() < 0.5 else ""), "obs"]
    lines += ["open"] + gets + ["close", "obs"]
    v = rng.choice([0, 1, 3, 5, 4294967295])
    lines += [f"setsettings {v} {pre} {n}", "obs", "open" + (" gate" if rng.random() < 0.5 else ""), "obs", f"setsettings 4 {pre} {n}", "open"] + gets + ["iter", "close", "end"]
    return "\n".join(lines) + "\n"



def sizes_cases(rng: random.Random, thorough: bool):
    """contents whose length sits on power-of-two boundaries, each under several chunkings (C18)"""
    ks = range(10, 18) if not thorough else range(10, 21)
    sizes = sorted({s for k in ks for s in (2**k - 1, 2**k, 2**k + 1)} | {0, 1, 100, 8148, 8149, 70000})
    cases = []
    for i, L in enumerate(sizes):
        seed = 3 + i
        lines = [f"case z{i}", "cfg kt=bytes n=100 sync=1", "open"]
        for j in range(3 if L > 100000 else 4):
            lines.append(f"put {bytes([97 + j]).hex()} {big_chunking(seed, L, rng) if j else 'G:%d:%d' % (seed, L)}")
        lines += ["iter", "blobs", "obs", "get 61", "close", "end"]
        cases.append("\n".join(lines) + "\n")
    # single writes far above every internal block size, alone and after a small first write (and the same
    # bytes through 4 KiB writes: identical identity), lengths that are no multiple of anything
    for j, L in enumerate([300001, 1048576 + 12345] + ([3 * 1048576 + 7] if thorough else [])):
        seed = 200 + j
        # (an `obs` after every put: each re-put of the same content replaces the blob file)
        lines = [f"case zbig{j}", "cfg kt=bytes n=100 sync=1", "open",
                 f"put 61 G:{seed}:{L}", "obs",
                 f"put 62 G:{seed}:100:0,G:{seed}:{L - 100}:100", "obs", "get 62",
                 "put 63 " + ",".join(f"G:{seed}:{min(4096, L - o)}:{o}" for o in range(0, L, 4096)), "obs",
                 f"put 64 G:{seed}:{L - 5000}:0,G:{seed}:5000:{L - 5000}", "obs", "get 64",
                 "iter", "blobs", "obs", "get 61", "close", "end"]
        cases.append("\n".join(lines) + "\n")
    return cases


# ------------------------------------------------------------------ K6: concurrent programs
def conc_case(name, rng: random.Random, seed=None):
    keys = [b"k1", b"k2", b"a"][: rng.choice([2, 2, 3])]
    contents = [b"XX", b"ZZ", b"YYY", b""][: rng.choice([2, 3, 3, 4])]
    n = rng.choice([1, 2, 3, 100])
    lines = [f"conc {name}", f"cfg kt=bytes n={n}"]
    for _ in range(rng.choice([0, 1, 2, 3])):
        lines.append(f"setup put {hexs(rng.choice(keys))} {hexs(rng.choice(contents))}")
    norph = rng.choice([0, 0, 1, 2])
    orph = rng.sample(contents + [b"orphan-only"], k=norph)
    for c in orph:
        lines.append(f"orphan {hexs(c)}")
    # injected obstacles: a blob path that cannot be unlinked / renamed onto / read; failing checkpoints
    if rng.random() < 0.2:
        cand = [c for c in contents if c not in orph]
        if cand:
            lines.append(f"undeletable {hexs(rng.choice(cand))}")
    if rng.random() < 0.06:
        lines.append("blockckpt")
    nthreads = rng.choice([2, 2, 3, 3, 4])
    used_orphans = False
    for t in range(1, nthreads + 1):
        for _ in range(rng.choice([1, 1, 2])):
            r = rng.random()
            k = hexs(rng.choice(keys))
            if r < 0.42:
                lines.append(f"thread {t} put {k} {hexs(rng.choice(contents))}")
            elif r < 0.57:
                lines.append(f"thread {t} remove {k}")
            elif r < 0.64:
                lines.append(f"thread {t} remove_range U U" if rng.random() < 0.5 else f"thread {t} remove_range I:{hexs(min(keys))} I:{hexs(max(keys))}")
            elif r < 0.80:
                kind = rng.choice(['get', 'get', 'reader', 'range', 'range', 'iter'])
                if kind == 'range' and rng.random() < 0.7:
                    a = rng.choice([0, 1, 2, 3, 5]); b = rng.choice([0, 1, 2, 3, 4, 2**63, 2**64 - 1])
                    lines.append(f"thread {t} range {k} {a} {b}")
                elif kind == 'iter':
                    lines.append(f"thread {t} iter")
                else:
                    lines.append(f"thread {t} {kind} {k}")
            elif r < 0.85:
                lines.append(f"thread {t} size {k}")
            elif r < 0.90:
                lines.append(f"thread {t} checkpoint")
            elif r < 0.94:
                lines.append(f"thread {t} abort {k} {hexs(rng.choice(contents))}")
            elif norph and not used_orphans:
                lines.append(f"thread {t} delorphans"); used_orphans = True
            else:
                lines.append(f"thread {t} get {k}")
    lines.append(f"seed {seed if seed is not None else rng.randrange(1, 10**6)}")
    lines.append("end")
    return "\n".join(lines) + "\n"


def conc_corpus():
    """schedules that matter: two in-flight puts of one key, put racing the removal of the last other
    reference of its content, reader between lookup and open, clean-up racing a put of orphaned content"""
    return [
        "conc corpus_samekey\ncfg kt=bytes n=100\nsetup put 6b 5858\nthread 1 put 6b 5858\nthread 2 put 6b 5959\nsched 1 1 1 1 2 2 2 2 2 2 2 2 2 2 1 1 1 1 1 1 1\nend\n",
        "conc corpus_samekey3\ncfg kt=bytes n=100\nsetup put 6b 5858\nsetup put 6c 5a5a\nthread 1 put 6b 5a5a\nthread 2 put 6b 5959\nthread 3 remove 6c\nsched 1 1 1 1 2 2 2 2 2 2 2 2 2 2 3 3 3 3 3 3 3 3 3 1 1 1 1 1 1 1\nend\n",
        "conc corpus_reader\ncfg kt=bytes n=100\nsetup put 6b 5858\nthread 1 get 6b\nthread 2 put 6b 5959\nsched 1 1 1 2 2 2 2 2 2 2 2 2 2 2 2 1 1 1 1\nend\n",
        "conc corpus_reader_rm\ncfg kt=bytes n=100\nsetup put 6b 5858\nthread 1 get 6b\nthread 2 remove 6b\nsched 1 1 1 2 2 2 2 2 2 2 2 2 2 1 1 1 1\nend\n",
        "conc corpus_orphan_put\ncfg kt=bytes n=100\norphan 5858\nthread 1 delorphans\nthread 2 put 6b 5858\nsched 2 2 2 2 1 1 1 1 1 2 2 2 2 2 2 2\nend\n",
        "conc corpus_orphan_put2\ncfg kt=bytes n=100\norphan 5858\nthread 1 delorphans\nthread 2 put 6b 5858\nsched 1 1 2 2 2 2 2 2 1 1 1 1 2 2 2 2 2 2\nend\n",
        "conc corpus_share\ncfg kt=bytes n=2\nsetup put 6b31 5858\nthread 1 put 6b32 5858\nthread 2 put 6b31 5a5a\nsched 1 1 1 1 2 2 2 2 2 2 2 2 2 2 2 2 1 1 1 1 1 1 1 1\nend\n",
        "conc corpus_rm_put\ncfg kt=bytes n=100\nsetup put 6b31 5858\nthread 1 remove 6b31\nthread 2 put 6b32 5858\nsched 2 2 2 1 1 1 1 1 1 2 2 1 1 1 2 2 2 2 2 2\nend\n",
        "conc corpus_aba\ncfg kt=bytes n=100\nsetup put 6b 5858\nthread 1 get 6b\nthread 2 remove 6b\nthread 2 put 6b 5858\nsched 1 1 1 2 2 2 2 2 2 2 2 2 2 2 1 2 2 2 2 2 2 2 2 2 2 2 2 2 1 1 1\nend\n",
        "conc corpus_ckpt\ncfg kt=bytes n=1\nsetup put 6b31 5858\nthread 1 checkpoint\nthread 2 put 6b32 5959\nthread 3 get 6b31\nseed 5\nend\n",
        # a removal parked at its unlink while a put of the same content registers and renames (only possible if
        # the remover has let go of the intents lock too early: the forced prefix is skipped where a lock is taken)
        "conc corpus_rm_unlink_window\ncfg kt=bytes n=100\nsetup put 6b31 5858\nthread 1 remove 6b31\nthread 2 put 6b32 5858\nthread 2 get 6b32\nfsched 1 1 1 1 1 1 1 2 2 2 2 1 1 1 2 2 2 2 2 2 2 2 2 2 2\nsched 1 1 1 1 1 1 1 2 2 2 2 1 1 1 2 2 2 2 2 2 2 2 2 2 2\nend\n",
        "conc corpus_ow_unlink_window\ncfg kt=bytes n=100\nsetup put 6b31 5858\nthread 1 put 6b31 5a5a\nthread 2 put 6b32 5858\nthread 2 reader 6b32\nfsched 1 1 1 1 1 1 1 1 1 2 2 2 2 1 1 1 2 2 2 2 2 2 2 2 2 2 2\nsched 1 1 1 1 1 1 1 1 1 2 2 2 2 1 1 1 2 2 2 2 2 2 2 2 2 2 2\nend\n",
        # ranged read and streaming read racing with an overwrite by a longer value
        "conc corpus_range_grow\ncfg kt=bytes n=100\nsetup put 6b 5858\nthread 1 range 6b\nthread 2 put 6b 595959595959\nsched 1 1 1 2 2 2 2 2 2 2 2 2 2 2 2 1 1 1 1\nend\n",
        "conc corpus_reader_grow\ncfg kt=bytes n=100\nsetup put 6b 5858\nthread 1 reader 6b\nthread 2 put 6b 595959595959\nsched 1 1 2 2 2 2 2 2 2 2 2 2 2 2 1 1 1 1 1\nend\n",
    ]


def conc_fault_corpus():
    """model-free only: concurrency combined with an injected obstacle (a blob whose deletion fails,
    checkpoints that fail).  The failing call may return an error; nothing else may go wrong."""
    f = " ".join(["1"] * 4 + ["2"] * 22 + ["1"] * 6)
    return [
        f"conc corpus_undeletable\ncfg kt=bytes n=100\nsetup put 6b31 58585858\nundeletable 58585858\nthread 1 put 6b33 5959\nthread 2 put 6b31 5959\nthread 2 remove 6b31\nfsched {f}\nsched {f}\nend\n",
        "conc corpus_undeletable_free\ncfg kt=bytes n=100\nsetup put 6b31 58585858\nundeletable 58585858\nthread 1 put 6b33 5959\nthread 2 put 6b31 5959\nthread 2 remove 6b31\nthread 3 get 6b33\nseed 7\nend\n",
        f"conc corpus_blockckpt\ncfg kt=bytes n=1\nsetup put 6b31 58585858\nblockckpt\nthread 1 put 6b33 5959\nthread 2 put 6b32 5959\nthread 2 remove 6b32\nfsched {f}\nsched {f}\nend\n",
        # a commit that fails at its rename while another transaction on the same key is in flight
        f"conc corpus_blocked_rename\ncfg kt=bytes n=100\nundeletable 5959\nthread 1 put 6b31 5858\nthread 2 put 6b31 5959\nthread 2 remove 6b31\nthread 2 get 6b31\nfsched 1 1 1 2 2 2 2 2 1 1 1 1 1 1 1 2 2 2 2 2 2 2 2 2 2 2 2\nsched 1 1 1 2 2 2 2 2 1 1 1 1 1 1 1 2 2 2 2 2 2 2 2 2 2 2 2\nend\n",
        "conc corpus_read_obstructed\ncfg kt=bytes n=100\nsetup put 6b31 58585858\nundeletable 58585858\nthread 1 get 6b31\nthread 1 size 6b31\nthread 2 put 6b31 5959\nseed 3\nend\n",
    ]


# ------------------------------------------------------------------ K9: handle life cycle / racing opens
def race_cases(rng: random.Random, n: int):
    cases = ["race corpus_r1\n" + "\n".join("ev " + e for e in [
        "open a", "open b", "openn b 7", "clone a a2", "drop a", "open b", "drop a2", "open b", "drop b",
        "openstats c", "dropcas c", "open d", "openn d 9", "dropstats c", "open d", "drop d",
        "spawn p1", "open e", "openn e 5", "kill p1", "open e", "drop e", "racethreads 6", "raceprocs 4", "open f"]) + "\nend\n",
        # an open that has opened LOCK but not locked it yet, while the owner goes away and a third open arrives
        "race corpus_r2\n" + "\n".join("ev " + e for e in [
            "open a", "openfd b", "drop a", "open c", "lock b", "open d", "drop c", "open e", "drop e"]) + "\nend\n",
        "race corpus_r3\n" + "\n".join("ev " + e for e in [
            "openfd x", "openfd y", "lock y", "lock x", "open z", "drop y", "openfd w", "open v", "lock w", "drop v"]) + "\nend\n"]
    for i in range(n):
        evs, live, names, procs = ["open s0", "drop s0"], [], 0, []      # created with the default segment size
        pend_slots = []
        for _ in range(rng.choice([6, 10, 14])):
            r = rng.random()
            if pend_slots and rng.random() < 0.3:
                evs.append(f"lock {pend_slots.pop(rng.randrange(len(pend_slots)))}"); continue
            if r < 0.35:
                names += 1; s = f"s{names}"
                kind = rng.choice(["open", "open", "openstats", "openn"])
                evs.append(f"{kind} {s}" + (f" {rng.choice([1, 5, 7])}" if kind == "openn" else ""))
                live.append(s)          # slot exists only if it won; dropping a non-existent slot is a no-op
                if kind == "openstats": live.append(s + "!stats")
            elif r < 0.5 and live:
                s = rng.choice([x for x in live if not x.endswith("!stats")] or ["zz"])
                names += 1; evs.append(f"clone {s} s{names}"); live.append(f"s{names}")
            elif r < 0.75 and live:
                s = rng.choice(live); live.remove(s)
                evs.append(f"dropstats {s[:-6]}" if s.endswith("!stats") else f"drop {s}")
            elif r < 0.85:
                names += 1; evs.append(f"spawn p{names}"); procs.append(f"p{names}")
            elif r < 0.93 and procs:
                p = procs.pop(rng.randrange(len(procs))); evs.append(f"kill {p}")
            elif r < 0.95:
                # a two-step open: its second half comes a few events later
                names += 1; evs.append(f"openfd s{names}"); live.append(f"s{names}"); pend_slots.append(f"s{names}")
            elif r < 0.97:
                evs.append(f"racethreads {rng.choice([2, 4, 8])}")
            else:
                evs.append(f"raceprocs {rng.choice([2, 3])}")
        for sl in pend_slots:
            evs.append(f"lock {sl}")
        cases.append(f"race r{i}\n" + "\n".join("ev " + e for e in evs) + "\nend\n")
    return cases



def powerloss_corpus():
    """re-put of content that an acknowledged key already references (the rename replaces a durable
    blob), rollover + checkpoint, large blobs"""
    return [
        "case plc_reput\ncfg kt=bytes n=100 sync=1\nopen\nput 6b31 G:9:50000\nput 6b32 G:9:50000\nput 6b31 G:9:50000\nclose\nend\n",
        "case plc_reput_small\ncfg kt=bytes n=2 sync=1\nopen\nput 61 5858\nput 62 5858\nremove 61\nput 63 5858\nclose\nend\n",
        "case plc_roll\ncfg kt=bytes n=1 sync=1\nopen\nput 61 01\nput 62 G:4:9000\nput 61 02\ncheckpoint\nremove 62\nclose\nend\n",
        # the same re-put with contents of exactly 1 MiB (size-dependent shortcuts in the commit path; the shim
        # records the data of writes up to 1 MiB, so larger single writes cannot be used in this suite)
        "case plc_reput_mib\ncfg kt=bytes n=100 sync=1\nopen\nput 6b31 G:11:1048576\nput 6b32 G:11:1048576\nput 6b33 G:12:1048576\nput 6b31 G:12:1048576\nclose\nend\n",
    ]


# ------------------------------------------------------------------ C08: planted garbage and clean-up
def orphan_case(name, rng: random.Random, noncanonical=False, missing=False):
    """history, then garbage planted into the closed directory is impossible through the API, so
    the garbage is planted BEFORE the first open (the store ignores it until the scan) together with
    leftovers that crashes produce: unreferenced blobs, staging files, bad names at every level"""
    kt = "bytes"
    keys = key_pool(kt, rng, 3)
    contents = [b"XX", b"hello", b"Z" * 40, b""]
    lines = [f"case {name}", f"cfg kt={kt} n={rng.choice([2, 3, 100])} sync=1 verify={rng.choice([0, 1])} failint=0"]
    import hashlib
    planted = []
    def hx(c):
        return oracle_hash(c)
    for _ in range(rng.choice([1, 2, 3])):
        c = rng.choice(contents + [b"orphan-a", b"orphan-b"])
        h = hx(c)
        lines.append(f"plant cas/{h[0:2]}/{h[2:4]}/{h[4:]} {hexs(c)}")
    r = rng.random()
    if r < 0.5:
        lines.append(f"plant cas/junk {hexs(b'x')}")
    if rng.random() < 0.5:
        lines.append(f"plant cas/ab/junk2 {hexs(b'y')}")
    if rng.random() < 0.5:
        lines.append(f"plant cas/ab/cd/not-a-hash {hexs(b'z')}")
    if rng.random() < 0.4:
        lines.append(f"plant cas/ab/cd/{'0' * 59} {hexs(b'short')}")
    if rng.random() < 0.5:
        lines.append(f"plant staging/#0 {hexs(b'left over')}")
    if rng.random() < 0.3:
        # corrupted referenced blob is produced later by putting then planting is impossible; a blob with
        # the wrong content under a canonical name is an orphan whose bytes do not match
        h = hx(b"orphan-c")
        lines.append(f"plant cas/{h[0:2]}/{h[2:4]}/{h[4:]} {hexs(b'wrong bytes')}")
    if noncanonical:
        h = hx(rng.choice([b"nc-1", b"XX"]))
        if rng.random() < 0.5:
            lines.append(f"plant cas/{h[0:2].upper()}/{h[2:4]}/{h[4:]} {hexs(b'nc')}")
        else:
            lines.append(f"plant cas/{h[0:1]}/{h[1:4]}/{h[4:]} {hexs(b'nc')}")
    lines.append("open")
    for _ in range(rng.choice([1, 2, 4])):
        k = hexs(rng.choice(keys))
        lines.append(f"put {k} {hexs(rng.choice(contents))}" if rng.random() < 0.8 else f"remove {k}")
    if missing:
        # blob files disappear from the closed store while the planted garbage is still there: the next
        # scan sees referenced-but-absent blobs TOGETHER with orphans, invalid and staging files
        lines += ["obs", "close"] + [f"rmblob {hexs(c)}" for c in rng.sample(contents, rng.choice([1, 2]))] + ["open", "obs", "close", "end"]
        return "\n".join(lines) + "\n"
    lines += ["obs", "close", "open", "obs"]
    q = rng.random()
    if q < 0.6:
        lines += ["delorphans", "obs"]
    elif q < 0.8:
        lines += ["quarantine", "obs", "delorphans", "obs"]
    else:
        h = hx(b"orphan-a")
        lines += [f"delorphan {h}", "obs", "delorphans", "obs"]
    lines += [f"get {hexs(k)}" for k in keys] + ["close", "open", "obs", "close", "end"]
    return "\n".join(lines) + "\n"


def oracle_hash(c: bytes) -> str:
    import oracle
    return oracle.HASH(c)
