# run.py -- building the machinery from /repo's current working tree and running case files
# through the real library (harness + shim) and through the extracted Coq model, in parallel.
import fcntl
import hashlib
import json
import os
import shutil
import subprocess
import sys
import tempfile
import time
from concurrent.futures import ThreadPoolExecutor

VERIF = os.path.dirname(os.path.dirname(os.path.abspath(__file__)))
REPO = os.environ.get("VERIF_REPO", "/repo")
BUILD = os.environ.get("VERIF_BUILD", os.path.join(VERIF, ".build"))
HARNESS_DIR = os.environ.get("VERIF_HARNESS", os.path.join(VERIF, "harness"))
COQ = os.path.join(VERIF, "coq")
HX = os.path.join(BUILD, "target", "debug", "hx")
HX_REL = os.path.join(BUILD, "target", "release", "hx")
DRIVER = os.path.join(VERIF, "ocaml", "driver")
SHIM = os.path.join(VERIF, "shim", "fsshim.so")
NPROC = min(16, os.cpu_count() or 4)
ENV = dict(os.environ, CARGO_NET_OFFLINE="true", CARGO_TARGET_DIR=os.path.join(BUILD, "target"))


class BuildError(Exception):
    pass


def sh(cmd, cwd=None, timeout=3600, env=None, check=True):
    p = subprocess.run(cmd, cwd=cwd, shell=isinstance(cmd, str), stdout=subprocess.PIPE, stderr=subprocess.STDOUT,
                       timeout=timeout, env=env or ENV, text=True)
    if check and p.returncode != 0:
        raise BuildError(f"command failed ({p.returncode}): {cmd}\n{p.stdout[-4000:]}")
    return p


class Lock:
    def __init__(self, name):
        os.makedirs(BUILD, exist_ok=True)
        self.f = open(os.path.join(BUILD, name + ".lock"), "w")

    def __enter__(self):
        fcntl.flock(self.f, fcntl.LOCK_EX)

    def __exit__(self, *a):
        fcntl.flock(self.f, fcntl.LOCK_UN)


def tree_hash(root, exts):
    h = hashlib.sha256()
    for d, dirs, files in sorted(os.walk(root)):
        dirs[:] = sorted(x for x in dirs if x not in ("target", ".git", ".build"))
        for f in sorted(files):
            if f.endswith(exts):
                p = os.path.join(d, f)
                h.update(p.encode()); h.update(open(p, "rb").read())
    return h.hexdigest()


def build_coq(targets=None):
    """Full .vo build (never -vos) of the development or of the given targets."""
    with Lock("coq"):
        if not os.path.exists(os.path.join(COQ, "Makefile")) or \
                os.path.getmtime(os.path.join(COQ, "Makefile")) < os.path.getmtime(os.path.join(COQ, "_CoqProject")):
            sh("coq_makefile -f _CoqProject -o Makefile", cwd=COQ)
        t0 = time.time()
        tg = " ".join(targets) if targets else ""
        p = sh(f"timeout 3000 make -j{NPROC} {tg}", cwd=COQ, timeout=3100, check=False)
        return p.returncode == 0, p.stdout, time.time() - t0


def build_ocaml():
    with Lock("ocaml"):
        src = os.path.join(COQ, "model.ml")
        if not os.path.exists(src):
            raise BuildError("extraction output coq/model.ml missing (coq build failed?)")
        od = os.path.join(VERIF, "ocaml")
        stale = (not os.path.exists(DRIVER)
                 or not os.path.exists(os.path.join(od, "model.ml"))
                 or open(src, "rb").read() != open(os.path.join(od, "model.ml"), "rb").read()
                 or os.path.getmtime(os.path.join(od, "driver.ml")) > os.path.getmtime(DRIVER))
        if stale:
            shutil.copy(src, os.path.join(od, "model.ml"))
            shutil.copy(os.path.join(COQ, "model.mli"), os.path.join(od, "model.mli"))
            sh("ocamlfind ocamlopt -O3 -package unix -linkpkg model.mli model.ml driver.ml -o driver 2>&1", cwd=od)


def build_shim():
    with Lock("shim"):
        src = os.path.join(VERIF, "shim", "fsshim.c")
        if not os.path.exists(SHIM) or os.path.getmtime(src) > os.path.getmtime(SHIM):
            sh(f"gcc -O2 -shared -fPIC -o {SHIM} {src} -ldl -lpthread")


def build_harness(release=False):
    """Always goes through cargo, which rebuilds cassadilia from /repo's current working tree."""
    with Lock("cargo"):
        hd = HARNESS_DIR
        shutil.copy(os.path.join(REPO, "Cargo.lock"), os.path.join(hd, "Cargo.lock"))
        flag = "--release" if release else ""
        sh(f"cargo build --offline {flag} 2>&1", cwd=hd, timeout=1800)


def build_all(release=False):
    ok, log, dt = build_coq()
    build_ocaml() if os.path.exists(os.path.join(COQ, "model.ml")) else None
    build_shim()
    build_harness()
    if release:
        build_harness(True)
    return ok, log, dt


def scratch_dir():
    base = "/dev/shm" if os.path.isdir("/dev/shm") else tempfile.gettempdir()
    return tempfile.mkdtemp(prefix="verif-", dir=base)


def split_cases(text):
    cases, cur = [], []
    for l in text.splitlines():
        if l.startswith("case ") and cur:
            cases.append("\n".join(cur) + "\n"); cur = []
        cur.append(l)
    if cur:
        cases.append("\n".join(cur) + "\n")
    return cases


def run_sharded(cases, mode, side, nshards=None, hx=None, toy=False, timeout=3000, extra_env=None):
    """side: 'real' or 'model'.  cases: list of case texts.  Returns the concatenated output."""
    nshards = nshards or NPROC
    shards = [cases[i::nshards] for i in range(nshards)]
    shards = [s for s in shards if s]
    d = scratch_dir()
    try:
        def one(i):
            f = os.path.join(d, f"{side}{i}.case")
            open(f, "w").write("".join(shards[i]))
            if side == "real":
                env = dict(ENV, LD_PRELOAD=SHIM, HX_TMP=d)
                if extra_env:
                    env.update(extra_env)
                cmd = [hx or HX, "run", f, mode]
            else:
                env = ENV
                m = {"plain": [], "crash-all": ["--crash-all"], "fault-all": ["--fault-all"], "damage-all": ["--damage-all"], "powerloss-all": ["--powerloss-all"]}.get(mode)
                if m is None and mode.startswith("fault:"):
                    m = ["--fault", mode.split(":")[1]]
                cmd = [DRIVER] + (["--toy"] if toy else ["--oracle", f"{hx or HX} hashd"]) + m + [f]
                # the extracted functions recurse on lists of bytes: megabyte contents need a deep stack
                cmd = ["sh", "-c", 'ulimit -s unlimited 2>/dev/null || ulimit -s 1000000 2>/dev/null; exec "$@"', "sh"] + cmd
            p = subprocess.run(cmd, stdout=subprocess.PIPE, stderr=subprocess.PIPE, env=env, timeout=timeout, text=True, errors="replace")
            if p.returncode != 0:
                return p.stdout + f"\nX runner-exit={p.returncode} {p.stderr[-500:]}\n"
            return p.stdout
        with ThreadPoolExecutor(max_workers=len(shards) or 1) as ex:
            outs = list(ex.map(one, range(len(shards))))
        return "".join(outs)
    finally:
        shutil.rmtree(d, ignore_errors=True)


def by_case(output):
    """CASE header line -> list of lines"""
    res, cur, name = {}, None, None
    for l in output.splitlines():
        if l.startswith("CASE "):
            name = l[5:].split(" crash-total=")[0]
            cur = res.setdefault(name, [])
            cur.append(l)
        elif cur is not None:
            cur.append(l)
    return res


def first_diff(a, b, ignore_prefixes=()):
    """first differing line between two line lists, ignoring lines with the given prefixes"""
    fa = [l for l in a if not l.startswith(ignore_prefixes)] if ignore_prefixes else a
    fb = [l for l in b if not l.startswith(ignore_prefixes)] if ignore_prefixes else b
    for i in range(max(len(fa), len(fb))):
        x = fa[i] if i < len(fa) else "<missing>"
        y = fb[i] if i < len(fb) else "<missing>"
        if x != y:
            return i, x, y
    return None
