/* fsshim.c -- LD_PRELOAD interposer for the filesystem calls cassadilia makes.
 *
 * Modes (set through fsshim_arm, looked up by the harness with dlsym):
 *   trace        every call under the root is appended to the log
 *   kill-at-k    the process _exit(137)s just before its k-th counted call
 *   fail-at-k    the k-th counted call returns -1/EIO without taking effect
 *
 * "Counted" calls are those of the arming thread that will take effect (the model's
 * do_call): a mkdir of an existing directory, an unlink of a missing file, a write to an
 * unlinked file are passed through uncounted; of a run of consecutive writes to one staging
 * file only the first is counted.
 *
 * Log line:  <C|U|F> <tid-is-armer 0/1> <name> <relpath> [<relpath2>|<len> <adler>|flags] = <ret> <errno>
 */
#define _GNU_SOURCE
#include <dlfcn.h>
#include <errno.h>
#include <fcntl.h>
#include <stdarg.h>
#include <stdio.h>
#include <stdlib.h>
#include <string.h>
#include <sys/stat.h>
#include <sys/syscall.h>
#include <sys/types.h>
#include <unistd.h>
#include <pthread.h>

static char root[4096];
static size_t root_len = 0;
static int log_fd = -1;
static int mode = 0;            /* 0 off, 1 trace, 2 kill, 3 fail */
static long target_k = -1;
static long counter = 0;
static pid_t armer_tid = 0;
static int log_data = 0;
static char last_staging_write[4096];
static pthread_mutex_t mu = PTHREAD_MUTEX_INITIALIZER;

static int (*real_open)(const char *, int, ...);
static int (*real_open64)(const char *, int, ...);
static int (*real_openat)(int, const char *, int, ...);
static int (*real_openat64)(int, const char *, int, ...);
static ssize_t (*real_write)(int, const void *, size_t);
static ssize_t (*real_pwrite64)(int, const void *, size_t, off_t);
static ssize_t (*real_writev)(int, const void *, int);
static int (*real_fsync)(int);
static int (*real_fdatasync)(int);
static int (*real_rename)(const char *, const char *);
static int (*real_renameat)(int, const char *, int, const char *);
static int (*real_renameat2)(int, const char *, int, const char *, unsigned int);
static int (*real_unlink)(const char *);
static int (*real_unlinkat)(int, const char *, int);
static int (*real_mkdir)(const char *, mode_t);
static int (*real_mkdirat)(int, const char *, mode_t);
static int (*real_ftruncate)(int, off_t);
static int (*real_ftruncate64)(int, off_t);
static int (*real_flock)(int, int);
static int (*real_rmdir)(const char *);

static void init(void) {
    static int done = 0;
    if (done) return;
    done = 1;
    real_open = dlsym(RTLD_NEXT, "open");
    real_open64 = dlsym(RTLD_NEXT, "open64");
    real_openat = dlsym(RTLD_NEXT, "openat");
    real_openat64 = dlsym(RTLD_NEXT, "openat64");
    real_write = dlsym(RTLD_NEXT, "write");
    real_pwrite64 = dlsym(RTLD_NEXT, "pwrite64");
    real_writev = dlsym(RTLD_NEXT, "writev");
    real_fsync = dlsym(RTLD_NEXT, "fsync");
    real_fdatasync = dlsym(RTLD_NEXT, "fdatasync");
    real_rename = dlsym(RTLD_NEXT, "rename");
    real_renameat = dlsym(RTLD_NEXT, "renameat");
    real_renameat2 = dlsym(RTLD_NEXT, "renameat2");
    real_unlink = dlsym(RTLD_NEXT, "unlink");
    real_unlinkat = dlsym(RTLD_NEXT, "unlinkat");
    real_mkdir = dlsym(RTLD_NEXT, "mkdir");
    real_mkdirat = dlsym(RTLD_NEXT, "mkdirat");
    real_ftruncate = dlsym(RTLD_NEXT, "ftruncate");
    real_ftruncate64 = dlsym(RTLD_NEXT, "ftruncate64");
    real_flock = dlsym(RTLD_NEXT, "flock");
    real_rmdir = dlsym(RTLD_NEXT, "rmdir");
}

/* ---- control interface ---- */
void fsshim_set_root(const char *r) { init(); strncpy(root, r, sizeof root - 1); root_len = strlen(root); }
void fsshim_set_log(const char *p, int with_data) {
    init();
    if (log_fd >= 0) close(log_fd);
    log_fd = real_open(p, O_WRONLY | O_CREAT | O_APPEND, 0644);
    log_data = with_data;
}
void fsshim_arm(int m, long k) {
    init();
    pthread_mutex_lock(&mu);
    mode = m; target_k = k; counter = 0; armer_tid = (pid_t)syscall(SYS_gettid);
    last_staging_write[0] = 0;
    pthread_mutex_unlock(&mu);
}
long fsshim_count(void) { return counter; }

/* ---- helpers ---- */
static const char *rel(const char *abs) {
    if (!root_len) return NULL;
    if (strncmp(abs, root, root_len) != 0) return NULL;
    if (abs[root_len] == 0) return ".";
    if (abs[root_len] != '/') return NULL;
    return abs + root_len + 1;
}
static int fd_path(int fd, char *buf, size_t n) {
    char link[64];
    snprintf(link, sizeof link, "/proc/self/fd/%d", fd);
    ssize_t r = readlink(link, buf, n - 1);
    if (r < 0) return -1;
    buf[r] = 0;
    return 0;
}
static void abs_path(int dirfd, const char *p, char *out, size_t n) {
    if (p[0] == '/') { strncpy(out, p, n - 1); out[n - 1] = 0; return; }
    char base[4096];
    if (dirfd == AT_FDCWD) { if (!getcwd(base, sizeof base)) base[0] = 0; }
    else if (fd_path(dirfd, base, sizeof base) < 0) base[0] = 0;
    snprintf(out, n, "%s/%s", base, p);
}
static int exists(const char *p) { struct stat st; return lstat(p, &st) == 0; }
static unsigned long adler(const unsigned char *d, size_t n) {
    unsigned long a = 1, b = 0;
    for (size_t i = 0; i < n; i++) { a = (a + d[i]) % 65521; b = (b + a) % 65521; }
    return (b << 16) | a;
}
static void logline(const char *fmt, ...) {
    if (log_fd < 0) return;
    static __thread char *buf = NULL;
    if (!buf) buf = malloc(2200000);
    va_list ap; va_start(ap, fmt);
    int n = vsnprintf(buf, 2200000, fmt, ap);
    va_end(ap);
    if (n > 2199999) n = 2199999;
    if (real_write) real_write(log_fd, buf, n); else syscall(SYS_write, log_fd, buf, n);
}
static int is_armer(void) { return (pid_t)syscall(SYS_gettid) == armer_tid; }

/* Decide what happens to a call that WILL take effect.  Returns 0 = run it, 1 = fail it with EIO.
 * Kills the process when the kill point is reached.  `counted` receives whether it was counted. */
static int gate(int countable, int *counted) {
    *counted = 0;
    if (mode == 0 || !countable || !is_armer()) return 0;
    pthread_mutex_lock(&mu);
    long me = counter++;
    pthread_mutex_unlock(&mu);
    *counted = 1;
    if (mode == 2 && me == target_k) { logline("K killed before counted call %ld\n", me); _exit(137); }
    if (mode == 3 && me == target_k) return 1;
    return 0;
}
#define TAG(counted, failed) ((failed) ? 'F' : ((counted) ? 'C' : 'U'))

/* ---- open family ---- */
static int do_open(int kind, int dirfd, const char *path, int flags, mode_t m) {
    init();
    char ap[4096];
    abs_path(dirfd, path, ap, sizeof ap);
    const char *r = rel(ap);
    int mutating = (flags & (O_CREAT | O_TRUNC)) != 0;
    if (!r || !mutating || mode == 0) {
        switch (kind) {
        case 0: return real_open(path, flags, m);
        case 1: return real_open64(path, flags, m);
        case 2: return real_openat(dirfd, path, flags, m);
        default: return real_openat64(dirfd, path, flags, m);
        }
    }
    /* O_EXCL on an existing file fails anyway; a missing parent fails anyway */
    int will_fail = ((flags & O_EXCL) && exists(ap));
    if (!will_fail) {
        char par[4096]; strncpy(par, ap, sizeof par - 1); par[sizeof par - 1] = 0;
        char *sl = strrchr(par, '/'); if (sl) { *sl = 0; if (!exists(par)) will_fail = 1; }
    }
    int counted, fail = gate(!will_fail, &counted);
    int ret; int e;
    if (fail) { ret = -1; e = EIO; }
    else {
        switch (kind) {
        case 0: ret = real_open(path, flags, m); break;
        case 1: ret = real_open64(path, flags, m); break;
        case 2: ret = real_openat(dirfd, path, flags, m); break;
        default: ret = real_openat64(dirfd, path, flags, m); break;
        }
        e = errno;
    }
    logline("%c %d open %s %s%s%s%s = %d %d\n", TAG(counted, fail), is_armer(), r,
            (flags & O_CREAT) ? "C" : "", (flags & O_TRUNC) ? "T" : "", (flags & O_EXCL) ? "X" : "",
            (flags & O_APPEND) ? "A" : "", ret < 0 ? -1 : 0, ret < 0 ? e : 0);
    errno = e;
    return ret;
}
int open(const char *path, int flags, ...) {
    mode_t m = 0; if (flags & (O_CREAT | O_TMPFILE)) { va_list ap; va_start(ap, flags); m = va_arg(ap, mode_t); va_end(ap); }
    return do_open(0, AT_FDCWD, path, flags, m);
}
int open64(const char *path, int flags, ...) {
    mode_t m = 0; if (flags & (O_CREAT | O_TMPFILE)) { va_list ap; va_start(ap, flags); m = va_arg(ap, mode_t); va_end(ap); }
    return do_open(1, AT_FDCWD, path, flags, m);
}
int openat(int dirfd, const char *path, int flags, ...) {
    mode_t m = 0; if (flags & (O_CREAT | O_TMPFILE)) { va_list ap; va_start(ap, flags); m = va_arg(ap, mode_t); va_end(ap); }
    return do_open(2, dirfd, path, flags, m);
}
int openat64(int dirfd, const char *path, int flags, ...) {
    mode_t m = 0; if (flags & (O_CREAT | O_TMPFILE)) { va_list ap; va_start(ap, flags); m = va_arg(ap, mode_t); va_end(ap); }
    return do_open(3, dirfd, path, flags, m);
}

/* ---- write ---- */
static ssize_t do_write(int fd, const void *buf, size_t n, int kind, off_t off) {
    init();
    char p[4096];
    const char *r = NULL;
    if (mode != 0 && fd != log_fd && fd_path(fd, p, sizeof p) == 0) r = rel(p);
    if (!r) return kind == 0 ? real_write(fd, buf, n) : real_pwrite64(fd, buf, n, off);
    size_t rl = strlen(r);
    int deleted = rl > 10 && strcmp(r + rl - 10, " (deleted)") == 0;
    int staging = strncmp(r, "staging/", 8) == 0;
    int countable = !deleted;
    if (countable && staging && is_armer()) {
        pthread_mutex_lock(&mu);
        if (strcmp(last_staging_write, r) == 0) countable = 0;
        else { strncpy(last_staging_write, r, sizeof last_staging_write - 1); }
        pthread_mutex_unlock(&mu);
    }
    int counted, fail = gate(countable, &counted);
    ssize_t ret; int e;
    if (fail) { ret = -1; e = EIO; if (staging) last_staging_write[0] = 0; }
    else { ret = kind == 0 ? real_write(fd, buf, n) : real_pwrite64(fd, buf, n, off); e = errno; }
    if (log_data && n <= 1048576) {
        static const char hx[] = "0123456789abcdef";
        char *h = malloc(2 * n + 1);
        for (size_t i = 0; i < n; i++) { h[2*i] = hx[((const unsigned char *)buf)[i] >> 4]; h[2*i+1] = hx[((const unsigned char *)buf)[i] & 15]; }
        h[2*n] = 0;
        logline("D %s %s\n", r, n ? h : "-");
        free(h);
    }
    logline("%c %d write %s %zu %08lx = %zd %d\n", TAG(counted, fail), is_armer(), r, n,
            adler(buf, n), ret, ret < 0 ? e : 0);
    errno = e;
    return ret;
}
ssize_t write(int fd, const void *buf, size_t n) { return do_write(fd, buf, n, 0, 0); }
ssize_t pwrite64(int fd, const void *buf, size_t n, off_t off) { return do_write(fd, buf, n, 1, off); }
ssize_t pwrite(int fd, const void *buf, size_t n, off_t off) { return do_write(fd, buf, n, 1, off); }

/* ---- sync ---- */
static int do_sync(int fd, int kind) {
    init();
    char p[4096];
    const char *r = NULL;
    if (mode != 0 && fd_path(fd, p, sizeof p) == 0) r = rel(p);
    if (!r) return kind == 0 ? real_fsync(fd) : real_fdatasync(fd);
    size_t rl = strlen(r);
    int deleted = rl > 10 && strcmp(r + rl - 10, " (deleted)") == 0;
    int counted, fail = gate(!deleted, &counted);
    int ret, e;
    if (fail) { ret = -1; e = EIO; }
    else { ret = kind == 0 ? real_fsync(fd) : real_fdatasync(fd); e = errno; }
    logline("%c %d sync %s = %d %d\n", TAG(counted, fail), is_armer(), r, ret, ret < 0 ? e : 0);
    errno = e;
    return ret;
}
int fsync(int fd) { return do_sync(fd, 0); }
int fdatasync(int fd) { return do_sync(fd, 1); }

/* ---- rename ---- */
static int do_rename(int od, const char *o, int nd, const char *n, unsigned int fl, int kind) {
    init();
    char ao[4096], an[4096];
    abs_path(od, o, ao, sizeof ao); abs_path(nd, n, an, sizeof an);
    const char *ro = rel(ao);
    if (!ro || mode == 0) {
        if (kind == 0) return real_rename(o, n);
        if (kind == 1) return real_renameat(od, o, nd, n);
        return real_renameat2(od, o, nd, n, fl);
    }
    char ros[4096]; strncpy(ros, ro, sizeof ros - 1); ros[sizeof ros - 1] = 0;
    const char *rn = rel(an);
    char par[4096]; strncpy(par, an, sizeof par - 1); par[sizeof par - 1] = 0;
    char *sl = strrchr(par, '/'); if (sl) *sl = 0;
    int will_fail = !exists(ao) || !exists(par);
    int counted, fail = gate(!will_fail, &counted);
    int ret, e;
    if (fail) { ret = -1; e = EIO; }
    else {
        if (kind == 0) ret = real_rename(o, n);
        else if (kind == 1) ret = real_renameat(od, o, nd, n);
        else ret = real_renameat2(od, o, nd, n, fl);
        e = errno;
    }
    logline("%c %d rename %s %s = %d %d\n", TAG(counted, fail), is_armer(), ros, rn ? rn : "<outside>", ret, ret < 0 ? e : 0);
    errno = e;
    return ret;
}
int rename(const char *o, const char *n) { return do_rename(AT_FDCWD, o, AT_FDCWD, n, 0, 0); }
int renameat(int od, const char *o, int nd, const char *n) { return do_rename(od, o, nd, n, 0, 1); }
int renameat2(int od, const char *o, int nd, const char *n, unsigned int fl) { return do_rename(od, o, nd, n, fl, 2); }

/* ---- unlink ---- */
static int do_unlink(int dirfd, const char *path, int flags, int kind) {
    init();
    char ap[4096];
    abs_path(dirfd, path, ap, sizeof ap);
    const char *r = rel(ap);
    if (!r || mode == 0) return kind == 0 ? real_unlink(path) : real_unlinkat(dirfd, path, flags);
    int counted, fail = gate(exists(ap), &counted);
    int ret, e;
    if (fail) { ret = -1; e = EIO; }
    else { ret = kind == 0 ? real_unlink(path) : real_unlinkat(dirfd, path, flags); e = errno; }
    logline("%c %d unlink %s = %d %d\n", TAG(counted, fail), is_armer(), r, ret, ret < 0 ? e : 0);
    errno = e;
    return ret;
}
int unlink(const char *path) { return do_unlink(AT_FDCWD, path, 0, 0); }
int unlinkat(int dirfd, const char *path, int flags) { return do_unlink(dirfd, path, flags, 1); }

/* ---- mkdir ---- */
static int do_mkdir(int dirfd, const char *path, mode_t m, int kind) {
    init();
    char ap[4096];
    abs_path(dirfd, path, ap, sizeof ap);
    const char *r = rel(ap);
    if (!r || mode == 0) return kind == 0 ? real_mkdir(path, m) : real_mkdirat(dirfd, path, m);
    char par[4096]; strncpy(par, ap, sizeof par - 1); par[sizeof par - 1] = 0;
    size_t pl = strlen(par); while (pl > 1 && par[pl - 1] == '/') par[--pl] = 0;
    char *sl = strrchr(par, '/'); if (sl) *sl = 0;
    int will_fail = exists(ap) || !exists(par);
    int counted, fail = gate(!will_fail, &counted);
    int ret, e;
    if (fail) { ret = -1; e = EIO; }
    else { ret = kind == 0 ? real_mkdir(path, m) : real_mkdirat(dirfd, path, m); e = errno; }
    logline("%c %d mkdir %s = %d %d\n", TAG(counted, fail), is_armer(), r, ret, ret < 0 ? e : 0);
    errno = e;
    return ret;
}
int mkdir(const char *path, mode_t m) { return do_mkdir(AT_FDCWD, path, m, 0); }
int mkdirat(int dirfd, const char *path, mode_t m) { return do_mkdir(dirfd, path, m, 1); }

/* ---- truncate, flock (logged, never counted: the store does not truncate by fd) ---- */
int ftruncate(int fd, off_t len) {
    init();
    char p[4096]; const char *r = NULL;
    if (mode != 0 && fd_path(fd, p, sizeof p) == 0) r = rel(p);
    int ret = real_ftruncate(fd, len); int e = errno;
    if (r) logline("U %d ftruncate %s %ld = %d %d\n", is_armer(), r, (long)len, ret, ret < 0 ? e : 0);
    errno = e; return ret;
}
int ftruncate64(int fd, off_t len) {
    init();
    char p[4096]; const char *r = NULL;
    if (mode != 0 && fd_path(fd, p, sizeof p) == 0) r = rel(p);
    int ret = real_ftruncate64(fd, len); int e = errno;
    if (r) logline("U %d ftruncate %s %ld = %d %d\n", is_armer(), r, (long)len, ret, ret < 0 ? e : 0);
    errno = e; return ret;
}
int flock(int fd, int op) {
    init();
    char p[4096]; const char *r = NULL;
    if (mode != 0 && fd_path(fd, p, sizeof p) == 0) r = rel(p);
    int ret = real_flock(fd, op); int e = errno;
    if (r) logline("U %d flock %s %d = %d %d\n", is_armer(), r, op, ret, ret < 0 ? e : 0);
    errno = e; return ret;
}
