(* Store.v -- the sequential store model M_seq: every API operation of cassadilia as a program
   over the filesystem model (FS.v), with the in-memory state threaded explicitly.
   Anchors: src/cas.rs, src/transaction.rs, src/index/manager.rs, src/index/persistence.rs,
   src/wal/{manager,storage,replay}.rs, src/cas_manager.rs, src/orphan.rs, src/settings.rs,
   src/io.rs.  Definitions only. *)
From Cas Require Export FS Index Range.

Record config := mkConfig {
  c_kt : ktype;          (* key type *)
  c_n : N;               (* num_ops_per_wal, >= 1 *)
  c_sync : bool;         (* SyncMode::Sync *)
  c_pre : bool;          (* pre_create_cas_dirs *)
  c_scan : bool;         (* scan_orphans_on_startup *)
  c_verify : bool;       (* verify_blob_integrity *)
  c_failint : bool       (* fail_on_integrity_errors *)
}.

Inductive serr :=
| EStagingDir | ECasDir | ELockFile
| ESettingsVersion | ESettingsN | ESettingsWrite | ESettingsParse
| EEmptyIndex | EDecodeIndex | EDecodeKey | EIndexWrite
| EWalIo | EWalWrite
| EReplay (e : rerr)
| EStageCreate | EStageWrite | EStageSync | ESubdir | EMoveStaged
| EBlobDeletion | EBlobMissing | EInvalidRange | EIntegrity | ERemoveFile
| EPanic.

Definition CURRENT_DB_VERSION : N := 4.

(* settings file: the harness translates between this encoding and the JSON text *)
Definition enc_settings (ver : N) (pre : bool) (n : N) : bytes :=
  u32 ver ++ [if pre then 1 else 0] ++ u64 n.
Definition dec_settings (bs : bytes) : option (N * bool * N) :=
  match take 4 bs with
  | Some (v, b :: r) => match take 8 r with
                        | Some (n, []) => Some (le_dec v, negb (b =? 0), le_dec n)
                        | _ => None end
  | _ => None
  end.

Record wal := mkWal {
  nextv : N;                          (* next_op_version *)
  writer : option (N * bytes)         (* active segment id, bytes still in its BufWriter *)
}.

Record mem := mkMem {
  idx : istate;
  mwal : wal;
  mpre : bool                          (* dir_tree_is_pre_created, as remembered by the settings *)
}.

Record ostats := mkOstats {
  o_orphans : list bytes; o_invalid : list path; o_missing : list bytes;
  o_corrupted : list bytes; o_staging : list path; o_total : N
}.

Definition BUFCAP : N := 8192.

Section Store.
  Variable H : bytes -> bytes.        (* BLAKE3 *)
  Variable cfg : config.
  Let cmp := key_cmp (c_kt cfg).

  Definition seg_of (v : N) : N := (v - 1) / c_n cfg.
  Definition cas_path (h : bytes) : path := PCas (hexpath h).

  (* ---------- small helpers ---------- *)
  Definition mkdir_p (d : dir) : M (res errno unit) :=
    do! s <- get_fs ;; if has_dir s d then ret (Ok tt) else do_call (CMkdir d).

  (* std::fs::create_dir_all on cas/<a>/<b> *)
  Definition mkdir_cas2 (a b : bytes) : M (res errno unit) :=
    do! r <- mkdir_p [s_cas; a] ;;
    match r with Err e => ret (Err e) | Ok _ => mkdir_p [s_cas; a; b] end.

  (* atomically_write_file_bytes *)
  Definition atomic_write (target tmp : path) (data : bytes) : M (res errno unit) :=
    do! r <- do_call (CCreate tmp) ;;
    match r with Err e => ret (Err e) | Ok _ =>
    do! r <- (match data with [] => ret (Ok tt) | _ => do_call (CAppend tmp data) end) ;;
    match r with Err e => ret (Err e) | Ok _ =>
    do! r <- do_call (CSync tmp) ;;
    match r with Err e => ret (Err e) | Ok _ =>
    do_call (CRename tmp target) end end end.

  (* ---------- BufWriter<File> (capacity 8192) ---------- *)
  Definition bw_flush (p : path) (buf : bytes) : M (res errno unit * bytes) :=
    match buf with
    | [] => ret (Ok tt, [])
    | _ => do! r <- do_call (CAppend p buf) ;;
           match r with Ok _ => ret (Ok tt, []) | Err e => ret (Err e, buf) end
    end.
  Definition bw_write_all (p : path) (buf data : bytes) : M (res errno unit * bytes) :=
    let spare := BUFCAP - len buf in
    if len data <? spare then ret (Ok tt, buf ++ data)
    else
      do! rb <- (if spare <? len data then bw_flush p buf else ret (Ok tt, buf)) ;;
      match rb with
      | (Err e, b1) => ret (Err e, b1)
      | (Ok _, b1) =>
        if BUFCAP <=? len data
        then do! r <- do_call (CAppend p data) ;; ret (r, b1)
        else ret (Ok tt, b1 ++ data)
      end.

  (* does any byte reach the staging file before the transaction is finished or dropped? *)
  Fixpoint bw_sim (buflen : N) (chunks : list bytes) : bool :=
    match chunks with
    | [] => false
    | c :: r =>
      let l := len c in let spare := BUFCAP - buflen in
      if l <? spare then bw_sim (buflen + l) r
      else if spare <? l then true
      else if BUFCAP <=? l then true else bw_sim BUFCAP r
    end.

  (* ---------- WAL ---------- *)
  Definition last_written (w : wal) : N := nextv w - 1.          (* 0 = none *)

  (* SegmentWriter::close / seal on a writer taken out of the manager.  On a failed flush the
     BufWriter is dropped, and its Drop retries the flush once. *)
  Definition writer_close (seg : N) (buf : bytes) : M (res serr unit) :=
    do! rb <- bw_flush (PWal seg) buf ;;
    match rb with
    | (Err _, b) => do! _ <- bw_flush (PWal seg) b ;; ret (Err EWalIo)
    | (Ok _, _) => do! r <- do_call (CSync (PWal seg)) ;;
                   match r with Ok _ => ret (Ok tt) | Err _ => ret (Err EWalIo) end
    end.
  Definition writer_seal (seg : N) (buf : bytes) : M (res serr unit) :=
    (* write_all(sentinel) goes through the BufWriter first *)
    do! rb <- bw_write_all (PWal seg) buf (sentinel) ;;
    match rb with
    | (Err _, b) => do! _ <- bw_flush (PWal seg) b ;; ret (Err EWalIo)
    | (Ok _, b) => writer_close seg b
    end.

  (* SegmentWriter::write_entry: the record (header ++ payload) is handed to the BufWriter in
     one write_all, then flush, then sync_data *)
  Definition write_entry (seg : N) (buf : bytes) (ver : N) (payload : bytes)
    : M (res serr unit * bytes) :=
    let p := PWal seg in
    do! rb <- bw_write_all p buf (enc_record H ver payload) ;;
    match rb with (Err _, b) => ret (Err EWalWrite, b) | (Ok _, b) =>
    do! rb <- bw_flush p b ;;
    match rb with (Err _, b) => ret (Err EWalIo, b) | (Ok _, b) =>
    do! r <- do_call (CSync p) ;;
    match r with Err _ => ret (Err EWalIo, b) | Ok _ => ret (Ok tt, b) end
    end end.

  (* WalManager::append_op: returns the version used *)
  Definition append_op (w : wal) (payload : bytes) : M (res serr N * wal) :=
    let ver := nextv w in
    let target := seg_of ver in
    let w1 := mkWal (ver + 1) (writer w) in
    let must_roll := match writer w with None => true | Some (s, _) => negb (s =? target) end in
    do! ro <- (if must_roll then
             do! rs <- (match writer w with
                    | Some (s, b) => writer_seal s b
                    | None => ret (Ok tt) end) ;;
             match rs with
             | Err e => ret (Err e, mkWal (ver + 1) None)
             | Ok _ =>
               do! r <- do_call (COpenAppend (PWal target)) ;;
               match r with
               | Err _ => ret (Err EWalIo, mkWal (ver + 1) None)
               | Ok _ => ret (Ok tt, mkWal (ver + 1) (Some (target, [])))
               end
             end
           else ret (Ok tt, w1)) ;;
    match ro with
    | (Err e, w2) => ret (Err e, w2)
    | (Ok _, w2) =>
      match writer w2 with
      | None => ret (Err EPanic, w2)                      (* unreachable: unwrap() *)
      | Some (s, b) =>
        do! rb <- write_entry s b ver payload ;;
        match rb with
        | (Err e, b') => ret (Err e, mkWal (nextv w2) (Some (s, b')))
        | (Ok _, b') => ret (Ok ver, mkWal (nextv w2) (Some (s, b')))
        end
      end
    end.

  Definition wal_ids (s : fs) : list N :=
    fold_right (fun pf acc => match fst pf with PWal i => i :: acc | _ => acc end) [] (files s).
  Fixpoint insert_sorted (x : N) (l : list N) : list N :=
    match l with [] => [x] | y :: r => if x <=? y then x :: l else y :: insert_sorted x r end.
  Definition sort_ids (l : list N) : list N := fold_right insert_sorted [] l.

  (* prune_stale_segments: unlink ids below the bound in ascending order; stops at an error,
     which the caller ignores *)
  Fixpoint unlink_all (ps : list path) : M (res errno unit) :=
    match ps with
    | [] => ret (Ok tt)
    | p :: r => do! x <- do_call (CUnlink p) ;;
                match x with Ok _ => unlink_all r | Err e => ret (Err e) end
    end.
  Definition prune_below (bound : N) : M unit :=
    do! s <- get_fs ;;
    do! _ <- unlink_all (map PWal (filter (fun i => i <? bound) (sort_ids (wal_ids s)))) ;;
    ret tt.

  Inductive ckreason := RAfterReplay | RExplicit | RRollover.

  (* Index::checkpoint_inner *)
  Definition checkpoint_inner (reason : ckreason) (m : mem) : M (res serr unit * mem) :=
    let cur := lpv (idx m) in
    let nv := nextv (mwal m) in
    let should := match reason with
                  | RAfterReplay | RExplicit => true
                  | RRollover => if cur =? 0 then 1 <? nv else cur + 1 <? nv
                  end in
    let target := nv - 1 in
    if negb should || (target =? 0) then ret (Ok tt, m)
    else
      let i := idx m in
      let i1 := mkIstate (km i) (rc i) target (ub i) (tb i) (ssz i) in
      let data := enc_snapshot target (km i1) in
      do! r <- atomic_write PIndex PIndexTmp data ;;
      match r with
      | Err _ => ret (Err EIndexWrite, mkMem i1 (mwal m) (mpre m))
      | Ok _ =>
        let i2 := mkIstate (km i1) (rc i1) target (ub i1) (tb i1) (len data) in
        do! _ <- (if negb (cur =? 0) && (target <=? cur) then ret tt else prune_below (seg_of target)) ;;
        ret (Ok tt, mkMem i2 (mwal m) (mpre m))
      end.

  (* delete_blobs: NotFound is skipped, any other error aborts *)
  Fixpoint delete_blobs (hs : list bytes) : M (res errno unit) :=
    match hs with
    | [] => ret (Ok tt)
    | h :: r =>
      do! x <- do_call (CUnlink (cas_path h)) ;;
      match x with
      | Ok _ | Err ENOENT => delete_blobs r
      | Err e => ret (Err e)
      end
    end.

  (* apply_wal_op_unsafe + the tail of apply_put_op / apply_remove_op (sequentially there are no
     other pending intents, so the filter against intents keeps every unreferenced hash) *)
  Definition log_and_apply (m : mem) (o : rawop) : M (res serr unit * mem) :=
    let w := mwal m in
    let pre_seg := if last_written w =? 0 then 0 else seg_of (last_written w) in
    do! ra <- append_op w (enc_op o) ;;
    match ra with
    | (Err e, w') => ret (Err e, mkMem (idx m) w' (mpre m))
    | (Ok ver, w') =>
      match apply_op cmp (idx m) o with
      | Err _ => ret (Err EPanic, mkMem (idx m) w' (mpre m))
      | Ok (i', unref) =>
        let m1 := mkMem i' w' (mpre m) in
        let rolled := negb (pre_seg =? seg_of ver) in
        do! rd <- delete_blobs unref ;;
        match rd with
        | Err _ => ret (Err EBlobDeletion, m1)
        | Ok _ => if rolled then checkpoint_inner RRollover m1 else ret (Ok tt, m1)
        end
      end
    end.

  (* ---------- API: writes ---------- *)
  Definition new_staging : M (res serr path) :=
    do! s <- get_fs ;;
    let p := PStaging (nstage s) in
    do! r <- do_call (CCreateExcl p) ;;
    match r with Ok _ => ret (Ok p) | Err _ => ret (Err EStageCreate) end.

  Definition drop_staging (p : path) : M unit := do! _ <- do_call (CUnlink p) ;; ret tt.

  (* put(key) ; write(chunk)* ; finish() *)
  Definition put (m : mem) (k : bytes) (chunks : list bytes) : M (res serr unit * mem) :=
    let content := concat chunks in
    do! rp <- new_staging ;;
    match rp with Err e => ret (Err e, m) | Ok p =>
    do! r <- (match content with [] => ret (Ok tt) | _ => do_call (CAppend p content) end) ;;
    match r with
    | Err _ =>
      (* a flush that fails inside finish() is retried once by the BufWriter's Drop while the
         staging file still exists; one that fails inside write() is retried only after the
         file was unlinked *)
      do! _ <- (if bw_sim 0 chunks then ret (Ok tt) else do_call (CAppend p content)) ;;
      do! _ <- drop_staging p ;; ret (Err EStageWrite, m)
    | Ok _ =>
    do! r <- (if c_sync cfg then do_call (CSync p) else ret (Ok tt)) ;;
    match r with Err _ => do! _ <- drop_staging p ;; ret (Err EStageSync, m) | Ok _ =>
    let h := H content in
    let hp := hexpath h in
    do! r <- (if mpre m then ret (Ok tt)
          else mkdir_cas2 (nth 0 hp []) (nth 1 hp [])) ;;
    match r with Err _ => do! _ <- drop_staging p ;; ret (Err ESubdir, m) | Ok _ =>
    do! r <- do_call (CRename p (cas_path h)) ;;
    match r with Err _ => do! _ <- drop_staging p ;; ret (Err EMoveStaged, m) | Ok _ =>
    log_and_apply m (RPut k h (len content))
    end end end end end.

  (* a transaction dropped without finish() *)
  Definition abort (m : mem) (k : bytes) (chunks : list bytes) : M (res serr unit * mem) :=
    do! rp <- new_staging ;;
    match rp with Err e => ret (Err e, m) | Ok p =>
    do! r <- (if bw_sim 0 chunks then do_call (CAppend p (concat chunks)) else ret (Ok tt)) ;;
    match r with
    | Err _ => do! _ <- drop_staging p ;; ret (Err EStageWrite, m)
    | Ok _ =>
      (* field drop order: the NamedTempFile is unlinked first, then the BufWriter flushes what
         it still holds - into the unlinked file, unless the unlink failed *)
      do! u <- do_call (CUnlink p) ;;
      do! _ <- (match u, concat chunks with
                | Err _, _ :: _ => if bw_sim 0 chunks then ret (Ok tt) else do_call (CAppend p (concat chunks))
                | _, _ => ret (Ok tt)
                end) ;;
      ret (Ok tt, m)
    end end.

  Definition remove (m : mem) (k : bytes) : M (res serr bool * mem) :=
    match sm_get cmp (km (idx m)) k with
    | None => ret (Ok false, m)
    | Some _ =>
      do! rm <- log_and_apply m (RRemove [k]) ;;
      match rm with (Ok _, m') => ret (Ok true, m') | (Err e, m') => ret (Err e, m') end
    end.

  (* BTreeMap::range checks its bounds only when the tree has a root *)
  Definition nonempty {A} (l : list A) : bool := match l with [] => false | _ => true end.

  Definition keys_in_range (m : mem) (lo hi : bound) : list bytes :=
    map fst (filter (fun e => in_range cmp lo hi (fst e)) (km (idx m))).

  Definition remove_range (m : mem) (lo hi : bound) : M (res serr N * mem) :=
    if nonempty (km (idx m)) && range_panics cmp lo hi then ret (Err EPanic, m) else
    match keys_in_range m lo hi with
    | [] => ret (Ok 0, m)
    | ks =>
      do! rm <- log_and_apply m (RRemove ks) ;;
      match rm with
      | (Ok _, m') => ret (Ok (N.of_nat (length ks)), m')
      | (Err e, m') => ret (Err e, m')
      end
    end.

  Definition checkpoint (m : mem) : M (res serr unit * mem) := checkpoint_inner RExplicit m.

  (* drop of the last handle: WalManager::drop closes the active writer, errors are logged *)
  Definition close (m : mem) : M unit :=
    match writer (mwal m) with
    | None => ret tt
    | Some (s, b) => do! _ <- writer_close s b ;; ret tt
    end.

  (* ---------- API: reads (pure in the filesystem) ---------- *)
  Definition blob_of (s : fs) (h : bytes) : option bytes :=
    match fget s (cas_path h) with Some f => Some (fdata f) | None => None end.

  Definition get (m : mem) (s : fs) (k : bytes) : res serr (option bytes) :=
    match sm_get cmp (km (idx m)) k with
    | None => Ok None
    | Some it => match blob_of s (ihash it) with Some b => Ok (Some b) | None => Err EBlobMissing end
    end.
  Definition get_size (m : mem) (k : bytes) : option N :=
    match sm_get cmp (km (idx m)) k with None => None | Some it => Some (isize it) end.
  Definition get_range_api (m : mem) (s : fs) (k : bytes) (a b : N) : res serr (option bytes) :=
    match sm_get cmp (km (idx m)) k with
    | None => Ok None
    | Some it =>
      if isize it <=? a then Ok (Some [])
      else if N.min b (isize it) <? a then Err EInvalidRange
      else match blob_of s (ihash it) with
           | None => Err EBlobMissing
           | Some f => match fst (get_range (fun _ w => w) (isize it) f a b) with
                       | RBytes x => Ok (Some x)
                       | RInvalidRange => Err EInvalidRange
                       end
           end
    end.
  Definition range_iter (m : mem) (lo hi : bound) : res serr (list (bytes * item)) :=
    if nonempty (km (idx m)) && range_panics cmp lo hi then Err EPanic
    else Ok (filter (fun e => in_range cmp lo hi (fst e)) (km (idx m))).

  (* ---------- orphan scan and clean-up (src/orphan.rs) ---------- *)
  Definition index_hashes (m : mem) : smap N :=        (* hash -> expected size (last in key order wins) *)
    fold_left (fun acc e => sm_ins lex_cmp acc (ihash (snd e)) (isize (snd e))) (km (idx m)) [].

  (* an entry names a blob only at the canonical path of the hash its components decode to *)
  Definition parse_canon (comps : list bytes) : option bytes :=
    match parse_path comps with
    | Some h => if dir_eqb comps (hexpath h) then Some h else None
    | None => None
    end.

  Definition scan_orphans (m : mem) (s : fs) (verify : bool) : ostats :=
    let ih := index_hashes m in
    let step (acc : ostats * smap unit) (pf : path * file) :=
      let '(o, seen) := acc in
      match fst pf with
      | PCas comps =>
        match comps with
        | [_; _; _] =>
          match parse_canon comps with
          | Some h =>
            let seen' := sm_ins lex_cmp seen h tt in
            match sm_get lex_cmp ih h with
            | None => (mkOstats (o_orphans o ++ [h]) (o_invalid o) (o_missing o) (o_corrupted o) (o_staging o) 0, seen')
            | Some sz =>
              if verify && negb ((len (fdata (snd pf)) =? sz) && beqb (H (fdata (snd pf))) h)
              then (mkOstats (o_orphans o) (o_invalid o) (o_missing o) (o_corrupted o ++ [h]) (o_staging o) 0, seen')
              else (o, seen')
            end
          | None => (mkOstats (o_orphans o) (o_invalid o ++ [fst pf]) (o_missing o) (o_corrupted o) (o_staging o) 0, seen)
          end
        | _ => (mkOstats (o_orphans o) (o_invalid o ++ [fst pf]) (o_missing o) (o_corrupted o) (o_staging o) 0, seen)
        end
      | PStaging _ => (mkOstats (o_orphans o) (o_invalid o) (o_missing o) (o_corrupted o) (o_staging o ++ [fst pf]) 0, seen)
      | _ => acc
      end in
    let '(o, seen) := fold_left step (files s) (mkOstats [] [] [] [] [] 0, []) in
    let missing := map fst (filter (fun e => match sm_get lex_cmp seen (fst e) with None => true | Some _ => false end) ih) in
    mkOstats (o_orphans o) (o_invalid o) missing (o_corrupted o) (o_staging o) (N.of_nat (length seen)).

  Record recovery := mkRecovery { r_deleted : N; r_quarantined : N; r_skipped : N;
                                  r_invalid : N; r_staging : N; r_errors : N }.

  Definition referenced (m : mem) (h : bytes) : bool :=
    match rc_get (rc (idx m)) h with Some _ => true | None => false end.

  Fixpoint delete_orphan_list (m : mem) (hs : list bytes) (acc : recovery) : M recovery :=
    match hs with
    | [] => ret acc
    | h :: r =>
      if referenced m h
      then delete_orphan_list m r (mkRecovery (r_deleted acc) (r_quarantined acc) (r_skipped acc + 1) (r_invalid acc) (r_staging acc) (r_errors acc))
      else
        do! x <- do_call (CUnlink (cas_path h)) ;;
        match x with
        | Ok _ => delete_orphan_list m r (mkRecovery (r_deleted acc + 1) (r_quarantined acc) (r_skipped acc) (r_invalid acc) (r_staging acc) (r_errors acc))
        | Err ENOENT => delete_orphan_list m r (mkRecovery (r_deleted acc) (r_quarantined acc) (r_skipped acc + 1) (r_invalid acc) (r_staging acc) (r_errors acc))
        | Err _ => delete_orphan_list m r (mkRecovery (r_deleted acc) (r_quarantined acc) (r_skipped acc) (r_invalid acc) (r_staging acc) (r_errors acc + 1))
        end
    end.
  Fixpoint remove_paths (ps : list path) (okc errc : N) : M (N * N) :=
    match ps with
    | [] => ret (okc, errc)
    | p :: r =>
      do! s <- get_fs ;;
      match fget s p with
      | None => remove_paths r okc errc
      | Some _ => do! x <- do_call (CUnlink p) ;;
                  match x with Ok _ => remove_paths r (okc + 1) errc | Err _ => remove_paths r okc (errc + 1) end
      end
    end.
  Definition delete_orphans (m : mem) (o : ostats) : M recovery :=
    do! a <- delete_orphan_list m (o_orphans o) (mkRecovery 0 0 0 0 0 0) ;;
    do! inv <- remove_paths (o_invalid o) 0 0 ;;
    do! st <- remove_paths (o_staging o) 0 0 ;;
    ret (mkRecovery (r_deleted a) 0 (r_skipped a) (fst inv) (fst st) (r_errors a + snd inv + snd st)).

  (* quarantine: the blob leaves the database directory (rename to an outside directory) *)
  Fixpoint quarantine_list (m : mem) (hs : list bytes) (acc : recovery) : M recovery :=
    match hs with
    | [] => ret acc
    | h :: r =>
      if referenced m h
      then quarantine_list m r (mkRecovery 0 (r_quarantined acc) (r_skipped acc + 1) 0 0 (r_errors acc))
      else
        do! x <- do_call (CUnlink (cas_path h)) ;;
        match x with
        | Ok _ => quarantine_list m r (mkRecovery 0 (r_quarantined acc + 1) (r_skipped acc) 0 0 (r_errors acc))
        | Err ENOENT => quarantine_list m r (mkRecovery 0 (r_quarantined acc) (r_skipped acc + 1) 0 0 (r_errors acc))
        | Err _ => quarantine_list m r (mkRecovery 0 (r_quarantined acc) (r_skipped acc) 0 0 (r_errors acc + 1))
        end
    end.
  Definition quarantine_orphans (m : mem) (o : ostats) : M recovery :=
    quarantine_list m (o_orphans o) (mkRecovery 0 0 0 0 0 0).

  Definition delete_orphan (m : mem) (o : ostats) (h : bytes) : M (res serr bool) :=
    if negb (existsb (beqb h) (o_orphans o)) then ret (Ok false)
    else if referenced m h then ret (Ok false)
    else do! x <- do_call (CUnlink (cas_path h)) ;;
         match x with
         | Ok _ => ret (Ok true)
         | Err ENOENT => ret (Ok false)
         | Err _ => ret (Err ERemoveFile)
         end.

  (* ---------- open ---------- *)
  Definition hex2 (i : N) : bytes := [hexdigit (i / 16); hexdigit (i mod 16)].
  Definition all256 : list N := map N.of_nat (seq 0 256).
  Fixpoint mkdirs_pre (ds : list (N * N)) : M (res errno unit) :=
    match ds with
    | [] => ret (Ok tt)
    | (i, j) :: r => do! x <- mkdir_cas2 (hex2 i) (hex2 j) ;;
                     match x with Ok _ => mkdirs_pre r | Err e => ret (Err e) end
    end.
  Definition pre_create_all : M (res errno unit) :=
    mkdirs_pre (flat_map (fun i => map (fun j => (i, j)) all256) all256).

  (* replay of one segment's records (WalReplayer::replay inner loop) *)
  Fixpoint replay_records (c : N) (recs : list (N * bytes)) (st : istate) (highest cnt : N)
    : res serr (istate * N * N) :=
    match recs with
    | [] => Ok (st, highest, cnt)
    | (ver, payload) :: r =>
      let highest' := N.max highest ver in
      if ver <=? c then replay_records c r st highest' cnt
      else
        match dec_op payload with
        | Err e => Err (EReplay (RDeserialize e))
        | Ok raw =>
          match from_raw (c_kt cfg) raw with
          | Err e => Err (EReplay (RConvert e))
          | Ok o =>
            match apply_op cmp st o with
            | Err _ => Err EPanic
            | Ok (st', _) => replay_records c r st' highest' (cnt + 1)
            end
          end
        end
    end.

  Fixpoint replay_segments (c : N) (s : fs) (ids : list N) (st : istate) (highest cnt : N)
    : res serr (istate * N * N) :=
    match ids with
    | [] => Ok (st, highest, cnt)
    | i :: r =>
      match fget s (PWal i) with
      | None => Err EWalIo
      | Some f =>
        let '(recs, e) := read_segment_lazy H (S (length (fdata f))) (fdata f) in
        match replay_records c recs st highest cnt with
        | Err x => Err x
        | Ok (st', hi', cnt') =>
          match e with
          | Some x => Err (EReplay x)
          | None => replay_segments c s r st' hi' cnt'
          end
        end
      end
    end.

  (* Index::load *)
  Definition index_load (pre : bool) : M (res serr mem) :=
    do! s <- get_fs ;;
    let loaded :=
      match fget s PIndex with
      | None => Ok empty_istate
      | Some f =>
        match fdata f with
        | [] => Err EEmptyIndex
        | data =>
          match dec_snapshot data with
          | Err _ => Err EDecodeIndex
          | Ok (ver, es) =>
            match load_entries cmp (c_kt cfg) ver es with
            | None => Err EDecodeKey
            | Some st => Ok (recompute_stats st (len data))
            end
          end
        end
      end in
    match loaded with
    | Err e => ret (Err e)
    | Ok st0 =>
      let c := lpv st0 in
      match replay_segments c s (sort_ids (wal_ids s)) st0 c 0 with
      | Err e => ret (Err e)
      | Ok (st, highest, cnt) =>
        let nv := highest + 1 in
        let target := (nv - 1) / c_n cfg in
        do! r <- (match fget s (PWal target) with
              | Some _ => ret (Ok tt)
              | None => do! x <- do_call (CCreate (PWal target)) ;;
                        match x with Err e => ret (Err e) | Ok _ => do_call (CSync (PWal target)) end
              end) ;;
        match r with
        | Err _ => ret (Err EWalIo)
        | Ok _ =>
          let m := mkMem st (mkWal nv None) pre in
          if 0 <? cnt then
            do! rc <- checkpoint_inner RAfterReplay m ;;
            match rc with (Ok _, m') => ret (Ok m') | (Err e, _) => ret (Err e) end
          else ret (Ok m)
        end
      end
    end.

  (* CasInner::new + open_with_recover (the flock is modelled separately, OpenLock.v) *)
  Definition open_with_recover : M (res serr (mem * option ostats)) :=
    do! r <- mkdir_p [s_staging] ;;
    match r with Err _ => ret (Err EStagingDir) | Ok _ =>
    do! r <- mkdir_p [s_cas] ;;
    match r with Err _ => ret (Err ECasDir) | Ok _ =>
    do! r <- do_call (CCreate PLock) ;;
    match r with Err _ => ret (Err ELockFile) | Ok _ =>
    do! sf <- read_file PSettings ;;
    do! rs <- (match sf with
           | Some data =>
             match dec_settings data with
             | None => ret (Err ESettingsParse)
             | Some (ver, pre, n) =>
               if negb (ver =? CURRENT_DB_VERSION) then ret (Err ESettingsVersion)
               else if negb (n =? c_n cfg) then ret (Err ESettingsN)
               else ret (Ok pre)
             end
           | None =>
             do! r <- (if c_pre cfg then pre_create_all else ret (Ok tt)) ;;
             match r with Err _ => ret (Err ECasDir) | Ok _ =>
             do! r <- atomic_write PSettings PSettingsTmp
                    (enc_settings CURRENT_DB_VERSION (c_pre cfg) (c_n cfg)) ;;
             match r with Err _ => ret (Err ESettingsWrite) | Ok _ => ret (Ok (c_pre cfg)) end
             end
           end) ;;
    match rs with Err e => ret (Err e) | Ok pre =>
    do! rm <- index_load pre ;;
    match rm with Err e => ret (Err e) | Ok m =>
    do! s <- get_fs ;;
    ret (Ok (m, if c_scan cfg then Some (scan_orphans m s (c_verify cfg)) else None))
    end end end end end.

  (* Cas::open: the integrity gate; a rejected handle is dropped (closed) again *)
  Definition open_store : M (res serr (mem * option ostats)) :=
    do! r <- open_with_recover ;;
    match r with
    | Err e => ret (Err e)
    | Ok (m, os) =>
      match os with
      | Some o =>
        if c_failint cfg && negb (match o_missing o, o_corrupted o with [], [] => true | _, _ => false end)
        then do! _ <- close m ;; ret (Err EIntegrity)
        else ret (Ok (m, os))
      | None => ret (Ok (m, os))
      end
    end.
End Store.
