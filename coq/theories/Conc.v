(* Conc.v -- the concurrent model M_conc: threads executing API calls, the three locks of the
   index (I = pending_intents mutex, S = state RwLock, W = wal mutex) and one atomic micro-step per
   scheduling point of the code (the `verif::point` sites).  A step of thread t runs t from the
   point where it is parked to its next point; it is enabled only when the lock it acquires first
   is free.  Definitions only.

   Anchors: src/transaction.rs (commit), src/index/manager.rs (register_intent, apply_put_op,
   apply_remove_op, checkpoint, PendingIntents), src/cas.rs (remove, remove_range, with_blob_item),
   src/cas_manager.rs (delete_blobs), src/orphan.rs (delete_orphans).
   Bytes of WAL and snapshot are not in this model (they are M_seq's business); the index layer
   (apply_op, refcounts) is shared with M_seq.

   Faults: `bad h` says that the canonical path of hash h is obstructed (a non-empty directory sits
   there): unlinking it, renaming a staged file onto it and reading it all fail with an error that
   is not NotFound.  `ckbad` says that writing the index snapshot fails, so every checkpoint
   returns an error.  The error paths are the code's: a failed rename reverts the registered
   intent (IntentGuard::drop, point guard_drop.lock_I); a failed blob deletion or rollover
   checkpoint after the operation was applied returns the error WITHOUT reverting the intent a
   second time (apply_put_op has already released it). *)
From Cas Require Export Index Range.

Inductive ccall :=
| KPut (k c : bytes)
| KAbort (k c : bytes)
| KRemove (k : bytes)
| KRemoveRange (lo hi : bound)
| KGet (k : bytes)
| KGetSize (k : bytes)
| KGetRange (k : bytes) (a b : N)            (* get_range(k, a, b) *)
| KIter                                      (* read_index_state(): the keys, in order, under one read guard *)
| KCheckpoint
| KDelOrphans (hs : list bytes).

Inductive cres :=
| CUnit | CBool (b : bool) | CNum (n : N) | CBytes (o : option bytes) | CSize (o : option N)
| CMissing                                   (* BlobDataMissing *)
| COrphans (deleted skipped : N)
| CKeys (ks : list bytes)
| CInvalid                                   (* InvalidRange: start above the (clamped) end *)
| CErr.                                      (* the call returned an I/O error *)

(* what a read wants from the item it looked up *)
Inductive rmode := MFull | MSize | MRange (a b : N).
(* answered from the index item alone, without opening the blob (get_size; the empty-range and
   invalid-range exits of get_range / read_blob_range, which precede the open) *)
Definition pre_open (md : rmode) (it : item) : option cres :=
  match md with
  | MFull => None
  | MSize => Some (CSize (Some (isize it)))
  | MRange a b =>
    if isize it <=? a then Some (CBytes (Some []))
    else if N.min b (isize it) <? a then Some CInvalid
    else None
  end.
Definition read_result (md : rmode) (it : item) (c : bytes) : cres :=
  match md with
  | MRange a b => CBytes (Some (slice c a (N.min b (isize it))))
  | _ => CBytes (Some c)
  end.
Definition absent_result (md : rmode) : cres := match md with MSize => CSize None | _ => CBytes None end.

(* the second half of every write: lock I, lock S, lock W + append + apply, filter, unlinks,
   release I, optional rollover checkpoint *)
Inductive wkind :=
| WPut (k h : bytes) (sz : N)
| WRm (ks : list bytes) (res : cres).

Inductive pc :=
| Idle
| PReg (k c : bytes)                          (* parked at commit.register *)
| PILock (k c : bytes)                        (* intent.lock_I *)
| PRen (k c : bytes) (repl : option bytes)     (* commit.rename; repl = the intent this one replaced in by_key *)
| PDropI (k h : bytes) (repl : option bytes)  (* guard_drop.lock_I: reverting an uncommitted intent *)
| WLockI (w : wkind)                          (* put.lock_I / rm.lock_I *)
| WLockS (w : wkind)                          (* *.lock_S, holding I *)
| WLockW (w : wkind)                          (* *.lock_W, holding I and S *)
| WApplied (w : wkind) (un : list bytes) (rolled : bool)     (* *.applied, holding I *)
| WUnlink (w : wkind) (todo : list bytes) (rolled : bool)    (* cas.unlink, holding I *)
| WReleased (w : wkind) (rolled : bool)       (* *.released_I *)
| WCkS (res : cres) (who : N)                 (* ckpt.lock_S (0) / put.ckpt.lock_S (1) / rm.ckpt.lock_S (2) *)
| WCkW (res : cres) (who : N)                 (* *.ckpt.lock_W, holding S *)
| RRead (k : bytes)                           (* remove: read.lock_S *)
| RScanned (k : bytes)                        (* remove.scanned *)
| RRRead (lo hi : bound)                      (* remove_range: read.lock_S *)
| RRScanned (ks : list bytes)                 (* remove_range.scanned *)
| GRead (k : bytes) (md : rmode)              (* read.lock_S *)
| GLooked (k : bytes) (it : item) (md : rmode)          (* read.looked_up *)
| GOpen (k : bytes) (it : item) (md : rmode)  (* cas.open_blob *)
| GReread (k : bytes) (it : item) (md : rmode)          (* read.lock_S after a NotFound *)
| GOpenL (k : bytes) (it : item) (md : rmode) (* cas.open_blob, holding the state lock shared *)
| IRead                                       (* iteration: read.lock_S *)
| OLockI (todo : list bytes) (del skip : N)   (* orphan.lock_I *)
| ORead (h : bytes) (todo : list bytes) (del skip : N)       (* read.lock_S, holding I *)
| OUnlink (h : bytes) (todo : list bytes) (del skip : N).    (* orphan.unlink, holding I *)

Record tstate := mkT { t_calls : list ccall; t_pc : pc; t_res : list cres }.

Record cstate := mkC {
  g_idx : istate;
  g_bykey : smap bytes;          (* PendingIntents.by_key (kept sorted by lex_cmp: a HashMap) *)
  g_byhash : smap N;             (* PendingIntents.by_hash: in-flight intents per blob hash *)
  g_cas : smap bytes;            (* hash -> content of the file at its canonical path *)
  g_nextv : N;                   (* next_op_version *)
  g_I : option nat;              (* holder of pending_intents *)
  g_S : option nat;              (* exclusive holder of the state lock *)
  g_R : list nat;                (* shared holders that span a step: readers retrying under the lock *)
  g_thr : list (nat * tstate)
}.

Section Conc.
  Variable H : bytes -> bytes.
  Variable cmp : bytes -> bytes -> comparison.     (* key order *)
  Variable nops : N.                               (* num_ops_per_wal *)
  Variable bad : bytes -> bool.                    (* obstructed blob paths (by hash) *)
  Variable ckbad : bool.                           (* checkpoints fail *)

  Fixpoint tget (l : list (nat * tstate)) (t : nat) : option tstate :=
    match l with [] => None | (u, s) :: r => if Nat.eqb t u then Some s else tget r t end.
  Fixpoint tset (l : list (nat * tstate)) (t : nat) (s : tstate) : list (nat * tstate) :=
    match l with
    | [] => [(t, s)]
    | (u, x) :: r => if Nat.eqb t u then (u, s) :: r else (u, x) :: tset r t s
    end.

  Definition free (l : option nat) : bool := match l with None => true | Some _ => false end.
  Definition noreaders (g : cstate) : bool := match g_R g with [] => true | _ => false end.
  Definition protects (g : cstate) (h : bytes) : bool :=
    match sm_get lex_cmp (g_byhash g) h with Some _ => true | None => false end.
  Definition referenced (g : cstate) (h : bytes) : bool :=
    match rc_get (rc (g_idx g)) h with Some _ => true | None => false end.
  Definition seg_ofc (v : N) : N := (v - 1) / nops.

  Definition set_pc (g : cstate) (t : nat) (ts : tstate) (p : pc) : cstate :=
    mkC (g_idx g) (g_bykey g) (g_byhash g) (g_cas g) (g_nextv g) (g_I g) (g_S g) (g_R g)
        (tset (g_thr g) t (mkT (t_calls ts) p (t_res ts))).
  (* the current call returns r: back to Idle *)
  Definition finish (g : cstate) (t : nat) (ts : tstate) (r : cres) : cstate :=
    mkC (g_idx g) (g_bykey g) (g_byhash g) (g_cas g) (g_nextv g) (g_I g) (g_S g) (g_R g)
        (tset (g_thr g) t (mkT (t_calls ts) Idle (t_res ts ++ [r]))).

  Definition release_hash (bh : smap N) (h : bytes) : smap N :=
    match sm_get lex_cmp bh h with
    | Some c => if c <=? 1 then sm_del lex_cmp bh h else sm_ins lex_cmp bh h (c - 1)
    | None => bh
    end.
  Definition register_hash (bh : smap N) (h : bytes) : smap N :=
    match sm_get lex_cmp bh h with
    | Some c => sm_ins lex_cmp bh h (c + 1)
    | None => sm_ins lex_cmp bh h 1
    end.

  Definition wres (w : wkind) : cres := match w with WPut _ _ _ => CUnit | WRm _ r => r end.
  Definition wop (w : wkind) : rawop :=
    match w with WPut k h sz => RPut k h sz | WRm ks _ => RRemove ks end.

  Definition after_release (g : cstate) (t : nat) (ts : tstate) (w : wkind) (rolled : bool) : cstate :=
    set_pc g t ts (WReleased w rolled).

  Definition keys_in (m : smap item) (lo hi : bound) : list bytes :=
    map fst (filter (fun e => in_range cmp lo hi (fst e)) m).

  (* one micro-step of thread t; None = t cannot move (finished, unknown, or its lock is taken) *)
  Definition cstep (g : cstate) (t : nat) : option cstate :=
    match tget (g_thr g) t with
    | None => None
    | Some ts =>
      match t_pc ts with
      | Idle =>
        match t_calls ts with
        | [] => None
        | c :: rest =>
          let ts' := mkT rest Idle (t_res ts) in
          match c with
          | KPut k cc => Some (set_pc g t ts' (PReg k cc))
          | KAbort _ _ => Some (finish g t ts' CUnit)
          | KRemove k => Some (set_pc g t ts' (RRead k))
          | KRemoveRange lo hi => Some (set_pc g t ts' (RRRead lo hi))
          | KGet k => Some (set_pc g t ts' (GRead k MFull))
          | KGetSize k => Some (set_pc g t ts' (GRead k MSize))
          | KGetRange k a b => Some (set_pc g t ts' (GRead k (MRange a b)))
          | KIter => Some (set_pc g t ts' IRead)
          | KCheckpoint => Some (set_pc g t ts' (WCkS CUnit 0))
          | KDelOrphans hs =>
            match hs with
            | [] => Some (finish g t ts' (COrphans 0 0))
            | _ => Some (set_pc g t ts' (OLockI hs 0 0))
            end
          end
        end
      | PReg k c => Some (set_pc g t ts (PILock k c))
      | PILock k c =>
        if free (g_I g) then
          let h := H c in
          Some (mkC (g_idx g) (sm_ins lex_cmp (g_bykey g) k h) (register_hash (g_byhash g) h)
                    (g_cas g) (g_nextv g) (g_I g) (g_S g) (g_R g)
                    (tset (g_thr g) t (mkT (t_calls ts) (PRen k c (sm_get lex_cmp (g_bykey g) k)) (t_res ts))))
        else None
      | PRen k c repl =>
        let h := H c in
        if bad h then Some (set_pc g t ts (PDropI k h repl))       (* rename fails: the guard is dropped uncommitted *)
        else
        Some (mkC (g_idx g) (g_bykey g) (g_byhash g) (sm_ins lex_cmp (g_cas g) h c) (g_nextv g)
                  (g_I g) (g_S g) (g_R g)
                  (tset (g_thr g) t (mkT (t_calls ts) (WLockI (WPut k h (len c))) (t_res ts))))
      | PDropI k h repl =>
        (* IntentGuard::drop, not committed: lock I, release the hash, free the per-key slot if it
           is still ours and put back the intent we had replaced, unlock I *)
        if free (g_I g) then
          let bk := match sm_get lex_cmp (g_bykey g) k with
                    | Some h' =>
                      if beqb h' h then
                        match repl with
                        | Some r => sm_ins lex_cmp (sm_del lex_cmp (g_bykey g) k) k r
                        | None => sm_del lex_cmp (g_bykey g) k
                        end
                      else g_bykey g
                    | None => g_bykey g
                    end in
          Some (finish (mkC (g_idx g) bk (release_hash (g_byhash g) h) (g_cas g) (g_nextv g) (g_I g) (g_S g) (g_R g) (g_thr g))
                       t ts CErr)
        else None
      | WLockI w =>
        if free (g_I g) then
          Some (mkC (g_idx g) (g_bykey g) (g_byhash g) (g_cas g) (g_nextv g) (Some t) (g_S g) (g_R g)
                    (tset (g_thr g) t (mkT (t_calls ts) (WLockS w) (t_res ts))))
        else None
      | WLockS w =>
        if free (g_S g) && noreaders g then
          Some (mkC (g_idx g) (g_bykey g) (g_byhash g) (g_cas g) (g_nextv g) (g_I g) (Some t) (g_R g)
                    (tset (g_thr g) t (mkT (t_calls ts) (WLockW w) (t_res ts))))
        else None
      | WLockW w =>
        (* W is never held across a step: acquire it, append, apply, release W and S *)
        let ver := g_nextv g in
        let pre_seg := if ver - 1 =? 0 then 0 else seg_ofc (ver - 1) in
        let rolled := negb (pre_seg =? seg_ofc ver) in
        match apply_op cmp (g_idx g) (wop w) with
        | Err _ => None                                   (* a panic: proved unreachable *)
        | Ok (idx', un) =>
          Some (mkC idx' (g_bykey g) (g_byhash g) (g_cas g) (ver + 1) (g_I g) None (g_R g)
                    (tset (g_thr g) t (mkT (t_calls ts) (WApplied w un rolled) (t_res ts))))
        end
      | WApplied w un rolled =>
        let '(bk, bh) :=
          match w with
          | WPut k h _ =>
            ((match sm_get lex_cmp (g_bykey g) k with
              | Some h' => if beqb h' h then sm_del lex_cmp (g_bykey g) k else g_bykey g
              | None => g_bykey g
              end), release_hash (g_byhash g) h)
          | WRm _ _ => (g_bykey g, g_byhash g)
          end in
        let un' := filter (fun h => match sm_get lex_cmp bh h with Some _ => false | None => true end) un in
        match un' with
        | [] => Some (mkC (g_idx g) bk bh (g_cas g) (g_nextv g) None (g_S g) (g_R g)
                          (tset (g_thr g) t (mkT (t_calls ts) (WReleased w rolled) (t_res ts))))
        | _ => Some (mkC (g_idx g) bk bh (g_cas g) (g_nextv g) (g_I g) (g_S g) (g_R g)
                         (tset (g_thr g) t (mkT (t_calls ts) (WUnlink w un' rolled) (t_res ts))))
        end
      | WUnlink w todo rolled =>
        match todo with
        | [] => None
        | h :: rest =>
          if bad h then
            (* delete_blobs fails: the error is returned with I released; the operation stays applied,
               the remaining deletions and the rollover checkpoint are skipped *)
            Some (finish (mkC (g_idx g) (g_bykey g) (g_byhash g) (g_cas g) (g_nextv g) None (g_S g) (g_R g) (g_thr g))
                         t ts CErr)
          else
          let cas' := sm_del lex_cmp (g_cas g) h in
          match rest with
          | [] => Some (mkC (g_idx g) (g_bykey g) (g_byhash g) cas' (g_nextv g) None (g_S g) (g_R g)
                            (tset (g_thr g) t (mkT (t_calls ts) (WReleased w rolled) (t_res ts))))
          | _ => Some (mkC (g_idx g) (g_bykey g) (g_byhash g) cas' (g_nextv g) (g_I g) (g_S g) (g_R g)
                           (tset (g_thr g) t (mkT (t_calls ts) (WUnlink w rest rolled) (t_res ts))))
          end
        end
      | WReleased w rolled =>
        if rolled then Some (set_pc g t ts (WCkS (wres w) (match w with WPut _ _ _ => 1 | WRm _ _ => 2 end)))
        else Some (finish g t ts (wres w))
      | WCkS r e =>
        if free (g_S g) && noreaders g then
          Some (mkC (g_idx g) (g_bykey g) (g_byhash g) (g_cas g) (g_nextv g) (g_I g) (Some t) (g_R g)
                    (tset (g_thr g) t (mkT (t_calls ts) (WCkW r e) (t_res ts))))
        else None
      | WCkW r e =>
        (* acquire W, write the snapshot, prune, release W and S *)
        (* checkpoint_inner: a rollover checkpoint is skipped when nothing was logged since the last
           persisted version; otherwise the version about to be persisted is recorded in memory BEFORE
           the snapshot is written, so it stays advanced even when that write fails *)
        let cur := lpv (g_idx g) in
        let nv := g_nextv g in
        let should := if e =? 0 then true else (if cur =? 0 then 1 <? nv else cur + 1 <? nv) in
        let target := nv - 1 in
        if negb should || (target =? 0) then
          Some (finish (mkC (g_idx g) (g_bykey g) (g_byhash g) (g_cas g) (g_nextv g) (g_I g) None (g_R g) (g_thr g)) t ts r)
        else
          let i := g_idx g in
          let i1 := mkIstate (km i) (rc i) target (ub i) (tb i) (ssz i) in
          Some (finish (mkC i1 (g_bykey g) (g_byhash g) (g_cas g) (g_nextv g) (g_I g) None (g_R g) (g_thr g)) t ts
                       (if ckbad then CErr else r))
      | RRead k =>
        if free (g_S g) then
          match sm_get cmp (km (g_idx g)) k with
          | None => Some (finish g t ts (CBool false))
          | Some _ => Some (set_pc g t ts (RScanned k))
          end
        else None
      | RScanned k => Some (set_pc g t ts (WLockI (WRm [k] (CBool true))))
      | RRRead lo hi =>
        if free (g_S g) then Some (set_pc g t ts (RRScanned (keys_in (km (g_idx g)) lo hi))) else None
      | RRScanned ks =>
        match ks with
        | [] => Some (finish g t ts (CNum 0))
        | _ => Some (set_pc g t ts (WLockI (WRm ks (CNum (N.of_nat (length ks))))))
        end
      | GRead k md =>
        if free (g_S g) then
          match sm_get cmp (km (g_idx g)) k with
          | None => Some (finish g t ts (absent_result md))
          | Some it => Some (set_pc g t ts (GLooked k it md))
          end
        else None
      | GLooked k it md =>
        match pre_open md it with
        | Some r => Some (finish g t ts r)
        | None => Some (set_pc g t ts (GOpen k it md))
        end
      | GOpen k it md =>
        if bad (ihash it) then Some (finish g t ts CErr) else      (* an error other than NotFound: no retry *)
        match sm_get lex_cmp (g_cas g) (ihash it) with
        | Some c => Some (finish g t ts (read_result md it c))
        | None => Some (set_pc g t ts (GReread k it md))
        end
      | GReread k it md =>
        (* the retry: look the key up again and answer from its CURRENT item while holding the read lock *)
        if free (g_S g) then
          match sm_get cmp (km (g_idx g)) k with
          | None => Some (finish g t ts (absent_result md))
          | Some cur =>
            match pre_open md cur with
            | Some r => Some (finish g t ts r)
            | None =>
              Some (mkC (g_idx g) (g_bykey g) (g_byhash g) (g_cas g) (g_nextv g) (g_I g) (g_S g) (t :: g_R g)
                        (tset (g_thr g) t (mkT (t_calls ts) (GOpenL k cur md) (t_res ts))))
            end
          end
        else None
      | GOpenL k it md =>
        let g' := mkC (g_idx g) (g_bykey g) (g_byhash g) (g_cas g) (g_nextv g) (g_I g) (g_S g)
                      (filter (fun u => negb (Nat.eqb u t)) (g_R g)) (g_thr g) in
        if bad (ihash it) then Some (finish g' t ts CErr) else
        match sm_get lex_cmp (g_cas g) (ihash it) with
        | Some c => Some (finish g' t ts (read_result md it c))
        | None => Some (finish g' t ts CMissing)
        end
      | IRead =>
        if free (g_S g) then Some (finish g t ts (CKeys (map fst (km (g_idx g))))) else None
      | OLockI todo d s =>
        match todo with
        | [] => Some (finish g t ts (COrphans d s))
        | h :: rest =>
          if free (g_I g) then
            Some (mkC (g_idx g) (g_bykey g) (g_byhash g) (g_cas g) (g_nextv g) (Some t) (g_S g) (g_R g)
                      (tset (g_thr g) t (mkT (t_calls ts) (ORead h rest d s) (t_res ts))))
          else None
        end
      | ORead h rest d s =>
        if free (g_S g) then
          if referenced g h || protects g h then
            let g' := mkC (g_idx g) (g_bykey g) (g_byhash g) (g_cas g) (g_nextv g) None (g_S g) (g_R g) (g_thr g) in
            match rest with
            | [] => Some (finish g' t ts (COrphans d (s + 1)))
            | _ => Some (set_pc g' t ts (OLockI rest d (s + 1)))
            end
          else Some (set_pc g t ts (OUnlink h rest d s))
        else None
      | OUnlink h rest d s =>
        let '(cas', d', s') :=
          if bad h then (g_cas g, d, s) else                      (* counted as an error, neither deleted nor skipped *)
          match sm_get lex_cmp (g_cas g) h with
          | Some _ => (sm_del lex_cmp (g_cas g) h, d + 1, s)
          | None => (g_cas g, d, s + 1)
          end in
        let g' := mkC (g_idx g) (g_bykey g) (g_byhash g) cas' (g_nextv g) None (g_S g) (g_R g) (g_thr g) in
        match rest with
        | [] => Some (finish g' t ts (COrphans d' s'))
        | _ => Some (set_pc g' t ts (OLockI rest d' s'))
        end
      end
    end.

  Fixpoint crun (g : cstate) (sched : list nat) : cstate :=
    match sched with
    | [] => g
    | t :: r => match cstep g t with Some g' => crun g' r | None => crun g r end
    end.

  Definition init_c (thr : list (nat * list ccall)) (cas0 : smap bytes) : cstate :=
    mkC empty_istate [] [] cas0 1 None None [] (map (fun p => (fst p, mkT (snd p) Idle [])) thr).

  Definition finished_t (ts : tstate) : bool :=
    match t_pc ts, t_calls ts with Idle, [] => true | _, _ => false end.
  Definition all_finished (g : cstate) : bool := forallb (fun p => finished_t (snd p)) (g_thr g).
  Definition enabled (g : cstate) (t : nat) : bool :=
    match cstep g t with Some _ => true | None => false end.
End Conc.
