(* SMap.v -- association lists kept sorted by a comparison function: the model of
   BTreeMap<K, V> (and, with lex_cmp, a canonical form of HashMap<BlobHash, V>). *)
From Cas Require Export Base.

Section SMap.
  Context {V : Type}.
  Variable cmp : bytes -> bytes -> comparison.
  Definition smap := list (bytes * V).

  Fixpoint sm_get (m : smap) (k : bytes) : option V :=
    match m with
    | [] => None
    | (k', v) :: r => match cmp k k' with Eq => Some v | Lt => None | Gt => sm_get r k end
    end.

  Fixpoint sm_ins (m : smap) (k : bytes) (v : V) : smap :=
    match m with
    | [] => [(k, v)]
    | (k', v') :: r =>
      match cmp k k' with
      | Eq => (k, v) :: r
      | Lt => (k, v) :: m
      | Gt => (k', v') :: sm_ins r k v
      end
    end.

  Fixpoint sm_del (m : smap) (k : bytes) : smap :=
    match m with
    | [] => []
    | (k', v') :: r =>
      match cmp k k' with
      | Eq => r
      | Lt => m
      | Gt => (k', v') :: sm_del r k
      end
    end.

  Definition sm_keys (m : smap) : list bytes := map fst m.

  Fixpoint sorted (m : smap) : Prop :=
    match m with
    | [] => True
    | (k, _) :: r => match r with [] => True | (k', _) :: _ => cmp k k' = Lt end /\ sorted r
    end.
End SMap.
Arguments smap V : clear implicits.

(* std::ops::Bound *)
Inductive bound := Unb | Incl (k : bytes) | Excl (k : bytes).

Definition above (cmp : bytes -> bytes -> comparison) (lo : bound) (k : bytes) : bool :=
  match lo with
  | Unb => true
  | Incl b => match cmp k b with Lt => false | _ => true end
  | Excl b => match cmp k b with Gt => true | _ => false end
  end.
Definition below (cmp : bytes -> bytes -> comparison) (hi : bound) (k : bytes) : bool :=
  match hi with
  | Unb => true
  | Incl b => match cmp k b with Gt => false | _ => true end
  | Excl b => match cmp k b with Lt => true | _ => false end
  end.
Definition in_range cmp lo hi k : bool := above cmp lo k && below cmp hi k.

(* BTreeMap::range panics on start > end and on equal excluded bounds *)
Definition range_panics (cmp : bytes -> bytes -> comparison) (lo hi : bound) : bool :=
  match lo, hi with
  | Unb, _ | _, Unb => false
  | Excl a, Excl b => match cmp a b with Lt => false | _ => true end
  | Incl a, Incl b | Incl a, Excl b | Excl a, Incl b => match cmp a b with Gt => true | _ => false end
  end.
