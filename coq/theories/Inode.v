(* Inode.v -- an inode-level view of the calls of FS.v.  Definitions only.

   FS.v models the filesystem as a map name -> file.  An open descriptor (the reader returned by
   get_reader) is outside that model: on Linux a descriptor denotes an INODE, and unlinking a
   name, or renaming another file onto it, does not change what the descriptor reads.  Here a
   filesystem is a map name -> inode number together with a map inode number -> content; inodes
   are never deleted from the content map (an unbound inode may still be open somewhere).
   Directories are not modelled: [istep] assumes that the directory checks of FS.v succeed; the
   checks that depend on names only (ENOENT on a missing source, EEXIST of O_EXCL) are modelled,
   such a call is a no-op. *)
From Cas Require Export FS.

Record ifs := mkIfs {
  ibind : list (path * nat);      (* name -> inode *)
  idata : list (nat * bytes);     (* inode -> content; entries are never removed *)
  inext : nat                     (* the next unused inode number *)
}.
Definition empty_ifs : ifs := mkIfs [] [] 0.

(* name table: the same list discipline as lookup / set_path / remove_path of FS.v *)
Fixpoint blook (l : list (path * nat)) (p : path) : option nat :=
  match l with [] => None | (q, i) :: r => if path_eqb p q then Some i else blook r p end.
Fixpoint bremove (l : list (path * nat)) (p : path) : list (path * nat) :=
  match l with [] => [] | (q, i) :: r => if path_eqb p q then r else (q, i) :: bremove r p end.
Fixpoint bset (l : list (path * nat)) (p : path) (i : nat) : list (path * nat) :=
  match l with
  | [] => [(p, i)]
  | (q, j) :: r => if path_eqb p q then (q, i) :: r else (q, j) :: bset r p i
  end.

(* content table *)
Fixpoint dget (d : list (nat * bytes)) (i : nat) : option bytes :=
  match d with [] => None | (j, c) :: r => if Nat.eqb i j then Some c else dget r i end.
Fixpoint dset (d : list (nat * bytes)) (i : nat) (c : bytes) : list (nat * bytes) :=
  match d with
  | [] => [(i, c)]
  | (j, c') :: r => if Nat.eqb i j then (j, c) :: r else (j, c') :: dset r i c
  end.

Definition ilookup (s : ifs) (p : path) : option nat := blook (ibind s) p.   (* inode of a name *)
Definition iread (s : ifs) (ino : nat) : option bytes := dget (idata s) ino. (* what a descriptor reads *)

(* the content visible under a name *)
Definition abs_i (s : ifs) (p : path) : option bytes :=
  match ilookup s p with Some i => iread s i | None => None end.

Definition iwrite (s : ifs) (i : nat) (c : bytes) : ifs := mkIfs (ibind s) (dset (idata s) i c) (inext s).
(* bind p to a brand-new empty inode *)
Definition ialloc (s : ifs) (p : path) : ifs :=
  mkIfs (bset (ibind s) p (inext s)) (dset (idata s) (inext s) []) (S (inext s)).

Definition istep (s : ifs) (c : call) : ifs :=
  match c with
  | CMkdir _ => s
  | CSync _ => s
  | CCreate p =>                      (* O_CREAT|O_TRUNC: truncate the inode the name denotes *)
    match ilookup s p with Some i => iwrite s i [] | None => ialloc s p end
  | CCreateExcl p =>                  (* O_CREAT|O_EXCL *)
    match ilookup s p with Some _ => s | None => ialloc s p end
  | COpenAppend p =>                  (* O_CREAT|O_APPEND *)
    match ilookup s p with Some _ => s | None => ialloc s p end
  | CAppend p b =>                    (* write to the inode the name denotes *)
    match ilookup s p with
    | Some i => match iread s i with Some c => iwrite s i (c ++ b) | None => s end
    | None => s
    end
  | CRename p q =>                    (* q now denotes p's inode; q's old inode stays in idata *)
    match ilookup s p with
    | Some i => mkIfs (bset (bremove (ibind s) p) q i) (idata s) (inext s)
    | None => s
    end
  | CUnlink p =>                      (* the name goes away, the inode stays in idata *)
    mkIfs (bremove (ibind s) p) (idata s) (inext s)
  end.

(* events of a recorded trace: a faulted call has no effect *)
Definition iev (s : ifs) (e : tev) : ifs := match e with TCall c => istep s c | TFault _ => s end.
(* run a trace, oldest event first (the order of replay_calls / crash_fs) *)
Definition irun (s : ifs) (tr : list tev) : ifs := fold_left iev tr s.

(* well-formed inode filesystems: every name is bound once, no inode is bound to two names (no
   hard links: in particular a staging file and a blob never share an inode), inode numbers in
   use are below [inext], and a bound inode has a content *)
Record iwf (s : ifs) : Prop := mkIwf {
  iw_names : NoDup (map fst (ibind s));
  iw_nolink : NoDup (map snd (ibind s));
  iw_bound : forall p i, In (p, i) (ibind s) -> (i < inext s)%nat;
  iw_data : forall i c, In (i, c) (idata s) -> (i < inext s)%nat;
  iw_live : forall p i, In (p, i) (ibind s) -> dget (idata s) i <> None
}.

(* every TCall of the trace takes effect when replayed from s (what do_call records) *)
Fixpoint effective (tr : list tev) (s : fs) : Prop :=
  match tr with
  | [] => True
  | TCall c :: r => match apply_call c s with Ok s' => effective r s' | Err _ => False end
  | TFault _ :: r => effective r s
  end.

(* an inode filesystem built from a name-level one: the i-th file gets inode i *)
Fixpoint number_from (n : nat) (l : list (path * file)) : list (path * nat) * list (nat * bytes) :=
  match l with
  | [] => ([], [])
  | (p, f) :: r => let '(b, d) := number_from (S n) r in ((p, n) :: b, (n, fdata f) :: d)
  end.
Definition ifs_of (s : fs) : ifs :=
  let '(b, d) := number_from 0 (files s) in mkIfs b d (length (files s)).
