(* OpenLock.v -- model for property C11 (exclusive ownership of a database directory).
   Definitions only (lemmas are in proofs/OpenLockProofs.v).  Stand-alone: standard library only,
   it does not import the other models (note: this file has its own small [res] type, the result
   of one event; it is unrelated to [Cas.Base.res]).

   What is modelled.  [CasInner::new] does, in this order:
       mkdir -p staging;  mkdir -p cas;
       open("LOCK", O_CREAT|O_TRUNC|O_WRONLY);
       flock(LOCK_EX|LOCK_NB) on that descriptor          -- failure => return AlreadyOpened
       only then: load/create settings, load the index, replay the WAL (may write files).
   The lock is an flock on the open file description of LOCK: it is released when the last
   reference to the handle is dropped (the handle is an Arc; clones and OrphanStats objects hold
   references) or when the owning process dies.  An flock conflicts with the flock of every other
   open file description, also one of the same process, so the pid plays no role in acquiring. *)
From Coq Require Import List NArith Bool Arith.
Import ListNotations.

(* ---- state ---- *)
Record dbdir := mkDir {
  lock_owner  : option nat;  (* handle id holding the flock *)
  content     : N;           (* abstract version of everything in the directory except the
                                always-empty LOCK file and the two top-level directories; every
                                successful open / operation may change it *)
  dirs_made   : bool;        (* staging/ and cas/ exist *)
  lock_exists : bool         (* the (empty) LOCK file exists *)
}.

Record handle := mkH {
  h_id   : nat;
  h_pid  : nat;
  h_refs : nat               (* live references: the Cas value, its clones, OrphanStats *)
}.

Record st := mkSt {
  dir     : dbdir;
  handles : list handle;     (* live handles *)
  next_id : nat
}.

Inductive ev :=
| EOpen  (pid : nat)         (* Cas::open of the directory by process pid *)
| EClone (hid : nat)         (* one more reference to handle hid *)
| EDrop  (hid : nat)         (* drop one reference *)
| EKill  (pid : nat)         (* the process dies *)
| EOp    (hid : nat).        (* any API call through a live handle: may change content *)

Inductive res := ROpened (hid : nat) | RAlreadyOpened | RNone.

(* ---- helpers ---- *)
Definition has_id (hid : nat) (h : handle) : bool := Nat.eqb (h_id h) hid.
Definition has_pid (pid : nat) (h : handle) : bool := Nat.eqb (h_pid h) pid.

Definition find_handle (hid : nat) (hs : list handle) : option handle := find (has_id hid) hs.
Definition live (hid : nat) (hs : list handle) : bool := existsb (has_id hid) hs.

Definition upd_refs (hid : nat) (f : nat -> nat) (hs : list handle) : list handle :=
  map (fun h => if has_id hid h then mkH (h_id h) (h_pid h) (f (h_refs h)) else h) hs.
Definition remove_handle (hid : nat) (hs : list handle) : list handle :=
  filter (fun h => negb (has_id hid h)) hs.
Definition remove_pid (pid : nat) (hs : list handle) : list handle :=
  filter (fun h => negb (has_pid pid h)) hs.

(* the idempotent part of every open: mkdir -p of the two directories, O_CREAT|O_TRUNC of the
   always-empty LOCK file *)
Definition touch (d : dbdir) : dbdir := mkDir (lock_owner d) (content d) true true.
Definition bump (d : dbdir) : dbdir :=
  mkDir (lock_owner d) (content d + 1)%N (dirs_made d) (lock_exists d).
Definition set_owner (o : option nat) (d : dbdir) : dbdir :=
  mkDir o (content d) (dirs_made d) (lock_exists d).

(* the flock disappears with handle hid *)
Definition release (hid : nat) (d : dbdir) : dbdir :=
  match lock_owner d with
  | Some o => if Nat.eqb o hid then set_owner None d else d
  | None => d
  end.
(* the flock disappears if its owner is a handle of the dying process *)
Definition release_pid (pid : nat) (hs : list handle) (d : dbdir) : dbdir :=
  match lock_owner d with
  | Some o => if existsb (fun h => has_id o h && has_pid pid h) hs then set_owner None d else d
  | None => d
  end.

(* ---- one event ---- *)
Definition step (s : st) (e : ev) : st * res :=
  match e with
  | EOpen pid =>
      let d := touch (dir s) in
      match lock_owner d with
      | None =>
          let h := next_id s in
          (mkSt (bump (set_owner (Some h) d)) (mkH h pid 1 :: handles s) (S h), ROpened h)
      | Some _ =>
          (mkSt d (handles s) (next_id s), RAlreadyOpened)
      end
  | EClone hid =>
      (mkSt (dir s) (upd_refs hid S (handles s)) (next_id s), RNone)
  | EDrop hid =>
      match find_handle hid (handles s) with
      | None => (s, RNone)
      | Some h =>
          if Nat.leb (h_refs h) 1
          then (mkSt (release hid (dir s)) (remove_handle hid (handles s)) (next_id s), RNone)
          else (mkSt (dir s) (upd_refs hid pred (handles s)) (next_id s), RNone)
      end
  | EKill pid =>
      (mkSt (release_pid pid (handles s) (dir s)) (remove_pid pid (handles s)) (next_id s), RNone)
  | EOp hid =>
      if live hid (handles s)
      then (mkSt (bump (dir s)) (handles s) (next_id s), RNone)
      else (s, RNone)
  end.

(* ---- runs ---- *)
Fixpoint run (s : st) (evs : list ev) : st :=
  match evs with
  | [] => s
  | e :: r => run (fst (step s e)) r
  end.

Fixpoint results_from (s : st) (evs : list ev) : list res :=
  match evs with
  | [] => []
  | e :: r => snd (step s e) :: results_from (fst (step s e)) r
  end.

Definition init : st := mkSt (mkDir None 0%N false false) [] 0.

(* the results of every step from the empty directory (compared by the harness with the real
   library on racing opens) *)
Definition results (evs : list ev) : list res := results_from init evs.

Definition reachable (s : st) : Prop := exists evs, s = run init evs.
