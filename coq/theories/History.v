(* History.v -- API calls as data, one handle's life cycle, running a whole history in a world,
   and the abstract specification (a plain ordered map).  Definitions only. *)
From Cas Require Export Store.

Inductive op :=
| OpPut (k : bytes) (chunks : list bytes)
| OpAbort (k : bytes) (chunks : list bytes)
| OpRemove (k : bytes)
| OpRemoveRange (lo hi : bound)
| OpCheckpoint
| OpGet (k : bytes)
| OpGetSize (k : bytes)
| OpGetRange (k : bytes) (a b : N)
| OpGetReader (k : bytes)
| OpIter
| OpRange (lo hi : bound)
| OpStats
| OpBlobs
| OpClose                         (* drop the handle *)
| OpOpen (cfg : config) (gate : bool)   (* gate = Cas::open, otherwise open_with_recover *)
| OpDeleteOrphans
| OpQuarantine
| OpDeleteOrphan (h : bytes).

Inductive out :=
| OutUnit
| OutBool (b : bool)
| OutNum (n : N)
| OutBytes (o : option bytes)
| OutSize (o : option N)
| OutEntries (l : list (bytes * item))
| OutStats (ub tb ssz : N)
| OutBlobs (l : list (bytes * N))
| OutOpened (o : option ostats)
| OutRecovery (r : recovery)
| OutErr (e : serr)
| OutClosed.                      (* call on a closed handle: the harness never issues it *)

Record handle := mkHandle { h_cfg : config; h_mem : mem; h_ostats : option ostats }.

Section Run.
  Variable H : bytes -> bytes.

  Definition lift {A} (f : A -> out) (r : res serr A) : out :=
    match r with Ok a => f a | Err e => OutErr e end.

  Definition step (hd : option handle) (o : op) : M (out * option handle) :=
    match o, hd with
    | OpOpen cfg gate, _ =>
      (* an already open handle keeps the lock: the harness closes before reopening *)
      do! r <- (if gate then open_store H cfg else open_with_recover H cfg) ;;
      match r with
      | Ok (m, os) => ret (OutOpened os, Some (mkHandle cfg m os))
      | Err e => ret (OutErr e, None)
      end
    | _, None => ret (OutClosed, None)
    | OpClose, Some h => do! _ <- close (h_mem h) ;; ret (OutUnit, None)
    | OpPut k chunks, Some h =>
      do! r <- put H (h_cfg h) (h_mem h) k chunks ;;
      ret (lift (fun _ => OutUnit) (fst r), Some (mkHandle (h_cfg h) (snd r) (h_ostats h)))
    | OpAbort k chunks, Some h =>
      do! r <- abort (h_mem h) k chunks ;;
      ret (lift (fun _ => OutUnit) (fst r), Some (mkHandle (h_cfg h) (snd r) (h_ostats h)))
    | OpRemove k, Some h =>
      do! r <- remove H (h_cfg h) (h_mem h) k ;;
      ret (lift OutBool (fst r), Some (mkHandle (h_cfg h) (snd r) (h_ostats h)))
    | OpRemoveRange lo hi, Some h =>
      do! r <- remove_range H (h_cfg h) (h_mem h) lo hi ;;
      ret (lift OutNum (fst r), Some (mkHandle (h_cfg h) (snd r) (h_ostats h)))
    | OpCheckpoint, Some h =>
      do! r <- checkpoint (h_cfg h) (h_mem h) ;;
      ret (lift (fun _ => OutUnit) (fst r), Some (mkHandle (h_cfg h) (snd r) (h_ostats h)))
    | OpGet k, Some h =>
      do! s <- get_fs ;; ret (lift OutBytes (get (h_cfg h) (h_mem h) s k), hd)
    | OpGetReader k, Some h =>
      do! s <- get_fs ;; ret (lift OutBytes (get (h_cfg h) (h_mem h) s k), hd)
    | OpGetSize k, Some h => ret (OutSize (get_size (h_cfg h) (h_mem h) k), hd)
    | OpGetRange k a b, Some h =>
      do! s <- get_fs ;; ret (lift OutBytes (get_range_api (h_cfg h) (h_mem h) s k a b), hd)
    | OpIter, Some h => ret (OutEntries (km (idx (h_mem h))), hd)
    | OpRange lo hi, Some h => ret (lift OutEntries (range_iter (h_cfg h) (h_mem h) lo hi), hd)
    | OpStats, Some h =>
      let i := idx (h_mem h) in ret (OutStats (ub i) (tb i) (ssz i), hd)
    | OpBlobs, Some h => ret (OutBlobs (rc (idx (h_mem h))), hd)
    | OpDeleteOrphans, Some h =>
      match h_ostats h with
      | None => ret (OutClosed, hd)
      | Some o => do! r <- delete_orphans (h_mem h) o ;; ret (OutRecovery r, hd)
      end
    | OpQuarantine, Some h =>
      match h_ostats h with
      | None => ret (OutClosed, hd)
      | Some o => do! r <- quarantine_orphans (h_mem h) o ;; ret (OutRecovery r, hd)
      end
    | OpDeleteOrphan x, Some h =>
      match h_ostats h with
      | None => ret (OutClosed, hd)
      | Some o => do! r <- delete_orphan (h_mem h) o x ;; ret (lift OutBool r, hd)
      end
    end.

  Fixpoint run_ops (hd : option handle) (ops : list op) : M (list out * option handle) :=
    match ops with
    | [] => ret ([], hd)
    | o :: r =>
      do! x <- step hd o ;;
      do! y <- run_ops (snd x) r ;;
      ret (fst x :: fst y, snd y)
    end.

  Definition run_hist (s0 : fs) (fault : option nat) (ops : list op)
    : list out * option handle * world :=
    let '(r, w) := run_ops None ops (init_world s0 fault) in (fst r, snd r, w).

  Definition trace_of (w : world) : list tev := rev (wtrace w).
End Run.

(* ---------- the specification: a plain ordered map from key to byte string ---------- *)
Section Spec.
  Variable cmp : bytes -> bytes -> comparison.
  Definition spec_state := smap bytes.

  Definition spec_step (s : spec_state) (o : op) : spec_state :=
    match o with
    | OpPut k chunks => sm_ins cmp s k (concat chunks)
    | OpRemove k => sm_del cmp s k
    | OpRemoveRange lo hi =>
      if nonempty s && range_panics cmp lo hi then s
      else filter (fun e => negb (in_range cmp lo hi (fst e))) s
    | _ => s
    end.
End Spec.
