(* FS.v -- the filesystem model under a database root, the mutating calls the store issues,
   and the world (filesystem + recorded call trace + fault plan) the store programs run in.
   Definitions only. *)
From Cas Require Export Base.

Inductive path :=
| PLock | PSettings | PSettingsTmp | PIndex | PIndexTmp
| PWal (id : N)
| PStaging (i : N)
| PCas (comps : list bytes).          (* raw path components below cas/ (1..3 of them) *)

Definition path_eqb (p q : path) : bool :=
  match p, q with
  | PLock, PLock | PSettings, PSettings | PSettingsTmp, PSettingsTmp
  | PIndex, PIndex | PIndexTmp, PIndexTmp => true
  | PWal a, PWal b | PStaging a, PStaging b => a =? b
  | PCas a, PCas b => (fix go (a b : list bytes) := match a, b with
                         | [], [] => true
                         | x :: a', y :: b' => beqb x y && go a' b'
                         | _, _ => false end) a b
  | _, _ => false
  end.

Record file := mkFile { fdata : bytes; fsynced : nat }.   (* fsynced: length of the synced prefix *)

Definition dir := list bytes.          (* components below the root: ["cas"], ["cas";"ab"], ... *)
Fixpoint dir_eqb (a b : dir) : bool :=
  match a, b with
  | [], [] => true
  | x :: a', y :: b' => beqb x y && dir_eqb a' b'
  | _, _ => false
  end.

Definition s_cas : bytes := [99; 97; 115].                              (* "cas" *)
Definition s_staging : bytes := [115; 116; 97; 103; 105; 110; 103].     (* "staging" *)

Record fs := mkFs {
  files : list (path * file);
  dirs : list dir;
  nstage : N               (* ghost: staging files created so far (names are random in reality) *)
}.
Definition empty_fs : fs := mkFs [] [] 0.

Fixpoint lookup (l : list (path * file)) (p : path) : option file :=
  match l with [] => None | (q, f) :: r => if path_eqb p q then Some f else lookup r p end.
Fixpoint remove_path (l : list (path * file)) (p : path) : list (path * file) :=
  match l with [] => [] | (q, f) :: r => if path_eqb p q then r else (q, f) :: remove_path r p end.
Fixpoint set_path (l : list (path * file)) (p : path) (f : file) : list (path * file) :=
  match l with
  | [] => [(p, f)]
  | (q, g) :: r => if path_eqb p q then (q, f) :: r else (q, g) :: set_path r p f
  end.
Definition fget (s : fs) (p : path) : option file := lookup (files s) p.
Definition has_dir (s : fs) (d : dir) : bool := existsb (dir_eqb d) (dirs s).

Definition parent_dir (p : path) : option dir :=
  match p with
  | PStaging _ => Some [s_staging]
  | PCas comps => Some (s_cas :: removelast comps)
  | _ => None                                   (* directly under the root, which always exists *)
  end.
Definition parent_ok (s : fs) (p : path) : bool :=
  match parent_dir p with None => true | Some d => has_dir s d end.

Inductive call :=
| CMkdir (d : dir)
| CCreate (p : path)            (* open(O_CREAT|O_TRUNC|O_WRONLY) *)
| CCreateExcl (p : path)        (* open(O_CREAT|O_EXCL) *)
| COpenAppend (p : path)        (* open(O_CREAT|O_APPEND) *)
| CAppend (p : path) (b : bytes)
| CSync (p : path)
| CRename (p q : path)
| CUnlink (p : path).

Inductive errno := ENOENT | EEXIST | EIO.

Definition with_files (s : fs) l := mkFs l (dirs s) (nstage s).

Definition apply_call (c : call) (s : fs) : res errno fs :=
  match c with
  | CMkdir d =>
    if has_dir s d then Err EEXIST
    else match removelast d with
         | [] => Ok (mkFs (files s) (dirs s ++ [d]) (nstage s))
         | par => if has_dir s par then Ok (mkFs (files s) (dirs s ++ [d]) (nstage s)) else Err ENOENT
         end
  | CCreate p =>
    if parent_ok s p then Ok (with_files s (set_path (files s) p (mkFile [] 0))) else Err ENOENT
  | CCreateExcl p =>
    if parent_ok s p then
      match fget s p with
      | Some _ => Err EEXIST
      | None => Ok (mkFs (set_path (files s) p (mkFile [] 0)) (dirs s)
                         (match p with PStaging _ => nstage s + 1 | _ => nstage s end))
      end
    else Err ENOENT
  | COpenAppend p =>
    if parent_ok s p then
      match fget s p with
      | Some _ => Ok s
      | None => Ok (with_files s (set_path (files s) p (mkFile [] 0)))
      end
    else Err ENOENT
  | CAppend p b =>
    match fget s p with
    | Some f => Ok (with_files s (set_path (files s) p (mkFile (fdata f ++ b) (fsynced f))))
    | None => Err ENOENT
    end
  | CSync p =>
    match fget s p with
    | Some f => Ok (with_files s (set_path (files s) p (mkFile (fdata f) (length (fdata f)))))
    | None => Err ENOENT
    end
  | CRename p q =>
    match fget s p with
    | Some f => if parent_ok s q
                then Ok (with_files s (set_path (remove_path (files s) p) q f))
                else Err ENOENT
    | None => Err ENOENT
    end
  | CUnlink p =>
    match fget s p with
    | Some _ => Ok (with_files s (remove_path (files s) p))
    | None => Err ENOENT
    end
  end.

(* ---- world: filesystem + trace of the calls that took effect + fault plan ---- *)
Inductive tev := TCall (c : call) | TFault (c : call).   (* TFault: call hit by the injected error *)

Record world := mkWorld {
  wfs : fs;
  wtrace : list tev;          (* most recent first *)
  wcount : nat;               (* counted calls so far: those that took effect or were faulted *)
  wfault : option nat         (* inject EIO at the call with this index (0-based) *)
}.
Definition M (A : Type) := world -> A * world.
Definition ret {A} (a : A) : M A := fun w => (a, w).
Definition bind {A B} (m : M A) (f : A -> M B) : M B := fun w => let '(a, w') := m w in f a w'.
Notation "'do!' x <- m ;; k" := (bind m (fun x => k)) (at level 200, x name, m at level 100, k at level 200, right associativity).

(* A call that would fail anyway (EEXIST mkdir, ENOENT unlink, ...) is neither counted nor
   recorded; the injected fault hits only calls that would have taken effect. *)
Definition do_call (c : call) : M (res errno unit) := fun w =>
  match apply_call c (wfs w) with
  | Err e => (Err e, w)
  | Ok s' =>
    match wfault w with
    | Some n => if Nat.eqb n (wcount w)
                then (Err EIO, mkWorld (wfs w) (TFault c :: wtrace w) (S (wcount w)) (wfault w))
                else (Ok tt, mkWorld s' (TCall c :: wtrace w) (S (wcount w)) (wfault w))
    | None => (Ok tt, mkWorld s' (TCall c :: wtrace w) (S (wcount w)) None)
    end
  end.
Definition get_fs : M fs := fun w => (wfs w, w).
Definition read_file (p : path) : M (option bytes) :=
  fun w => (match fget (wfs w) p with Some f => Some (fdata f) | None => None end, w).

Definition init_world (s : fs) (fault : option nat) : world := mkWorld s [] 0 fault.

(* the filesystem after only the first n effective calls of a recorded trace (oldest first):
   the process-kill model *)
Fixpoint replay_calls (cs : list tev) (s : fs) : fs :=
  match cs with
  | [] => s
  | TCall c :: r => match apply_call c s with Ok s' => replay_calls r s' | Err _ => replay_calls r s end
  | TFault _ :: r => replay_calls r s
  end.
Definition crash_fs (n : nat) (trace_oldest_first : list tev) (s0 : fs) : fs :=
  replay_calls (firstn n trace_oldest_first) s0.

(* power loss: every file in [victims] loses the bytes not covered by a sync *)
Definition lose (victims : path -> bool) (s : fs) : fs :=
  with_files s (map (fun pf => if victims (fst pf)
                               then (fst pf, mkFile (firstn (fsynced (snd pf)) (fdata (snd pf))) (fsynced (snd pf)))
                               else pf) (files s)).
