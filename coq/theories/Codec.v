(* Codec.v -- model of src/serialization.rs, WalOp::to_raw/from_raw (src/types.rs:264-300)
   and the WAL record framing of src/wal/storage.rs.  Definitions only. *)
From Cas Require Export Base.

Inductive derr := DEof | DInsufficient | DBadTag.       (* SerializationError classes *)

Definition read_u8 (bs : bytes) : res derr (N * bytes) :=
  match bs with [] => Err DEof | b :: r => Ok (b, r) end.
Definition read_fixed (n : nat) (bs : bytes) : res derr (bytes * bytes) :=
  match take n bs with Some p => Ok p | None => Err DInsufficient end.
Definition read_u32 (bs : bytes) : res derr (N * bytes) :=
  do* (h, r) <- read_fixed 4 bs; Ok (le_dec h, r).
Definition read_u64 (bs : bytes) : res derr (N * bytes) :=
  do* (h, r) <- read_fixed 8 bs; Ok (le_dec h, r).
Definition read_bytes_with_len (bs : bytes) : res derr (bytes * bytes) :=
  do* (n, r) <- read_u32 bs;
  match takeN n r with Some p => Ok p | None => Err DInsufficient end.

(* ---- WalOpRaw ---- *)
Inductive rawop := RPut (k : bytes) (h : bytes) (sz : N) | RRemove (ks : list bytes).

Definition enc_key (k : bytes) : bytes := u32 (len k) ++ k.

Definition enc_op (o : rawop) : bytes :=
  match o with
  | RPut k h sz => 0 :: enc_key k ++ h ++ u64 sz
  | RRemove ks => 1 :: u32 (N.of_nat (length ks)) ++ flat_map enc_key ks
  end.

(* the loop `for _ in 0..num_keys`; [fuel] bounds the iterations by the remaining input
   (every iteration consumes at least 4 bytes), so a huge count costs nothing *)
Fixpoint read_keys (fuel : nat) (cnt : N) (bs : bytes) : res derr (list bytes * bytes) :=
  if cnt =? 0 then Ok ([], bs) else
  match fuel with
  | O => Err DInsufficient
  | S f =>
    do* (k, r) <- read_bytes_with_len bs;
    do* (ks, r') <- read_keys f (cnt - 1) r;
    Ok (k :: ks, r')
  end.

Definition dec_op (bs : bytes) : res derr rawop :=
  do* (tag, r) <- read_u8 bs;
  if tag =? 0 then
    do* (k, r1) <- read_bytes_with_len r;
    do* (h, r2) <- read_fixed 32 r1;
    do* (sz, _) <- read_u64 r2;
    Ok (RPut k h sz)
  else if tag =? 1 then
    do* (n, r1) <- read_u32 r;
    do* (ks, _) <- read_keys (S (length r1)) n r1;
    Ok (RRemove ks)
  else Err DBadTag.

(* bytes copied into result vectors by the decoder (the model's allocation measure) *)
Definition op_alloc (o : rawop) : nat :=
  match o with
  | RPut k h _ => length k + length h
  | RRemove ks => fold_right (fun k a => length k + a)%nat 0%nat ks
  end.

(* ---- index snapshot ---- *)
Record item := mkItem { ihash : bytes; isize : N }.
Definition entry := (bytes * item)%type.

Definition enc_entry (e : entry) : bytes :=
  enc_key (fst e) ++ ihash (snd e) ++ u64 (isize (snd e)).
Definition enc_snapshot (ver : N) (es : list entry) : bytes :=
  u64 ver ++ u32 (N.of_nat (length es)) ++ flat_map enc_entry es.

Fixpoint read_entries (fuel : nat) (cnt : N) (bs : bytes) : res derr (list entry * bytes) :=
  if cnt =? 0 then Ok ([], bs) else
  match fuel with
  | O => Err DInsufficient
  | S f =>
    do* (k, r) <- read_bytes_with_len bs;
    do* (h, r1) <- read_fixed 32 r;
    do* (sz, r2) <- read_u64 r1;
    do* (es, r') <- read_entries f (cnt - 1) r2;
    Ok ((k, mkItem h sz) :: es, r')
  end.

(* returns the entries in file order; the caller inserts them into an ordered map *)
Definition dec_snapshot (bs : bytes) : res derr (N * list entry) :=
  do* (ver, r) <- read_u64 bs;
  do* (n, r1) <- read_u32 r;
  do* (es, _) <- read_entries (S (length r1)) n r1;
  Ok (ver, es).

Definition entries_alloc (es : list entry) : nat :=
  fold_right (fun e a => length (fst e) + length (ihash (snd e)) + a)%nat 0%nat es.

(* ---- typed operations: WalOp<K> with K given by its to_key_bytes image ---- *)
Inductive ferr := FPutKey | FRemoveKey (i : nat).
Fixpoint first_invalid (t : ktype) (i : nat) (ks : list bytes) : option nat :=
  match ks with
  | [] => None
  | k :: r => if key_valid t k then first_invalid t (S i) r else Some i
  end.
Definition from_raw (t : ktype) (o : rawop) : res ferr rawop :=
  match o with
  | RPut k h sz => if key_valid t k then Ok o else Err FPutKey
  | RRemove ks => match first_invalid t 0 ks with None => Ok o | Some i => Err (FRemoveKey i) end
  end.

(* ---- WAL record framing (src/wal/storage.rs:29-85, 134-224) ---- *)
Section Framing.
  Variable H : bytes -> bytes.          (* BLAKE3; every use site states what it needs of it *)

  Definition header (ver : N) (payload : bytes) : bytes := u64 ver ++ H payload ++ u32 (len payload).
  Definition enc_record (ver : N) (payload : bytes) : bytes := header ver payload ++ payload.
  Definition sentinel : bytes := repeat 0 44.

  Inductive rerr := RShortPayload | RChecksum | RDeserialize (e : derr) | RConvert (e : ferr)
                  | RPanic.

  (* read_next_entry: None = end of this segment *)
  Definition read_record (bs : bytes) : res rerr (option (N * bytes * bytes)) :=
    match take 44 bs with
    | None => Ok None                                   (* short header: end of log *)
    | Some (hd, r) =>
      let ver := le_dec (firstn 8 hd) in
      let expected := firstn 32 (skipn 8 hd) in
      let oplen := le_dec (skipn 40 hd) in
      if ver =? 0 then Ok None                          (* end-of-segment marker *)
      else if oplen =? 0 then Ok None
      else match takeN oplen r with
           | None => Err RShortPayload
           | Some (payload, r') =>
             if beqb (H payload) expected then Ok (Some (ver, payload, r')) else Err RChecksum
           end
    end.

  (* all records of one segment file; fuel = length of the file (each record is >= 45 bytes) *)
  Fixpoint read_segment (fuel : nat) (bs : bytes) : res rerr (list (N * bytes)) :=
    match fuel with
    | O => Ok []
    | S f =>
      do* o <- read_record bs;
      match o with
      | None => Ok []
      | Some (ver, payload, r) => do* t <- read_segment f r; Ok ((ver, payload) :: t)
      end
    end.
  Definition parse_segment (bs : bytes) : res rerr (list (N * bytes)) :=
    read_segment (S (length bs)) bs.

  (* the records of a segment in the order the iterator yields them, stopping at the first
     error: what replay sees (it applies the records before the error, then fails) *)
  Fixpoint read_segment_lazy (fuel : nat) (bs : bytes) : list (N * bytes) * option rerr :=
    match fuel with
    | O => ([], None)
    | S f =>
      match read_record bs with
      | Err e => ([], Some e)
      | Ok None => ([], None)
      | Ok (Some (ver, payload, r)) =>
        let '(t, e) := read_segment_lazy f r in ((ver, payload) :: t, e)
      end
    end.
End Framing.
