(* OpenLock2.v -- inode-level refinement of OpenLock.v (property C11).
   Definitions only (lemmas are in proofs/OpenLock2Proofs.v).

   OpenLock.v treats Cas::open as one atomic event and "the LOCK file" as one object.  The code
   does two things in a row:
       fd = open("LOCK", O_CREAT|O_TRUNC|O_WRONLY)     -- binds to the inode the NAME denotes now
       flock(fd, LOCK_EX|LOCK_NB)                        -- a lock on that INODE's open file description
   and other opens, drops and kills may happen in between (scheduling point `open.flock` of the
   verif feature).  Here the name -> inode binding, the per-inode flocks and the opens that hold a
   descriptor but have not locked yet are explicit.  The event E2Unlink (the name LOCK is removed;
   the code never does this) is present so that the theorems can say what they rely on: without it
   there is only ever one inode and exclusivity holds however the two halves of racing opens
   interleave; with it two live handles are reachable (Example in the proofs file). *)
From Coq Require Import List NArith Bool Arith.
From Cas Require Import OpenLock.
Import ListNotations.

Record handle2 := mkH2 { h2_id : nat; h2_pid : nat; h2_refs : nat; h2_ino : nat }.
Record pending := mkP { p_tok : nat; p_pid : nat; p_ino : nat }.

Record st2 := mkSt2 {
  name_ino : option nat;       (* the inode the name LOCK is bound to; None = no such file *)
  locks    : list (nat * nat); (* (inode, handle id): the flocks held *)
  content2 : N;                (* abstract version of the rest of the directory *)
  dirs2    : bool;             (* staging/ and cas/ exist *)
  handles2 : list handle2;     (* live handles *)
  pend     : list pending;     (* opens between open(LOCK) and flock *)
  next_id2 : nat;
  next_ino : nat
}.

Inductive ev2 :=
| E2Open (pid : nat)             (* both halves at once *)
| E2OpenFd (tok pid : nat)       (* first half: mkdir -p, open(LOCK, O_CREAT|O_TRUNC) *)
| E2Lock (tok : nat)             (* second half: flock, then (if won) the rest of open *)
| E2Clone (hid : nat)
| E2Drop (hid : nat)
| E2Kill (pid : nat)
| E2Op (hid : nat)
| E2Unlink.                      (* the name LOCK is removed (never done by the code) *)

Definition locked (ino : nat) (l : list (nat * nat)) : bool := existsb (fun p => Nat.eqb (fst p) ino) l.
Definition unlock_h (hid : nat) (l : list (nat * nat)) : list (nat * nat) :=
  filter (fun p => negb (Nat.eqb (snd p) hid)) l.
Definition has_id2 (hid : nat) (h : handle2) : bool := Nat.eqb (h2_id h) hid.
Definition has_pid2 (pid : nat) (h : handle2) : bool := Nat.eqb (h2_pid h) pid.
Definition live2 (hid : nat) (hs : list handle2) : bool := existsb (has_id2 hid) hs.
Definition upd_refs2 (hid : nat) (f : nat -> nat) (hs : list handle2) : list handle2 :=
  map (fun h => if has_id2 hid h then mkH2 (h2_id h) (h2_pid h) (f (h2_refs h)) (h2_ino h) else h) hs.

(* first half of an open: returns the new state and the inode the descriptor refers to *)
Definition open_fd (s : st2) : st2 * nat :=
  match name_ino s with
  | Some i => (mkSt2 (Some i) (locks s) (content2 s) true (handles2 s) (pend s) (next_id2 s) (next_ino s), i)
  | None =>
    let i := next_ino s in
    (mkSt2 (Some i) (locks s) (content2 s) true (handles2 s) (pend s) (next_id2 s) (S i), i)
  end.

(* second half *)
Definition try_lock (s : st2) (pid ino : nat) : st2 * res :=
  if locked ino (locks s) then (s, RAlreadyOpened)
  else
    let h := next_id2 s in
    (mkSt2 (name_ino s) ((ino, h) :: locks s) (content2 s + 1)%N (dirs2 s)
           (mkH2 h pid 1 ino :: handles2 s) (pend s) (S h) (next_ino s), ROpened h).

Definition step2 (s : st2) (e : ev2) : st2 * res :=
  match e with
  | E2Open pid => let '(s1, i) := open_fd s in try_lock s1 pid i
  | E2OpenFd tok pid =>
    let '(s1, i) := open_fd s in
    (mkSt2 (name_ino s1) (locks s1) (content2 s1) (dirs2 s1) (handles2 s1) (mkP tok pid i :: pend s1)
           (next_id2 s1) (next_ino s1), RNone)
  | E2Lock tok =>
    match find (fun p => Nat.eqb (p_tok p) tok) (pend s) with
    | None => (s, RNone)
    | Some p =>
      let s1 := mkSt2 (name_ino s) (locks s) (content2 s) (dirs2 s) (handles2 s)
                      (filter (fun q => negb (Nat.eqb (p_tok q) tok)) (pend s)) (next_id2 s) (next_ino s) in
      try_lock s1 (p_pid p) (p_ino p)
    end
  | E2Clone hid =>
    (mkSt2 (name_ino s) (locks s) (content2 s) (dirs2 s) (upd_refs2 hid S (handles2 s)) (pend s) (next_id2 s) (next_ino s), RNone)
  | E2Drop hid =>
    match find (has_id2 hid) (handles2 s) with
    | None => (s, RNone)
    | Some h =>
      if Nat.leb (h2_refs h) 1
      then (mkSt2 (name_ino s) (unlock_h hid (locks s)) (content2 s) (dirs2 s)
                  (filter (fun x => negb (has_id2 hid x)) (handles2 s)) (pend s) (next_id2 s) (next_ino s), RNone)
      else (mkSt2 (name_ino s) (locks s) (content2 s) (dirs2 s) (upd_refs2 hid pred (handles2 s)) (pend s) (next_id2 s) (next_ino s), RNone)
    end
  | E2Kill pid =>
    let dead := filter (has_pid2 pid) (handles2 s) in
    (mkSt2 (name_ino s)
           (filter (fun p => negb (existsb (fun h => Nat.eqb (h2_id h) (snd p)) dead)) (locks s))
           (content2 s) (dirs2 s)
           (filter (fun h => negb (has_pid2 pid h)) (handles2 s))
           (filter (fun q => negb (Nat.eqb (p_pid q) pid)) (pend s))
           (next_id2 s) (next_ino s), RNone)
  | E2Op hid =>
    if live2 hid (handles2 s)
    then (mkSt2 (name_ino s) (locks s) (content2 s + 1)%N (dirs2 s) (handles2 s) (pend s) (next_id2 s) (next_ino s), RNone)
    else (s, RNone)
  | E2Unlink =>
    (mkSt2 None (locks s) (content2 s) (dirs2 s) (handles2 s) (pend s) (next_id2 s) (next_ino s), RNone)
  end.

Fixpoint run2 (s : st2) (evs : list ev2) : st2 :=
  match evs with [] => s | e :: r => run2 (fst (step2 s e)) r end.
Fixpoint results2_from (s : st2) (evs : list ev2) : list res :=
  match evs with [] => [] | e :: r => snd (step2 s e) :: results2_from (fst (step2 s e)) r end.
Definition init2 : st2 := mkSt2 None [] 0%N false [] [] 0 0.
Definition results2 (evs : list ev2) : list res := results2_from init2 evs.
(* what the harness can observe after every event besides the results: is the name LOCK bound? *)
Fixpoint lockfile_from (s : st2) (evs : list ev2) : list bool :=
  match evs with
  | [] => []
  | e :: r => let s' := fst (step2 s e) in (match name_ino s' with Some _ => true | None => false end) :: lockfile_from s' r
  end.

Definition no_unlink (evs : list ev2) : Prop := ~ In E2Unlink evs.
(* the atomic events of OpenLock.v *)
Definition embed (e : ev) : ev2 :=
  match e with EOpen p => E2Open p | EClone h => E2Clone h | EDrop h => E2Drop h | EKill p => E2Kill p | EOp h => E2Op h end.
