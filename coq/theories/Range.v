(* Range.v -- model of CasInner::get_range (src/cas.rs:317-331) and
   CasManager::read_blob_range (src/cas_manager.rs:41-107), including the read_at loop under
   an arbitrary short-read behaviour of the kernel.  Definitions only. *)
From Cas Require Export Base.

Section ReadLoop.
  (* how many bytes (>= 1) the kernel is willing to return for a read at a given offset with a
     given request size; every theorem holds for every such function *)
  Variable chunk : N -> N -> N.

  Definition read_at (file : bytes) (off want : N) : bytes :=
    let avail := firstn (N.to_nat want) (skipn (N.to_nat off) file) in
    firstn (N.to_nat (N.max 1 (chunk off want))) avail.

  (* while total < read_len { n = read_at(spare[..remaining], off); if n == 0 break; ... } *)
  Fixpoint read_loop (fuel : nat) (file : bytes) (off remaining : N) (acc : bytes) : bytes :=
    match fuel with
    | O => acc
    | S f =>
      if remaining =? 0 then acc else
      let got := read_at file off remaining in
      match got with
      | [] => acc                                               (* EOF *)
      | _ => read_loop f file (off + len got) (remaining - len got) (acc ++ got)
      end
    end.

  Inductive rres := RBytes (b : bytes) | RInvalidRange.

  (* returns the result and the capacity requested from the allocator *)
  Definition read_blob_range (file : bytes) (s e : N) : rres * N :=
    if e <? s then (RInvalidRange, 0) else
    let n := e - s in
    if n =? 0 then (RBytes [], 0)
    else (RBytes (read_loop (S (N.to_nat n)) file s n []), n).

  Definition get_range (isize : N) (file : bytes) (s e : N) : rres * N :=
    if isize <=? s then (RBytes [], 0)
    else read_blob_range file s (N.min e isize).
End ReadLoop.

(* the specification: bytes [min s L, min e L) *)
Definition slice (content : bytes) (s e : N) : bytes :=
  let L := len content in
  let s' := N.min s L in let e' := N.min e L in
  firstn (N.to_nat (e' - s')) (skipn (N.to_nat s') content).
