(* Index.v -- model of src/index/state.rs (IndexState, refcounts, incremental statistics)
   and of the snapshot load in src/index/persistence.rs.  Definitions only. *)
From Cas Require Export Codec SMap.

Record istate := mkIstate {
  km  : smap item;        (* key_to_hash, sorted by the key type's order *)
  rc  : smap N;           (* hash_to_ref_count, kept sorted by lex_cmp (a HashMap in the code) *)
  lpv : N;                (* last_persisted_version, 0 = None *)
  ub  : N;                (* stats.cas.unique_blobs *)
  tb  : N;                (* stats.cas.total_bytes *)
  ssz : N                 (* stats.index.serialized_size_bytes *)
}.

Definition empty_istate : istate := mkIstate [] [] 0 0 0 0.

Inductive ierr := IDecZero | IHashNotFound | ISizeMismatch | IUnderflow.

Definition rc_get (r : smap N) (h : bytes) : option N := sm_get lex_cmp r h.

(* increment_ref: returns (new map, was_zero) *)
Definition inc_ref (r : smap N) (h : bytes) : smap N * bool :=
  match rc_get r h with
  | None => (sm_ins lex_cmp r h 1, true)
  | Some c => (sm_ins lex_cmp r h (c + 1), c =? 0)
  end.

(* decrement_ref: returns (new map, reached zero) *)
Definition dec_ref (r : smap N) (h : bytes) : res ierr (smap N * bool) :=
  match rc_get r h with
  | None => Err IHashNotFound
  | Some c =>
    if c =? 0 then Err IDecZero
    else if c =? 1 then Ok (sm_del lex_cmp r h, true)
    else Ok (sm_ins lex_cmp r h (c - 1), false)
  end.

Definition set_rc (s : istate) r := mkIstate (km s) r (lpv s) (ub s) (tb s) (ssz s).
Definition set_km (s : istate) m := mkIstate m (rc s) (lpv s) (ub s) (tb s) (ssz s).
Definition add_stats (s : istate) (sz : N) := mkIstate (km s) (rc s) (lpv s) (ub s + 1) (tb s + sz) (ssz s).
Definition sub_stats (s : istate) (sz : N) : res ierr istate :=
  if (ub s =? 0) || (tb s <? sz) then Err IUnderflow
  else Ok (mkIstate (km s) (rc s) (lpv s) (ub s - 1) (tb s - sz) (ssz s)).

Section Apply.
  Variable cmp : bytes -> bytes -> comparison.

  Definition do_inc (s : istate) (h : bytes) (sz : N) : istate :=
    let '(r, was_zero) := inc_ref (rc s) h in
    let s := set_rc s r in
    if was_zero then add_stats s sz else s.

  (* decrement, and when the count reaches zero: push the hash and adjust the statistics *)
  Definition do_dec (s : istate) (h : bytes) (sz : N) (acc : list bytes)
    : res ierr (istate * list bytes) :=
    do* (r, zero) <- dec_ref (rc s) h;
    let s := set_rc s r in
    if zero then do* s' <- sub_stats s sz; Ok (s', acc ++ [h]) else Ok (s, acc).

  Definition apply_put (s : istate) (k h : bytes) (sz : N) : res ierr (istate * list bytes) :=
    let prev := sm_get cmp (km s) k in
    let s := set_km s (sm_ins cmp (km s) k (mkItem h sz)) in
    match prev with
    | None => Ok (do_inc s h sz, [])
    | Some p =>
      if beqb (ihash p) h then
        (if isize p =? sz then Ok (s, []) else Err ISizeMismatch)
      else
        do* (s1, un) <- do_dec s (ihash p) (isize p) [];
        Ok (do_inc s1 h sz, un)
    end.

  Fixpoint apply_remove (s : istate) (ks : list bytes) (acc : list bytes)
    : res ierr (istate * list bytes) :=
    match ks with
    | [] => Ok (s, acc)
    | k :: r =>
      match sm_get cmp (km s) k with
      | None => apply_remove s r acc
      | Some it =>
        let s := set_km s (sm_del cmp (km s) k) in
        do* (s', acc') <- do_dec s (ihash it) (isize it) acc;
        apply_remove s' r acc'
      end
    end.

  (* IndexState::apply_logical_op; an Err is a panic of the caller (`expect`) *)
  Definition apply_op (s : istate) (o : rawop) : res ierr (istate * list bytes) :=
    match o with
    | RPut k h sz => apply_put s k h sz
    | RRemove ks => apply_remove s ks []
    end.

  (* recompute_stats: first occurrence (in key order) of each hash decides its size *)
  Fixpoint uniq_sizes (m : smap item) (seen : smap N) : smap N :=
    match m with
    | [] => seen
    | (_, it) :: r =>
      match sm_get lex_cmp seen (ihash it) with
      | Some _ => uniq_sizes r seen
      | None => uniq_sizes r (sm_ins lex_cmp seen (ihash it) (isize it))
      end
    end.
  Definition recompute_stats (s : istate) (index_len : N) : istate :=
    let u := uniq_sizes (km s) [] in
    mkIstate (km s) (rc s) (lpv s) (N.of_nat (length u))
             (fold_right (fun e a => snd e + a) 0 u) index_len.

  (* IndexStatePersister::load on the decoded (version, entries): entries go through a
     BTreeMap<Vec<u8>,_> (byte order, later duplicates win), then into the typed map *)
  Variable t : ktype.
  Definition load_entries (ver : N) (es : list entry) : option istate :=
    let raw := fold_left (fun m e => sm_ins lex_cmp m (fst e) (snd e)) es [] in
    if forallb (fun e => key_valid t (fst e)) raw then
      Some (fold_left (fun s e =>
              mkIstate (sm_ins cmp (km s) (fst e) (snd e)) (fst (inc_ref (rc s) (ihash (snd e))))
                       (lpv s) (ub s) (tb s) (ssz s))
            raw (mkIstate [] [] ver 0 0 0))
    else None.
End Apply.
