(* Base.v -- bytes, little-endian integers, checked slicing, orders on byte strings.
   Definitions only (lemmas are in proofs/).  Bytes are modelled as [N]; every encoder
   produces values < 256 ([le_enc] reduces modulo 256), decoders accept any list. *)
From Coq Require Export List NArith ZArith Bool Lia.
Export ListNotations.
Open Scope N_scope.

Definition byte := N.
Definition bytes := list byte.

(* outcome of a decoder / a store call *)
Inductive res (E A : Type) : Type := Ok (a : A) | Err (e : E).
Arguments Ok {E A} a.
Arguments Err {E A} e.

Definition rbind {E A B} (r : res E A) (f : A -> res E B) : res E B :=
  match r with Ok a => f a | Err e => Err e end.
Notation "'do*' x <- r ; k" := (rbind r (fun x => k))
  (at level 200, x pattern, r at level 100, k at level 200, right associativity).

Definition len (bs : bytes) : N := N.of_nat (length bs).

(* ---- little endian ---- *)
Fixpoint le_enc (n : nat) (v : N) : bytes :=
  match n with O => [] | S n' => (v mod 256) :: le_enc n' (v / 256) end.
Fixpoint le_dec (bs : bytes) : N :=
  match bs with [] => 0 | b :: r => b + 256 * le_dec r end.

Definition u32 (v : N) : bytes := le_enc 4 v.   (* = (v as u32).to_le_bytes() *)
Definition u64 (v : N) : bytes := le_enc 8 v.

(* split_at_checked *)
Definition take (n : nat) (bs : bytes) : option (bytes * bytes) :=
  if Nat.leb n (length bs) then Some (firstn n bs, skipn n bs) else None.

(* same, with the length given as a (possibly huge) binary number: never converts a number
   larger than the input to [nat] *)
Definition takeN (n : N) (bs : bytes) : option (bytes * bytes) :=
  if n <=? N.of_nat (length bs) then take (N.to_nat n) bs else None.

Fixpoint beqb (a b : bytes) : bool :=
  match a, b with
  | [], [] => true
  | x :: a', y :: b' => N.eqb x y && beqb a' b'
  | _, _ => false
  end.

(* ---- orders on byte strings ---- *)
Fixpoint lex_cmp (a b : bytes) : comparison :=
  match a, b with
  | [], [] => Eq
  | [], _ :: _ => Lt
  | _ :: _, [] => Gt
  | x :: a', y :: b' => match N.compare x y with Eq => lex_cmp a' b' | c => c end
  end.

(* compare by a numeric image first, ties broken by the bytes themselves: a total order on
   all byte strings that coincides with the numeric order on well-formed keys *)
Definition by_num (f : bytes -> Z) (a b : bytes) : comparison :=
  match Z.compare (f a) (f b) with Eq => lex_cmp a b | c => c end.

Definition unsigned_of (bs : bytes) : Z := Z.of_N (le_dec bs).
Definition signed_of (bs : bytes) : Z :=
  let v := Z.of_N (le_dec bs) in
  let w := Z.pow 256 (Z.of_nat (length bs)) in
  if Z.leb (w / 2) v then (v - w)%Z else v.

(* ---- key types (src/types.rs:138-208) ---- *)
Inductive ktype := KBytes | KString | KArr (n : nat) | KUns (nbytes : nat) | KSig (nbytes : nat).

(* UTF-8 validity as in core::str::from_utf8 (Unicode scalar values, shortest form) *)
Definition cont (b : byte) : bool := (128 <=? b) && (b <=? 191).
Fixpoint utf8_valid_fuel (fuel : nat) (bs : bytes) : bool :=
  match fuel with
  | O => match bs with [] => true | _ => false end
  | S f =>
    match bs with
    | [] => true
    | b0 :: r =>
      if b0 <=? 127 then utf8_valid_fuel f r
      else if (194 <=? b0) && (b0 <=? 223) then
        match r with b1 :: r' => cont b1 && utf8_valid_fuel f r' | _ => false end
      else if b0 =? 224 then
        match r with b1 :: b2 :: r' => (160 <=? b1) && (b1 <=? 191) && cont b2 && utf8_valid_fuel f r' | _ => false end
      else if ((225 <=? b0) && (b0 <=? 236)) || ((238 <=? b0) && (b0 <=? 239)) then
        match r with b1 :: b2 :: r' => cont b1 && cont b2 && utf8_valid_fuel f r' | _ => false end
      else if b0 =? 237 then
        match r with b1 :: b2 :: r' => (128 <=? b1) && (b1 <=? 159) && cont b2 && utf8_valid_fuel f r' | _ => false end
      else if b0 =? 240 then
        match r with b1 :: b2 :: b3 :: r' => (144 <=? b1) && (b1 <=? 191) && cont b2 && cont b3 && utf8_valid_fuel f r' | _ => false end
      else if (241 <=? b0) && (b0 <=? 243) then
        match r with b1 :: b2 :: b3 :: r' => cont b1 && cont b2 && cont b3 && utf8_valid_fuel f r' | _ => false end
      else if b0 =? 244 then
        match r with b1 :: b2 :: b3 :: r' => (128 <=? b1) && (b1 <=? 143) && cont b2 && cont b3 && utf8_valid_fuel f r' | _ => false end
      else false
    end
  end.
Definition utf8_valid (bs : bytes) : bool := utf8_valid_fuel (length bs) bs.

(* from_key_bytes succeeds *)
Definition key_valid (t : ktype) (k : bytes) : bool :=
  match t with
  | KBytes => true
  | KString => utf8_valid k
  | KArr n | KUns n | KSig n => Nat.eqb (length k) n
  end.

(* the Ord of the Rust key type, on to_key_bytes images *)
Definition key_cmp (t : ktype) : bytes -> bytes -> comparison :=
  match t with
  | KBytes | KString | KArr _ => lex_cmp
  | KUns _ => by_num unsigned_of
  | KSig _ => by_num signed_of
  end.

(* ---- hex ---- *)
Definition hexdigit (d : N) : byte := if d <? 10 then 48 + d else 87 + d.   (* '0'.. / 'a'.. *)
Definition unhexdigit (c : byte) : option N :=
  if (48 <=? c) && (c <=? 57) then Some (c - 48)
  else if (97 <=? c) && (c <=? 102) then Some (c - 87)
  else if (65 <=? c) && (c <=? 70) then Some (c - 55)
  else None.
Fixpoint hex_enc (bs : bytes) : bytes :=
  match bs with [] => [] | b :: r => hexdigit (b / 16) :: hexdigit (b mod 16) :: hex_enc r end.
(* hex::decode_to_slice into exactly [n] bytes *)
Fixpoint hex_dec_pairs (cs : bytes) : option bytes :=
  match cs with
  | [] => Some []
  | [_] => None
  | c1 :: c2 :: r =>
    match unhexdigit c1, unhexdigit c2, hex_dec_pairs r with
    | Some a, Some b, Some t => Some (16 * a + b :: t)
    | _, _, _ => None
    end
  end.
Definition hex_dec (n : nat) (cs : bytes) : option bytes :=
  if Nat.eqb (length cs) (2 * n) then hex_dec_pairs cs else None.

(* BlobHash::relative_path: three components "hh" / "hh" / 60 hex characters *)
Definition hexpath (h : bytes) : list bytes :=
  let x := hex_enc h in [firstn 2 x; firstn 2 (skipn 2 x); skipn 4 x].
(* BlobHash::from_relative_path: the last three components, concatenated, hex-decoded *)
Definition parse_path (comps : list bytes) : option bytes :=
  match rev comps with
  | c3 :: c2 :: c1 :: _ => hex_dec 32 (c1 ++ c2 ++ c3)
  | _ => None
  end.
