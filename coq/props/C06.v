(* C06 -- CAS files are immutable and never partially visible (sequential part).
   CasNamed s: every file visible under cas/ holds exactly the bytes whose hash is encoded in its
   path.  cas_safe: a recorded call never creates, opens for writing, appends to, syncs or renames
   away a path under cas/; the only calls naming a CAS path are `rename staging -> cas` and `unlink`. *)
From Cas Require Import History.
From CasProofs Require Import StoreFS StoreInv StoreWrite StoreRead StoreHist.
From CasProofs Require CrashInv CrashCas.

Theorem C06_cas_immutable :
  forall H : bytes -> bytes,
    (forall b, length (H b) = 32%nat) -> (forall b, Forall (fun x => x < 256) (H b)) ->
  forall cfg : config, 0 < c_n cfg ->
  forall (ops : list op) (m : mem) (s : fs) (sg : smap bytes) (os : option ostats) (w : world),
    Live0 H cfg m s sg -> wfs w = s -> wfault w = None ->
    Forall (api_op cfg) ops ->
    NoCollide H (hist_contents ops ++ map snd sg) ->
    exists (r : list out * option handle) (w' : world),
      run_ops H (Some (mkHandle cfg m os)) ops w = (r, w')
      /\ (FsWf s -> CasNamed H s -> CasNamed H (wfs w'))
      /\ (exists tr, wtrace w' = tr ++ wtrace w /\ Forall cas_safe tr).
Proof. exact StoreHist.C06_cas_immutable_seq. Qed.
Print Assumptions C06_cas_immutable.

(* what cas_safe means, call by call: the definition is displayed here so that it cannot be
   weakened unnoticed *)
Theorem C06_cas_safe_meaning :
  forall c : call,
    cas_safe (TCall c) <->
    match c with
    | CMkdir _ | CUnlink _ => True
    | CCreate p | CCreateExcl p | COpenAppend p | CAppend p _ | CSync p => not_cas p
    | CRename p q => is_staging p \/ (not_cas p /\ not_cas q)
    end.
Proof. intros c. destruct c; reflexivity. Qed.
Print Assumptions C06_cas_safe_meaning.

Example C06_cas_safe_excludes :
  ~ cas_safe (TCall (CAppend (PCas [[1]]) [0])) /\ ~ cas_safe (TCall (CCreate (PCas [[1]])))
  /\ ~ cas_safe (TCall (CRename (PCas [[1]]) (PCas [[2]]))) /\ cas_safe (TCall (CRename (PStaging 3) (PCas [[2]]))).
Proof. cbn. unfold not_cas, is_staging. intuition. Qed.

(* every crash prefix of such a trace is an intermediate filesystem of the run, so CasNamed at
   "every instant" follows from CasNamed after every single call; the per-call statement is in
   proofs/StoreWrite.v (Post), the crash-prefix statement in props/C03.v *)

(* at every crash point: CasNamed holds in whatever state a crash leaves, for every program built
   from calls that never write under cas/ (all store programs: proofs/CrashCas.v) *)
Theorem C06_every_crash_point :
  forall (H : bytes -> bytes) (cfg : config), 0 < c_n cfg ->
  forall (A : Type) (prog : M A) (x : fs) (n : nat),
    CrashInv.WalkM (CrashCas.CasOk H) prog -> FsWf x -> CasNamed H x ->
    CasNamed H (crash_fs n (rev (wtrace (snd (prog (init_world x None))))) x).
Proof. exact CrashCas.cas_named_crash_fs. Qed.
Print Assumptions C06_every_crash_point.
