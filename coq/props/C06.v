(* C06 -- CAS files are immutable and never partially visible (sequential part).
   CasNamed s: every file visible under cas/ holds exactly the bytes whose hash is encoded in its
   path.  cas_safe: a recorded call never creates, opens for writing, appends to, syncs or renames
   away a path under cas/; the only calls naming a CAS path are `rename staging -> cas` and `unlink`. *)
From Cas Require Import History Inode.
From CasProofs Require Import StoreFS StoreInv StoreWrite StoreRead StoreHist.
From CasProofs Require CrashInv CrashCas InodeProofs SMapProofs ConcInv.
From Cas Require Conc.
From CasProps Require ConcSetting.

Theorem C06_cas_immutable :
  forall H : bytes -> bytes,
    (forall b, length (H b) = 32%nat) -> (forall b, Forall (fun x => x < 256) (H b)) ->
  forall cfg : config, 0 < c_n cfg ->
  forall (ops : list op) (m : mem) (s : fs) (sg : smap bytes) (os : option ostats) (w : world),
    Live0 H cfg m s sg -> wfs w = s -> wfault w = None ->
    Forall (api_op cfg) ops ->
    NoCollide H (hist_contents ops ++ map snd sg) ->
    exists (r : list out * option handle) (w' : world),
      run_ops H (Some (mkHandle cfg m os)) ops w = (r, w')
      /\ (FsWf s -> CasNamed H s -> CasNamed H (wfs w'))
      /\ (exists tr, wtrace w' = tr ++ wtrace w /\ Forall cas_safe tr).
Proof. exact StoreHist.C06_cas_immutable_seq. Qed.
Print Assumptions C06_cas_immutable.

(* what cas_safe means, call by call: the definition is displayed here so that it cannot be
   weakened unnoticed *)
Theorem C06_cas_safe_meaning :
  forall c : call,
    cas_safe (TCall c) <->
    match c with
    | CMkdir _ | CUnlink _ => True
    | CCreate p | CCreateExcl p | COpenAppend p | CAppend p _ | CSync p => not_cas p
    | CRename p q => is_staging p \/ (not_cas p /\ not_cas q)
    end.
Proof. intros c. destruct c; reflexivity. Qed.
Print Assumptions C06_cas_safe_meaning.

Example C06_cas_safe_excludes :
  ~ cas_safe (TCall (CAppend (PCas [[1]]) [0])) /\ ~ cas_safe (TCall (CCreate (PCas [[1]])))
  /\ ~ cas_safe (TCall (CRename (PCas [[1]]) (PCas [[2]]))) /\ cas_safe (TCall (CRename (PStaging 3) (PCas [[2]]))).
Proof. cbn. unfold not_cas, is_staging. intuition. Qed.

(* every crash prefix of such a trace is an intermediate filesystem of the run, so CasNamed at
   "every instant" follows from CasNamed after every single call; the per-call statement is in
   proofs/StoreWrite.v (Post), the crash-prefix statement in props/C03.v *)

(* at every crash point: CasNamed holds in whatever state a crash leaves, for every program built
   from calls that never write under cas/ (all store programs: proofs/CrashCas.v) *)
Theorem C06_every_crash_point :
  forall (H : bytes -> bytes) (cfg : config), 0 < c_n cfg ->
  forall (A : Type) (prog : M A) (x : fs) (n : nat),
    CrashInv.WalkM (CrashCas.CasOk H) prog -> FsWf x -> CasNamed H x ->
    CasNamed H (crash_fs n (rev (wtrace (snd (prog (init_world x None))))) x).
Proof. exact CrashCas.cas_named_crash_fs. Qed.
Print Assumptions C06_every_crash_point.

(* ---------------------------------------------------------------------------------------------
   Long-lived readers.  "A reader obtained before an overwrite or removal keeps streaming the
   complete original content."  A reader is an open descriptor, and a descriptor denotes an
   INODE, which the name-level model of FS.v does not have.  theories/Inode.v gives the same
   calls an inode-level semantics (ifs: name -> inode, inode -> content; istep; irun runs a
   recorded trace oldest first; iread = what a descriptor on that inode reads; ilookup = the
   inode a name denotes; abs_i = the content visible under a name).
   --------------------------------------------------------------------------------------------- *)


(* under concurrency: in the concurrent model a blob's bytes never change while it exists, and a
   blob that reappears after a removal has the same bytes - between ANY two reachable states, for
   every schedule and every number of threads (the content under a hash is determined by the hash) *)
Theorem C06_blob_content_is_fixed_concurrent :
  forall H cmp nops bad ckbad thr0 cas0, ConcSetting.ConcSetting H cmp thr0 cas0 ->
  forall g g', ConcInv.reachable H cmp nops bad ckbad thr0 cas0 g ->
               ConcInv.reachable H cmp nops bad ckbad thr0 cas0 g' ->
  forall h c c', sm_get lex_cmp (Conc.g_cas g) h = Some c -> sm_get lex_cmp (Conc.g_cas g') h = Some c' ->
    c = c' /\ H c = h.
Proof.
  intros H cmp nops bad ckbad thr0 cas0 (A & B & C & D & E & F & G & I) g g' R R' h c c' G1 G2.
  pose proof (ConcInv.reachable_inv H cmp A B C D nops bad ckbad thr0 E cas0 F G I g R) as V.
  pose proof (ConcInv.reachable_inv H cmp A B C D nops bad ckbad thr0 E cas0 F G I g' R') as V'.
  apply (SMapProofs.lex_get_in _ _ _ (ConcInv.ci_cas_sorted _ _ _ _ _ _ V)) in G1.
  apply (SMapProofs.lex_get_in _ _ _ (ConcInv.ci_cas_sorted _ _ _ _ _ _ V')) in G2.
  destruct (ConcInv.ci_cas_named _ _ _ _ _ _ V _ _ G1) as [E1 M1].
  destruct (ConcInv.ci_cas_named _ _ _ _ _ _ V' _ _ G2) as [E2 M2].
  split; [|exact E1]. apply I; [exact M1|exact M2|congruence].
Qed.
Print Assumptions C06_blob_content_is_fixed_concurrent.

(* the inode model is the same filesystem as FS.v, seen through names: along the recorded
   trace of any history of data-API calls (any fault plan) both show the same content under
   every name.  iwf / FsWf: no duplicate entries; iwf also says that no inode has two names. *)
Theorem C06_inode_model_agrees :
  forall (tr : list tev) (s0 : ifs) (x0 : fs),
    iwf s0 -> FsWf x0 -> effective tr x0 ->
    (forall p, abs_i s0 p = option_map fdata (fget x0 p)) ->
    forall p, abs_i (irun s0 tr) p = option_map fdata (fget (replay_calls tr x0) p).
Proof. exact InodeProofs.inode_name_agreement. Qed.
Print Assumptions C06_inode_model_agrees.

Theorem C06_inode_model_agrees_history :
  forall (H : bytes -> bytes) (ops : list op) (hd : option handle) (w : world) (si : ifs),
    Forall InodeProofs.data_op ops -> iwf si -> FsWf (wfs w) ->
    (forall p, abs_i si p = option_map fdata (fget (wfs w) p)) ->
    exists tr, wtrace (snd (run_ops H hd ops w)) = tr ++ wtrace w /\
               iwf (irun si (rev tr)) /\ FsWf (wfs (snd (run_ops H hd ops w))) /\
               forall p, abs_i (irun si (rev tr)) p
                         = option_map fdata (fget (wfs (snd (run_ops H hd ops w))) p).
Proof. exact InodeProofs.history_name_agreement. Qed.
Print Assumptions C06_inode_model_agrees_history.

(* the calls covered by the previous theorem, displayed *)
Theorem C06_data_op_meaning :
  forall o : op,
    InodeProofs.data_op o <->
    match o with
    | OpOpen _ _ | OpDeleteOrphans | OpQuarantine | OpDeleteOrphan _ => False
    | _ => True
    end.
Proof. intros o. destruct o; reflexivity. Qed.
Print Assumptions C06_data_op_meaning.

(* iwf is an invariant of the inode model, and every well-formed name-level filesystem has an
   inode-level counterpart: the hypotheses "iwf" and "agrees initially" can always be met *)
Theorem C06_inode_model_wf :
  (forall s c, iwf s -> iwf (istep s c)) /\
  (forall x, FsWf x -> iwf (ifs_of x) /\ forall p, abs_i (ifs_of x) p = option_map fdata (fget x p)).
Proof. split; [exact InodeProofs.istep_wf|exact InodeProofs.ifs_of_ok]. Qed.
Print Assumptions C06_inode_model_wf.

(* the reader theorem: ino is the inode the blob path denotes when the reader is opened, c its
   content.  After ANY trace of cas_safe calls -- the name may have been unlinked, another staged
   file may have been renamed onto it, any number of times -- a read through the descriptor
   still gives exactly c. *)
Theorem C06_reader_keeps_its_content :
  forall (s : ifs) (comps : list bytes) (ino : nat) (c : bytes) (tr : list tev),
    iwf s -> ilookup s (PCas comps) = Some ino -> iread s ino = Some c ->
    Forall cas_safe tr ->
    iread (irun s tr) ino = Some c.
Proof. exact InodeProofs.C06_reader_keeps_its_content. Qed.
Print Assumptions C06_reader_keeps_its_content.

(* ... also at every intermediate point of the trace (the reader is streaming while the other
   calls happen), and for a descriptor whose name is already gone *)
Theorem C06_reader_keeps_its_content_always :
  forall (s : ifs) (ino : nat) (c : bytes) (tr : list tev),
    iwf s -> iread s ino = Some c -> (forall q, ilookup s q = Some ino -> is_cas q) ->
    Forall cas_safe tr ->
    forall n, iread (irun s (firstn n tr)) ino = Some c.
Proof. exact InodeProofs.reader_keeps_its_content_gen. Qed.
Print Assumptions C06_reader_keeps_its_content_always.

(* tied to the store: run ops1, open a reader on the blob of any key k (with content c in the
   specification state reached), run ops2: at every point of ops2's trace the reader still
   reads c.  C06_cas_immutable provides `Forall cas_safe` for the trace of every history;
   Live0 provides the blob of every key. *)
Theorem C06_reader_survives_history :
  forall H : bytes -> bytes,
    (forall b, length (H b) = 32%nat) -> (forall b, Forall (fun x => x < 256) (H b)) ->
  forall cfg : config, 0 < c_n cfg ->
  forall (ops1 ops2 : list op) (m : mem) (s : fs) (sg : smap bytes) (os : option ostats)
         (w : world) (si : ifs),
    Live0 H cfg m s sg -> wfs w = s -> wfault w = None ->
    Forall (api_op cfg) (ops1 ++ ops2) ->
    NoCollide H (hist_contents (ops1 ++ ops2) ++ map snd sg) ->
    FsWf s -> iwf si -> (forall p, abs_i si p = option_map fdata (fget s p)) ->
    exists outs1 hd1 w1 r2 w2 tr1 tr2,
      run_ops H (Some (mkHandle cfg m os)) ops1 w = ((outs1, Some hd1), w1) /\
      wtrace w1 = tr1 ++ wtrace w /\
      run_ops H (Some hd1) ops2 w1 = (r2, w2) /\ wtrace w2 = tr2 ++ wtrace w1 /\
      let si1 := irun si (rev tr1) in
      forall k c,
        sm_get (key_cmp (c_kt cfg)) (fold_left (spec_step (key_cmp (c_kt cfg))) ops1 sg) k = Some c ->
        exists ino, ilookup si1 (cas_path (H c)) = Some ino /\ iread si1 ino = Some c /\
                    forall n, iread (irun si1 (firstn n (rev tr2))) ino = Some c.
Proof. exact InodeProofs.C06_reader_survives_history. Qed.
Print Assumptions C06_reader_survives_history.

(* a blob (inode 0, bytes 10 20 30) is opened; its name is unlinked and a new staged file with
   other bytes is renamed to the same name: the reader still reads 10 20 30, the name shows 77 *)
Example C06_reader_example :
  let blob := PCas [[1]] in
  let s := irun empty_ifs [TCall (CCreateExcl (PStaging 0)); TCall (CAppend (PStaging 0) [10; 20; 30]);
                           TCall (CRename (PStaging 0) blob)] in
  let later := [TCall (CUnlink blob); TCall (CCreateExcl (PStaging 1));
                TCall (CAppend (PStaging 1) [77]); TCall (CRename (PStaging 1) blob)] in
  ilookup s blob = Some 0%nat /\ iread s 0%nat = Some [10; 20; 30] /\ Forall cas_safe later /\
  iread (irun s later) 0%nat = Some [10; 20; 30] /\ abs_i (irun s later) blob = Some [77].
Proof.
  cbv zeta. split; [vm_compute; reflexivity|]. split; [vm_compute; reflexivity|].
  split; [repeat constructor|]. split; vm_compute; reflexivity.
Qed.

(* the hypothesis is needed: an append to the path under cas/ (excluded by cas_safe) reaches the
   reader's inode *)
Example C06_reader_needs_cas_safe :
  let blob := PCas [[1]] in
  let s := irun empty_ifs [TCall (CCreateExcl (PStaging 0)); TCall (CAppend (PStaging 0) [10; 20; 30]);
                           TCall (CRename (PStaging 0) blob)] in
  ~ cas_safe (TCall (CAppend blob [99])) /\
  iread (irun s [TCall (CAppend blob [99])]) 0%nat = Some [10; 20; 30; 99].
Proof. cbv zeta. split; [intros X; exact X|vm_compute; reflexivity]. Qed.
