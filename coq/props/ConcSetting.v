(* the common setting of the concurrent theorems: a key order, thread programs with distinct
   thread ids, an initial CAS directory whose files are well named, and collision-freedom of
   BLAKE3 on the contents that actually occur (no global injectivity) *)
From Cas Require Import Conc.
From CasProofs Require Import ConcInv.

Definition ConcSetting (H : bytes -> bytes) (cmp : bytes -> bytes -> comparison)
           (thr0 : list (nat * list ccall)) (cas0 : smap bytes) : Prop :=
  (forall a, cmp a a = Eq) /\ (forall a b, cmp a b = Eq -> a = b)
  /\ (forall a b, cmp b a = CompOpp (cmp a b))
  /\ (forall a b c, cmp a b = Lt -> cmp b c = Lt -> cmp a c = Lt)
  /\ NoDup (map fst thr0)
  /\ sorted lex_cmp cas0
  /\ (forall h c, In (h, c) cas0 -> H c = h)
  /\ (forall a b, In a (allc thr0 cas0) -> In b (allc thr0 cas0) -> H a = H b -> a = b).

(* the fault parameters of the concurrent model (theories/Conc.v): [bad h] = the canonical path
   of hash h is obstructed (unlink / rename onto / read of it fail with an I/O error), [ckbad] =
   every checkpoint fails.  NoFaults = none of this happens.  Most concurrent theorems hold for
   ARBITRARY bad / ckbad; the few that need a fault-free run say so with this hypothesis. *)
Definition NoFaults (bad : bytes -> bool) (ckbad : bool) : Prop :=
  (forall h, bad h = false) /\ ckbad = false.
