(* C14 -- A failed I/O call is contained to the operation that hit it.
   Fault plan: `wfault w = Some n` makes the n-th effective call return EIO without effect; the
   theorems below hold for EVERY fault plan (any number of failing calls, any position).
   FULL STATEMENT (false for the model and for the code - known finding F4, see the refutation):
     after a fault, all later operations AND the reopen behave as if the failed operation had
     happened entirely or not at all.
   PROVED (…_partial: one process lifetime; the reopen clause is exactly what F4 breaks):
     no operation ever panics, every operation returns, every other key keeps exactly its content,
     the keys of a failed operation hold old or new, and every later read agrees with some such map.
   PROVED about the reopen clause (proofs/FaultReopen.v):
     C14_reopen_after_any_single_fault: ONE operation hit by a fault at ANY of its calls (WAL calls
     included), then a reopen: it succeeds and shows the old or the new map - F4 needs a LATER
     operation of the same process that reclaims the blob the stale record names;
     C14_history_after_benign_fault: after a fault that struck before the blob was published
     (staging calls, mkdirs, the staging->cas rename) the invariant is intact and every further
     history with restarts and crashes behaves as specified. *)
From Cas Require Import History.
From CasProofs Require Import StoreFS StoreInv StoreWrite StoreHist Faults FaultHist FaultWitness RestartHist CrashInv CrashHist FaultReopen.

Theorem C14_put_fault_contained :
  forall H : bytes -> bytes,
    (forall b, length (H b) = 32%nat) -> (forall b, Forall (fun x => x < 256) (H b)) ->
  forall cfg : config, 0 < c_n cfg ->
  forall (m : mem) (s : fs) (sg : smap bytes) (k : bytes) (chunks : list (list byte)) (w : world),
    LiveF H cfg m s sg -> wfs w = s -> NoCollide H (concat chunks :: map snd sg) ->
    let '(r, m', w') := put H cfg m k chunks w in
    r <> Err EPanic
    /\ (LiveF H cfg m' (wfs w') sg \/ LiveF H cfg m' (wfs w') (sm_ins (key_cmp (c_kt cfg)) sg k (concat chunks)))
    /\ (r = Ok tt -> LiveF H cfg m' (wfs w') (sm_ins (key_cmp (c_kt cfg)) sg k (concat chunks))).
Proof. exact Faults.put_fault. Qed.
Print Assumptions C14_put_fault_contained.

(* whole histories from an empty directory, for every fault plan and either choice of
   pre_create_cas_dirs (a fault may also hit any mkdir of the fan-out tree: the open then fails) *)
Theorem C14_fault_contained_partial :
  forall H : bytes -> bytes,
    (forall b, length (H b) = 32%nat) -> (forall b, Forall (fun x => x < 256) (H b)) ->
  forall cfg : config, 0 < c_n cfg ->
  forall (fault : option nat) (ops : list op),
    Forall (api_op cfg) ops -> NoCollide H (hist_contents ops) ->
    let '(outs, hd', w') := run_hist H empty_fs fault (OpOpen cfg false :: ops) in
    (exists e, e <> EPanic /\ outs = OutErr e :: map (fun _ => OutClosed) ops /\ hd' = None)
    \/ (exists (os : option ostats) (outs1 : list out),
          outs = OutOpened os :: outs1
          /\ FaultRefines H cfg [] ops outs1
          /\ ~ In (OutErr EPanic) outs1
          /\ (exists m' sgf, hd' = Some (mkHandle cfg m' os)
                             /\ In sgf (possible_maps cfg [] ops) /\ LiveF H cfg m' (wfs w') sgf)).
Proof. exact FaultHist.C14_from_fresh_any_fault_partial. Qed.
Print Assumptions C14_fault_contained_partial.

(* from any handle satisfying the weakened invariant: every read output is the specified one for
   some map obtained by treating each failed operation as done or not done *)
Theorem C14_reads_stay_correct_partial :
  forall H : bytes -> bytes,
    (forall b, length (H b) = 32%nat) -> (forall b, Forall (fun x => x < 256) (H b)) ->
  forall cfg : config, 0 < c_n cfg ->
  forall (ops : list op) (m : mem) (sg : smap bytes) (os : option ostats) (w : world),
    LiveF H cfg m (wfs w) sg -> Forall (api_op cfg) ops ->
    NoCollide H (hist_contents ops ++ map snd sg) ->
    let '(outs, hd', w') := run_ops H (Some (mkHandle cfg m os)) ops w in
    ~ In (OutErr EPanic) outs /\ length outs = length ops
    /\ (forall i o x, nth_error ops i = Some o -> nth_error outs i = Some x ->
          (exists sgi, In sgi (possible_maps cfg sg (firstn i ops)) /\ x = spec_out H cfg sgi o)
          \/ (mutating o = true /\ exists e, x = OutErr e /\ e <> EPanic))
    /\ (forall i o x, nth_error ops i = Some o -> nth_error outs i = Some x -> mutating o = false ->
          exists sgi, In sgi (possible_maps cfg sg (firstn i ops)) /\ x = spec_out H cfg sgi o)
    /\ (exists m' sgf, hd' = Some (mkHandle cfg m' os)
                       /\ In sgf (possible_maps cfg sg ops) /\ LiveF H cfg m' (wfs w') sgf).
Proof. exact FaultHist.C14_fault_contained_handle_partial. Qed.
Print Assumptions C14_reads_stay_correct_partial.


(* one operation from a state at rest, the j-th of its calls fails (any j, any call): no panic,
   memory and CAS hold old or new, the disk is recoverable to old or new, and the next open
   succeeds with exactly one of the two *)
Theorem C14_reopen_after_any_single_fault :
  forall H : bytes -> bytes,
    (forall b, length (H b) = 32%nat) -> (forall b, Forall (fun x => x < 256) (H b)) ->
  forall cfg : config, 0 < c_n cfg ->
  forall (m : mem) (s : fs) (sg : smap bytes) (os : option ostats) (o : op) (w : world) (j : nat),
    Inv' H cfg m s sg -> wfs w = s -> wfault w = None ->
    api_op cfg o -> NoCollide H (op_contents o ++ map snd sg) -> op_fits_at cfg sg o ->
    N.of_nat (length sg) + 1 < 2 ^ 32 -> nextv (mwal m) < 2 ^ 64 ->
    let '(x, hd', w') := step H (Some (mkHandle cfg m os)) o (arm (wcount w + j) w) in
    x <> OutErr EPanic
    /\ (exists m', hd' = Some (mkHandle cfg m' os)
          /\ (LiveF H cfg m' (wfs w') sg \/ LiveF H cfg m' (wfs w') (spec_step (key_cmp (c_kt cfg)) sg o)))
    /\ (Rest H cfg (wfs w') sg \/ Rest H cfg (wfs w') (spec_step (key_cmp (c_kt cfg)) sg o))
    /\ (exists m2 os2 w2,
          open_with_recover H cfg (init_world (wfs w') None) = (Ok (m2, os2), w2)
          /\ (Inv' H cfg m2 (wfs w2) sg \/ Inv' H cfg m2 (wfs w2) (spec_step (key_cmp (c_kt cfg)) sg o))).
Proof. exact FaultReopen.C14_reopen_after_any_single_fault_op. Qed.
Print Assumptions C14_reopen_after_any_single_fault.

(* a fault that strikes before the blob is published leaves the full invariant intact; every
   further history (operations, restarts, crashes at any instant, crashes during recovery)
   then behaves as specified from the old map or from the operation's result *)
Theorem C14_history_after_benign_fault :
  forall H : bytes -> bytes,
    (forall b, length (H b) = 32%nat) -> (forall b, Forall (fun x => x < 256) (H b)) ->
  forall cfg : config, 0 < c_n cfg ->
  forall (m : mem) (s : fs) (sg : smap bytes) (os : option ostats) (o : op) (w : world) (j : nat) (h : list ev),
    Inv' H cfg m s sg -> wfs w = s -> wfault w = None ->
    api_op cfg o -> NoCollide H (flat_map ev_contents h ++ op_contents o ++ map snd sg) ->
    op_fits_at cfg sg o -> ext_fits cfg sg h -> ext_fits cfg (spec_step (key_cmp (c_kt cfg)) sg o) h ->
    N.of_nat (length sg) + 1 + N.of_nat (length h) < 2 ^ 32 ->
    N.of_nat (length (spec_step (key_cmp (c_kt cfg)) sg o)) + N.of_nat (length h) < 2 ^ 32 ->
    nextv (mwal m) + 1 + N.of_nat (length h) <= 2 ^ 32 ->
    let '(_, hd', w') := step H (Some (mkHandle cfg m os)) o (arm (wcount w + j) w) in
    (forall c, In (TCall c) (new_trace w w') -> StageCall c) ->
    (forall c, In (TFault c) (new_trace w w') -> StageCall c \/ BlobRename c) ->
    exists hd1, hd' = Some hd1
      /\ (exists hd2 w2, run_ext H cfg (hd1, disarm w') h = Some (hd2, w2) /\ h_cfg hd2 = cfg
           /\ (exists sgf, (allowed cfg sg h sgf \/ allowed cfg (spec_step (key_cmp (c_kt cfg)) sg o) h sgf)
                           /\ Inv' H cfg (h_mem hd2) (wfs w2) sgf)).
Proof. exact FaultReopen.C14_history_after_benign_fault. Qed.
Print Assumptions C14_history_after_benign_fault.

(* computed instances: a fault at the staging->cas rename (old map after reopen), at the creation of
   index.tmp in a rollover checkpoint (new map), at the seal of a full segment (old map), and at the
   WAL record append of a single operation (old map without close, new map with close) *)
Example C14_reopen_examples := (FaultReopen.reopen_after_fault_at_blob_rename, FaultReopen.reopen_after_fault_at_index_tmp,
                                FaultReopen.reopen_after_wal_append_fault_single_op).


(* the reopen clause is refuted on the known class F4: a fault at the WAL append of a put whose
   content is reclaimed afterwards; the store then refuses to open (witness by vm_compute) *)
Theorem C14_refuted_on_known_class :
  exists (n : nat) (ops : list op),
    let r := run_hist toyH empty_fs (Some n) ops in
    fault_hits_wal_append (world_of r) /\ last (outs_of r) OutUnit = OutErr EIntegrity.
Proof. exact FaultWitness.C14_refuted_on_known_class. Qed.
Print Assumptions C14_refuted_on_known_class.
