(* C14 -- A failed I/O call is contained to the operation that hit it.
   Fault plan: `wfault w = Some n` makes the n-th effective call return EIO without effect; the
   theorems below hold for EVERY fault plan (any number of failing calls, any position).
   FULL STATEMENT (false for the model and for the code - known finding F4, see the refutation):
     after a fault, all later operations AND the reopen behave as if the failed operation had
     happened entirely or not at all.
   PROVED (…_partial: one process lifetime; the reopen clause is exactly what F4 breaks):
     no operation ever panics, every operation returns, every other key keeps exactly its content,
     the keys of a failed operation hold old or new, and every later read agrees with some such map. *)
From Cas Require Import History.
From CasProofs Require Import StoreFS StoreInv StoreWrite StoreHist Faults FaultHist FaultWitness.

Theorem C14_put_fault_contained :
  forall H : bytes -> bytes,
    (forall b, length (H b) = 32%nat) -> (forall b, Forall (fun x => x < 256) (H b)) ->
  forall cfg : config, 0 < c_n cfg ->
  forall (m : mem) (s : fs) (sg : smap bytes) (k : bytes) (chunks : list (list byte)) (w : world),
    LiveF H cfg m s sg -> wfs w = s -> NoCollide H (concat chunks :: map snd sg) ->
    let '(r, m', w') := put H cfg m k chunks w in
    r <> Err EPanic
    /\ (LiveF H cfg m' (wfs w') sg \/ LiveF H cfg m' (wfs w') (sm_ins (key_cmp (c_kt cfg)) sg k (concat chunks)))
    /\ (r = Ok tt -> LiveF H cfg m' (wfs w') (sm_ins (key_cmp (c_kt cfg)) sg k (concat chunks))).
Proof. exact Faults.put_fault. Qed.
Print Assumptions C14_put_fault_contained.

(* whole histories from an empty directory, for every fault plan and either choice of
   pre_create_cas_dirs (a fault may also hit any mkdir of the fan-out tree: the open then fails) *)
Theorem C14_fault_contained_partial :
  forall H : bytes -> bytes,
    (forall b, length (H b) = 32%nat) -> (forall b, Forall (fun x => x < 256) (H b)) ->
  forall cfg : config, 0 < c_n cfg ->
  forall (fault : option nat) (ops : list op),
    Forall (api_op cfg) ops -> NoCollide H (hist_contents ops) ->
    let '(outs, hd', w') := run_hist H empty_fs fault (OpOpen cfg false :: ops) in
    (exists e, e <> EPanic /\ outs = OutErr e :: map (fun _ => OutClosed) ops /\ hd' = None)
    \/ (exists (os : option ostats) (outs1 : list out),
          outs = OutOpened os :: outs1
          /\ FaultRefines H cfg [] ops outs1
          /\ ~ In (OutErr EPanic) outs1
          /\ (exists m' sgf, hd' = Some (mkHandle cfg m' os)
                             /\ In sgf (possible_maps cfg [] ops) /\ LiveF H cfg m' (wfs w') sgf)).
Proof. exact FaultHist.C14_from_fresh_any_fault_partial. Qed.
Print Assumptions C14_fault_contained_partial.

(* from any handle satisfying the weakened invariant: every read output is the specified one for
   some map obtained by treating each failed operation as done or not done *)
Theorem C14_reads_stay_correct_partial :
  forall H : bytes -> bytes,
    (forall b, length (H b) = 32%nat) -> (forall b, Forall (fun x => x < 256) (H b)) ->
  forall cfg : config, 0 < c_n cfg ->
  forall (ops : list op) (m : mem) (sg : smap bytes) (os : option ostats) (w : world),
    LiveF H cfg m (wfs w) sg -> Forall (api_op cfg) ops ->
    NoCollide H (hist_contents ops ++ map snd sg) ->
    let '(outs, hd', w') := run_ops H (Some (mkHandle cfg m os)) ops w in
    ~ In (OutErr EPanic) outs /\ length outs = length ops
    /\ (forall i o x, nth_error ops i = Some o -> nth_error outs i = Some x ->
          (exists sgi, In sgi (possible_maps cfg sg (firstn i ops)) /\ x = spec_out H cfg sgi o)
          \/ (mutating o = true /\ exists e, x = OutErr e /\ e <> EPanic))
    /\ (forall i o x, nth_error ops i = Some o -> nth_error outs i = Some x -> mutating o = false ->
          exists sgi, In sgi (possible_maps cfg sg (firstn i ops)) /\ x = spec_out H cfg sgi o)
    /\ (exists m' sgf, hd' = Some (mkHandle cfg m' os)
                       /\ In sgf (possible_maps cfg sg ops) /\ LiveF H cfg m' (wfs w') sgf).
Proof. exact FaultHist.C14_fault_contained_handle_partial. Qed.
Print Assumptions C14_reads_stay_correct_partial.

(* the reopen clause is refuted on the known class F4: a fault at the WAL append of a put whose
   content is reclaimed afterwards; the store then refuses to open (witness by vm_compute) *)
Theorem C14_refuted_on_known_class :
  exists (n : nat) (ops : list op),
    let r := run_hist toyH empty_fs (Some n) ops in
    fault_hits_wal_append (world_of r) /\ last (outs_of r) OutUnit = OutErr EIntegrity.
Proof. exact FaultWitness.C14_refuted_on_known_class. Qed.
Print Assumptions C14_refuted_on_known_class.
