(* C08 -- Orphan scan is exact; clean-up is complete and never harms live data (sequential part;
   the race with concurrent puts is decided by the concurrent model, props/C04.v, and K6).
   Live0m: memory/index part of the invariant WITHOUT "every content has its blob" (missing blobs
   are what the scan reports).  The filesystem may hold arbitrary planted files under cas/ (1-3
   components, any names) and staging/.  wfhash h: 32 bytes.  After the repair of finding F5 an
   entry names a blob only at the canonical path of its hash; no hypothesis on names is needed. *)
From Cas Require Import History.
From CasProofs Require Import BaseProofs StoreFS StoreInv StoreHist OrphanProofs.
From Cas Require Conc.
From CasProofs Require ConcInv ConcProofs IndexProofs.
From CasProps Require ConcSetting.

Theorem C08_scan_exact :
  forall H : bytes -> bytes,
    (forall b, length (H b) = 32%nat) -> (forall b, Forall (fun x => x < 256) (H b)) ->
  forall cfg m s sg verify, Live0m H cfg m sg -> FsWf s ->
  let o := scan_orphans H m s verify in
  (forall h, In h (o_orphans o) <-> wfhash h /\ fget s (cas_path h) <> None /\ ~ ref_hash H sg h)
  /\ (forall h, In h (o_missing o) <-> ref_hash H sg h /\ fget s (cas_path h) = None)
  /\ (forall p, In p (o_invalid o) <-> exists comps f, p = PCas comps /\ fget s p = Some f
                                        /\ ~ exists h, wfhash h /\ comps = hexpath h)
  /\ (forall p, In p (o_staging o) <-> exists i f, p = PStaging i /\ fget s p = Some f)
  /\ (verify = true -> forall h, In h (o_corrupted o) <->
        exists f k c, fget s (cas_path h) = Some f /\ In (k, c) sg /\ H c = h
                      /\ ~ (len (fdata f) = len c /\ H (fdata f) = h))
  /\ (verify = false -> o_corrupted o = [])
  /\ NoDup (o_orphans o) /\ NoDup (o_missing o) /\ NoDup (o_invalid o)
  /\ NoDup (o_staging o) /\ NoDup (o_corrupted o)
  /\ (exists hs, NoDup hs /\ (forall h, In h hs <-> wfhash h /\ fget s (cas_path h) <> None)
                 /\ o_total o = N.of_nat (length hs)).
Proof. exact OrphanProofs.C08_scan_exact. Qed.
Print Assumptions C08_scan_exact.

(* clean-up removes exactly the reported garbage and restores the exactness of C07; no referenced
   blob is touched *)
Theorem C08_cleanup_restores_C07 :
  forall H : bytes -> bytes,
    (forall b, length (H b) = 32%nat) -> (forall b, Forall (fun x => x < 256) (H b)) ->
  forall cfg m s sg verify, Live0 H cfg m s sg -> FsWf s ->
  forall w r w', wfs w = s -> wfault w = None ->
    delete_orphans m (scan_orphans H m s verify) w = (r, w') ->
    Clean H (wfs w') sg /\ Live0 H cfg m (wfs w') sg /\ FsWf (wfs w').
Proof. exact OrphanProofs.C08_cleanup_restores_C07. Qed.
Print Assumptions C08_cleanup_restores_C07.

(* clean-up re-validates: a hash that became referenced after the scan is skipped and keeps its file *)
Theorem C08_cleanup_rechecks_the_live_index :
  forall (H : bytes -> bytes) (m : mem) (s : fs) (verify : bool) (m' : mem) (w : world) (h : bytes),
    referenced m' h = true -> delete_orphan m' (scan_orphans H m s verify) h w = (Ok false, w).
Proof. exact OrphanProofs.delete_orphan_rechecks. Qed.
Print Assumptions C08_cleanup_rechecks_the_live_index.


(* the race with concurrent commits (concurrent model; KDelOrphans = delete_orphans over the scanned
   list, one lock-protected re-check per hash): NO step of any thread - an orphan deletion included -
   removes a blob that a key references or that an in-flight commit protects, in every reachable
   state, for every schedule *)
Theorem C08_cleanup_racing_with_commits_never_harms :
  forall H cmp nops bad ckbad thr0 cas0, CasProps.ConcSetting.ConcSetting H cmp thr0 cas0 ->
  forall g t g', CasProofs.ConcInv.reachable H cmp nops bad ckbad thr0 cas0 g ->
                 Cas.Conc.cstep H cmp nops bad ckbad g t = Some g' ->
  forall h, sm_get lex_cmp (Cas.Conc.g_cas g) h <> None -> sm_get lex_cmp (Cas.Conc.g_cas g') h = None ->
    IndexProofs.count_refs (km (Cas.Conc.g_idx g)) h = 0%N /\ sm_get lex_cmp (Cas.Conc.g_byhash g) h = None.
Proof.
  intros H cmp nops bad ckbad thr0 cas0 (A & B & C & D & E & F & G & I).
  exact (CasProofs.ConcProofs.C04_never_deletes_protected H cmp A B C D nops bad ckbad thr0 E cas0 F G I).
Qed.
Print Assumptions C08_cleanup_racing_with_commits_never_harms.

Example C08_nonvacuous_scan := OrphanProofs.N4_scan.
Example C08_nonvacuous_cleanup := OrphanProofs.N4_cleanup.
