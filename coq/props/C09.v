(* C09 -- Power-loss durability in Sync mode.
   Power loss: `lose victims x` truncates every file of the chosen set to the prefix covered by its
   last sync; directory operations persist in issue order.  Every theorem is for EVERY victim set
   at EVERY cut point.  RestS = Rest + every byte recovery relies upon is synced. *)
From Cas Require Import History.
From CasProofs Require Import StoreFS StoreInv StoreHist DiskInv RestartHist CrashInv CrashOps CrashOpen CrashHist
     PowerLoss PowerLossOps PowerLossOpen PowerLossHist PowerLossToy.

(* one operation interrupted by a power loss after ANY number of its filesystem calls, with ANY
   set of files losing their unsynced bytes: the next open succeeds and shows the old map or the
   operation's result *)
Theorem C09_powerloss_any_instant :
  forall H : bytes -> bytes,
    (forall b, length (H b) = 32%nat) -> (forall b, Forall (fun x => x < 256) (H b)) ->
  forall cfg : config, 0 < c_n cfg -> c_sync cfg = true ->
  forall (m : mem) (s : fs) (sg : smap bytes) (os : option ostats) (o : op) (w : world)
         (n : nat) (victims : path -> bool),
    Inv' H cfg m s sg -> SyncedFor H sg s -> wfs w = s -> wfault w = None ->
    api_op cfg o -> NoCollide H (op_contents o ++ map snd sg) -> op_fits_at cfg sg o ->
    N.of_nat (length sg) + 1 < 2 ^ 32 -> nextv (mwal m) < 2 ^ 64 ->
    let w' := snd (step H (Some (mkHandle cfg m os)) o w) in
    let x := lose victims (crash_fs n (rev (new_trace w w')) (wfs w)) in
    exists m2 os2 w2,
      open_with_recover H cfg (init_world x None) = (Ok (m2, os2), w2)
      /\ (Inv' H cfg m2 (wfs w2) sg \/ Inv' H cfg m2 (wfs w2) (spec_step (key_cmp (c_kt cfg)) sg o)).
Proof. exact PowerLossHist.powerloss_any_instant. Qed.
Print Assumptions C09_powerloss_any_instant.

(* at rest nothing recovery relies upon can be lost *)
Theorem C09_at_rest_nothing_is_lost :
  forall (H : bytes -> bytes) (cfg : config), 0 < c_n cfg ->
  forall (x : fs) (sg : smap bytes), RestS H cfg x sg ->
  forall victims, Rest H cfg (lose victims x) sg.
Proof. exact PowerLoss.lose_rest. Qed.
Print Assumptions C09_at_rest_nothing_is_lost.

(* power loss during the FIRST open of an empty directory, after any number of its calls (with
   pre_create_cas_dirs = true also in the middle of the mkdir loop of the fan-out tree), any
   victim set; holds in both sync modes *)
Theorem C09_first_open_powerloss :
  forall H : bytes -> bytes,
    (forall b, length (H b) = 32%nat) -> (forall b, Forall (fun x => x < 256) (H b)) ->
  forall cfg : config, 0 < c_n cfg -> c_n cfg < 2 ^ 64 ->
  forall (n : nat) (victims : path -> bool),
    exists m' os w',
      open_with_recover H cfg (init_world (loss_open H cfg n victims empty_fs) None) = (Ok (m', os), w')
      /\ Inv' H cfg m' (wfs w') [].
Proof. exact PowerLossOpen.first_open_powerloss. Qed.
Print Assumptions C09_first_open_powerloss.

(* whole histories with power losses (during operations and during recovery), where bytes that
   survive a power loss count as durable afterwards (`settle`); from an empty directory, either
   choice of pre_create_cas_dirs *)
Theorem C09_powerloss_history :
  forall H : bytes -> bytes,
    (forall b, length (H b) = 32%nat) -> (forall b, Forall (fun x => x < 256) (H b)) ->
  forall cfg : config, 0 < c_n cfg -> c_sync cfg = true ->
  forall h : list evl,
    c_n cfg < 2 ^ 64 ->
    NoCollide H (flat_map evl_contents h) -> extl_fits cfg [] h ->
    N.of_nat (length h) < 2 ^ 32 - 1 ->
    exists (hd0 : handle) (w0 : world),
      reopen H cfg empty_fs = Some (hd0, w0)
      /\ (exists hd w', run_extl H cfg settle (hd0, w0) h = Some (hd, w')
            /\ h_cfg hd = cfg /\ wfault w' = None
            /\ (exists sg, allowedl cfg [] h sg /\ Inv' H cfg (h_mem hd) (wfs w') sg)).
Proof. exact PowerLossHist.C09_powerloss_settled. Qed.
Print Assumptions C09_powerloss_history.

(* the hypothesis Sync is needed: in Async mode an acknowledged put can lose its blob (vm_compute) *)
Example C09_async_counterexample := PowerLossToy.async_acknowledged_put_loses_its_blob.
Example C09_nonvacuous := PowerLossToy.toy_powerloss_theorem_instance.
