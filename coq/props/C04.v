(* C04 -- No dangling reference under any interleaving of writers.
   Model: theories/Conc.v - any number of threads running any API calls, one atomic micro-step per
   scheduling point of the code (every lock acquisition, the intent registration, the CAS rename,
   append+apply, every unlink, the orphan re-validation), every schedule. *)
From Cas Require Import Conc.
From CasProofs Require Import ConcInv ConcProofs ConcExamples.
From CasProps Require Import ConcSetting.

Theorem C04_no_dangling :
  forall H cmp nops thr0 cas0, ConcSetting H cmp thr0 cas0 ->
  forall g, reachable H cmp nops thr0 cas0 g ->
  forall k it, sm_get cmp (km (g_idx g)) k = Some it ->
    exists c, sm_get lex_cmp (g_cas g) (ihash it) = Some c /\ H c = ihash it /\ len c = isize it.
Proof.
  intros H cmp nops thr0 cas0 (A & B & C & D & E & F & G & I).
  exact (ConcProofs.C04_no_dangling H cmp A B C D nops thr0 E cas0 F G I).
Qed.
Print Assumptions C04_no_dangling.

(* an in-flight commit (after its rename, before its apply) has its blob and is protected *)
Theorem C04_commit_window_protected :
  forall H cmp nops thr0 cas0, ConcSetting H cmp thr0 cas0 ->
  forall g t ts k h sz, reachable H cmp nops thr0 cas0 g -> tget (g_thr g) t = Some ts ->
    in_window (t_pc ts) (WPut k h sz) ->
    (exists c, sm_get lex_cmp (g_cas g) h = Some c /\ H c = h /\ len c = sz)
    /\ sm_get lex_cmp (g_byhash g) h <> None.
Proof.
  intros H cmp nops thr0 cas0 (A & B & C & D & E & F & G & I).
  exact (ConcProofs.C04_commit_window_protected H cmp A B C D nops thr0 E cas0 F G I).
Qed.
Print Assumptions C04_commit_window_protected.

(* no step of any thread (put, remove, range remove, checkpoint, orphan clean-up) deletes a blob
   that a key references or that an in-flight commit still needs *)
Theorem C04_never_deletes_protected :
  forall H cmp nops thr0 cas0, ConcSetting H cmp thr0 cas0 ->
  forall g t g', reachable H cmp nops thr0 cas0 g -> cstep H cmp nops g t = Some g' ->
  forall h, sm_get lex_cmp (g_cas g) h <> None -> sm_get lex_cmp (g_cas g') h = None ->
    IndexProofs.count_refs (km (g_idx g)) h = 0%N /\ sm_get lex_cmp (g_byhash g) h = None.
Proof.
  intros H cmp nops thr0 cas0 (A & B & C & D & E & F & G & I).
  exact (ConcProofs.C04_never_deletes_protected H cmp A B C D nops thr0 E cas0 F G I).
Qed.
Print Assumptions C04_never_deletes_protected.

(* C07 under concurrency: at quiescence the CAS directory holds exactly the referenced blobs *)
Theorem C04_C07_quiescent_exact :
  forall H cmp nops thr0 cas0, ConcSetting H cmp thr0 cas0 ->
  forall g, cas0 = [] -> reachable H cmp nops thr0 cas0 g -> all_finished g = true ->
  forall h, sm_get lex_cmp (g_cas g) h <> None <-> (exists k it, In (k, it) (km (g_idx g)) /\ ihash it = h).
Proof.
  intros H cmp nops thr0 cas0 (A & B & C & D & E & F & G & I).
  exact (ConcProofs.C07_quiescent_exact H cmp A B C D nops thr0 E cas0 F G I).
Qed.
Print Assumptions C04_C07_quiescent_exact.

Example C04_nonvacuous := ConcExamples.progA_never_missing.
