(* C04 -- No dangling reference under any interleaving of writers.
   Model: theories/Conc.v - any number of threads running any API calls, one atomic micro-step per
   scheduling point of the code (every lock acquisition, the intent registration, the CAS rename,
   append+apply, every unlink, the orphan re-validation), every schedule.
   Faults: the model has two fault parameters, bad (obstructed blob paths: unlink / rename onto /
   read fail) and ckbad (checkpoints fail).  Every theorem of this file holds for ARBITRARY bad and
   ckbad -- faults do not excuse dangling references -- except the quiescent exactness clause, which
   a failed deletion obviously breaks (it needs: no obstructed path, or no call returned an error). *)
From Cas Require Import Conc.
From CasProofs Require Import ConcInv ConcProofs ConcExamples ConcFault.
From CasProps Require Import ConcSetting.

Theorem C04_no_dangling :
  forall H cmp nops bad ckbad thr0 cas0, ConcSetting H cmp thr0 cas0 ->
  forall g, reachable H cmp nops bad ckbad thr0 cas0 g ->
  forall k it, sm_get cmp (km (g_idx g)) k = Some it ->
    exists c, sm_get lex_cmp (g_cas g) (ihash it) = Some c /\ H c = ihash it /\ len c = isize it.
Proof.
  intros H cmp nops bad ckbad thr0 cas0 (A & B & C & D & E & F & G & I).
  exact (ConcProofs.C04_no_dangling H cmp A B C D nops bad ckbad thr0 E cas0 F G I).
Qed.
Print Assumptions C04_no_dangling.

(* an in-flight commit (after its rename, before its apply) has its blob and is protected *)
Theorem C04_commit_window_protected :
  forall H cmp nops bad ckbad thr0 cas0, ConcSetting H cmp thr0 cas0 ->
  forall g t ts k h sz, reachable H cmp nops bad ckbad thr0 cas0 g -> tget (g_thr g) t = Some ts ->
    in_window (t_pc ts) (WPut k h sz) ->
    (exists c, sm_get lex_cmp (g_cas g) h = Some c /\ H c = h /\ len c = sz)
    /\ sm_get lex_cmp (g_byhash g) h <> None.
Proof.
  intros H cmp nops bad ckbad thr0 cas0 (A & B & C & D & E & F & G & I).
  exact (ConcProofs.C04_commit_window_protected H cmp A B C D nops bad ckbad thr0 E cas0 F G I).
Qed.
Print Assumptions C04_commit_window_protected.

(* no step of any thread (put, remove, range remove, checkpoint, orphan clean-up) deletes a blob
   that a key references or that an in-flight commit still needs *)
Theorem C04_never_deletes_protected :
  forall H cmp nops bad ckbad thr0 cas0, ConcSetting H cmp thr0 cas0 ->
  forall g t g', reachable H cmp nops bad ckbad thr0 cas0 g -> cstep H cmp nops bad ckbad g t = Some g' ->
  forall h, sm_get lex_cmp (g_cas g) h <> None -> sm_get lex_cmp (g_cas g') h = None ->
    IndexProofs.count_refs (km (g_idx g)) h = 0%N /\ sm_get lex_cmp (g_byhash g) h = None.
Proof.
  intros H cmp nops bad ckbad thr0 cas0 (A & B & C & D & E & F & G & I).
  exact (ConcProofs.C04_never_deletes_protected H cmp A B C D nops bad ckbad thr0 E cas0 F G I).
Qed.
Print Assumptions C04_never_deletes_protected.

(* C07 under concurrency: at quiescence the CAS directory holds exactly the referenced blobs,
   provided no blob path is obstructed or no call of the run returned an I/O error (a failed
   deletion leaves its blob behind; ckbad plays no role) *)
Theorem C04_C07_quiescent_exact :
  forall H cmp nops bad ckbad thr0 cas0, ConcSetting H cmp thr0 cas0 ->
  forall g, cas0 = [] -> reachable H cmp nops bad ckbad thr0 cas0 g -> all_finished g = true ->
  (forall h, bad h = false) \/ (forall t ts, tget (g_thr g) t = Some ts -> ~ In CErr (t_res ts)) ->
  forall h, sm_get lex_cmp (g_cas g) h <> None <-> (exists k it, In (k, it) (km (g_idx g)) /\ ihash it = h).
Proof.
  intros H cmp nops bad ckbad thr0 cas0 (A & B & C & D & E & F & G & I).
  exact (ConcProofs.C07_quiescent_exact H cmp A B C D nops bad ckbad thr0 E cas0 F G I).
Qed.
Print Assumptions C04_C07_quiescent_exact.

(* the fault-free form *)
Theorem C04_C07_quiescent_exact_nofaults :
  forall H cmp nops bad ckbad thr0 cas0, ConcSetting H cmp thr0 cas0 -> NoFaults bad ckbad ->
  forall g, cas0 = [] -> reachable H cmp nops bad ckbad thr0 cas0 g -> all_finished g = true ->
  forall h, sm_get lex_cmp (g_cas g) h <> None <-> (exists k it, In (k, it) (km (g_idx g)) /\ ihash it = h).
Proof.
  intros H cmp nops bad ckbad thr0 cas0 (A & B & C & D & E & F & G & I) [NB _] g E0 R AF.
  exact (ConcProofs.C07_quiescent_exact_nofaults H cmp A B C D nops bad ckbad thr0 E cas0 F G I
           g E0 R AF NB).
Qed.
Print Assumptions C04_C07_quiescent_exact_nofaults.

(* ---- the fault paths (finding F6) ---- *)

(* faults do not excuse dangling references: C04_no_dangling above IS the statement with faults;
   restated under the name of the fault study *)
Theorem C04_no_dangling_with_faults :
  forall H cmp nops bad ckbad thr0 cas0, ConcSetting H cmp thr0 cas0 ->
  forall g, reachable H cmp nops bad ckbad thr0 cas0 g ->
  forall k it, sm_get cmp (km (g_idx g)) k = Some it ->
    exists c, sm_get lex_cmp (g_cas g) (ihash it) = Some c /\ H c = ihash it /\ len c = isize it.
Proof.
  intros H cmp nops bad ckbad thr0 cas0 (A & B & C & D & E & F & G & I).
  exact (ConcFault.C04_no_dangling_with_faults H cmp A B C D nops bad ckbad thr0 E cas0 F G I).
Qed.
Print Assumptions C04_no_dangling_with_faults.

(* the by_hash ledger is exact in every reachable state, whatever fails: the count of h is the
   number of threads whose put of h is registered and not yet released (inflight = the number of
   threads parked between commit.rename and the release in apply_put_op, or at guard_drop.lock_I).
   In particular the error exit of a failed delete_blobs does not release the put's intent a
   second time (finding F6), and the reverted intent of a failed rename is released exactly once *)
Theorem C04_failed_delete_keeps_other_intents :
  forall H cmp nops bad ckbad thr0 cas0, ConcSetting H cmp thr0 cas0 ->
  forall g, reachable H cmp nops bad ckbad thr0 cas0 g ->
    sorted lex_cmp (g_byhash g) /\
    forall h, sm_get lex_cmp (g_byhash g) h =
              if (inflight H g h =? 0)%N then None else Some (inflight H g h).
Proof.
  intros H cmp nops bad ckbad thr0 cas0 (A & B & C & D & E & F & G & I).
  exact (ConcFault.C04_failed_delete_keeps_other_intents H cmp A B C D nops bad ckbad thr0 E cas0 F G I).
Qed.
Print Assumptions C04_failed_delete_keeps_other_intents.

(* no step of a thread (a failing unlink, a reverted intent, ...) unprotects the hash of an
   intent registered by another thread *)
Theorem C04_registered_stays_protected :
  forall H cmp nops bad ckbad thr0 cas0, ConcSetting H cmp thr0 cas0 ->
  forall g t g' u tsu h, reachable H cmp nops bad ckbad thr0 cas0 g ->
    cstep H cmp nops bad ckbad g t = Some g' -> u <> t -> tget (g_thr g) u = Some tsu ->
    reg H (t_pc tsu) h = true -> sm_get lex_cmp (g_byhash g') h <> None.
Proof.
  intros H cmp nops bad ckbad thr0 cas0 (A & B & C & D & E & F & G & I).
  exact (ConcFault.C04_registered_stays_protected H cmp A B C D nops bad ckbad thr0 E cas0 F G I).
Qed.
Print Assumptions C04_registered_stays_protected.

(* the obstructions may appear DURING the run (a run from a reachable state continued under a
   larger bad): still no dangling reference *)
Theorem C04_no_dangling_late_faults :
  forall H cmp nops bad ckbad thr0 cas0, ConcSetting H cmp thr0 cas0 ->
  forall bad' ckbad' g sched, (forall x, bad x = true -> bad' x = true) ->
    reachable H cmp nops bad ckbad thr0 cas0 g ->
    let g' := crun H cmp nops bad' ckbad' g sched in
    forall k it, sm_get cmp (km (g_idx g')) k = Some it ->
    exists c, sm_get lex_cmp (g_cas g') (ihash it) = Some c /\ H c = ihash it /\ len c = isize it.
Proof.
  intros H cmp nops bad ckbad thr0 cas0 (A & B & C & D & E & F & G & I).
  exact (ConcFault.C04_no_dangling_late_faults H cmp A B C D nops bad ckbad thr0 E cas0 F G I).
Qed.
Print Assumptions C04_no_dangling_late_faults.

Example C04_nonvacuous := ConcExamples.progA_never_missing.
(* the F6 schedule: fixed model (k3 visible, its blob present, thread 2's put returned CErr) and
   the pre-fix error path (k3 visible, blob absent) *)
Example C04_F6_fixed := ConcFault.F6_fixed_run.
Example C04_F6_fixed_no_dangling := ConcFault.F6_fixed_no_dangling.
Example C04_F6_prefix_refuted := ConcFault.F6_prefix_refuted.
