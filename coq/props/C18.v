(* C18 -- Blob identity depends only on content; hash <-> path is a bijection. *)
From Cas Require Import History.
From CasProofs Require Import BaseProofs StoreFS StoreInv StoreWrite StoreRead StoreHist.

(* a committed put records hash = H (whole content), size = its length, and places exactly the
   content at the path derived from that hash - for every way of splitting it across write calls *)
Theorem C18_put_identity :
  forall H : bytes -> bytes,
    (forall b, length (H b) = 32%nat) -> (forall b, Forall (fun x => x < 256) (H b)) ->
  forall cfg : config, 0 < c_n cfg ->
  forall (m : mem) (s : fs) (sg : smap bytes) (k : bytes) (chunks : list (list byte)) (w : world),
    Live0 H cfg m s sg -> wfs w = s -> wfault w = None ->
    NoCollide H (concat chunks :: map snd sg) ->
    exists (m' : mem) (w' : world),
      put H cfg m k chunks w = (Ok tt, m', w')
      /\ sm_get (key_cmp (c_kt cfg)) (km (idx m')) k
         = Some (mkItem (H (concat chunks)) (len (concat chunks)))
      /\ (exists f, fget (wfs w') (cas_path (H (concat chunks))) = Some f /\ fdata f = concat chunks).
Proof. exact StoreRead.C18_put_identity. Qed.
Print Assumptions C18_put_identity.

Theorem C18_chunking_irrelevant :
  forall H : bytes -> bytes,
    (forall b, length (H b) = 32%nat) -> (forall b, Forall (fun x => x < 256) (H b)) ->
  forall cfg : config, 0 < c_n cfg ->
  forall (m : mem) (s : fs) (sg : smap bytes) (k : bytes) (chunks1 chunks2 : list (list byte)) (w : world),
    Live0 H cfg m s sg -> wfs w = s -> wfault w = None ->
    NoCollide H (concat chunks1 :: map snd sg) ->
    concat chunks1 = concat chunks2 ->
    exists m1 w1 m2 w2,
      put H cfg m k chunks1 w = (Ok tt, m1, w1) /\ put H cfg m k chunks2 w = (Ok tt, m2, w2)
      /\ sm_get (key_cmp (c_kt cfg)) (km (idx m1)) k = sm_get (key_cmp (c_kt cfg)) (km (idx m2)) k
      /\ blob_of (wfs w1) (H (concat chunks1)) = Some (concat chunks1)
      /\ blob_of (wfs w2) (H (concat chunks1)) = Some (concat chunks1).
Proof. exact StoreRead.C18_chunking_irrelevant. Qed.
Print Assumptions C18_chunking_irrelevant.

(* hash -> path: shape 2 + 2 + 60 lower-case hex characters *)
Theorem C18_path_shape :
  forall h : bytes, length h = 32%nat -> Forall (fun b => b < 256) h ->
    exists a b c, hexpath h = [a; b; c] /\ length a = 2%nat /\ length b = 2%nat /\ length c = 60%nat
                  /\ Forall is_hexchar a /\ Forall is_hexchar b /\ Forall is_hexchar c.
Proof. exact hexpath_shape. Qed.
Print Assumptions C18_path_shape.

(* injective ... *)
Theorem C18_path_injective :
  forall h1 h2 : bytes,
    length h1 = 32%nat -> Forall (fun b => b < 256) h1 ->
    length h2 = 32%nat -> Forall (fun b => b < 256) h2 ->
    hexpath h1 = hexpath h2 -> h1 = h2.
Proof. exact hexpath_inj. Qed.
Print Assumptions C18_path_injective.

(* ... and every such path parses back to its hash (under any directory prefix) *)
Theorem C18_path_parses_back :
  forall (pre : list bytes) (h : bytes),
    length h = 32%nat -> Forall (fun b => b < 256) h -> parse_path (pre ++ hexpath h) = Some h.
Proof. exact parse_hexpath. Qed.
Print Assumptions C18_path_parses_back.

Example C18_nonvacuous :
  parse_path (hexpath (repeat 171 32)) = Some (repeat 171 32)
  /\ nth 0 (hexpath (repeat 171 32)) [] = [97; 98].
Proof. vm_compute. auto. Qed.
