(* C20 -- On-disk log and snapshot are well-formed (at rest; the every-instant part is stated with
   the crash invariant in props/C03.v).  DiskOk is the on-disk half of the invariant Inv, which
   every operation and every restart preserves (C02).  spec_decode is a declarative reader:
   decode the snapshot, then apply every record above its version in order. *)
From Cas Require Import History.
From CasProofs Require Import StoreFS StoreInv StoreWrite StoreHist DiskInv Recover RestartHist AtRest.
From CasProofs Require CrashInv CrashC20.

Theorem C20_at_rest :
  forall H : bytes -> bytes,
    (forall b, length (H b) = 32%nat) -> (forall b, Forall (fun x => x < 256) (H b)) ->
  forall cfg : config, 0 < c_n cfg ->
  forall (m : mem) (s : fs) (sg : smap bytes),
    DiskOk H cfg m s sg -> FsWf s ->
    let n := c_n cfg in let c := lpv (idx m) in let ids := sort_ids (wal_ids s) in
    exists rf : N -> list (N * bytes),
      (forall (i : N) (f : file), fget s (PWal i) = Some f ->
         parse_segment H (fdata f) = Ok (rf i)
         /\ Forall (fun r => i * n < fst r <= (i + 1) * n) (rf i))
      /\ asc ids
      /\ asc (map fst (flat_map rf ids))
      /\ (forall v, c < v -> v < nextv (mwal m) -> exists p, In (v, p) (flat_map rf ids))
      /\ (forall r, In r (flat_map rf ids) -> fst r < nextv (mwal m))
      /\ match fget s PIndex with
         | Some f => 0 < c /\ (exists es, dec_snapshot (fdata f) = Ok (c, es))
         | None => c = 0
         end
      /\ spec_decode H cfg s = Some (km_of H sg).
Proof. exact AtRest.C20_at_rest. Qed.
Print Assumptions C20_at_rest.

(* versions are never reused across restarts: a restart continues with the same next version *)
Theorem C20_restart_keeps_next_version :
  forall H : bytes -> bytes,
    (forall b, length (H b) = 32%nat) -> (forall b, Forall (fun x => x < 256) (H b)) ->
  forall cfg : config, 0 < c_n cfg ->
  forall (m : mem) (s : fs) (sg : smap bytes) (w : world),
    Inv H cfg m s sg -> wfs w = s -> wfault w = None ->
    exists w1 m' os w',
      close m w = (tt, w1) /\ open_with_recover H cfg w1 = (Ok (m', os), w')
      /\ nextv (mwal m') = nextv (mwal m) /\ Inv H cfg m' (wfs w') sg.
Proof.
  intros H Hl Hb cfg Hn m s sg w I E F.
  destruct (Recover.restart_ok H Hl Hb cfg Hn m s sg w I E F)
    as (w1 & m' & os & w' & A & B & _ & _ & _ & _ & _ & C & D & _).
  exists w1, m', os, w'. auto.
Qed.
Print Assumptions C20_restart_keeps_next_version.

(* at every instant: Rest holds of every intermediate filesystem of every operation and of
   recovery (props/C03.v), and whatever Rest holds of is a well-formed disk decoding to the map *)
Theorem C20_every_instant :
  forall H : bytes -> bytes,
    (forall b, length (H b) = 32%nat) -> (forall b, Forall (fun x => x < 256) (H b)) ->
  forall cfg : config, 0 < c_n cfg ->
  forall (s : fs) (sg : smap bytes), CrashInv.Rest H cfg s sg -> CrashC20.WellFormedDisk H cfg s sg.
Proof. exact CrashC20.C20_rest. Qed.
Print Assumptions C20_every_instant.
