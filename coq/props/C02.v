(* C02 -- Clean restart is transparent for every history and configuration.
   A restart is the sublist [OpClose; OpOpen cfg false]; erase_restarts removes them; hist_r says
   the history consists of API calls and restarts; hist_fits are the size limits of the on-disk
   format (keys < 2^32 bytes and valid for the key type, contents < 2^64 bytes, payloads < 2^32
   bytes, versions < 2^64).  Inv = Live0 /\ DiskOk /\ FsWf. *)
From Cas Require Import History.
From CasProofs Require Import StoreFS StoreInv StoreWrite StoreHist DiskInv Recover RestartHist PreCreateHist.
From CasProofs Require SMapProofs ConcInv ConcLin ConcDurable.
From Cas Require Conc.

(* any history with restarts anywhere, any number of times, from an empty directory (either
   choice of pre_create_cas_dirs): the outputs
   of the API calls equal those of the ordered map on the history with the restarts erased, every
   open succeeds, and the invariant (memory, CAS, on-disk log and snapshot) holds at the end *)
Theorem C02_restart_transparent :
  forall H : bytes -> bytes,
    (forall b, length (H b) = 32%nat) -> (forall b, Forall (fun x => x < 256) (H b)) ->
  forall cfg : config, 0 < c_n cfg ->
  forall ops : list op,
    c_n cfg < 2 ^ 64 ->
    hist_r cfg ops -> NoCollide H (hist_contents ops) -> hist_fits cfg [] ops ->
    N.of_nat (length ops) < 2 ^ 32 - 1 ->
    exists (os0 : option ostats) (outs : list out) (hd' : handle) (w' : world),
      run_ops H None (OpOpen cfg false :: ops) (init_world empty_fs None)
      = (OutOpened os0 :: outs, Some hd', w')
      /\ wfault w' = None
      /\ strip_restarts ops outs = spec_outs H cfg [] (erase_restarts ops)
      /\ opens_ok ops outs
      /\ h_cfg hd' = cfg
      /\ Inv H cfg (h_mem hd') (wfs w') (fold_left (spec_step (key_cmp (c_kt cfg))) (erase_restarts ops) []).
Proof. exact PreCreateHist.C02_restart_transparent_gen. Qed.
Print Assumptions C02_restart_transparent.

(* keys, reference counts and statistics are identical with and without the restarts *)
Theorem C02_observations_equal :
  forall H : bytes -> bytes,
    (forall b, length (H b) = 32%nat) -> (forall b, Forall (fun x => x < 256) (H b)) ->
  forall cfg : config, 0 < c_n cfg ->
  forall ops : list op,
    c_n cfg < 2 ^ 64 ->
    hist_r cfg ops -> NoCollide H (hist_contents ops) -> hist_fits cfg [] ops ->
    N.of_nat (length ops) < 2 ^ 32 - 1 ->
    exists r1 hd1 w1 r2 hd2 w2,
      run_ops H None (OpOpen cfg false :: ops) (init_world empty_fs None) = (r1, Some hd1, w1)
      /\ run_ops H None (OpOpen cfg false :: erase_restarts ops) (init_world empty_fs None) = (r2, Some hd2, w2)
      /\ km (idx (h_mem hd1)) = km (idx (h_mem hd2)) /\ rc (idx (h_mem hd1)) = rc (idx (h_mem hd2))
      /\ ub (idx (h_mem hd1)) = ub (idx (h_mem hd2)) /\ tb (idx (h_mem hd1)) = tb (idx (h_mem hd2)).
Proof. exact PreCreateHist.C02_observations_equal_gen. Qed.
Print Assumptions C02_observations_equal.

(* one restart, from any state satisfying the invariant: close + open (replay skipping versions
   <= snapshot version, next version above everything seen, creation of the next segment, the
   after-replay checkpoint and pruning) gives back the same keys, counts and statistics; the
   serialized index size is the length of the index file *)
Theorem C02_one_restart :
  forall H : bytes -> bytes,
    (forall b, length (H b) = 32%nat) -> (forall b, Forall (fun x => x < 256) (H b)) ->
  forall cfg : config, 0 < c_n cfg ->
  forall (m : mem) (s : fs) (sg : smap bytes) (w : world),
    Inv H cfg m s sg -> wfs w = s -> wfault w = None ->
    exists (w1 : world) (m' : mem) (os : option ostats) (w' : world),
      close m w = (tt, w1) /\ open_with_recover H cfg w1 = (Ok (m', os), w') /\ wfault w' = None
      /\ km (idx m') = km (idx m) /\ rc (idx m') = rc (idx m)
      /\ ub (idx m') = ub (idx m) /\ tb (idx m') = tb (idx m)
      /\ nextv (mwal m') = nextv (mwal m)
      /\ Inv H cfg m' (wfs w') sg
      /\ ssz (idx m') = match fget (wfs w') PIndex with Some f => len (fdata f) | None => 0 end.
Proof. exact Recover.restart_ok. Qed.
Print Assumptions C02_one_restart.

Example C02_nonvacuous := RestartHist.toy_restart_theorem_instance.

(* restart after CONCURRENT use (proofs/ConcDurable.v): whatever the interleaving of the threads
   was, the records their commits appended to the log -- version i+1 and the encoded operation
   for the i-th entry of the write log of the concurrent model (proofs/ConcLin.v: one entry per
   WLockW step, in step order) -- are replayed by the recovery loop of the sequential model
   (Store.replay_records) into exactly the index the threads left in memory: same keys, same
   reference counts, same statistics, and the same next version.  [op_good]: the logged
   operations fit the format's size fields and their keys are valid for the key type. *)
Theorem C02_concurrent_log_replays :
  forall H : bytes -> bytes,
    (forall b, length (H b) = 32%nat) -> (forall b, Forall (fun x => x < 256) (H b)) ->
  forall cfg : config, 0 < c_n cfg ->
  forall (bad : bytes -> bool) (ckbad : bool) (thr0 : list (nat * list Conc.ccall)),
    NoDup (map fst thr0) ->
  forall cas0 : smap bytes,
    SMap.sorted lex_cmp cas0 -> (forall h c, In (h, c) cas0 -> H c = h) ->
    (forall a b, In a (ConcInv.allc thr0 cas0) -> In b (ConcInv.allc thr0 cas0) -> H a = H b -> a = b) ->
  forall (sched : list nat) (n : nat), (n <= ConcLin.NN sched)%nat ->
    Forall (op_good cfg) (ConcDurable.logged H cfg bad ckbad thr0 cas0 sched n) ->
    exists st' : istate,
      replay_records cfg 0 (ConcDurable.records H cfg bad ckbad thr0 cas0 sched n) empty_istate 0 0
        = Ok (st', N.of_nat (length (ConcDurable.logged H cfg bad ckbad thr0 cas0 sched n)),
                   N.of_nat (length (ConcDurable.logged H cfg bad ckbad thr0 cas0 sched n))) /\
      km st' = km (Conc.g_idx (ConcLin.st H (key_cmp (c_kt cfg)) (c_n cfg) bad ckbad thr0 cas0 sched n)) /\
      rc st' = rc (Conc.g_idx (ConcLin.st H (key_cmp (c_kt cfg)) (c_n cfg) bad ckbad thr0 cas0 sched n)) /\
      ub st' = ub (Conc.g_idx (ConcLin.st H (key_cmp (c_kt cfg)) (c_n cfg) bad ckbad thr0 cas0 sched n)) /\
      tb st' = tb (Conc.g_idx (ConcLin.st H (key_cmp (c_kt cfg)) (c_n cfg) bad ckbad thr0 cas0 sched n)) /\
      Conc.g_nextv (ConcLin.st H (key_cmp (c_kt cfg)) (c_n cfg) bad ckbad thr0 cas0 sched n)
        = N.of_nat (length (ConcDurable.logged H cfg bad ckbad thr0 cas0 sched n)) + 1.
Proof. exact ConcDurable.C02_concurrent_log_replays. Qed.
Print Assumptions C02_concurrent_log_replays.

Example C02_concurrent_nonvacuous := ConcDurable.C02_conc_ex.
