(* C12 -- Reference counts, sizes and statistics are exact.
   Index layer (theories/Index.v): the invariant IdxInv is preserved by every applied operation,
   apply never fails under it (no DecrementZero / HashNotFound / size mismatch / statistics
   underflow), and the incrementally maintained statistics equal the recomputed ones.
   Store layer: under Live0 (which contains IdxInv and km = km_of sg) the counts are those of the
   abstract map, after every operation of every history (Live0 is preserved: C01). *)
From Cas Require Import History.
From CasProofs Require Import BaseProofs SMapProofs IndexProofs StoreFS StoreInv StoreWrite StoreRead StoreHist.
From CasProofs Require DiskInv CrashInv CrashOpen.
From Cas Require Conc.
From CasProofs Require ConcInv.
From CasProps Require ConcSetting.

Theorem C12_apply_preserves_exactness :
  forall cmp : bytes -> bytes -> comparison,
    (forall a, cmp a a = Eq) -> (forall a b, cmp a b = Eq -> a = b) ->
    (forall a b, cmp b a = CompOpp (cmp a b)) ->
    (forall a b c, cmp a b = Lt -> cmp b c = Lt -> cmp a c = Lt) ->
  forall (s : istate) (o : rawop),
    IdxInv cmp s -> op_respects_sizes s o ->
    exists (s' : istate) (un : list bytes),
      apply_op cmp s o = Ok (s', un) /\ IdxInv cmp s'
      /\ km s' = km_expected cmp s o /\ lpv s' = lpv s /\ NoDup un
      /\ (forall h, In h un <-> 0 < count_refs (km s) h /\ count_refs (km s') h = 0).
Proof. exact C12_apply. Qed.
Print Assumptions C12_apply_preserves_exactness.

(* the reported count of each blob is the number of keys mapped to it; no zero entries *)
Theorem C12_counts_exact :
  forall (cmp : bytes -> bytes -> comparison) (s : istate), IdxInv cmp s ->
  forall (h : bytes) (c : N), rc_get (rc s) h = Some c <-> c = count_refs (km s) h /\ 0 < c.
Proof. exact IndexProofs.C12_counts_exact. Qed.
Print Assumptions C12_counts_exact.

Theorem C12_known_blobs_are_the_referenced :
  forall (cmp : bytes -> bytes -> comparison) (s : istate), IdxInv cmp s ->
  forall h, rc_get (rc s) h <> None <-> (exists k i, In (k, i) (km s) /\ ihash i = h).
Proof. exact C12_known_iff_referenced. Qed.
Print Assumptions C12_known_blobs_are_the_referenced.

(* unique_blobs and total_bytes, maintained incrementally, equal what recompute_stats computes *)
Theorem C12_incremental_eq_recomputed :
  forall (cmp : bytes -> bytes -> comparison) (s : istate) (x : N), IdxInv cmp s ->
    ub (recompute_stats s x) = ub s /\ tb (recompute_stats s x) = tb s.
Proof. exact IndexProofs.C12_incremental_eq_recomputed. Qed.
Print Assumptions C12_incremental_eq_recomputed.

Theorem C12_unique_blobs_is_number_of_known :
  forall (cmp : bytes -> bytes -> comparison) (s : istate), IdxInv cmp s -> ub s = N.of_nat (length (rc s)).
Proof. exact C12_ub_is_rc_length. Qed.
Print Assumptions C12_unique_blobs_is_number_of_known.

Theorem C12_total_bytes_is_sum_over_known :
  forall (cmp : bytes -> bytes -> comparison) (s : istate) (sizeof : bytes -> N),
    IdxInv cmp s -> sized_by sizeof (km s) ->
    tb s = fold_right (fun h a => sizeof h + a) 0 (map fst (rc s)).
Proof. exact C12_tb_is_rc_sum. Qed.
Print Assumptions C12_total_bytes_is_sum_over_known.


(* ... and in EVERY reachable state of the concurrent model (any number of threads, any programs,
   every schedule, also under injected faults): the index invariant holds, hence - by the theorems
   above - the reference counts are the numbers of keys per blob, unique_blobs and total_bytes are
   those a recount would give *)
Theorem C12_exact_in_every_concurrent_state :
  forall H cmp nops bad ckbad thr0 cas0, ConcSetting.ConcSetting H cmp thr0 cas0 ->
  forall g, ConcInv.reachable H cmp nops bad ckbad thr0 cas0 g ->
    IdxInv cmp (Conc.g_idx g)
    /\ (forall (h : bytes) (c : N), rc_get (rc (Conc.g_idx g)) h = Some c <-> c = count_refs (km (Conc.g_idx g)) h /\ 0 < c)
    /\ (forall x, ub (recompute_stats (Conc.g_idx g) x) = ub (Conc.g_idx g) /\ tb (recompute_stats (Conc.g_idx g) x) = tb (Conc.g_idx g)).
Proof.
  intros H cmp nops bad ckbad thr0 cas0 (A & B & C & D & E & F & G & I) g R.
  pose proof (ConcInv.ci_idx _ _ _ _ _ _ (ConcInv.reachable_inv H cmp A B C D nops bad ckbad thr0 E cas0 F G I g R)) as II.
  split; [exact II|]. split.
  - intros h c. exact (IndexProofs.C12_counts_exact cmp _ II h c).
  - intros x. exact (IndexProofs.C12_incremental_eq_recomputed cmp _ x II).
Qed.
Print Assumptions C12_exact_in_every_concurrent_state.

(* a snapshot load rebuilds the counts from the key map *)
Theorem C12_load_rebuilds_counts :
  forall cmp : bytes -> bytes -> comparison,
    (forall a, cmp a a = Eq) -> (forall a b, cmp a b = Eq -> a = b) ->
    (forall a b, cmp b a = CompOpp (cmp a b)) ->
    (forall a b c, cmp a b = Lt -> cmp b c = Lt -> cmp a c = Lt) ->
  forall (t : ktype) (ver : N) (es : smap item),
    sorted cmp es -> (forall e, In e es -> key_valid t (fst e) = true) ->
    exists s, load_entries cmp t ver es = Some s /\ km s = es /\ lpv s = ver /\ sorted lex_cmp (rc s)
      /\ (forall h, rc_get (rc s) h = if count_refs es h =? 0 then None else Some (count_refs es h)).
Proof. exact C12_load_sorted. Qed.
Print Assumptions C12_load_rebuilds_counts.

(* store layer: the counts are those of the abstract key -> content map *)
Theorem C12_store_counts :
  forall (H : bytes -> bytes) (cfg : config) (m : mem) (s : fs) (sg : smap bytes) (h : bytes) (c : N),
    Live0 H cfg m s sg ->
    (rc_get (rc (idx m)) h = Some c <-> c = count_refs (km_of H sg) h /\ 0 < c).
Proof. exact blobs_spec. Qed.
Print Assumptions C12_store_counts.

Theorem C12_store_sizes :
  forall (H : bytes -> bytes) (cfg : config) (m : mem) (s : fs) (sg : smap bytes) (k : bytes),
    Live0 H cfg m s sg -> get_size cfg m k = option_map len (sm_get (key_cmp (c_kt cfg)) sg k).
Proof. exact get_size_spec. Qed.
Print Assumptions C12_store_sizes.

Example C12_nonvacuous := IndexProofs.C12_example.

(* after every crash recovery: keys, counts and statistics are exactly those of the recovered map *)
Theorem C12_exact_after_crash_recovery :
  forall H : bytes -> bytes,
    (forall b, length (H b) = 32%nat) -> (forall b, Forall (fun x => x < 256) (H b)) ->
  forall cfg : config, 0 < c_n cfg ->
  forall (s : fs) (sg : smap bytes) (w : world),
    CrashInv.Rest H cfg s sg -> wfault w = None -> wfs w = s ->
    exists m' os w',
      open_with_recover H cfg w = (Ok (m', os), w')
      /\ km (idx m') = km_of H sg
      /\ (forall h, rc_get (rc (idx m')) h
                    = if count_refs (km_of H sg) h =? 0 then None else Some (count_refs (km_of H sg) h))
      /\ ub (idx m') = N.of_nat (length (uniq_sizes (km_of H sg) []))
      /\ tb (idx m') = usum (uniq_sizes (km_of H sg) [])
      /\ ssz (idx m') = match DiskInv.fdat (wfs w') PIndex with Some d => len d | None => 0 end.
Proof. exact CrashOpen.C12_after_crash. Qed.
Print Assumptions C12_exact_after_crash_recovery.
