(* C13 -- An abandoned transaction leaves no trace (sequential part).
   abort = Transaction created, written to with any chunk pattern, dropped without finish(). *)
From Cas Require Import History.
From Cas Require Conc.
From CasProofs Require Import StoreFS StoreInv StoreWrite StoreRead StoreHist.
From CasProofs Require ConcAbort.

(* the filesystem is unchanged (same files, same directories; only the ghost counter of staging
   names advances), the memory is unchanged, and every call the transaction issued was on its own
   staging file: no CAS file, log record or index change appears *)
Theorem C13_abort_identity :
  forall H : bytes -> bytes,
    (forall b, length (H b) = 32%nat) -> (forall b, Forall (fun x => x < 256) (H b)) ->
  forall cfg : config, 0 < c_n cfg ->
  forall (m : mem) (s : fs) (sg : smap bytes) (k : bytes) (chunks : list bytes) (w : world),
    Live0 H cfg m s sg -> wfs w = s -> wfault w = None ->
    exists w' : world,
      abort m k chunks w = (Ok tt, m, w') /\ wfault w' = None
      /\ files (wfs w') = files s /\ dirs (wfs w') = dirs s /\ nstage (wfs w') = nstage s + 1
      /\ (exists tr, wtrace w' = tr ++ wtrace w /\ Forall (own_staging_ev (nstage s)) tr).
Proof. exact StoreWrite.abort_spec. Qed.
Print Assumptions C13_abort_identity.

(* hence the invariant, exactness and CAS naming are preserved for the same abstract map: every
   later read, and every later transaction on the same key, behaves as if the abort never happened *)
Theorem C13_abort_preserves_state :
  forall H : bytes -> bytes,
    (forall b, length (H b) = 32%nat) -> (forall b, Forall (fun x => x < 256) (H b)) ->
  forall cfg : config, 0 < c_n cfg ->
  forall (m : mem) (s : fs) (sg : smap bytes) (k : bytes) (chunks : list bytes) (w : world),
    Live0 H cfg m s sg -> wfs w = s -> wfault w = None ->
    exists w' : world,
      abort m k chunks w = (Ok tt, m, w') /\ wfault w' = None /\ Post H cfg s sg w w' m sg.
Proof. exact StoreWrite.abort_post. Qed.
Print Assumptions C13_abort_preserves_state.

(* concurrent clause: in the concurrent model an abandoned transaction touches no shared state
   (index, intents, CAS, version counter, locks) and no other thread, in every state, whatever the
   fault parameters bad / ckbad; so a
   concurrent or later transaction on the same key is unaffected *)
Theorem C13_abort_touches_nothing_shared :
  forall H cmp nops bad ckbad g t ts k c rest,
    Conc.tget (Conc.g_thr g) t = Some ts -> Conc.t_pc ts = Conc.Idle -> Conc.t_calls ts = Conc.KAbort k c :: rest ->
    exists g', Conc.cstep H cmp nops bad ckbad g t = Some g'
      /\ ConcAbort.same_shared g g'
      /\ Conc.tget (Conc.g_thr g') t = Some (Conc.mkT rest Conc.Idle (Conc.t_res ts ++ [Conc.CUnit]))
      /\ (forall u, u <> t -> Conc.tget (Conc.g_thr g') u = Conc.tget (Conc.g_thr g) u).
Proof. exact ConcAbort.abort_step_changes_nothing_shared. Qed.
Print Assumptions C13_abort_touches_nothing_shared.
