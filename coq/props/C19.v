(* C19 -- Creation-time settings and format version gate every open.
   gate_ready s: the directory was opened before (top-level directories exist, LOCK exists and is
   empty).  A rejected open leaves the filesystem literally unchanged; its only recorded call is
   the idempotent CCreate of the empty LOCK file. *)
From Cas Require Import History.
From CasProofs Require Import StoreFS StoreInv StoreWrite StoreHist WorldRel SettingsGate.

Theorem C19_rejected_before_anything_is_modified :
  forall (H : bytes -> bytes) (cfg : config) (s : fs) (w : world) (f : file),
    wfs w = s -> wfault w = None -> gate_ready s -> fget s PSettings = Some f ->
  forall e : serr,
    (exists pre n, dec_settings (fdata f) = Some (CURRENT_DB_VERSION, pre, n) /\ n <> c_n cfg /\ e = ESettingsN)
    \/ (exists v pre n, dec_settings (fdata f) = Some (v, pre, n) /\ v <> CURRENT_DB_VERSION /\ e = ESettingsVersion)
    \/ (dec_settings (fdata f) = None /\ e = ESettingsParse) ->
    (exists w', open_with_recover H cfg w = (Err e, w') /\ wfs w' = s /\ wfault w' = None
                /\ wtrace w' = [TCall (CCreate PLock)] ++ wtrace w /\ wcount w' = S (wcount w))
    /\ (exists w', open_store H cfg w = (Err e, w') /\ wfs w' = s /\ wfault w' = None
                /\ wtrace w' = [TCall (CCreate PLock)] ++ wtrace w /\ wcount w' = S (wcount w)).
Proof. exact C19_trace. Qed.
Print Assumptions C19_rejected_before_anything_is_modified.

(* a later correct open - indeed any later history - sees the data unchanged *)
Theorem C19_rejected_open_is_invisible :
  forall (H : bytes -> bytes) (cfg : config) (ops : list op) (hd : option handle) (w : world) (f : file) (e : serr),
    gate_ready (wfs w) -> wfault w = None -> fget (wfs w) PSettings = Some f -> settings_bad cfg f e ->
    let w' := snd (open_with_recover H cfg w) in
    fst (run_ops H hd ops w') = fst (run_ops H hd ops w)
    /\ wfs (snd (run_ops H hd ops w')) = wfs (snd (run_ops H hd ops w)).
Proof. exact C19_then_any_history. Qed.
Print Assumptions C19_rejected_open_is_invisible.

(* after any successful open with cfg, an open with a different segment size is rejected *)
Theorem C19_reopen_with_other_n_rejected :
  forall (H : bytes -> bytes) (cfg cfg2 : config) (w : world) (m : mem) (os : option ostats) (w1 : world),
    wfault w = None -> c_n cfg < 2 ^ 64 ->
    open_with_recover H cfg w = (Ok (m, os), w1) -> c_n cfg2 <> c_n cfg ->
    open_with_recover H cfg2 w1 = (Err ESettingsN, w_locked w1)
    /\ open_store H cfg2 w1 = (Err ESettingsN, w_locked w1)
    /\ wfs (w_locked w1) = wfs w1.
Proof. exact C19_reopen_wrong_n. Qed.
Print Assumptions C19_reopen_with_other_n_rejected.

(* the pre-creation choice made at creation is remembered: it is written at first open ... *)
Theorem C19_first_open_records_the_choice :
  forall (H : bytes -> bytes) (cfg : config) (w : world) (m : mem) (os : option ostats) (w' : world),
    fget (wfs w) PSettings = None -> open_with_recover H cfg w = (Ok (m, os), w') ->
    mpre m = c_pre cfg
    /\ (exists f, fget (wfs w') PSettings = Some f
                  /\ fdata f = enc_settings CURRENT_DB_VERSION (c_pre cfg) (c_n cfg)
                  /\ (c_n cfg < 2 ^ 64 -> dec_settings (fdata f) = Some (CURRENT_DB_VERSION, c_pre cfg, c_n cfg))).
Proof. exact open_first_time_settings. Qed.
Print Assumptions C19_first_open_records_the_choice.

(* ... and every later open uses the STORED choice, whatever its own configuration says *)
Theorem C19_stored_choice_wins :
  forall (H : bytes -> bytes) (cfg : config) (s : fs) (w : world) (f : file) (pre_stored : bool),
    wfs w = s -> wfault w = None -> gate_ready s -> fget s PSettings = Some f ->
    dec_settings (fdata f) = Some (CURRENT_DB_VERSION, pre_stored, c_n cfg) ->
  forall (m : mem) (os : option ostats) (w' : world),
    open_with_recover H cfg w = (Ok (m, os), w') -> mpre m = pre_stored.
Proof. exact C19_same_n_opens_settings. Qed.
Print Assumptions C19_stored_choice_wins.

Example C19_nonvacuous := SettingsGate.gate_ex_theorem_instance.
