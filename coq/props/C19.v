(* C19 -- Creation-time settings and format version gate every open.
   gate_ready s: the directory was opened before (top-level directories exist, LOCK exists and is
   empty).  A rejected open leaves the filesystem literally unchanged; its only recorded call is
   the idempotent CCreate of the empty LOCK file. *)
From Cas Require Import History.
From CasProofs Require Import StoreFS StoreInv StoreWrite StoreHist WorldRel SettingsGate PreCreate.

Theorem C19_rejected_before_anything_is_modified :
  forall (H : bytes -> bytes) (cfg : config) (s : fs) (w : world) (f : file),
    wfs w = s -> wfault w = None -> gate_ready s -> fget s PSettings = Some f ->
  forall e : serr,
    (exists pre n, dec_settings (fdata f) = Some (CURRENT_DB_VERSION, pre, n) /\ n <> c_n cfg /\ e = ESettingsN)
    \/ (exists v pre n, dec_settings (fdata f) = Some (v, pre, n) /\ v <> CURRENT_DB_VERSION /\ e = ESettingsVersion)
    \/ (dec_settings (fdata f) = None /\ e = ESettingsParse) ->
    (exists w', open_with_recover H cfg w = (Err e, w') /\ wfs w' = s /\ wfault w' = None
                /\ wtrace w' = [TCall (CCreate PLock)] ++ wtrace w /\ wcount w' = S (wcount w))
    /\ (exists w', open_store H cfg w = (Err e, w') /\ wfs w' = s /\ wfault w' = None
                /\ wtrace w' = [TCall (CCreate PLock)] ++ wtrace w /\ wcount w' = S (wcount w)).
Proof. exact C19_trace. Qed.
Print Assumptions C19_rejected_before_anything_is_modified.

(* a later correct open - indeed any later history - sees the data unchanged *)
Theorem C19_rejected_open_is_invisible :
  forall (H : bytes -> bytes) (cfg : config) (ops : list op) (hd : option handle) (w : world) (f : file) (e : serr),
    gate_ready (wfs w) -> wfault w = None -> fget (wfs w) PSettings = Some f -> settings_bad cfg f e ->
    let w' := snd (open_with_recover H cfg w) in
    fst (run_ops H hd ops w') = fst (run_ops H hd ops w)
    /\ wfs (snd (run_ops H hd ops w')) = wfs (snd (run_ops H hd ops w)).
Proof. exact C19_then_any_history. Qed.
Print Assumptions C19_rejected_open_is_invisible.

(* after any successful open with cfg, an open with a different segment size is rejected *)
Theorem C19_reopen_with_other_n_rejected :
  forall (H : bytes -> bytes) (cfg cfg2 : config) (w : world) (m : mem) (os : option ostats) (w1 : world),
    wfault w = None -> c_n cfg < 2 ^ 64 ->
    open_with_recover H cfg w = (Ok (m, os), w1) -> c_n cfg2 <> c_n cfg ->
    open_with_recover H cfg2 w1 = (Err ESettingsN, w_locked w1)
    /\ open_store H cfg2 w1 = (Err ESettingsN, w_locked w1)
    /\ wfs (w_locked w1) = wfs w1.
Proof. exact C19_reopen_wrong_n. Qed.
Print Assumptions C19_reopen_with_other_n_rejected.

(* the pre-creation choice made at creation is remembered: it is written at first open ... *)
Theorem C19_first_open_records_the_choice :
  forall (H : bytes -> bytes) (cfg : config) (w : world) (m : mem) (os : option ostats) (w' : world),
    fget (wfs w) PSettings = None -> open_with_recover H cfg w = (Ok (m, os), w') ->
    mpre m = c_pre cfg
    /\ (exists f, fget (wfs w') PSettings = Some f
                  /\ fdata f = enc_settings CURRENT_DB_VERSION (c_pre cfg) (c_n cfg)
                  /\ (c_n cfg < 2 ^ 64 -> dec_settings (fdata f) = Some (CURRENT_DB_VERSION, c_pre cfg, c_n cfg))).
Proof. exact open_first_time_settings. Qed.
Print Assumptions C19_first_open_records_the_choice.

(* ... and every later open uses the STORED choice, whatever its own configuration says *)
Theorem C19_stored_choice_wins :
  forall (H : bytes -> bytes) (cfg : config) (s : fs) (w : world) (f : file) (pre_stored : bool),
    wfs w = s -> wfault w = None -> gate_ready s -> fget s PSettings = Some f ->
    dec_settings (fdata f) = Some (CURRENT_DB_VERSION, pre_stored, c_n cfg) ->
  forall (m : mem) (os : option ostats) (w' : world),
    open_with_recover H cfg w = (Ok (m, os), w') -> mpre m = pre_stored.
Proof. exact C19_same_n_opens_settings. Qed.
Print Assumptions C19_stored_choice_wins.


(* Pre-creation of the 256 x 256 directory tree is unobservable through the API: from a fresh
   directory, the same history on a pre-creating configuration and on a lazily-creating one
   (anything else about the configurations may differ except the key type) produces the same
   output for every operation - the outputs of the ordered-map specification - and the same final
   key map, with both blob directories clean.  (The two OutOpened payloads are not compared: they
   carry the scan statistics, which depend on other configuration fields.) *)
Theorem C19_precreation_is_unobservable :
  forall H : bytes -> bytes,
    (forall b : bytes, length (H b) = 32%nat) ->
    (forall b : bytes, Forall (fun x : N => x < 256) (H b)) ->
  forall (cfg1 cfg2 : config) (ops : list op),
    c_kt cfg1 = c_kt cfg2 -> c_pre cfg1 = true -> c_pre cfg2 = false ->
    0 < c_n cfg1 -> 0 < c_n cfg2 ->
    Forall (api_op cfg1) ops -> NoCollide H (hist_contents ops) ->
    exists (os1 os2 : option ostats) (hd1 hd2 : handle) (w1 w2 : world),
      run_ops H None (OpOpen cfg1 false :: ops) (init_world empty_fs None)
        = (OutOpened os1 :: spec_outs H cfg1 [] ops, Some hd1, w1) /\
      run_ops H None (OpOpen cfg2 false :: ops) (init_world empty_fs None)
        = (OutOpened os2 :: spec_outs H cfg1 [] ops, Some hd2, w2) /\
      wfault w1 = None /\ wfault w2 = None /\
      mpre (h_mem hd1) = true /\ mpre (h_mem hd2) = false /\
      km (idx (h_mem hd1)) = km (idx (h_mem hd2)) /\
      (let sg := fold_left (spec_step (key_cmp (c_kt cfg1))) ops [] in
       Clean H (wfs w1) sg /\ Clean H (wfs w2) sg /\ CasNamed H (wfs w1) /\ CasNamed H (wfs w2)).
Proof. exact C19_precreate_unobservable. Qed.
Print Assumptions C19_precreation_is_unobservable.

(* ... and the stored choice survives a clean restart of a pre-created handle, together with the
   whole index (InvP is the invariant of pre-created handles; it coincides with Inv otherwise). *)
Theorem C19_precreated_handle_restarts :
  forall H : bytes -> bytes,
    (forall b : bytes, length (H b) = 32%nat) ->
    (forall b : bytes, Forall (fun x : N => x < 256) (H b)) ->
  forall cfg : config, 0 < c_n cfg ->
  forall (m : mem) (s : fs) (sg : smap bytes) (w : world),
    InvP H cfg m s sg -> wfs w = s -> wfault w = None ->
    exists (w1 : world) (m' : mem) (os : option ostats) (w' : world),
      close m w = (tt, w1) /\ open_with_recover H cfg w1 = (Ok (m', os), w') /\
      wfault w' = None /\ mpre m' = mpre m /\
      km (idx m') = km (idx m) /\ rc (idx m') = rc (idx m) /\
      ub (idx m') = ub (idx m) /\ tb (idx m') = tb (idx m) /\
      nextv (mwal m') = nextv (mwal m) /\ InvP H cfg m' (wfs w') sg.
Proof. exact restart_ok_P. Qed.
Print Assumptions C19_precreated_handle_restarts.

Example C19_nonvacuous := SettingsGate.gate_ex_theorem_instance.
(* InvP is reachable with the flag set: the first open of a pre-creating configuration *)
Example C19_InvP_nonvacuous := PreCreate.open_fresh_disk_pre_InvP.
