(* C01 -- Ordered-map semantics for every sequential history.
   Model: theories/Store.v + History.v (every API call as a program over the filesystem model);
   specification: a plain ordered map `smap bytes` with spec_step / spec_out.
   BLAKE3 is the Section variable H; collisions among the contents that actually occur in the
   history are excluded by the explicit hypothesis NoCollide (no global injectivity is assumed). *)
From Cas Require Import History.
From CasProofs Require Import StoreFS StoreInv StoreWrite StoreRead StoreHist PreCreateHist.

(* from any state related to the abstract map sg by the invariant Live0: every finite sequence
   of API calls (streamed puts with any chunking, overwrites, same-content puts, aborted
   transactions, remove, remove_range, checkpoint, get, get_size, get_range, get_reader, iter,
   range) returns exactly what the ordered map returns, and the invariant holds again *)
Theorem C01_refines_ordered_map :
  forall H : bytes -> bytes,
    (forall b, length (H b) = 32%nat) -> (forall b, Forall (fun x => x < 256) (H b)) ->
  forall cfg : config, 0 < c_n cfg ->
  forall (ops : list op) (m : mem) (s : fs) (sg : smap bytes) (os : option ostats) (w : world),
    Live0 H cfg m s sg -> wfs w = s -> wfault w = None ->
    Forall (api_op cfg) ops ->
    NoCollide H (hist_contents ops ++ map snd sg) ->
    exists (outs : list out) (hd' : handle) (w' : world),
      run_ops H (Some (mkHandle cfg m os)) ops w = (outs, Some hd', w')
      /\ outs = spec_outs H cfg sg ops
      /\ Live0 H cfg (h_mem hd') (wfs w') (fold_left (spec_step (key_cmp (c_kt cfg))) ops sg)
      /\ h_cfg hd' = cfg /\ wfault w' = None.
Proof. exact StoreHist.C01_refines_ordered_map. Qed.
Print Assumptions C01_refines_ordered_map.

(* the invariant is reachable: opening an empty directory establishes it, so the statement
   above covers every history on a fresh database, for every key type, segment size, sync mode
   and either choice of pre_create_cas_dirs (with c_pre cfg = true the first open creates the
   65,536 fan-out directories first: PreCreate.v, PreCreateHist.v) *)
Theorem C01_from_fresh_directory :
  forall H : bytes -> bytes,
    (forall b, length (H b) = 32%nat) -> (forall b, Forall (fun x => x < 256) (H b)) ->
  forall cfg : config, 0 < c_n cfg ->
  forall ops : list op,
    Forall (api_op cfg) ops -> NoCollide H (hist_contents ops) ->
    exists (os : option ostats) (hd' : handle) (w' : world),
      run_ops H None (OpOpen cfg false :: ops) (init_world empty_fs None)
      = (OutOpened os :: spec_outs H cfg [] ops, Some hd', w')
      /\ h_cfg hd' = cfg /\ wfault w' = None
      /\ Live0 H cfg (h_mem hd') (wfs w') (fold_left (spec_step (key_cmp (c_kt cfg))) ops [])
      /\ Clean H (wfs w') (fold_left (spec_step (key_cmp (c_kt cfg))) ops [])
      /\ CasNamed H (wfs w').
Proof. exact PreCreateHist.C01_from_fresh_gen. Qed.
Print Assumptions C01_from_fresh_directory.

(* reads, one by one *)
Theorem C01_get :
  forall (H : bytes -> bytes) (cfg : config) (m : mem) (s : fs) (sg : smap bytes) (k : bytes),
    Live0 H cfg m s sg -> get cfg m s k = Ok (sm_get (key_cmp (c_kt cfg)) sg k).
Proof. exact StoreRead.get_spec. Qed.
Print Assumptions C01_get.

(* the example history of StoreHist.v (11 operations, toy hash) is evaluated by vm_compute there:
   toy_run_matches_spec, toy_theorem_instance show the hypotheses are satisfiable *)
Example C01_nonvacuous := StoreHist.toy_theorem_instance.
