(* C17 -- Range reads equal slices of the content for all bounds.
   Model: theories/Range.v (CasInner::get_range + CasManager::read_blob_range incl. the read_at
   loop under an arbitrary short-read behaviour `chunk` of the kernel). *)
From Cas Require Import Range.
From CasProofs Require Import RangeProofs.

(* every (content, start, end), any magnitude: the result is bytes [min s L, min e L), or the
   request is rejected exactly when start > end and start < L; whatever the kernel's short reads *)
Theorem C17_range_total :
  forall (chunk : N -> N -> N) (content : bytes) (s e : N),
    fst (get_range chunk (len content) content s e) =
    (if (e <? s) && (s <? len content) then RInvalidRange else RBytes (slice content s e)).
Proof. exact C17_total. Qed.
Print Assumptions C17_range_total.

(* the capacity requested from the allocator never exceeds L (it is 0 or min e L - s) *)
Theorem C17_alloc_bounded :
  forall (chunk : N -> N -> N) (content : bytes) (s e : N),
    let L := len content in
    s <= e ->
    exists alloc, get_range chunk L content s e = (RBytes (slice content s e), alloc)
                  /\ alloc <= L /\ (alloc = 0 \/ alloc = N.min e L - s).
Proof. exact C17_range. Qed.
Print Assumptions C17_alloc_bounded.

(* the read loop returns exactly the available bytes for every short-read behaviour and terminates
   within `remaining` iterations *)
Theorem C17_read_loop :
  forall (chunk : N -> N -> N) (fuel : nat) (file : bytes) (off remaining : N) (acc : bytes),
    (N.to_nat remaining <= fuel)%nat ->
    read_loop chunk fuel file off remaining acc
    = acc ++ firstn (N.to_nat remaining) (skipn (N.to_nat off) file).
Proof. exact read_loop_spec. Qed.
Print Assumptions C17_read_loop.

(* a recorded size below the file length (never the case under the store invariant) still yields
   a slice of the recorded prefix *)
Theorem C17_recorded_size :
  forall (chunk : N -> N -> N) (isize : N) (file : bytes) (s e : N),
    isize <= len file -> s <= e ->
    fst (get_range chunk isize file s e) = RBytes (slice (firstn (N.to_nat isize) file) s e).
Proof. exact get_range_isize. Qed.
Print Assumptions C17_recorded_size.

Example C17_nonvacuous :
  get_range (fun _ _ => 2) 5 [1; 2; 3; 4; 5] 1 (2 ^ 64 - 1) = (RBytes [2; 3; 4; 5], 4)
  /\ fst (get_range (fun _ _ => 0) 5 [1; 2; 3; 4; 5] 3 1) = RInvalidRange
  /\ fst (get_range (fun _ _ => 7) 5 [1; 2; 3; 4; 5] 9 1) = RBytes [].
Proof. vm_compute. auto. Qed.
