(* C03 -- Crash at any instant: acknowledged ops survive, the in-flight op is atomic.
   Process-kill model: a crash stops the process between two effective filesystem calls; the
   filesystem after n calls of a run is crash_fs n (the replay of the first n recorded calls).
   Extended histories: EvOp o | EvRestart | EvCrash o n (crash after n calls of o, then reopen)
   | EvCrashOpen n (crash after n calls of a reopen, then reopen again - nested to any depth).
   `allowed` : acknowledged operations applied in order, each crashed operation applied entirely
   or not at all, nothing else.  Rest s sg: the memory-less on-disk invariant "recovery from s
   yields exactly sg" (tolerates orphan blobs, staging files, *.tmp, stale segments, a sealed or
   missing last segment; never a missing referenced blob).  Inv' = Live0 /\ DiskOk' /\ FsWf. *)
From Cas Require Import History.
From CasProofs Require Import StoreFS StoreInv StoreHist DiskInv RestartHist CrashInv CrashOps CrashOpen CrashC20 CrashCas CrashHist.
From Cas Require Conc.
From CasProofs Require ConcInv ConcLin ConcDurable.

(* from an empty directory, either choice of pre_create_cas_dirs (the first open creates the
   65,536 fan-out directories before it writes the settings file when c_pre cfg = true) *)
Theorem C03_crash_atomic :
  forall H : bytes -> bytes,
    (forall b, length (H b) = 32%nat) -> (forall b, Forall (fun x => x < 256) (H b)) ->
  forall cfg : config, 0 < c_n cfg ->
  forall h : list ev,
    c_n cfg < 2 ^ 64 ->
    NoCollide H (flat_map ev_contents h) -> ext_fits cfg [] h ->
    N.of_nat (length h) < 2 ^ 32 - 1 ->
    exists (hd0 : handle) (w0 : world),
      reopen H cfg empty_fs = Some (hd0, w0)
      /\ (exists (hd : handle) (w' : world),
            run_ext H cfg (hd0, w0) h = Some (hd, w')
            /\ h_cfg hd = cfg /\ wfault w' = None
            /\ (exists sg, allowed cfg [] h sg /\ Inv' H cfg (h_mem hd) (wfs w') sg)).
Proof. exact CrashHist.C03_crash_atomic. Qed.
Print Assumptions C03_crash_atomic.

(* one operation killed after ANY number n of its calls: the next open succeeds and shows the old
   map or the operation's result map, and the recovered handle satisfies the invariant again *)
Theorem C03_crash_any_instant :
  forall H : bytes -> bytes,
    (forall b, length (H b) = 32%nat) -> (forall b, Forall (fun x => x < 256) (H b)) ->
  forall cfg : config, 0 < c_n cfg ->
  forall (m : mem) (s : fs) (sg : smap bytes) (os : option ostats) (o : op) (w : world) (n : nat),
    Inv' H cfg m s sg -> wfs w = s -> wfault w = None ->
    api_op cfg o -> NoCollide H (op_contents o ++ map snd sg) -> op_fits_at cfg sg o ->
    N.of_nat (length sg) + 1 < 2 ^ 32 -> nextv (mwal m) < 2 ^ 64 ->
    let w' := snd (step H (Some (mkHandle cfg m os)) o w) in
    let x := crash_fs n (rev (new_trace w w')) (wfs w) in
    exists m2 os2 w2,
      open_with_recover H cfg (init_world x None) = (Ok (m2, os2), w2)
      /\ (Inv' H cfg m2 (wfs w2) sg \/ Inv' H cfg m2 (wfs w2) (spec_step (key_cmp (c_kt cfg)) sg o)).
Proof. exact CrashHist.crash_any_instant. Qed.
Print Assumptions C03_crash_any_instant.

(* recovery itself is crash-safe: every intermediate filesystem of an open keeps Rest for the same map *)
Theorem C03_recovery_is_crash_safe :
  forall H : bytes -> bytes,
    (forall b, length (H b) = 32%nat) -> (forall b, Forall (fun x => x < 256) (H b)) ->
  forall cfg : config, 0 < c_n cfg ->
  forall (s : fs) (sg : smap bytes) (w : world),
    Rest H cfg s sg -> wfault w = None -> wfs w = s ->
    exists m' os w', open_with_recover H cfg w = (Ok (m', os), w')
                     /\ Along (fun x => Rest H cfg x sg) w w'.
Proof. exact CrashOpen.open_crash. Qed.
Print Assumptions C03_recovery_is_crash_safe.

Theorem C03_nested_crashes_during_recovery :
  forall H : bytes -> bytes,
    (forall b, length (H b) = 32%nat) -> (forall b, Forall (fun x => x < 256) (H b)) ->
  forall cfg : config, 0 < c_n cfg ->
  forall (ns : list nat) (x : fs) (sg : smap bytes),
    Rest H cfg x sg ->
    let y := fold_left (fun y n => crash_open H cfg n y) ns x in
    exists m' os w', open_with_recover H cfg (init_world y None) = (Ok (m', os), w')
                     /\ Inv' H cfg m' (wfs w') sg.
Proof. exact CrashOpen.nested_crash_then_open. Qed.
Print Assumptions C03_nested_crashes_during_recovery.

(* the FIRST open of an empty directory killed after any number of its calls -- with
   pre_create_cas_dirs = true also in the middle of the mkdir loop of the fan-out tree, which
   leaves a partial tree under cas/ and no settings file -- and the recoveries from that killed
   again, to any depth: the state left satisfies Rest for the empty map and the next open
   succeeds (it completes the tree, then writes the settings file) *)
Theorem C03_first_open_crash_safe :
  forall H : bytes -> bytes,
    (forall b, length (H b) = 32%nat) -> (forall b, Forall (fun x => x < 256) (H b)) ->
  forall cfg : config, 0 < c_n cfg -> c_n cfg < 2 ^ 64 ->
  forall ns : list nat,
    let y := fold_left (fun y n => crash_open H cfg n y) ns empty_fs in
    Rest H cfg y []
    /\ exists m' os w', open_with_recover H cfg (init_world y None) = (Ok (m', os), w')
                        /\ Inv' H cfg m' (wfs w') [].
Proof. exact CrashOpen.first_open_crash. Qed.
Print Assumptions C03_first_open_crash_safe.

(* the write order behind it, for a put: every intermediate filesystem recovers to old or new *)
Theorem C03_put_every_prefix :
  forall H : bytes -> bytes,
    (forall b, length (H b) = 32%nat) -> (forall b, Forall (fun x => x < 256) (H b)) ->
  forall cfg : config, 0 < c_n cfg ->
  forall (m : mem) (s : fs) (sg : smap bytes) (k : bytes) (chunks : list (list byte)) (w : world),
    Inv H cfg m s sg -> wfs w = s -> wfault w = None ->
    NoCollide H (concat chunks :: map snd sg) ->
    len k + 45 < 2 ^ 32 -> key_valid (c_kt cfg) k = true -> len (concat chunks) < 2 ^ 64 ->
    N.of_nat (length sg) + 1 < 2 ^ 32 -> nextv (mwal m) < 2 ^ 64 ->
    exists m' w', put H cfg m k chunks w = (Ok tt, m', w')
      /\ Along (fun x => Rest H cfg x sg \/ Rest H cfg x (sm_ins (key_cmp (c_kt cfg)) sg k (concat chunks))) w w'.
Proof. exact CrashOps.put_crash. Qed.
Print Assumptions C03_put_every_prefix.

(* C20 at every instant: whatever Rest holds of is a well-formed disk that decodes to the map *)
Theorem C03_C20_every_instant :
  forall H : bytes -> bytes,
    (forall b, length (H b) = 32%nat) -> (forall b, Forall (fun x => x < 256) (H b)) ->
  forall cfg : config, 0 < c_n cfg ->
  forall (s : fs) (sg : smap bytes), Rest H cfg s sg -> WellFormedDisk H cfg s sg.
Proof. exact CrashC20.C20_rest. Qed.
Print Assumptions C03_C20_every_instant.

(* C12 after crash recovery: keys, counts and statistics are exactly those of the recovered map *)
Theorem C03_C12_after_recovery :
  forall H : bytes -> bytes,
    (forall b, length (H b) = 32%nat) -> (forall b, Forall (fun x => x < 256) (H b)) ->
  forall cfg : config, 0 < c_n cfg ->
  forall (s : fs) (sg : smap bytes) (w : world),
    Rest H cfg s sg -> wfault w = None -> wfs w = s ->
    exists m' os w',
      open_with_recover H cfg w = (Ok (m', os), w')
      /\ km (idx m') = km_of H sg
      /\ (forall h, rc_get (rc (idx m')) h
                    = if IndexProofs.count_refs (km_of H sg) h =? 0 then None
                      else Some (IndexProofs.count_refs (km_of H sg) h))
      /\ ub (idx m') = N.of_nat (length (uniq_sizes (km_of H sg) []))
      /\ tb (idx m') = IndexProofs.usum (uniq_sizes (km_of H sg) [])
      /\ ssz (idx m') = match fdat (wfs w') PIndex with Some d => len d | None => 0 end.
Proof. exact CrashOpen.C12_after_crash. Qed.
Print Assumptions C03_C12_after_recovery.

(* C06 at every crash point: CasNamed holds in whatever state a crash leaves *)
Theorem C03_C06_every_crash_point :
  forall (H : bytes -> bytes) (cfg : config), 0 < c_n cfg ->
  forall (A : Type) (prog : M A) (x : fs) (n : nat),
    WalkM (CasOk H) prog -> FsWf x -> CasNamed H x ->
    CasNamed H (crash_fs n (rev (wtrace (snd (prog (init_world x None))))) x).
Proof. exact CrashCas.cas_named_crash_fs. Qed.
Print Assumptions C03_C06_every_crash_point.

(* a kill at any position n of any schedule of CONCURRENT calls (proofs/ConcDurable.v; the
   concurrent model's WLockW step = append the record + apply, one critical section): recovery
   replays the records logged so far into exactly the key map the threads had at that position;
   every recovered key has its complete blob on disk (C04); every writing call that had already
   returned is in the replayed log.  [logged n] = operations of the write log of ConcLin.v up to
   position n, [records n] = their records, versions 1, 2, ... *)
Theorem C03_concurrent_kill_any_position :
  forall H : bytes -> bytes,
    (forall b, length (H b) = 32%nat) -> (forall b, Forall (fun x => x < 256) (H b)) ->
  forall cfg : config, 0 < c_n cfg ->
  forall (bad : bytes -> bool) (ckbad : bool) (thr0 : list (nat * list Conc.ccall)),
    NoDup (map fst thr0) ->
  forall cas0 : smap bytes,
    SMap.sorted lex_cmp cas0 -> (forall h c, In (h, c) cas0 -> H c = h) ->
    (forall a b, In a (ConcInv.allc thr0 cas0) -> In b (ConcInv.allc thr0 cas0) -> H a = H b -> a = b) ->
  forall (sched : list nat) (n : nat), (n <= ConcLin.NN sched)%nat ->
    Forall (op_good cfg) (ConcDurable.logged H cfg bad ckbad thr0 cas0 sched n) ->
    exists st' : istate,
      replay_records cfg 0 (ConcDurable.records H cfg bad ckbad thr0 cas0 sched n) empty_istate 0 0
        = Ok (st', N.of_nat (length (ConcDurable.logged H cfg bad ckbad thr0 cas0 sched n)),
                   N.of_nat (length (ConcDurable.logged H cfg bad ckbad thr0 cas0 sched n))) /\
      km st' = km (Conc.g_idx (ConcLin.st H (key_cmp (c_kt cfg)) (c_n cfg) bad ckbad thr0 cas0 sched n)) /\
      (forall k it, sm_get (key_cmp (c_kt cfg)) (km st') k = Some it ->
         exists c, sm_get lex_cmp (Conc.g_cas (ConcLin.st H (key_cmp (c_kt cfg)) (c_n cfg) bad ckbad thr0 cas0 sched n)) (ihash it) = Some c
                   /\ H c = ihash it /\ len c = isize it) /\
      (forall t ts j c r,
         ConcLin.tst H (key_cmp (c_kt cfg)) (c_n cfg) bad ckbad thr0 cas0 sched n t = Some ts ->
         nth_error (ConcLin.prog thr0 cas0 t) j = Some c -> nth_error (Conc.t_res ts) j = Some r ->
         ConcLin.writes c r = true ->
         exists p o, In (ConcLin.mkWl p t j o) (ConcLin.wlog H (key_cmp (c_kt cfg)) (c_n cfg) bad ckbad thr0 cas0 sched n)).
Proof. exact ConcDurable.C03_concurrent_kill_any_position. Qed.
Print Assumptions C03_concurrent_kill_any_position.

(* the same from hypotheses on the thread PROGRAMS alone: every key that is put is accepted by the
   key type and shorter than 2^32 bytes, every content shorter than 2^64 bytes, and the store never
   holds 2^32 keys (ConcDurable.logged_good derives that every logged operation fits the format) *)
Theorem C03_concurrent_kill_any_position_programs :
  forall H : bytes -> bytes,
    (forall b, length (H b) = 32%nat) -> (forall b, Forall (fun x => x < 256) (H b)) ->
  forall cfg : config, 0 < c_n cfg ->
  forall (bad : bytes -> bool) (ckbad : bool) (thr0 : list (nat * list Conc.ccall)),
    NoDup (map fst thr0) ->
  forall cas0 : smap bytes,
    SMap.sorted lex_cmp cas0 -> (forall h c, In (h, c) cas0 -> H c = h) ->
    (forall a b, In a (ConcInv.allc thr0 cas0) -> In b (ConcInv.allc thr0 cas0) -> H a = H b -> a = b) ->
  forall sched : list nat,
    (forall t k x, In (Conc.KPut k x) (ConcLin.prog thr0 cas0 t) ->
       (len k < 2 ^ 32 /\ key_valid (c_kt cfg) k = true) /\ len x < 2 ^ 64) ->
  forall n : nat, (n <= ConcLin.NN sched)%nat ->
    (forall q, (q <= n)%nat ->
       N.of_nat (length (ConcLin.kmap H (key_cmp (c_kt cfg)) (c_n cfg) bad ckbad thr0 cas0 sched q)) < 2 ^ 32) ->
    exists st' : istate,
      replay_records cfg 0 (ConcDurable.records H cfg bad ckbad thr0 cas0 sched n) empty_istate 0 0
        = Ok (st', N.of_nat (length (ConcDurable.logged H cfg bad ckbad thr0 cas0 sched n)),
                   N.of_nat (length (ConcDurable.logged H cfg bad ckbad thr0 cas0 sched n))) /\
      km st' = km (Conc.g_idx (ConcLin.st H (key_cmp (c_kt cfg)) (c_n cfg) bad ckbad thr0 cas0 sched n)) /\
      rc st' = rc (Conc.g_idx (ConcLin.st H (key_cmp (c_kt cfg)) (c_n cfg) bad ckbad thr0 cas0 sched n)) /\
      Conc.g_nextv (ConcLin.st H (key_cmp (c_kt cfg)) (c_n cfg) bad ckbad thr0 cas0 sched n)
        = N.of_nat (length (ConcDurable.logged H cfg bad ckbad thr0 cas0 sched n)) + 1.
Proof. exact ConcDurable.C03_concurrent_kill_any_position_programs. Qed.
Print Assumptions C03_concurrent_kill_any_position_programs.

Example C03_concurrent_nonvacuous := ConcDurable.C03_conc_programs_ex.

Example C03_nonvacuous := CrashHist.toy_crash_theorem_instance.
