(* C05 -- Reads and writes are atomic under concurrency.
   STATEMENT: every read returns the value the key held at some instant between its call and its
   return (never a mixture, never a failure caused by a concurrent writer), and the final contents
   equal those of a sequential order of the writes that respects real time.
   PROVED (for every schedule of every set of thread programs of the concurrent model Conc.v):
   - C05_read_never_fails, C05_read_returns_whole_indexed_content: no read fails, every returned
     content is the complete content of an item that was the key's value at one of the read's own
     lookup steps;
   - C05_read_linearizable: a finished get(k) of thread t has a step q of t itself, strictly after
     the step that took the call and not after the step that returned, at which the key map held
     exactly what the read returned (absent / the item whose blob is the returned content);
   - C05_final_contents_are_a_sequential_order_of_the_writes: when all threads have finished, the
     key map equals the fold of a log of write operations in which every acknowledged writing call
     has exactly one entry, placed strictly inside that call's interval (so the order respects
     real time: C05_write_order_respects_real_time);
   - C05_completed_put_is_visible: a get(k) taken after a put(k,x) returned yields x unless another
     write to k was applied after that put.
   Positions: [st i] is the state after the first i scheduled steps; step i is taken by thread
   [who i]; starts_at s t j c / ends_at e t j r: step s takes t's j-th call c, step e appends its
   result r.  What the model cannot exhibit: relaxed-memory effects and the fairness of the real
   RwLock/Mutex implementations (the model interleaves whole lock-protected sections).
   FAULTS.  The model has two fault parameters: bad (obstructed blob paths) and ckbad (failing
   checkpoints); a call may then return the I/O error CErr.  ALL theorems below hold for ARBITRARY
   bad / ckbad (none assumes NoFaults); what changes is that they speak about results other than CErr:
   - no read reports BlobDataMissing (CMissing), with or without faults: an I/O error is not a
     missing blob;
   - read linearizability is stated for a get whose result is not CErr (hypothesis r <> CErr);
   - in the write log a call whose entry exists [may_write]: it reports a write (writes c r = true)
     or it returned CErr after its operation was applied (failed unlink / failed rollover
     checkpoint); conversely every call with writes c r = true has exactly one entry, where
     writes (KPut _ _) CErr = false (a put that failed at the rename applied nothing) and
     writes (KRemove _ / KRemoveRange _ _) CErr = true (a removal only fails after its apply);
   - a completed put is visible to later gets when neither returned CErr;
   - C05_no_errors_without_faults: under NoFaults no call returns CErr, so all of the above read as
     before. *)
From Cas Require Import Conc.
From CasProofs Require Import ConcInv ConcProofs ConcReads ConcExamples ConcLin.
From CasProps Require Import ConcSetting.

Theorem C05_read_never_fails :
  forall H cmp nops bad ckbad thr0 cas0, ConcSetting H cmp thr0 cas0 ->
  forall g, reachable H cmp nops bad ckbad thr0 cas0 g ->
  forall t ts, tget (g_thr g) t = Some ts -> ~ In CMissing (t_res ts).
Proof.
  intros H cmp nops bad ckbad thr0 cas0 (A & B & C & D & E & F & G & I).
  exact (ConcProofs.C05_read_never_fails H cmp A B C D nops bad ckbad thr0 E cas0 F G I).
Qed.
Print Assumptions C05_read_never_fails.

Theorem C05_read_returns_whole_indexed_content :
  forall H cmp nops bad ckbad thr0 cas0, ConcSetting H cmp thr0 cas0 ->
  forall g t ts g' ts' c, reachable H cmp nops bad ckbad thr0 cas0 g ->
    tget (g_thr g) t = Some ts -> cstep H cmp nops bad ckbad g t = Some g' -> tget (g_thr g') t = Some ts' ->
    t_res ts' = t_res ts ++ [CBytes (Some c)] ->
    exists k it,
      (t_pc ts = GOpen k it \/ (t_pc ts = GOpenL k it /\ sm_get cmp (km (g_idx g)) k = Some it))
      /\ sm_get lex_cmp (g_cas g) (ihash it) = Some c /\ H c = ihash it /\ len c = isize it.
Proof.
  intros H cmp nops bad ckbad thr0 cas0 (A & B & C & D & E & F & G & I).
  exact (ConcProofs.C05_read_returns_indexed_content H cmp A B C D nops bad ckbad thr0 E cas0 F G I).
Qed.
Print Assumptions C05_read_returns_whole_indexed_content.


Theorem C05_read_linearizable :
  forall H cmp nops bad ckbad thr0 cas0, ConcSetting H cmp thr0 cas0 ->
  forall (sched : list nat) (t : nat) (cs : list ccall) (ts : tstate) (j : nat) (k : bytes) (r : cres),
    In (t, cs) thr0 -> nth_error cs j = Some (KGet k) ->
    tget (g_thr (crun H cmp nops bad ckbad (init_c thr0 cas0) sched)) t = Some ts ->
    nth_error (t_res ts) j = Some r -> r <> CErr ->
    exists s e q : nat,
      starts_at H cmp nops bad ckbad thr0 cas0 sched s t j (KGet k) /\
      ends_at H cmp nops bad ckbad thr0 cas0 sched e t j r /\
      (s < q <= e)%nat /\
      (r = CBytes None /\ val H cmp nops bad ckbad thr0 cas0 sched q k = None \/
       (exists x : bytes,
          r = CBytes (Some x) /\
          val H cmp nops bad ckbad thr0 cas0 sched q k = Some (H x, len x) /\
          sm_get lex_cmp (g_cas (st H cmp nops bad ckbad thr0 cas0 sched q)) (H x) = Some x)).
Proof.
  intros H cmp nops bad ckbad thr0 cas0 (A & B & C & D & E & F & G & I).
  exact (ConcLin.C05_read_linearizable_thr0 H cmp A B C D nops bad ckbad thr0 E cas0 F G I).
Qed.
Print Assumptions C05_read_linearizable.

Theorem C05_final_contents_are_a_sequential_order_of_the_writes :
  forall H cmp nops bad ckbad thr0 cas0, ConcSetting H cmp thr0 cas0 ->
  forall sched : list nat,
    all_finished (crun H cmp nops bad ckbad (init_c thr0 cas0) sched) = true ->
    let ws := wlog H cmp nops bad ckbad thr0 cas0 sched (NN sched) in
    km (g_idx (crun H cmp nops bad ckbad (init_c thr0 cas0) sched)) = fold_left (kstep cmp) (map wl_o ws) [] /\
    Sorted.StronglySorted lt (map wl_p ws) /\
    (forall e : wlent, In e ws ->
       exists (c : ccall) (s e' : nat) (r : cres),
         nth_error (prog thr0 cas0 (wl_t e)) (wl_j e) = Some c /\
         starts_at H cmp nops bad ckbad thr0 cas0 sched s (wl_t e) (wl_j e) c /\
         ends_at H cmp nops bad ckbad thr0 cas0 sched e' (wl_t e) (wl_j e) r /\
         (s < wl_p e < e')%nat /\ may_write c r /\
         op_of_call H cmp nops bad ckbad thr0 cas0 sched s (wl_p e) (wl_t e) c (wl_o e)) /\
    (forall (t j : nat) (c : ccall) (r : cres),
       nth_error (prog thr0 cas0 t) j = Some c ->
       final_res H cmp nops bad ckbad thr0 cas0 sched t j r -> writes c r = true ->
       exists e : wlent, In e ws /\ wl_t e = t /\ wl_j e = j) /\
    (forall e1 e2 : wlent, In e1 ws -> In e2 ws -> wl_t e1 = wl_t e2 -> wl_j e1 = wl_j e2 -> e1 = e2).
Proof.
  intros H cmp nops bad ckbad thr0 cas0 (A & B & C & D & E & F & G & I).
  exact (ConcLin.C05_final_is_linearization H cmp A B C D nops bad ckbad thr0 E cas0 F G I).
Qed.
Print Assumptions C05_final_contents_are_a_sequential_order_of_the_writes.

Theorem C05_write_order_respects_real_time :
  forall H cmp nops bad ckbad thr0 cas0, ConcSetting H cmp thr0 cas0 ->
  forall (sched : list nat) (n : nat) (e1 e2 : wlent) (eA : nat) (rA : cres) (sB : nat) (cB : ccall),
    (n <= NN sched)%nat ->
    In e1 (wlog H cmp nops bad ckbad thr0 cas0 sched n) -> In e2 (wlog H cmp nops bad ckbad thr0 cas0 sched n) ->
    ends_at H cmp nops bad ckbad thr0 cas0 sched eA (wl_t e1) (wl_j e1) rA ->
    starts_at H cmp nops bad ckbad thr0 cas0 sched sB (wl_t e2) (wl_j e2) cB ->
    (eA < sB)%nat -> (wl_p e1 < wl_p e2)%nat.
Proof.
  intros H cmp nops bad ckbad thr0 cas0 (A & B & C & D & E & F & G & I).
  exact (ConcLin.C05_write_order_respects_real_time H cmp A B C D nops bad ckbad thr0 E cas0 F G I).
Qed.
Print Assumptions C05_write_order_respects_real_time.

Theorem C05_completed_put_is_visible :
  forall H cmp nops bad ckbad thr0 cas0, ConcSetting H cmp thr0 cas0 ->
  forall (sched : list nat) (t j : nat) (k x : bytes) (e : nat) (rp : cres) (u ju s : nat) (ru : cres),
    nth_error (prog thr0 cas0 t) j = Some (KPut k x) ->
    ends_at H cmp nops bad ckbad thr0 cas0 sched e t j rp -> rp <> CErr ->
    nth_error (prog thr0 cas0 u) ju = Some (KGet k) ->
    starts_at H cmp nops bad ckbad thr0 cas0 sched s u ju (KGet k) ->
    (e < s)%nat ->
    final_res H cmp nops bad ckbad thr0 cas0 sched u ju ru -> ru <> CErr ->
    exists p q eu : nat,
      (p < e)%nat /\ ends_at H cmp nops bad ckbad thr0 cas0 sched eu u ju ru /\ (s < q <= eu)%nat /\
      In {| wl_p := p; wl_t := t; wl_j := j; wl_o := RPut k (H x) (len x) |} (wlog H cmp nops bad ckbad thr0 cas0 sched q) /\
      (ru = CBytes (Some x) \/
       (exists e' : wlent, In e' (wlog H cmp nops bad ckbad thr0 cas0 sched q) /\ (p < wl_p e')%nat /\ touches (wl_o e') k)).
Proof.
  intros H cmp nops bad ckbad thr0 cas0 (A & B & C & D & E & F & G & I).
  exact (ConcLin.C05_put_visible H cmp A B C D nops bad ckbad thr0 E cas0 F G I).
Qed.
Print Assumptions C05_completed_put_is_visible.

(* without faults no call returns the I/O error *)
Theorem C05_no_errors_without_faults :
  forall H cmp nops bad ckbad thr0 cas0, ConcSetting H cmp thr0 cas0 -> NoFaults bad ckbad ->
  forall g, reachable H cmp nops bad ckbad thr0 cas0 g ->
  forall t ts, tget (g_thr g) t = Some ts -> ~ In CErr (t_res ts).
Proof.
  intros H cmp nops bad ckbad thr0 cas0 (A & B & C & D & E & F & G & I) [NB NC] g.
  exact (ConcProofs.no_faults_no_errors H cmp A B C D nops bad ckbad thr0 E cas0 F G I g NB NC).
Qed.
Print Assumptions C05_no_errors_without_faults.

(* both outcomes of a read racing an overwrite occur, each with its linearization point *)
Example C05_race_new_value := ConcLin.race1_witness.
Example C05_race_old_value := ConcLin.race2_witness.
Example C05_nonvacuous := ConcExamples.C05_aba_now_returns_content.
