(* C05 -- Reads and writes are atomic under concurrency.
   STATEMENT: every read returns the value the key held at some instant between its call and its
   return (never a mixture, never a failure caused by a concurrent writer), and the final contents
   equal those of a sequential order of the writes that respects real time.
   PROVED (for every schedule of every set of thread programs of the concurrent model Conc.v):
   - C05_read_never_fails, C05_read_returns_whole_indexed_content: no read fails, every returned
     content is the complete content of an item that was the key's value at one of the read's own
     lookup steps;
   - C05_read_linearizable: a finished get(k) of thread t has a step q of t itself, strictly after
     the step that took the call and not after the step that returned, at which the key map held
     exactly what the read returned (absent / the item whose blob is the returned content);
   - C05_range_read_linearizable: the same for get_range(k, a, b): the result is exactly the answer
     of the sequential get_range (C05_range_answer_is_sequential_get_range) on the item the key held
     at q and on the blob stored under its hash at q -- the range is never clamped with the size of
     one value and cut from another; C05_read_returns_slice_of_indexed_content is the step-level form;
   - C05_iteration_is_a_snapshot: a finished iteration returns the key list of ONE position q, a
     step of the iterating thread inside the call's interval;
   - C05_calls_linearizable: the general statement, for EVERY call kind (lin_spec);
   - C05_final_contents_are_a_sequential_order_of_the_writes: when all threads have finished, the
     key map equals the fold of a log of write operations in which every acknowledged writing call
     has exactly one entry, placed strictly inside that call's interval (so the order respects
     real time: C05_write_order_respects_real_time);
   - C05_completed_put_is_visible: a get(k) taken after a put(k,x) returned yields x unless another
     write to k was applied after that put;
   - the bridge to the sequential development (ConcSeq.v): the concurrent model restricted to ONE
     thread IS the ordered-map specification.  C05_single_thread_runs_to_completion: one thread
     finishes under the schedule that runs it total_work times, and any two schedules that
     complete it end in the same state; C05_single_thread_is_the_ordered_map: without faults and
     without initial blobs, after ANY completing schedule the results are cspec_outs (the fold
     of cspec, the ordered-map meaning of every call kind on a key -> content map), the key map
     is km_of of the final map and the blob directory holds exactly the blobs of that map;
     C05_cspec_is_the_sequential_spec / C05_single_thread_refines_the_sequential_spec: cspec is
     History.spec_step / StoreHist.spec_out call by call, so the results are StoreHist.spec_outs
     (the specification of C01) of the same history.
   Positions: [st i] is the state after the first i scheduled steps; step i is taken by thread
   [who i]; starts_at s t j c / ends_at e t j r: step s takes t's j-th call c, step e appends its
   result r.  What the model cannot exhibit: relaxed-memory effects and the fairness of the real
   RwLock/Mutex implementations (the model interleaves whole lock-protected sections).
   FAULTS.  The model has two fault parameters: bad (obstructed blob paths) and ckbad (failing
   checkpoints); a call may then return the I/O error CErr.  ALL theorems below hold for ARBITRARY
   bad / ckbad (none assumes NoFaults); what changes is that they speak about results other than CErr:
   - no read reports BlobDataMissing (CMissing), with or without faults: an I/O error is not a
     missing blob;
   - read linearizability is stated for a get whose result is not CErr (hypothesis r <> CErr);
   - in the write log a call whose entry exists [may_write]: it reports a write (writes c r = true)
     or it returned CErr after its operation was applied (failed unlink / failed rollover
     checkpoint); conversely every call with writes c r = true has exactly one entry, where
     writes (KPut _ _) CErr = false (a put that failed at the rename applied nothing) and
     writes (KRemove _ / KRemoveRange _ _) CErr = true (a removal only fails after its apply);
   - a completed put is visible to later gets when neither returned CErr;
   - C05_no_errors_without_faults: under NoFaults no call returns CErr, so all of the above read as
     before. *)
From Cas Require Import History.
From CasProofs Require Import StoreInv StoreHist.
From Cas Require Import Conc.
From CasProofs Require Import ConcInv ConcProofs ConcReads ConcExamples ConcLin.
From CasProofs Require Import ConcProgress ConcSeq.
From CasProps Require Import ConcSetting.

Theorem C05_read_never_fails :
  forall H cmp nops bad ckbad thr0 cas0, ConcSetting H cmp thr0 cas0 ->
  forall g, reachable H cmp nops bad ckbad thr0 cas0 g ->
  forall t ts, tget (g_thr g) t = Some ts -> ~ In CMissing (t_res ts).
Proof.
  intros H cmp nops bad ckbad thr0 cas0 (A & B & C & D & E & F & G & I).
  exact (ConcProofs.C05_read_never_fails H cmp A B C D nops bad ckbad thr0 E cas0 F G I).
Qed.
Print Assumptions C05_read_never_fails.

(* a step that appends a content result to a thread executing a get (its pc carries the mode
   MFull) is an open_blob step and the result is the WHOLE blob of the item *)
Theorem C05_read_returns_whole_indexed_content :
  forall H cmp nops bad ckbad thr0 cas0, ConcSetting H cmp thr0 cas0 ->
  forall g t ts g' ts' c, reachable H cmp nops bad ckbad thr0 cas0 g ->
    tget (g_thr g) t = Some ts -> cstep H cmp nops bad ckbad g t = Some g' -> tget (g_thr g') t = Some ts' ->
    t_res ts' = t_res ts ++ [CBytes (Some c)] -> pc_mode (t_pc ts) = Some MFull ->
    exists k it,
      (t_pc ts = GOpen k it MFull \/
       (t_pc ts = GOpenL k it MFull /\ sm_get cmp (km (g_idx g)) k = Some it))
      /\ sm_get lex_cmp (g_cas g) (ihash it) = Some c /\ H c = ihash it /\ len c = isize it.
Proof.
  intros H cmp nops bad ckbad thr0 cas0 (A & B & C & D & E & F & G & I).
  exact (ConcProofs.C05_read_returns_indexed_content H cmp A B C D nops bad ckbad thr0 E cas0 F G I).
Qed.
Print Assumptions C05_read_returns_whole_indexed_content.

(* the same for every read mode (get and get_range): the content result is what read_result
   makes of the WHOLE blob x of the item (x itself, or its slice [a, min b size)), or it is
   the empty-range answer of a get_range computed from an item that was the key's value at
   the thread's last lookup *)
Theorem C05_read_returns_slice_of_indexed_content :
  forall H cmp nops bad ckbad thr0 cas0, ConcSetting H cmp thr0 cas0 ->
  forall g t ts g' ts' c, reachable H cmp nops bad ckbad thr0 cas0 g ->
    tget (g_thr g) t = Some ts -> cstep H cmp nops bad ckbad g t = Some g' -> tget (g_thr g') t = Some ts' ->
    t_res ts' = t_res ts ++ [CBytes (Some c)] ->
    exists k it md,
      ((t_pc ts = GOpen k it md \/
        (t_pc ts = GOpenL k it md /\ sm_get cmp (km (g_idx g)) k = Some it)) /\
       exists x, sm_get lex_cmp (g_cas g) (ihash it) = Some x /\ H x = ihash it /\
                 len x = isize it /\ read_result md it x = CBytes (Some c)) \/
      ((t_pc ts = GLooked k it md \/
        ((exists it0, t_pc ts = GReread k it0 md) /\ sm_get cmp (km (g_idx g)) k = Some it)) /\
       pre_open md it = Some (CBytes (Some c))).
Proof.
  intros H cmp nops bad ckbad thr0 cas0 (A & B & C & D & E & F & G & I).
  exact (ConcProofs.C05_read_returns_indexed_slice H cmp A B C D nops bad ckbad thr0 E cas0 F G I).
Qed.
Print Assumptions C05_read_returns_slice_of_indexed_content.


Theorem C05_read_linearizable :
  forall H cmp nops bad ckbad thr0 cas0, ConcSetting H cmp thr0 cas0 ->
  forall (sched : list nat) (t : nat) (cs : list ccall) (ts : tstate) (j : nat) (k : bytes) (r : cres),
    In (t, cs) thr0 -> nth_error cs j = Some (KGet k) ->
    tget (g_thr (crun H cmp nops bad ckbad (init_c thr0 cas0) sched)) t = Some ts ->
    nth_error (t_res ts) j = Some r -> r <> CErr ->
    exists s e q : nat,
      starts_at H cmp nops bad ckbad thr0 cas0 sched s t j (KGet k) /\
      ends_at H cmp nops bad ckbad thr0 cas0 sched e t j r /\
      (s < q <= e)%nat /\
      (r = CBytes None /\ val H cmp nops bad ckbad thr0 cas0 sched q k = None \/
       (exists x : bytes,
          r = CBytes (Some x) /\
          val H cmp nops bad ckbad thr0 cas0 sched q k = Some (H x, len x) /\
          sm_get lex_cmp (g_cas (st H cmp nops bad ckbad thr0 cas0 sched q)) (H x) = Some x)).
Proof.
  intros H cmp nops bad ckbad thr0 cas0 (A & B & C & D & E & F & G & I).
  exact (ConcLin.C05_read_linearizable_thr0 H cmp A B C D nops bad ckbad thr0 E cas0 F G I).
Qed.
Print Assumptions C05_read_linearizable.

(* a finished get_range(k, a, b) (result not the I/O error) has a step q of its own thread,
   strictly after the step that took the call and not after the step that returned, such that
   the key was absent at q and the result is 'absent', or the key held the item (H x, len x) at
   q, x is the blob stored under H x at q, and the result is EXACTLY the answer of the
   sequential get_range on that item and that blob: the answers computed from the item alone
   (empty range: Some [] when len x <= a; InvalidRange when min b (len x) < a), else the bytes
   [a, min b (len x)) of x *)
Theorem C05_range_read_linearizable :
  forall H cmp nops bad ckbad thr0 cas0, ConcSetting H cmp thr0 cas0 ->
  forall (sched : list nat) (t : nat) (cs : list ccall) (ts : tstate) (j : nat) (k : bytes) (a b : N) (r : cres),
    In (t, cs) thr0 -> nth_error cs j = Some (KGetRange k a b) ->
    tget (g_thr (crun H cmp nops bad ckbad (init_c thr0 cas0) sched)) t = Some ts ->
    nth_error (t_res ts) j = Some r -> r <> CErr ->
    exists s e q : nat,
      starts_at H cmp nops bad ckbad thr0 cas0 sched s t j (KGetRange k a b) /\
      ends_at H cmp nops bad ckbad thr0 cas0 sched e t j r /\
      (s < q <= e)%nat /\
      (r = CBytes None /\ val H cmp nops bad ckbad thr0 cas0 sched q k = None \/
       (exists x : bytes,
          val H cmp nops bad ckbad thr0 cas0 sched q k = Some (H x, len x) /\
          sm_get lex_cmp (g_cas (st H cmp nops bad ckbad thr0 cas0 sched q)) (H x) = Some x /\
          r = match pre_open (MRange a b) (mkItem (H x) (len x)) with
              | Some r' => r'
              | None => CBytes (Some (slice x a (N.min b (len x))))
              end)).
Proof.
  intros H cmp nops bad ckbad thr0 cas0 (A & B & C & D & E & F & G & I).
  exact (ConcLin.C05_range_read_linearizable_thr0 H cmp A B C D nops bad ckbad thr0 E cas0 F G I).
Qed.
Print Assumptions C05_range_read_linearizable.

(* that answer is the answer of the sequential model of get_range (theories/Range.v, for every
   short-read behaviour chunk of the kernel) on blob x with recorded size len x *)
Theorem C05_range_answer_is_sequential_get_range :
  forall (chunk : N -> N -> N) (h x : bytes) (a b : N),
    match pre_open (MRange a b) (mkItem h (len x)) with
    | Some r' => r'
    | None => CBytes (Some (slice x a (N.min b (len x))))
    end = cres_of_rres (fst (Range.get_range chunk (len x) x a b)).
Proof. exact ConcLin.range_answer_is_get_range. Qed.
Print Assumptions C05_range_answer_is_sequential_get_range.

(* a finished iteration returns the key list of ONE position q (a snapshot of the key map),
   q a step of its own thread strictly after the step that took the call and not after the
   step that returned *)
Theorem C05_iteration_is_a_snapshot :
  forall H cmp nops bad ckbad thr0 cas0, ConcSetting H cmp thr0 cas0 ->
  forall (sched : list nat) (t : nat) (cs : list ccall) (ts : tstate) (j : nat) (r : cres),
    In (t, cs) thr0 -> nth_error cs j = Some KIter ->
    tget (g_thr (crun H cmp nops bad ckbad (init_c thr0 cas0) sched)) t = Some ts ->
    nth_error (t_res ts) j = Some r ->
    exists s e q : nat,
      starts_at H cmp nops bad ckbad thr0 cas0 sched s t j KIter /\
      ends_at H cmp nops bad ckbad thr0 cas0 sched e t j r /\
      (s < q <= e)%nat /\
      r = CKeys (map fst (kmap H cmp nops bad ckbad thr0 cas0 sched q)).
Proof.
  intros H cmp nops bad ckbad thr0 cas0 (A & B & C & D & E & F & G & I).
  exact (ConcLin.C05_iteration_is_a_snapshot_thr0 H cmp A B C D nops bad ckbad thr0 E cas0 F G I).
Qed.
Print Assumptions C05_iteration_is_a_snapshot.

(* EVERY finished call of every kind (put, abort, remove, remove_range, get, get_size, get_range,
   iteration, checkpoint, delete_orphans) has its interval [s, e], a position q inside it
   (s < q unless the call returns in the step that takes it) whose key map justifies the result
   (lin_spec; CErr is allowed for the calls that can fail), q being a step of the thread itself
   for the calls that observe the key map, and -- when it reports a write -- one entry in the
   write log strictly inside the interval *)
Theorem C05_calls_linearizable :
  forall H cmp nops bad ckbad thr0 cas0, ConcSetting H cmp thr0 cas0 ->
  forall (sched : list nat) (n t : nat) (ts : tstate) (j : nat) (c : ccall) (r : cres),
    (n <= NN sched)%nat -> tst H cmp nops bad ckbad thr0 cas0 sched n t = Some ts ->
    nth_error (prog thr0 cas0 t) j = Some c -> nth_error (t_res ts) j = Some r ->
    exists s e q : nat,
      starts_at H cmp nops bad ckbad thr0 cas0 sched s t j c /\
      ends_at H cmp nops bad ckbad thr0 cas0 sched e t j r /\ (e < n)%nat /\
      (s <= q <= e)%nat /\ (immediate c = false -> (s < q)%nat) /\
      lin_spec H cmp thr0 cas0 c r (kmap H cmp nops bad ckbad thr0 cas0 sched q) /\
      (observes c = true -> own H cmp nops bad ckbad thr0 cas0 sched q t c) /\
      (writes c r = true ->
       exists p o, (s < p < e)%nat /\ In (mkWl p t j o) (wlog H cmp nops bad ckbad thr0 cas0 sched n)).
Proof.
  intros H cmp nops bad ckbad thr0 cas0 (A & B & C & D & E & F & G & I).
  exact (ConcLin.C05_calls_linearizable H cmp A B C D nops bad ckbad thr0 E cas0 F G I).
Qed.
Print Assumptions C05_calls_linearizable.

(* the specification used there, for the two new calls (by computation) *)
Example C05_lin_spec_covers_range_and_iteration :
  forall H cmp thr0 cas0 k a b r m,
    (lin_spec0 H cmp thr0 cas0 (KGetRange k a b) r m <->
     match sm_get cmp m k with
     | None => r = CBytes None
     | Some it =>
       match pre_open (MRange a b) it with
       | Some r' => r = r'
       | None => exists x, r = CBytes (Some (slice x a (N.min b (isize it)))) /\
                           In x (allc thr0 cas0) /\ H x = ihash it /\ len x = isize it
       end
     end) /\
    (lin_spec0 H cmp thr0 cas0 KIter r m <-> r = CKeys (map fst m)) /\
    observes (KGetRange k a b) = true /\ observes KIter = true /\
    can_err (KGetRange k a b) = true /\ can_err KIter = false.
Proof. intros. repeat split; auto. Qed.

Theorem C05_final_contents_are_a_sequential_order_of_the_writes :
  forall H cmp nops bad ckbad thr0 cas0, ConcSetting H cmp thr0 cas0 ->
  forall sched : list nat,
    all_finished (crun H cmp nops bad ckbad (init_c thr0 cas0) sched) = true ->
    let ws := wlog H cmp nops bad ckbad thr0 cas0 sched (NN sched) in
    km (g_idx (crun H cmp nops bad ckbad (init_c thr0 cas0) sched)) = fold_left (kstep cmp) (map wl_o ws) [] /\
    Sorted.StronglySorted lt (map wl_p ws) /\
    (forall e : wlent, In e ws ->
       exists (c : ccall) (s e' : nat) (r : cres),
         nth_error (prog thr0 cas0 (wl_t e)) (wl_j e) = Some c /\
         starts_at H cmp nops bad ckbad thr0 cas0 sched s (wl_t e) (wl_j e) c /\
         ends_at H cmp nops bad ckbad thr0 cas0 sched e' (wl_t e) (wl_j e) r /\
         (s < wl_p e < e')%nat /\ may_write c r /\
         op_of_call H cmp nops bad ckbad thr0 cas0 sched s (wl_p e) (wl_t e) c (wl_o e)) /\
    (forall (t j : nat) (c : ccall) (r : cres),
       nth_error (prog thr0 cas0 t) j = Some c ->
       final_res H cmp nops bad ckbad thr0 cas0 sched t j r -> writes c r = true ->
       exists e : wlent, In e ws /\ wl_t e = t /\ wl_j e = j) /\
    (forall e1 e2 : wlent, In e1 ws -> In e2 ws -> wl_t e1 = wl_t e2 -> wl_j e1 = wl_j e2 -> e1 = e2).
Proof.
  intros H cmp nops bad ckbad thr0 cas0 (A & B & C & D & E & F & G & I).
  exact (ConcLin.C05_final_is_linearization H cmp A B C D nops bad ckbad thr0 E cas0 F G I).
Qed.
Print Assumptions C05_final_contents_are_a_sequential_order_of_the_writes.

Theorem C05_write_order_respects_real_time :
  forall H cmp nops bad ckbad thr0 cas0, ConcSetting H cmp thr0 cas0 ->
  forall (sched : list nat) (n : nat) (e1 e2 : wlent) (eA : nat) (rA : cres) (sB : nat) (cB : ccall),
    (n <= NN sched)%nat ->
    In e1 (wlog H cmp nops bad ckbad thr0 cas0 sched n) -> In e2 (wlog H cmp nops bad ckbad thr0 cas0 sched n) ->
    ends_at H cmp nops bad ckbad thr0 cas0 sched eA (wl_t e1) (wl_j e1) rA ->
    starts_at H cmp nops bad ckbad thr0 cas0 sched sB (wl_t e2) (wl_j e2) cB ->
    (eA < sB)%nat -> (wl_p e1 < wl_p e2)%nat.
Proof.
  intros H cmp nops bad ckbad thr0 cas0 (A & B & C & D & E & F & G & I).
  exact (ConcLin.C05_write_order_respects_real_time H cmp A B C D nops bad ckbad thr0 E cas0 F G I).
Qed.
Print Assumptions C05_write_order_respects_real_time.

Theorem C05_completed_put_is_visible :
  forall H cmp nops bad ckbad thr0 cas0, ConcSetting H cmp thr0 cas0 ->
  forall (sched : list nat) (t j : nat) (k x : bytes) (e : nat) (rp : cres) (u ju s : nat) (ru : cres),
    nth_error (prog thr0 cas0 t) j = Some (KPut k x) ->
    ends_at H cmp nops bad ckbad thr0 cas0 sched e t j rp -> rp <> CErr ->
    nth_error (prog thr0 cas0 u) ju = Some (KGet k) ->
    starts_at H cmp nops bad ckbad thr0 cas0 sched s u ju (KGet k) ->
    (e < s)%nat ->
    final_res H cmp nops bad ckbad thr0 cas0 sched u ju ru -> ru <> CErr ->
    exists p q eu : nat,
      (p < e)%nat /\ ends_at H cmp nops bad ckbad thr0 cas0 sched eu u ju ru /\ (s < q <= eu)%nat /\
      In {| wl_p := p; wl_t := t; wl_j := j; wl_o := RPut k (H x) (len x) |} (wlog H cmp nops bad ckbad thr0 cas0 sched q) /\
      (ru = CBytes (Some x) \/
       (exists e' : wlent, In e' (wlog H cmp nops bad ckbad thr0 cas0 sched q) /\ (p < wl_p e')%nat /\ touches (wl_o e') k)).
Proof.
  intros H cmp nops bad ckbad thr0 cas0 (A & B & C & D & E & F & G & I).
  exact (ConcLin.C05_put_visible H cmp A B C D nops bad ckbad thr0 E cas0 F G I).
Qed.
Print Assumptions C05_completed_put_is_visible.

(* without faults no call returns the I/O error *)
Theorem C05_no_errors_without_faults :
  forall H cmp nops bad ckbad thr0 cas0, ConcSetting H cmp thr0 cas0 -> NoFaults bad ckbad ->
  forall g, reachable H cmp nops bad ckbad thr0 cas0 g ->
  forall t ts, tget (g_thr g) t = Some ts -> ~ In CErr (t_res ts).
Proof.
  intros H cmp nops bad ckbad thr0 cas0 (A & B & C & D & E & F & G & I) [NB NC] g.
  exact (ConcProofs.no_faults_no_errors H cmp A B C D nops bad ckbad thr0 E cas0 F G I g NB NC).
Qed.
Print Assumptions C05_no_errors_without_faults.

(* both outcomes of a read racing an overwrite occur, each with its linearization point *)
Example C05_race_new_value := ConcLin.race1_witness.
Example C05_race_old_value := ConcLin.race2_witness.
Example C05_nonvacuous := ConcExamples.C05_aba_now_returns_content.
(* a get_range racing an overwrite by a longer value: both outcomes, by computation, with their
   linearization points (old value: the range is clamped to the old size; new value after the
   retry: clamped to the CURRENT size), and an iteration racing a put (both snapshots; blocked
   while the writer holds the state lock exclusively) *)
Example C05_range_and_iteration_races := ConcExamples.range_read_races_longer_overwrite_and_iter_races_put.
Example C05_range_race_old_value := ConcLin.range_race_old_witness.
Example C05_range_race_new_value := ConcLin.range_race_new_witness.
Example C05_iteration_race := ConcLin.iter_race_witness.

(* ---------------------------------------------------------------------------------------- *)
(* ONE thread: the concurrent model is the sequential ordered-map specification (ConcSeq.v) *)

(* one thread t running the program cs (any fault parameters, any well-named initial blob
   directory): scheduled total_work times or more it has finished; and two schedules after
   which it has finished end in the SAME state (results, key map, blob directory, ...) *)
Theorem C05_single_thread_runs_to_completion :
  forall H cmp nops bad ckbad t cs cas0, ConcSetting H cmp [(t, cs)] cas0 ->
    (forall n, (total_work [(t, cs)] cas0 <= n)%nat ->
       all_finished (crun H cmp nops bad ckbad (init_c [(t, cs)] cas0) (repeat t n)) = true) /\
    (forall s1 s2,
       all_finished (crun H cmp nops bad ckbad (init_c [(t, cs)] cas0) s1) = true ->
       all_finished (crun H cmp nops bad ckbad (init_c [(t, cs)] cas0) s2) = true ->
       crun H cmp nops bad ckbad (init_c [(t, cs)] cas0) s1
       = crun H cmp nops bad ckbad (init_c [(t, cs)] cas0) s2).
Proof.
  intros H cmp nops bad ckbad t cs cas0 (A & B & C & D & E & F & G & I).
  exact (ConcSeq.single_thread_runs_to_completion H cmp A B C D nops bad ckbad t cs cas0 F G I).
Qed.
Print Assumptions C05_single_thread_runs_to_completion.

(* the ordered-map meaning of the calls, by computation: cspec M c = (map after, result) *)
Example C05_cspec_by_cases :
  forall cmp (M : smap bytes) k x lo hi a b hs,
    cspec cmp M (KPut k x) = (sm_ins cmp M k x, CUnit) /\
    cspec cmp M (KAbort k x) = (M, CUnit) /\
    cspec cmp M (KRemove k)
      = (sm_del cmp M k, CBool (match sm_get cmp M k with Some _ => true | None => false end)) /\
    cspec cmp M (KRemoveRange lo hi)
      = (filter (fun e => negb (in_range cmp lo hi (fst e))) M,
         CNum (N.of_nat (length (filter (fun e => in_range cmp lo hi (fst e)) M)))) /\
    cspec cmp M (KGet k) = (M, CBytes (sm_get cmp M k)) /\
    cspec cmp M (KGetSize k) = (M, CSize (option_map len (sm_get cmp M k))) /\
    cspec cmp M (KGetRange k a b)
      = (M, match sm_get cmp M k with
            | None => CBytes None
            | Some c => match pre_open (MRange a b) (mkItem [] (len c)) with
                        | Some r => r
                        | None => CBytes (Some (slice c a (N.min b (len c))))
                        end
            end) /\
    cspec cmp M KIter = (M, CKeys (map fst M)) /\
    cspec cmp M KCheckpoint = (M, CUnit) /\
    cspec cmp M (KDelOrphans hs) = (M, COrphans 0 (N.of_nat (length hs))) /\
    (forall cs, cspec_outs cmp M cs = map snd (cspec_run cmp M cs)) /\
    (forall cs, cspec_final cmp M cs = fold_left (fun M c => fst (cspec cmp M c)) cs M).
Proof.
  intros. repeat split; try reflexivity.
  - cbn [cspec]. destruct (sm_get cmp M k) as [c|]; [|reflexivity].
    rewrite (range_res_pre_open [] c a b). reflexivity.
  - intros cs. apply cspec_outs_run.
Qed.

(* no faults, no initial blobs, H collision-free on the contents put by cs: after ANY schedule
   that runs the single thread to completion
   - the thread has returned exactly the results of the specification, in order,
   - the key map is the image of the final map Mf of the specification: key k holds the item
     (H c, len c) iff Mf has k -> c,
   - the blob directory holds exactly the blobs of Mf, each under its hash (C07 at quiescence) *)
Theorem C05_single_thread_is_the_ordered_map :
  forall H cmp nops bad ckbad t cs, ConcSetting H cmp [(t, cs)] [] -> NoFaults bad ckbad ->
  forall sched,
    all_finished (crun H cmp nops bad ckbad (init_c [(t, cs)] []) sched) = true ->
    let g := crun H cmp nops bad ckbad (init_c [(t, cs)] []) sched in
    let Mf := cspec_final cmp [] cs in
    g_thr g = [(t, mkT [] Idle (cspec_outs cmp [] cs))] /\
    km (g_idx g) = km_of H Mf /\
    sorted cmp Mf /\
    (forall k it, sm_get cmp (km (g_idx g)) k = Some it <->
                  exists c, sm_get cmp Mf k = Some c /\ it = mkItem (H c) (len c)) /\
    (forall h x, sm_get lex_cmp (g_cas g) h = Some x <-> (exists k, In (k, x) Mf) /\ h = H x).
Proof.
  intros H cmp nops bad ckbad t cs (A & B & C & D & E & F & G & I) [NB NC].
  apply (ConcSeq.single_thread_is_the_ordered_map H cmp A B C D nops bad ckbad NB NC t cs).
  intros a b Ia Ib. apply I; apply (allc_single t cs); assumption.
Qed.
Print Assumptions C05_single_thread_is_the_ordered_map.

(* before completion (any schedule, any moment): the results returned so far are a prefix of
   the results of the specification *)
Theorem C05_single_thread_results_are_a_prefix :
  forall H cmp nops bad ckbad t cs, ConcSetting H cmp [(t, cs)] [] -> NoFaults bad ckbad ->
  forall sched ts,
    tget (g_thr (crun H cmp nops bad ckbad (init_c [(t, cs)] []) sched)) t = Some ts ->
    exists rest, t_res ts ++ rest = cspec_outs cmp [] cs.
Proof.
  intros H cmp nops bad ckbad t cs (A & B & C & D & E & F & G & I) [NB NC].
  apply (ConcSeq.single_thread_results_are_a_prefix H cmp A B C D nops bad ckbad NB NC t cs).
  intros a b Ia Ib. apply I; apply (allc_single t cs); assumption.
Qed.
Print Assumptions C05_single_thread_results_are_a_prefix.

(* cspec is the specification of the sequential development: for the key order of a
   configuration, the map component is History.spec_step and the result is StoreHist.spec_out of
   the corresponding API call (api_of_call; delete_orphans has no counterpart there and, as in
   StoreHist.api_op, the bounds on which BTreeMap::range panics are excluded: seq_call).
   res_matches: equal results; an iteration returns the keys of the entries; InvalidRange *)
Theorem C05_cspec_is_the_sequential_spec :
  forall H cfg (M : smap bytes) c, seq_call (key_cmp (c_kt cfg)) c ->
    fst (cspec (key_cmp (c_kt cfg)) M c) = spec_step (key_cmp (c_kt cfg)) M (api_of_call c) /\
    res_matches (snd (cspec (key_cmp (c_kt cfg)) M c)) (spec_out H cfg M (api_of_call c)).
Proof. exact ConcSeq.cspec_is_the_sequential_spec. Qed.
Print Assumptions C05_cspec_is_the_sequential_spec.

(* hence: one thread of the concurrent model, run to completion under any schedule, returns
   what StoreHist.spec_outs prescribes for the same history on one open handle (the
   specification of C01), and its key map is km_of of the fold of History.spec_step *)
Theorem C05_single_thread_refines_the_sequential_spec :
  forall H cfg nops bad ckbad t cs sched,
    NoFaults bad ckbad ->
    (forall a b, In a (flat_map call_contents cs) -> In b (flat_map call_contents cs) ->
                 H a = H b -> a = b) ->
    Forall (seq_call (key_cmp (c_kt cfg))) cs ->
    let g := crun H (key_cmp (c_kt cfg)) nops bad ckbad (init_c [(t, cs)] []) sched in
    all_finished g = true ->
    exists res,
      g_thr g = [(t, mkT [] Idle res)] /\
      Forall2 res_matches res (spec_outs H cfg [] (map api_of_call cs)) /\
      km (g_idx g) = km_of H (fold_left (spec_step (key_cmp (c_kt cfg))) (map api_of_call cs) []).
Proof.
  intros H cfg nops bad ckbad t cs sched [NB NC] NoCol F.
  exact (ConcSeq.single_thread_refines_the_sequential_spec H cfg nops bad ckbad t cs sched NB NC NoCol F).
Qed.
Print Assumptions C05_single_thread_refines_the_sequential_spec.

(* by computation (toyH, lex_cmp): a program using every call kind, its specification, its run
   with thread 0 scheduled 400 times, and -- from the theorem -- every completing schedule *)
Example C05_single_thread_example_spec := ConcSeq.prog1_spec.
Example C05_single_thread_example_run := ConcSeq.prog1_run.
Example C05_single_thread_example_every_schedule := ConcSeq.prog1_every_schedule.
