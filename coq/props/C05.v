(* C05 -- Reads and writes are atomic under concurrency (partial: full linearizability of the
   history is NOT proved; see below what is).
   FULL STATEMENT (not proved): every read returns the value the key held at some instant between
   call and return, and the final contents equal those of a sequential order of the writes that
   respects real time.
   PROVED: a read never fails because of a concurrent writer; every content it returns is the
   complete, unmixed content of an item that was the value of the key at one of the read's own
   lookup steps (the retry after a failed open is answered from the key's CURRENT state, under the
   read lock); writes are applied one at a time under the exclusive state lock (the index is the
   fold of the applied operations in lock order, by construction of the model). *)
From Cas Require Import Conc.
From CasProofs Require Import ConcInv ConcProofs ConcReads ConcExamples.
From CasProps Require Import ConcSetting.

Theorem C05_read_never_fails :
  forall H cmp nops thr0 cas0, ConcSetting H cmp thr0 cas0 ->
  forall g, reachable H cmp nops thr0 cas0 g ->
  forall t ts, tget (g_thr g) t = Some ts -> ~ In CMissing (t_res ts).
Proof.
  intros H cmp nops thr0 cas0 (A & B & C & D & E & F & G & I).
  exact (ConcProofs.C05_read_never_fails H cmp A B C D nops thr0 E cas0 F G I).
Qed.
Print Assumptions C05_read_never_fails.

Theorem C05_read_returns_whole_indexed_content_partial :
  forall H cmp nops thr0 cas0, ConcSetting H cmp thr0 cas0 ->
  forall g t ts g' ts' c, reachable H cmp nops thr0 cas0 g ->
    tget (g_thr g) t = Some ts -> cstep H cmp nops g t = Some g' -> tget (g_thr g') t = Some ts' ->
    t_res ts' = t_res ts ++ [CBytes (Some c)] ->
    exists k it,
      (t_pc ts = GOpen k it \/ (t_pc ts = GOpenL k it /\ sm_get cmp (km (g_idx g)) k = Some it))
      /\ sm_get lex_cmp (g_cas g) (ihash it) = Some c /\ H c = ihash it /\ len c = isize it.
Proof.
  intros H cmp nops thr0 cas0 (A & B & C & D & E & F & G & I).
  exact (ConcProofs.C05_read_returns_indexed_content H cmp A B C D nops thr0 E cas0 F G I).
Qed.
Print Assumptions C05_read_returns_whole_indexed_content_partial.

Example C05_nonvacuous := ConcExamples.C05_aba_now_returns_content.
