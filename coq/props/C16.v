(* C16 -- Codecs round-trip and decoders are total.
   Model: theories/Codec.v, theories/Base.v.  Totality is by construction: every decoder is a total
   Gallina function into `res`, recursing on fuel bounded by the input length, never on a count. *)
From Cas Require Import Codec.
From CasProofs Require Import BaseProofs CodecBase CodecProofs.

Theorem C16_op_roundtrip :
  forall (o : rawop) (tl : list byte), op_fits o -> dec_op (enc_op o ++ tl) = Ok o.
Proof. exact dec_enc_op. Qed.
Print Assumptions C16_op_roundtrip.

Theorem C16_snapshot_roundtrip :
  forall (ver : N) (es : list entry) (tl : list byte),
    ver < 2 ^ 64 -> N.of_nat (length es) < 2 ^ 32 -> Forall entry_fits es ->
    dec_snapshot (enc_snapshot ver es ++ tl) = Ok (ver, es).
Proof. exact dec_enc_snapshot. Qed.
Print Assumptions C16_snapshot_roundtrip.

(* WalOp::to_raw / from_raw: typed operations are raw operations whose keys decode *)
Theorem C16_typed_op_roundtrip :
  forall (t : ktype) (o : rawop), from_raw t o = Ok o <-> keys_valid t (op_keys o).
Proof. exact from_raw_ok_iff. Qed.
Print Assumptions C16_typed_op_roundtrip.

(* record framing, for any hash function with 32-byte output *)
Theorem C16_record_roundtrip :
  forall H : bytes -> bytes, (forall b, length (H b) = 32%nat) ->
  forall (ver : N) (p : bytes) (rest : list byte),
    0 < ver -> ver < 2 ^ 64 -> 0 < len p -> len p < 2 ^ 32 ->
    read_record H (enc_record H ver p ++ rest) = Ok (Some (ver, p, rest)).
Proof. exact read_record_enc. Qed.
Print Assumptions C16_record_roundtrip.

Theorem C16_segment_roundtrip :
  forall H : bytes -> bytes, (forall b, length (H b) = 32%nat) ->
  forall recs : list (N * bytes), Forall rec_ok recs ->
    parse_segment H (render H recs) = Ok recs
    /\ parse_segment H (render H recs ++ sentinel) = Ok recs.
Proof.
  intros H Hl recs Hr. split.
  - exact (parse_segment_render H Hl recs Hr).
  - exact (parse_segment_render_sentinel_nil H Hl recs Hr).
Qed.
Print Assumptions C16_segment_roundtrip.

(* the decoders never copy more bytes into their results than the input holds, whatever the
   count fields say (a count of 2^32-1 in a short input is an error, not an allocation) *)
Theorem C16_op_alloc_bounded :
  forall (bs : bytes) (o : rawop), dec_op bs = Ok o -> (op_alloc o <= length bs)%nat.
Proof. exact dec_op_alloc. Qed.
Print Assumptions C16_op_alloc_bounded.

Theorem C16_snapshot_alloc_bounded :
  forall (bs : bytes) (v : N) (es : list entry),
    dec_snapshot bs = Ok (v, es) -> (entries_alloc es <= length bs)%nat.
Proof. exact dec_snapshot_alloc. Qed.
Print Assumptions C16_snapshot_alloc_bounded.

Theorem C16_count_is_checked :
  forall (cnt : N) (tl : list byte) (o : rawop),
    cnt < 2 ^ 32 -> dec_op (1 :: u32 cnt ++ tl) = Ok o ->
    exists ks, o = RRemove ks /\ N.of_nat (length ks) = cnt /\ (4 * length ks <= length tl)%nat.
Proof. exact dec_op_count_bound. Qed.
Print Assumptions C16_count_is_checked.

(* key encodings: little-endian integers round-trip, and the order of every key type is a strict
   total order that is the numeric one on well-formed integer keys *)
Theorem C16_int_key_roundtrip :
  forall (n : nat) (v : N), v < 256 ^ N.of_nat n -> le_dec (le_enc n v) = v.
Proof. exact le_dec_le_enc_small. Qed.
Print Assumptions C16_int_key_roundtrip.

Theorem C16_int_key_bytes_roundtrip :
  forall bs : bytes, Forall (fun b => b < 256) bs -> le_enc (length bs) (le_dec bs) = bs.
Proof. exact le_enc_le_dec. Qed.
Print Assumptions C16_int_key_bytes_roundtrip.

Theorem C16_unsigned_key_order :
  forall (n : nat) (a b : bytes),
    length a = n -> length b = n -> Forall (fun x => x < 256) a -> Forall (fun x => x < 256) b ->
    key_cmp (KUns n) a b = (le_dec a ?= le_dec b).
Proof. exact key_cmp_uns_numeric. Qed.
Print Assumptions C16_unsigned_key_order.

Theorem C16_signed_key_order :
  forall (n : nat) (a b : bytes),
    length a = n -> length b = n -> Forall (fun x => x < 256) a -> Forall (fun x => x < 256) b ->
    key_cmp (KSig n) a b = (signed_of a ?= signed_of b)%Z.
Proof. exact key_cmp_sig_numeric. Qed.
Print Assumptions C16_signed_key_order.

(* blob paths: see also C18 *)
Theorem C16_path_roundtrip :
  forall (pre : list bytes) (h : bytes),
    length h = 32%nat -> Forall (fun b => b < 256) h -> parse_path (pre ++ hexpath h) = Some h.
Proof. exact parse_hexpath. Qed.
Print Assumptions C16_path_roundtrip.

Example C16_nonvacuous_fits : op_fits (RPut [1; 2] (repeat 7 32) 5) /\ op_fits (RRemove [[]; [9]]).
Proof.
  split.
  - unfold op_fits, key_fits, hash_ok. repeat split; vm_compute; reflexivity.
  - unfold op_fits. split; [vm_compute; reflexivity|].
    repeat constructor; unfold key_fits; vm_compute; reflexivity.
Qed.
Example C16_nonvacuous_run :
  dec_op (enc_op (RRemove [[]; [9]])) = Ok (RRemove [[]; [9]])
  /\ dec_op [1; 255; 255; 255; 255] = Err DInsufficient.
Proof. split; vm_compute; reflexivity. Qed.
