(* C11 -- Exclusive ownership of a database directory.
   Model: theories/OpenLock.v - open = (idempotent mkdirs, O_CREAT|O_TRUNC of the empty LOCK file,
   flock(EX|NB)) before anything else; the lock lives as long as a reference to the handle (the
   value, its clones, OrphanStats) or until the owning process dies.  The kernel's flock semantics
   (per open file description, released on last close / process death) are this model's
   assumptions; they are exhibited only by the racing-opens correspondence K9. *)
From Cas Require Import OpenLock.
From CasProofs Require Import OpenLockProofs.

Theorem C11_at_most_one_live :
  forall evs : list ev,
    length (handles (run init evs)) <= 1
    /\ (forall h, List.In h (handles (run init evs)) -> lock_owner (dir (run init evs)) = Some (h_id h)).
Proof. exact OpenLockProofs.C11_at_most_one_live. Qed.
Print Assumptions C11_at_most_one_live.

(* a losing open returns AlreadyOpened and changes nothing at all *)
Theorem C11_loser_noninterference :
  forall (s : st) (pid : nat), reachable s -> lock_owner (dir s) <> None ->
    step s (EOpen pid) = (s, RAlreadyOpened).
Proof. exact C11_loser_identity. Qed.
Print Assumptions C11_loser_noninterference.

Theorem C11_free_directory_opens :
  forall (s : st) (pid : nat), reachable s -> lock_owner (dir s) = None ->
    exists h, snd (step s (EOpen pid)) = ROpened h.
Proof. exact C11_winner. Qed.
Print Assumptions C11_free_directory_opens.

Theorem C11_release_by_drop :
  forall (s : st) (h : handle) (pid : nat), reachable s -> List.In h (handles s) -> h_refs h = 1 ->
    exists h', snd (step (fst (step s (EDrop (h_id h)))) (EOpen pid)) = ROpened h'.
Proof. exact OpenLockProofs.C11_release_by_drop. Qed.
Print Assumptions C11_release_by_drop.

Theorem C11_clones_keep_the_lock :
  forall (s : st) (h : handle) (pid : nat), reachable s -> List.In h (handles s) -> 2 <= h_refs h ->
    snd (step (fst (step s (EDrop (h_id h)))) (EOpen pid)) = RAlreadyOpened.
Proof. exact C11_clone_keeps_lock. Qed.
Print Assumptions C11_clones_keep_the_lock.

Theorem C11_release_by_kill :
  forall (s : st) (o : nat) (h : handle) (pid : nat),
    reachable s -> lock_owner (dir s) = Some o -> List.In h (handles s) -> h_id h = o ->
    exists h', snd (step (fst (step s (EKill (h_pid h)))) (EOpen pid)) = ROpened h'.
Proof. exact OpenLockProofs.C11_release_by_kill. Qed.
Print Assumptions C11_release_by_kill.

(* any number of racing opens: exactly the first to reach the lock wins *)
Theorem C11_racing_opens :
  forall (pid : nat) (pids : list nat),
    results (List.map EOpen (pid :: pids)) = (ROpened 0 :: List.repeat RAlreadyOpened (length pids))%list.
Proof. exact OpenLockProofs.C11_racing_opens. Qed.
Print Assumptions C11_racing_opens.

Example C11_nonvacuous := OpenLockProofs.ex_run.
