(* C11 -- Exclusive ownership of a database directory.
   Model: theories/OpenLock.v - open = (idempotent mkdirs, O_CREAT|O_TRUNC of the empty LOCK file,
   flock(EX|NB)) before anything else; the lock lives as long as a reference to the handle (the
   value, its clones, OrphanStats) or until the owning process dies.  The kernel's flock semantics
   (per open file description, released on last close / process death) are this model's
   assumptions; they are exhibited only by the racing-opens correspondence K9. *)
From Cas Require Import OpenLock.
From Cas Require Import OpenLock2.
From Coq Require Import List.
Import ListNotations.
From CasProofs Require Import OpenLockProofs OpenLock2Proofs.

Theorem C11_at_most_one_live :
  forall evs : list ev,
    length (handles (run init evs)) <= 1
    /\ (forall h, List.In h (handles (run init evs)) -> lock_owner (dir (run init evs)) = Some (h_id h)).
Proof. exact OpenLockProofs.C11_at_most_one_live. Qed.
Print Assumptions C11_at_most_one_live.

(* a losing open returns AlreadyOpened and changes nothing at all *)
Theorem C11_loser_noninterference :
  forall (s : st) (pid : nat), reachable s -> lock_owner (dir s) <> None ->
    step s (EOpen pid) = (s, RAlreadyOpened).
Proof. exact C11_loser_identity. Qed.
Print Assumptions C11_loser_noninterference.

Theorem C11_free_directory_opens :
  forall (s : st) (pid : nat), reachable s -> lock_owner (dir s) = None ->
    exists h, snd (step s (EOpen pid)) = ROpened h.
Proof. exact C11_winner. Qed.
Print Assumptions C11_free_directory_opens.

Theorem C11_release_by_drop :
  forall (s : st) (h : handle) (pid : nat), reachable s -> List.In h (handles s) -> h_refs h = 1 ->
    exists h', snd (step (fst (step s (EDrop (h_id h)))) (EOpen pid)) = ROpened h'.
Proof. exact OpenLockProofs.C11_release_by_drop. Qed.
Print Assumptions C11_release_by_drop.

Theorem C11_clones_keep_the_lock :
  forall (s : st) (h : handle) (pid : nat), reachable s -> List.In h (handles s) -> 2 <= h_refs h ->
    snd (step (fst (step s (EDrop (h_id h)))) (EOpen pid)) = RAlreadyOpened.
Proof. exact C11_clone_keeps_lock. Qed.
Print Assumptions C11_clones_keep_the_lock.

Theorem C11_release_by_kill :
  forall (s : st) (o : nat) (h : handle) (pid : nat),
    reachable s -> lock_owner (dir s) = Some o -> List.In h (handles s) -> h_id h = o ->
    exists h', snd (step (fst (step s (EKill (h_pid h)))) (EOpen pid)) = ROpened h'.
Proof. exact OpenLockProofs.C11_release_by_kill. Qed.
Print Assumptions C11_release_by_kill.

(* any number of racing opens: exactly the first to reach the lock wins *)
Theorem C11_racing_opens :
  forall (pid : nat) (pids : list nat),
    results (List.map EOpen (pid :: pids)) = (ROpened 0 :: List.repeat RAlreadyOpened (length pids))%list.
Proof. exact OpenLockProofs.C11_racing_opens. Qed.
Print Assumptions C11_racing_opens.


(* ---- the two halves of an open interleaved with everything else (inode-level model OpenLock2) ----
   open("LOCK", O_CREAT|O_TRUNC) and the flock on the descriptor are separate steps (scheduling
   point `open.flock`); other opens, drops and kills happen in between.  As long as the NAME
   LOCK is never unlinked - the code never does - there is only one inode and: *)
Theorem C11_exclusive_under_any_interleaving :
  forall evs : list ev2, no_unlink evs ->
    length (handles2 (run2 init2 evs)) <= 1
    /\ (forall h, List.In h (handles2 (run2 init2 evs)) ->
          name_ino (run2 init2 evs) = Some (h2_ino h)
          /\ List.In (h2_ino h, h2_id h) (locks (run2 init2 evs))).
Proof. exact OpenLock2Proofs.C11_exclusive_under_any_interleaving. Qed.
Print Assumptions C11_exclusive_under_any_interleaving.

(* an open that obtained its descriptor while the owner was alive loses against an open that
   arrives after the owner went away (and changes nothing) *)
Theorem C11_late_locker_loses :
  forall (s : st2) (h : handle2) (tokB pidB pidC : nat),
    reachable2 s -> handles2 s = [h]%list -> h2_refs h = 1 ->
    results2_from s [E2OpenFd tokB pidB; E2Drop (h2_id h); E2Open pidC; E2Lock tokB]%list
    = [RNone; RNone; ROpened (next_id2 s); RAlreadyOpened]%list.
Proof. exact OpenLock2Proofs.C11_2_late_locker_loses. Qed.
Print Assumptions C11_late_locker_loses.

Theorem C11_loser_changes_nothing_2 :
  forall (s : st2) (e : ev2), reachable2 s -> snd (step2 s e) = RAlreadyOpened ->
    let s' := fst (step2 s e) in
    handles2 s' = handles2 s /\ locks s' = locks s /\ content2 s' = content2 s /\ name_ino s' = name_ino s
    /\ dirs2 s' = dirs2 s /\ next_id2 s' = next_id2 s /\ next_ino s' = next_ino s
    /\ (forall q, List.In q (pend s') -> List.In q (pend s)).
Proof. exact OpenLock2Proofs.C11_2_loser_noninterference. Qed.
Print Assumptions C11_loser_changes_nothing_2.

(* the inode-level model refines the atomic one used above *)
Theorem C11_inode_model_refines_atomic_model :
  forall evs : list ev, results2 (List.map embed evs) = results evs.
Proof. exact OpenLock2Proofs.C11_2_refines_atomic. Qed.
Print Assumptions C11_inode_model_refines_atomic_model.

(* what the theorems rely on: if the name LOCK is unlinked while an open holds a descriptor of
   the old inode, two handles are live at once (vm_compute witness; the correspondence check
   observes after every event that the name is still bound) *)
Example C11_unlinking_the_name_breaks_exclusivity := OpenLock2Proofs.C11_2_unlink_breaks_exclusivity.
Example C11_lockfile_name_stays_bound := OpenLock2Proofs.C11_2_lockfile_stays.

Example C11_nonvacuous := OpenLockProofs.ex_run.
