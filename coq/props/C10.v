(* C10 -- A damaged log is never silently accepted (framing layer; the store-level statement
   over whole directories is added from proofs/Damage.v).
   H is BLAKE3 as a variable; the only thing assumed of it is the 32-byte output length, and - in
   the payload-change theorem - that the ORIGINAL and the DAMAGED payload do not collide. *)
From Cas Require Import Codec.
From Cas Require Import History.
From CasProofs Require Import BaseProofs CodecBase CodecProofs StoreInv DiskInv Recover Damage.

(* the log cut short at any byte offset inside a record: replay delivers exactly the records
   before it, then sees the end of the log (cut inside the 44-byte header) or fails (cut inside
   the payload) *)
Theorem C10_truncation :
  forall H : bytes -> bytes, (forall b, length (H b) = 32%nat) ->
  forall (recs1 : list (N * bytes)) (r : N * bytes) (recs2 : list (N * bytes)) (n : nat),
    Forall rec_ok recs1 -> rec_ok r -> (n < length (enc_record H (fst r) (snd r)))%nat ->
    let bs := firstn (length (render H recs1) + n) (render H (recs1 ++ [r] ++ recs2)) in
    read_segment_lazy H (S (length bs)) bs
    = (recs1, if (n <? 44)%nat then None else Some RShortPayload).
Proof. exact lazy_segment_truncated. Qed.
Print Assumptions C10_truncation.

Theorem C10_any_truncation_yields_a_prefix :
  forall H : bytes -> bytes, (forall b, length (H b) = 32%nat) ->
  forall (recs : list (N * bytes)) (m : nat), Forall rec_ok recs ->
    let bs := firstn m (render H recs) in
    exists recs1 recs2 e, recs = recs1 ++ recs2
      /\ read_segment_lazy H (S (length bs)) bs = (recs1, e) /\ (e = None \/ e = Some RShortPayload).
Proof. exact lazy_segment_any_truncation. Qed.
Print Assumptions C10_any_truncation_yields_a_prefix.

(* any change of the payload (same length) is detected, unless it collides with the original *)
Theorem C10_payload_change_detected :
  forall H : bytes -> bytes, (forall b, length (H b) = 32%nat) ->
  forall (recs1 : list (N * bytes)) (ver : N) (p : bytes) (p' rest : list byte),
    Forall rec_ok recs1 -> rec_ok (ver, p) -> length p' = length p -> p' <> p -> H p' <> H p ->
    let bs := render H recs1 ++ header H ver p ++ p' ++ rest in
    read_segment_lazy H (S (length bs)) bs = (recs1, Some RChecksum).
Proof. exact lazy_segment_bad_payload. Qed.
Print Assumptions C10_payload_change_detected.

(* any change of the stored checksum is detected *)
Theorem C10_checksum_change_detected :
  forall H : bytes -> bytes, (forall b, length (H b) = 32%nat) ->
  forall (recs1 : list (N * bytes)) (ver : N) (p : bytes) (c' rest : list byte),
    Forall rec_ok recs1 -> rec_ok (ver, p) -> length c' = 32%nat -> c' <> H p ->
    let bs := render H recs1 ++ u64 ver ++ c' ++ u32 (len p) ++ p ++ rest in
    read_segment_lazy H (S (length bs)) bs = (recs1, Some RChecksum).
Proof. exact lazy_segment_bad_checksum. Qed.
Print Assumptions C10_checksum_change_detected.

(* whatever the bytes are: a record that the reader accepts carries a payload whose hash is the
   stored checksum - no partial or altered record is ever delivered without a hash collision *)
Theorem C10_accepted_records_are_checksummed :
  forall (H : bytes -> bytes) (bs : bytes) (ver : N) (p rest : bytes),
    read_record H bs = Ok (Some (ver, p, rest)) ->
    exists hd, bs = hd ++ p ++ rest /\ length hd = 44%nat /\ ver = le_dec (firstn 8 hd) /\ ver <> 0
               /\ H p = firstn 32 (skipn 8 hd) /\ len p = le_dec (skipn 40 hd) /\ len p <> 0.
Proof. exact read_record_sound. Qed.
Print Assumptions C10_accepted_records_are_checksummed.

(* ---- store level: a store at rest (Inv), one uncheckpointed record (v, p) of segment i damaged
   (Setting / DamagedBy: truncation at any offset inside it with the later segments gone, payload
   change without collision, checksum change).  j = number of uncheckpointed records strictly
   before the damaged one. ---- *)
Theorem C10_damage :
  forall H : bytes -> bytes,
    (forall b, length (H b) = 32%nat) -> (forall b, Forall (fun x => x < 256) (H b)) ->
  forall cfg : config, 0 < c_n cfg ->
  forall (m : mem) (s : fs) (sg : smap bytes) (ids : list N) (rf : N -> list (N * bytes))
         (sf : N -> bool) (km_c : smap item) (ops : list rawop) (i : N) (recs1 : list (N * bytes))
         (v : N) (p : bytes) (recs2 : list (N * bytes)) (d : damage) (w : world),
    Setting H cfg m s sg ids rf sf km_c ops i recs1 v p recs2 ->
    DamagedBy H s sf i recs1 v p recs2 d w ->
    let j := n_before (lpv (idx m)) ids rf i recs1 in
    (exists e w', open_store H cfg w = (Err e, w')
                  /\ (e = EIntegrity \/ e = EReplay RShortPayload \/ e = EReplay RChecksum))
    \/ (exists m' os w', open_store H cfg w = (Ok (m', os), w')
                         /\ km (idx m') = fold_left (kstep cfg) (firstn j ops) km_c
                         /\ IndexProofs.IdxInv (key_cmp (c_kt cfg)) (idx m')
                         /\ nextv (mwal m') = v /\ (j < length ops)%nat).
Proof. exact Damage.C10_damage. Qed.
Print Assumptions C10_damage.

Theorem C10_never_panics :
  forall H : bytes -> bytes,
    (forall b, length (H b) = 32%nat) -> (forall b, Forall (fun x => x < 256) (H b)) ->
  forall cfg : config, 0 < c_n cfg ->
  forall m s sg ids rf sf km_c ops i recs1 v p recs2 d w,
    Setting H cfg m s sg ids rf sf km_c ops i recs1 v p recs2 ->
    DamagedBy H s sf i recs1 v p recs2 d w ->
    fst (open_store H cfg w) <> Err EPanic /\ fst (open_with_recover H cfg w) <> Err EPanic.
Proof. exact Damage.C10_no_panic. Qed.
Print Assumptions C10_never_panics.

(* whatever the outcome, the operations replay applied are exactly the undamaged prefix *)
Theorem C10_never_applies_an_altered_operation :
  forall H : bytes -> bytes,
    (forall b, length (H b) = 32%nat) -> (forall b, Forall (fun x => x < 256) (H b)) ->
  forall cfg : config, 0 < c_n cfg ->
  forall m s sg ids rf sf km_c ops i recs1 v p recs2 d w,
    Setting H cfg m s sg ids rf sf km_c ops i recs1 v p recs2 ->
    DamagedBy H s sf i recs1 v p recs2 d w ->
    applied_on_open H cfg (wfs w) = firstn (n_before (lpv (idx m)) ids rf i recs1) ops.
Proof. exact Damage.C10_applied_prefix. Qed.
Print Assumptions C10_never_applies_an_altered_operation.

Example C10_nonvacuous := CodecProofs.ex_segment_truncated.
Example C10_nonvacuous_store := Damage.dmg_theorem_instance.
