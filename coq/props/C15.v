(* C15 -- Concurrent calls always complete (no deadlock).
   Locks: I = pending_intents mutex, S = index state RwLock, W = wal mutex; order I < S < W.
   The excluded caller (one that keeps an index read guard alive while writing from the same
   thread) is not a thread of the model.
   All clauses hold for ARBITRARY fault parameters bad / ckbad of the model (obstructed blob paths,
   failing checkpoints): the error exits (reverting an uncommitted intent under I, returning from a
   failed unlink with I released) neither break the lock order nor block anybody, and they only
   shorten a call (the step bound total_work is unchanged). *)
From Cas Require Import Conc.
From CasProofs Require Import ConcInv ConcProofs ConcProgress ConcExamples.
From CasProps Require Import ConcSetting.

(* every code path acquires locks in the order I < S < W, and W is never held across a step *)
Theorem C15_lock_order :
  forall p : pc,
    (forall a l, In a (acquires p) -> In l (holds p) -> lock_lt l a) /\ ~ In LW (holds p).
Proof. exact ConcProofs.C15_lock_order. Qed.
Print Assumptions C15_lock_order.

(* reads (get, get_size, get_range) and iteration acquire only S, in SHARED mode, while holding
   nothing: the steps that leave read.lock_S of a read (GRead), of its retry (GReread) and of an
   iteration (IRead) *)
Theorem C15_readers_acquire_only_S_shared :
  forall p : pc,
    (exists k md, p = GRead k md) \/ (exists k it md, p = GReread k it md) \/ p = IRead ->
    acquires p = [LS] /\ excl p = false /\ holds p = [].
Proof. exact ConcProofs.C15_readers_shared_only. Qed.
Print Assumptions C15_readers_acquire_only_S_shared.

(* the iteration step is enabled exactly when nobody holds S exclusively (other readers and the
   holder of I do not block it); it returns the keys of the current key map, changes no lock word
   and leaves the thread idle: the read guard does not outlive the step *)
Theorem C15_iteration_step :
  forall H cmp nops bad ckbad g t ts, tget (g_thr g) t = Some ts -> t_pc ts = IRead ->
    (enabled H cmp nops bad ckbad g t = true <-> g_S g = None) /\
    forall g', cstep H cmp nops bad ckbad g t = Some g' ->
      g_I g' = g_I g /\ g_S g' = g_S g /\ g_R g' = g_R g /\ g_idx g' = g_idx g /\ g_cas g' = g_cas g /\
      tget (g_thr g') t =
        Some (mkT (t_calls ts) Idle (t_res ts ++ [CKeys (map fst (km (g_idx g)))])).
Proof. exact ConcProofs.C15_iter_step. Qed.
Print Assumptions C15_iteration_step.

(* in every reachable state some unfinished thread can move: no interleaving blocks forever *)
Theorem C15_deadlock_free :
  forall H cmp nops bad ckbad thr0 cas0, ConcSetting H cmp thr0 cas0 ->
  forall g, reachable H cmp nops bad ckbad thr0 cas0 g -> all_finished g = false ->
    exists t, enabled H cmp nops bad ckbad g t = true.
Proof.
  intros H cmp nops bad ckbad thr0 cas0 (A & B & C & D & E & F & G & I).
  exact (ConcProofs.C15_deadlock_free H cmp A B C D nops bad ckbad thr0 E cas0 F G I).
Qed.
Print Assumptions C15_deadlock_free.

(* every call takes a bounded number of steps: any schedule makes at most total_work successful
   steps, so under any schedule that keeps scheduling enabled threads all calls return *)
Theorem C15_progress :
  forall H cmp, (forall a, cmp a a = Eq) -> (forall a b, cmp a b = Eq -> a = b) ->
    (forall a b, cmp b a = CompOpp (cmp a b)) -> (forall a b c, cmp a b = Lt -> cmp b c = Lt -> cmp a c = Lt) ->
  forall nops bad ckbad thr0 cas0 sched,
    (csteps H cmp nops bad ckbad (init_c thr0 cas0) sched <= total_work thr0 cas0)%nat.
Proof. exact ConcProgress.C15_progress. Qed.
Print Assumptions C15_progress.

(* the bound counts 6 steps for a get_range (as for a get: take, lookup, pre-open exits, open,
   retry lookup, open under the lock) and 2 for an iteration (take, read under the guard) *)
Example C15_work_of_new_calls :
  forall B k a b, call_work B (KGetRange k a b) = 6%nat /\ call_work B KIter = 2%nat /\
                  call_work B (KGet k) = 6%nat.
Proof. intros. repeat split. Qed.
Example C15_step_bound_with_range_and_iteration := ConcExamples.progRI_step_bound.

Theorem C15_calls_complete :
  forall H cmp nops bad ckbad thr0 cas0, ConcSetting H cmp thr0 cas0 ->
  forall g, reachable H cmp nops bad ckbad thr0 cas0 g ->
    exists sched, all_finished (crun H cmp nops bad ckbad g sched) = true.
Proof.
  intros H cmp nops bad ckbad thr0 cas0 (A & B & C & D & E & F & G & I).
  exact (ConcProgress.C15_calls_complete H cmp A B C D nops bad ckbad thr0 E cas0 F G I).
Qed.
Print Assumptions C15_calls_complete.
