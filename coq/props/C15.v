(* C15 -- Concurrent calls always complete (no deadlock).
   Locks: I = pending_intents mutex, S = index state RwLock, W = wal mutex; order I < S < W.
   The excluded caller (one that keeps an index read guard alive while writing from the same
   thread) is not a thread of the model.
   All clauses hold for ARBITRARY fault parameters bad / ckbad of the model (obstructed blob paths,
   failing checkpoints): the error exits (reverting an uncommitted intent under I, returning from a
   failed unlink with I released) neither break the lock order nor block anybody, and they only
   shorten a call (the step bound total_work is unchanged). *)
From Cas Require Import Conc.
From CasProofs Require Import ConcInv ConcProofs ConcProgress.
From CasProps Require Import ConcSetting.

(* every code path acquires locks in the order I < S < W, and W is never held across a step *)
Theorem C15_lock_order :
  forall p : pc,
    (forall a l, In a (acquires p) -> In l (holds p) -> lock_lt l a) /\ ~ In LW (holds p).
Proof. exact ConcProofs.C15_lock_order. Qed.
Print Assumptions C15_lock_order.

(* in every reachable state some unfinished thread can move: no interleaving blocks forever *)
Theorem C15_deadlock_free :
  forall H cmp nops bad ckbad thr0 cas0, ConcSetting H cmp thr0 cas0 ->
  forall g, reachable H cmp nops bad ckbad thr0 cas0 g -> all_finished g = false ->
    exists t, enabled H cmp nops bad ckbad g t = true.
Proof.
  intros H cmp nops bad ckbad thr0 cas0 (A & B & C & D & E & F & G & I).
  exact (ConcProofs.C15_deadlock_free H cmp A B C D nops bad ckbad thr0 E cas0 F G I).
Qed.
Print Assumptions C15_deadlock_free.

(* every call takes a bounded number of steps: any schedule makes at most total_work successful
   steps, so under any schedule that keeps scheduling enabled threads all calls return *)
Theorem C15_progress :
  forall H cmp, (forall a, cmp a a = Eq) -> (forall a b, cmp a b = Eq -> a = b) ->
    (forall a b, cmp b a = CompOpp (cmp a b)) -> (forall a b c, cmp a b = Lt -> cmp b c = Lt -> cmp a c = Lt) ->
  forall nops bad ckbad thr0 cas0 sched,
    (csteps H cmp nops bad ckbad (init_c thr0 cas0) sched <= total_work thr0 cas0)%nat.
Proof. exact ConcProgress.C15_progress. Qed.
Print Assumptions C15_progress.

Theorem C15_calls_complete :
  forall H cmp nops bad ckbad thr0 cas0, ConcSetting H cmp thr0 cas0 ->
  forall g, reachable H cmp nops bad ckbad thr0 cas0 g ->
    exists sched, all_finished (crun H cmp nops bad ckbad g sched) = true.
Proof.
  intros H cmp nops bad ckbad thr0 cas0 (A & B & C & D & E & F & G & I).
  exact (ConcProgress.C15_calls_complete H cmp A B C D nops bad ckbad thr0 E cas0 F G I).
Qed.
Print Assumptions C15_calls_complete.
