(* C07 -- Exact space reclamation and deduplication at quiescence (sequential part).
   Clean s sg: every file under cas/ is the blob of some content of sg at its canonical path
   (nothing more), staging/ is empty; Live0 gives "nothing less" (every content has its blob).
   One file per distinct content follows from the path being a function of the content's hash. *)
From Cas Require Import History.
From Cas Require Conc.
From CasProofs Require Import StoreFS StoreInv StoreWrite StoreRead StoreHist.
From CasProofs Require ConcInv.
From CasProps Require ConcSetting C04.

Theorem C07_exact_after_every_history :
  forall H : bytes -> bytes,
    (forall b, length (H b) = 32%nat) -> (forall b, Forall (fun x => x < 256) (H b)) ->
  forall cfg : config, 0 < c_n cfg ->
  forall (ops : list op) (m : mem) (s : fs) (sg : smap bytes) (os : option ostats) (w : world),
    Live0 H cfg m s sg -> wfs w = s -> wfault w = None ->
    Forall (api_op cfg) ops ->
    NoCollide H (hist_contents ops ++ map snd sg) ->
    FsWf s -> Clean H s sg ->
    exists (r : list out * option handle) (w' : world),
      run_ops H (Some (mkHandle cfg m os)) ops w = (r, w')
      /\ FsWf (wfs w')
      /\ Clean H (wfs w') (fold_left (spec_step (key_cmp (c_kt cfg))) ops sg).
Proof. exact StoreHist.C07_exact_seq. Qed.
Print Assumptions C07_exact_after_every_history.

(* "nothing less": under the invariant every referenced content has its blob with exactly its bytes *)
Theorem C07_nothing_less :
  forall (H : bytes -> bytes) (cfg : config) (m : mem) (s : fs) (sg : smap bytes) (k c : bytes),
    Live0 H cfg m s sg -> In (k, c) sg ->
    exists f, fget s (cas_path (H c)) = Some f /\ fdata f = c.
Proof. intros H cfg m s sg k c L. exact (lv_cas H cfg m s sg L k c). Qed.
Print Assumptions C07_nothing_less.

(* and from a fresh directory both hold after every history (Clean and Live0 in C01_from_fresh) *)
Example C07_nonvacuous := StoreHist.toy_run_clean.

(* concurrent clause: at the end of every schedule of every concurrent program (from a directory
   without orphans) the CAS directory holds exactly the referenced blobs, provided no blob path is
   obstructed (bad, the fault parameter of the concurrent model, is empty) or no call of the run
   returned an I/O error: a failed deletion leaves its blob behind.  Failing checkpoints (ckbad) do
   not matter.  "Nothing less" (every referenced blob is present) holds with arbitrary faults: C04. *)
Theorem C07_exact_at_quiescence_concurrent :
  forall H cmp nops bad ckbad thr0 cas0, CasProps.ConcSetting.ConcSetting H cmp thr0 cas0 ->
  forall g, cas0 = [] -> ConcInv.reachable H cmp nops bad ckbad thr0 cas0 g -> Conc.all_finished g = true ->
  (forall h, bad h = false) \/
  (forall t ts, Conc.tget (Conc.g_thr g) t = Some ts -> ~ In Conc.CErr (Conc.t_res ts)) ->
  forall h, sm_get lex_cmp (Conc.g_cas g) h <> None
            <-> (exists k it, In (k, it) (km (Conc.g_idx g)) /\ ihash it = h).
Proof. exact CasProps.C04.C04_C07_quiescent_exact. Qed.
Print Assumptions C07_exact_at_quiescence_concurrent.

Theorem C07_exact_at_quiescence_concurrent_nofaults :
  forall H cmp nops bad ckbad thr0 cas0, CasProps.ConcSetting.ConcSetting H cmp thr0 cas0 ->
  CasProps.ConcSetting.NoFaults bad ckbad ->
  forall g, cas0 = [] -> ConcInv.reachable H cmp nops bad ckbad thr0 cas0 g -> Conc.all_finished g = true ->
  forall h, sm_get lex_cmp (Conc.g_cas g) h <> None
            <-> (exists k it, In (k, it) (km (Conc.g_idx g)) /\ ihash it = h).
Proof. exact CasProps.C04.C04_C07_quiescent_exact_nofaults. Qed.
Print Assumptions C07_exact_at_quiescence_concurrent_nofaults.
