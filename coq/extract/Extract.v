(* Extraction of the executable models.  ExtrOcamlBasic only: bool/option/list/prod/unit/
   sumbool map to their OCaml counterparts; N, positive, Z, nat stay extracted datatypes. *)
From Cas Require Import History Conc.
From Cas Require OpenLock OpenLock2.
Require Extraction.
Require ExtrOcamlBasic.
Extraction Language OCaml.
Extraction "model.ml" run_hist trace_of step crash_fs lose replay_calls
  enc_op dec_op enc_snapshot dec_snapshot from_raw key_valid key_cmp parse_path hexpath hex_enc
  parse_segment read_segment_lazy enc_record get_range read_blob_range slice
  scan_orphans open_store open_with_recover empty_fs init_world
  enc_settings dec_settings load_entries lex_cmp sm_ins utf8_valid
  cstep crun init_c all_finished enabled OpenLock.results OpenLock2.results2 OpenLock2.lockfile_from OpenLock2.init2.
