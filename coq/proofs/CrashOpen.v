(* CrashOpen.v -- recovery from the memory-less invariant (G1: rest_open) and crash safety of
   recovery itself (G3: open_crash): from Rest s sg, open_with_recover succeeds, rebuilds a
   fully usable handle for exactly sg, and every intermediate filesystem of the recovery
   satisfies Rest _ sg again -- so a crash during recovery (any depth of nesting) is recovered
   by the next open. *)
From Cas Require Import History.
From CasProofs Require Import BaseProofs CodecBase CodecProofs SMapProofs IndexProofs
  StoreFS StoreInv StoreWrite StoreRead StoreHist DiskInv Recover CrashInv CrashOps PreTree.
From Coq Require Import ZifyBool ZifyNat ZifyN.
Open Scope N_scope.

Local Opaque all256.

Arguments N.add : simpl never.
Arguments N.sub : simpl never.
Arguments N.mul : simpl never.
Arguments N.div : simpl never.
Arguments N.modulo : simpl never.
Arguments N.eqb : simpl never.
Arguments N.ltb : simpl never.
Arguments N.leb : simpl never.
Arguments N.pow : simpl never.
Arguments N.max : simpl never.

Section CrashOpen.
  Variable H : bytes -> bytes.
  Hypothesis H_len : forall b, length (H b) = 32%nat.
  Hypothesis H_byte : forall b, Forall (fun x => x < 256) (H b).
  Variable cfg : config.
  Hypothesis n_pos : 0 < c_n cfg.
  Let cmp := key_cmp (c_kt cfg).

  Local Notation KX L :=
    (L cmp (key_cmp_refl _) (key_cmp_eq _) (key_cmp_antisym _) (key_cmp_trans _)) (only parsing).
  Local Notation DX L := (L H H_len H_byte cfg n_pos) (only parsing).
  Local Notation item_of := (item_of H).
  Local Notation km_of := (km_of H).
  Local Notation NoCollide := (NoCollide H).
  Local Notation Live0 := (Live0 H cfg).
  Local Notation seg_of := (seg_of cfg).
  Local Notation DiskW := (DiskW H cfg).
  Local Notation DiskOkW := (DiskOkW H cfg).
  Local Notation DiskOk' := (DiskOk' H cfg).
  Local Notation Inv' := (Inv' H cfg).
  Local Notation Rest := (Rest H cfg).
  Local Notation RestP := (RestP H cfg).
  Local Notation RestB := (RestB H cfg).
  Local Notation RestF := (RestF cfg).
  Local Notation Aux := (Aux H).
  Local Notation cas_has := (cas_has H).

  Lemma ToRest : forall B c nv pre sg x, sorted cmp sg -> NoCollide (map snd sg) -> nv <= B ->
    RestP c nv (seg_of nv) pre sg x -> RestB B x sg.
  Proof.
    intros B c nv pre sg x Ss Nc L R.
    eapply (restp_restb H H_len H_byte cfg n_pos); try eassumption. lia.
  Qed.

  (* ---------------------------------------------------------------- *)
  (* Index::load, tail: replay, next segment, after-replay checkpoint  *)
  (* ---------------------------------------------------------------- *)
  Lemma a_load_tail : forall B c nv pre sg ids rf sf km_c ops st0 w,
    nv <= B -> wfault w = None -> Aux pre sg (wfs w) ->
    DiskW c nv (seg_of nv) pre (fdat (wfs w)) sg ids rf sf km_c ops ->
    sorted cmp sg -> NoCollide (map snd sg) ->
    IdxInv cmp st0 -> km st0 = km_c -> lpv st0 = c ->
    ssz st0 = match fdat (wfs w) PIndex with Some d => len d | None => 0 end ->
    exists m' w', load_tail H cfg pre (wfs w) st0 w = (Ok m', w') /\ Eff w w' /\
      nextv (mwal m') = nv /\ writer (mwal m') = None /\ mpre m' = pre /\
      km (idx m') = km_of sg /\ IdxInv cmp (idx m') /\
      RestP (lpv (idx m')) nv (seg_of nv) pre sg (wfs w') /\
      (forall q, ~ is_meta q -> fdat (wfs w') q = fdat (wfs w) q) /\
      ssz (idx m') = match fdat (wfs w') PIndex with Some d => len d | None => 0 end /\
      Walk (fun x => RestB B x sg) w w'.
  Proof.
    intros B c nv pre sg ids rf sf km_c ops st0 w LB F A Dw Ss Nc Iv0 K0 L0 Z0.
    pose proof A as (Wf & _).
    unfold load_tail. cbv zeta. rewrite L0.
    destruct (DX replay_ok c nv _ pre (wfs w) sg ids rf sf km_c ops st0 Wf Dw Iv0 K0)
      as (st & E & Iv & K & L & Z).
    rewrite E. cbv beta iota.
    assert (Nv1 : 1 <= nv) by (rewrite (dw_nv _ _ _ _ _ _ _ _ _ _ _ _ _ Dw); lia).
    replace (nv - 1 + 1) with nv by lia.
    change ((nv - 1) / c_n cfg) with (seg_of nv). set (t := seg_of nv).
    assert (D0 : DiskOkW c nv t pre (fdat (wfs w)) sg)
      by (exists ids, rf, sf, km_c, ops; exact Dw).
    assert (R0 : RestP c nv t pre sg (wfs w)) by (split; assumption).
    assert (P1 : exists w1,
      (match fget (wfs w) (PWal t) with
       | Some _ => ret (Ok tt)
       | None => do! x <- do_call (CCreate (PWal t)) ;;
                 match x with Err e => ret (Err e) | Ok _ => do_call (CSync (PWal t)) end
       end) w = (Ok tt, w1) /\ Eff w w1 /\
      RestP c nv t pre sg (wfs w1) /\
      (forall q, not_wal q -> fdat (wfs w1) q = fdat (wfs w) q) /\
      Walk (fun x => RestB B x sg) w w1).
    { destruct (fget (wfs w) (PWal t)) as [f|] eqn:G.
      - exists w. split; [reflexivity|]. split; [now apply eff_refl|]. split; [exact R0|].
        split; [auto|]. apply walk_refl; [exact F|]. now apply (ToRest B c nv pre).
      - destruct (x_create w (PWal t) F Wf eq_refl) as (w5 & E5 & X5 & V5).
        pose proof X5 as (F5 & W5 & _).
        destruct (x_sync w5 (PWal t) [] F5 W5) as (w6 & E6 & X6 & V6).
        { now rewrite V5, vset_same. }
        assert (A5 : AtW (RestP c nv t pre sg) (wfs w) (vset (fdat (wfs w)) (PWal t) (Some []))).
        { apply (restp_atw H cfg); [exact A| | |].
          - intros i. now rewrite vset_notwal.
          - intros k c0 _. now rewrite vset_notwal.
          - eapply (DX V_add_seg); [exact D0| | |].
            + now apply fdat_none.
            + fold t. now rewrite vset_same.
            + intros q Nq. now apply vset_other. }
        assert (R5 : RestP c nv t pre sg (wfs w5)) by (eapply atw_eff; eassumption).
        assert (R6 : RestP c nv t pre sg (wfs w6)).
        { eapply atw_eff; [exact (eff_trans _ _ _ X5 X6)|exact A5|]. intros q. now rewrite V6, V5. }
        exists w6. rewrite (bind_eq _ _ _ _ _ E5). split; [exact E6|].
        split; [exact (eff_trans _ _ _ X5 X6)|]. split; [exact R6|]. split.
        + intros q Nq. rewrite V6, V5. now apply vset_notwal.
        + eapply walk_trans.
          * eapply walk_call; [exact F|exact E5| |]; eapply (ToRest B c nv pre); eassumption.
          * eapply walk_call; [exact F5|exact E6| |]; eapply (ToRest B c nv pre); eassumption. }
    destruct P1 as (w1 & E1 & X1 & R1 & N1 & K1). rewrite (bind_eq _ _ _ _ _ E1).
    pose proof X1 as (F1 & W1 & _).
    set (m1 := mkMem st (mkWal nv None) pre).
    destruct ops as [|o ops'] eqn:Eo.
    - cbn [length N.of_nat]. change (0 <? 0) with false. cbv iota.
      specialize (Z eq_refl). subst st.
      exists m1, w1. split; [reflexivity|]. split; [exact X1|].
      unfold m1. cbn [idx mwal mpre nextv writer]. repeat (split; [reflexivity|]).
      split; [exact K|]. split; [exact Iv|]. split; [|split; [|split; [|exact K1]]].
      + now rewrite L0.
      + intros q Nq. apply N1. destruct q; try exact I. apply Nq. exact I.
      + rewrite N1 by exact I. exact Z0.
    - replace (0 <? N.of_nat (length (o :: ops'))) with true by (cbn [length]; lia). cbv iota.
      destruct (a_checkpoint_inner H H_len H_byte cfg n_pos RAfterReplay m1 t sg B w1 F1)
        as (m' & w2 & E2 & X2 & R2 & K2 & Rc2 & U2 & T2 & Wl2 & P2 & N2 & Sz2 & Kw2);
        try assumption.
      { unfold m1. cbn [idx mwal mpre nextv]. now rewrite L, L0. }
      { unfold m1. cbn [mwal nextv]. unfold t. lia. }
      rewrite (bind_eq _ _ _ _ _ E2).
      exists m', w2. split; [reflexivity|]. split; [exact (eff_trans _ _ _ X1 X2)|].
      rewrite Wl2, P2. unfold m1. cbn [idx mwal mpre nextv writer].
      repeat (split; [reflexivity|]).
      split; [rewrite K2; exact K|]. split.
      { eapply (IdxInv_ext cfg); [exact K2|exact Rc2|exact U2|exact T2|exact Iv]. }
      split; [exact R2|]. split; [|split; [|exact (walk_trans _ _ _ _ K1 Kw2)]].
      + intros q Nq. rewrite N2 by exact Nq. apply N1. destruct q; try exact I. apply Nq. exact I.
      + destruct Sz2 as (_ & d & Gd & Sd); [discriminate| |].
        * unfold m1. cbn [mwal nextv]. rewrite (dw_nv _ _ _ _ _ _ _ _ _ _ _ _ _ Dw).
          cbn [length]. lia.
        * now rewrite Gd.
  Qed.

  (* Index::load on a well-formed disk *)
  Lemma a_index_load : forall B c nv pre sg w,
    nv <= B -> wfault w = None -> RestP c nv (seg_of nv) pre sg (wfs w) ->
    sorted cmp sg -> NoCollide (map snd sg) ->
    exists m' w', index_load H cfg pre w = (Ok m', w') /\ Eff w w' /\
      nextv (mwal m') = nv /\ writer (mwal m') = None /\ mpre m' = pre /\
      km (idx m') = km_of sg /\ IdxInv cmp (idx m') /\
      RestP (lpv (idx m')) nv (seg_of nv) pre sg (wfs w') /\
      (forall q, ~ is_meta q -> fdat (wfs w') q = fdat (wfs w) q) /\
      ssz (idx m') = match fdat (wfs w') PIndex with Some d => len d | None => 0 end /\
      Walk (fun x => RestB B x sg) w w'.
  Proof.
    intros B c nv pre sg w LB F [A (ids & rf & sf & km_c & ops & Dw)] Ss Nc.
    rewrite index_load_split.
    destruct (DX loaded_ok _ _ _ _ _ _ _ _ _ _ _ Dw) as (st0 & El & Iv0 & K0 & L0 & Z0).
    rewrite El. now apply (a_load_tail B c nv pre sg ids rf sf km_c ops).
  Qed.

  (* ---------------------------------------------------------------- *)
  (* open_with_recover from the memory-less invariant                  *)
  (* ---------------------------------------------------------------- *)
  Lemma fresh_disk : forall (pre : bool) (dv : path -> option bytes), c_n cfg < 2 ^ 64 ->
    dv PSettings = Some (enc_settings CURRENT_DB_VERSION pre (c_n cfg)) ->
    dv PIndex = None -> (forall i, dv (PWal i) = None) ->
    DiskOkW 0 1 (seg_of 1) pre dv [].
  Proof.
    intros pre dv Nfit Gs Gi Gw.
    exists [], (fun _ => []), (fun _ => false), [], []. constructor.
    - split; [cbn [length]; pow_consts; lia|constructor].
    - eexists. split; [exact Gs|].
      apply dec_settings_enc; [unfold CURRENT_DB_VERSION; pow_consts; lia|exact Nfit].
    - unfold snap_ok. rewrite Gi. now split.
    - split; [exact I|]. split; [intros k1 k2 i1 i2 []|]. split; [constructor|].
      cbn [length]. pow_consts. lia.
    - exact I.
    - intros i [].
    - intros i _. apply Gw.
    - intros i [].
    - reflexivity.
    - reflexivity.
    - pow_consts. lia.
    - constructor.
    - exact I.
    - reflexivity.
  Qed.

  Lemma a_open : forall B s sg w, RestB B s sg -> 1 <= B -> wfault w = None -> wfs w = s ->
    exists m' os w', open_with_recover H cfg w = (Ok (m', os), w') /\ wfault w' = None /\
      writer (mwal m') = None /\ 1 <= nextv (mwal m') /\ nextv (mwal m') <= B /\
      km (idx m') = km_of sg /\ IdxInv cmp (idx m') /\
      RestP (lpv (idx m')) (nextv (mwal m')) (seg_of (nextv (mwal m'))) (mpre m') sg (wfs w') /\
      has_dir (wfs w') [s_staging] = true /\ has_dir (wfs w') [s_cas] = true /\
      ssz (idx m') = match fdat (wfs w') PIndex with Some d => len d | None => 0 end /\
      Walk (fun x => RestB B x sg) w w'.
  Proof.
    intros B s sg w R0 B1 F Ws. subst s. unfold open_with_recover.
    assert (Kmk : forall d, call_keeps (fun x => RestB B x sg) (CMkdir d))
      by (intros d; apply (restb_keeps H cfg); exact I).
    destruct (mkdir_p_ok [s_staging] w F (or_introl eq_refl)) as (w1 & E1 & G1 & D1).
    rewrite (bind_eq _ _ _ _ _ E1).
    assert (K1 : Walk (fun x => RestB B x sg) w w1).
    { pose proof (walkm_mkdir_p _ [s_staging] (Kmk _) w F R0) as Wm. now rewrite E1 in Wm. }
    pose proof (walk_fault _ _ _ K1) as F1.
    destruct (mkdir_p_ok [s_cas] w1 F1 (or_introl eq_refl)) as (w2 & E2 & G2 & D2).
    rewrite (bind_eq _ _ _ _ _ E2).
    assert (K2 : Walk (fun x => RestB B x sg) w1 w2).
    { pose proof (walkm_mkdir_p _ [s_cas] (Kmk _) w1 F1 (walk_end _ _ _ K1)) as Wm.
      now rewrite E2 in Wm. }
    pose proof (walk_fault _ _ _ K2) as F2. pose proof (walk_end _ _ _ K2) as R2.
    pose proof (restb_wf H cfg _ _ _ R2) as Wf2.
    destruct (x_create w2 PLock F2 Wf2 eq_refl) as (w3 & E3 & X3 & V3).
    rewrite (bind_eq _ _ _ _ _ E3). pose proof X3 as (F3 & W3 & Dd3 & _).
    assert (K3 : Walk (fun x => RestB B x sg) w2 w3).
    { eapply keeps_call; [|exact F2|exact R2|exact E3]. apply (restb_keeps H cfg). exact I. }
    pose proof (walk_end _ _ _ K3) as R3.
    assert (K03 : Walk (fun x => RestB B x sg) w w3)
      by exact (walk_trans _ _ _ _ K1 (walk_trans _ _ _ _ K2 K3)).
    assert (Hd3 : has_dir (wfs w3) [s_staging] = true /\ has_dir (wfs w3) [s_cas] = true).
    { unfold has_dir. rewrite Dd3. split; [apply (gr_dirs _ _ G2), D1|exact D2]. }
    (* from here on: settings, then index_load from a RestP state w4 *)
    assert (Tail : forall c nv pre wb w4
                     (Hdb : has_dir (wfs wb) [s_staging] = true /\ has_dir (wfs wb) [s_cas] = true)
                     (X4 : Eff wb w4),
              RestP c nv (seg_of nv) pre sg (wfs w4) -> 1 <= nv -> nv <= B ->
              Walk (fun x => RestB B x sg) w3 w4 ->
              exists m' os w',
                (do! rm <- index_load H cfg pre ;;
                 match rm with
                 | Err e => ret (Err e)
                 | Ok m0 => do! s0 <- get_fs ;;
                            ret (Ok (m0, if c_scan cfg then Some (scan_orphans H m0 s0 (c_verify cfg))
                                         else None))
                 end) w4 = (Ok (m', os), w') /\ wfault w' = None /\
                writer (mwal m') = None /\ 1 <= nextv (mwal m') /\ nextv (mwal m') <= B /\
                km (idx m') = km_of sg /\ IdxInv cmp (idx m') /\
                RestP (lpv (idx m')) (nextv (mwal m')) (seg_of (nextv (mwal m'))) (mpre m') sg (wfs w') /\
                has_dir (wfs w') [s_staging] = true /\ has_dir (wfs w') [s_cas] = true /\
                ssz (idx m') = match fdat (wfs w') PIndex with Some d => len d | None => 0 end /\
                Walk (fun x => RestB B x sg) w w').
    { intros c nv pre wb w4 Hdb X4 R4 Nv1 NvB K4. destruct R3 as (Ss & Nc & _).
      destruct (a_index_load B c nv pre sg w4 NvB (proj1 X4) R4 Ss Nc)
        as (m' & w' & E' & X' & P1 & P2 & P3 & P4 & P5 & P6 & P7 & P8 & K').
      rewrite (bind_eq _ _ _ _ _ E'). unfold bind, get_fs, ret.
      eexists m', _, w'. split; [reflexivity|]. split; [exact (proj1 X')|].
      split; [exact P2|]. split; [now rewrite P1|]. split; [now rewrite P1|]. split; [exact P4|]. split; [exact P5|].
      rewrite P1, P3. split; [exact P6|].
      assert (Dd : dirs (wfs w') = dirs (wfs wb)).
      { destruct X' as (_ & _ & Da & _). destruct X4 as (_ & _ & Db & _). congruence. }
      unfold has_dir. rewrite Dd. split; [exact (proj1 Hdb)|]. split; [exact (proj2 Hdb)|].
      split; [exact P8|]. exact (walk_trans _ _ _ _ K03 (walk_trans _ _ _ _ K4 K')). }
    pose proof R3 as (Ss & Nc & [(c & nv & pre & NvB & RP3)|RF3]).
    - (* an initialised directory *)
      pose proof RP3 as [A3 (ids & rf & sf & km_c & ops & Dw)].
      destruct (dw_settings _ _ _ _ _ _ _ _ _ _ _ _ _ Dw) as (d & Gs & Es).
      apply fdat_some in Gs. destruct Gs as (f & Gf & Df).
      unfold bind at 1, read_file at 1. rewrite Gf, Df, Es.
      rewrite !N.eqb_refl. cbn [negb].
      rewrite (bind_eq _ _ _ _ _ (eq_refl : ret (Ok pre) w3 = (Ok pre, w3))).
      apply (Tail c nv pre w3 w3 Hd3 (eff_refl _ F3 W3) RP3).
      + rewrite (dw_nv _ _ _ _ _ _ _ _ _ _ _ _ _ Dw). lia.
      + exact NvB.
      + now apply walk_refl.
    - (* first-time initialisation; with pre_create_cas_dirs the fan-out directories first (any
         part of the tree may exist already: mkdir_p skips what exists) *)
      destruct RF3 as (E0 & Nfit & _ & Sf3 & Gs3 & Gi3 & Gw3). subst sg.
      apply fdat_none in Gs3.
      unfold bind at 1, read_file at 1. rewrite Gs3.
      assert (PC : exists wp,
                (if c_pre cfg then pre_create_all else ret (Ok tt)) w3 = (Ok tt, wp) /\
                wfault wp = None /\ files (wfs wp) = files (wfs w3) /\
                nstage (wfs wp) = nstage (wfs w3) /\
                (forall d, has_dir (wfs w3) d = true -> has_dir (wfs wp) d = true) /\
                pre_dirs (c_pre cfg) (wfs wp) /\ Walk (fun x => RestB B x []) w3 wp).
      { destruct (c_pre cfg) eqn:Pre.
        - destruct (pre_create_all_ok w3 F3 (proj2 Hd3)) as (wp & Ep & Gp & Pp).
          exists wp. split; [exact Ep|]. split; [exact (proj1 (gr_ext _ _ Gp))|].
          split; [exact (gr_files _ _ Gp)|]. split; [exact (gr_nstage _ _ Gp)|].
          split; [exact (gr_dirs _ _ Gp)|]. split.
          + intros _ h Lh Bh. apply (PreDirs_WfDirs _ Pp). now split.
          + eapply walkm_weaken_run; [|exact F3|exact R3|exact Ep].
            unfold pre_create_all. apply walkm_mkdirs_pre. exact Kmk.
        - exists w3. split; [reflexivity|]. split; [exact F3|]. split; [reflexivity|].
          split; [reflexivity|]. split; [auto|]. split; [discriminate|now apply walk_refl]. }
      destruct PC as (wp & Ep & Fp & Flp & Nsp & Dp & Pdp & Kp).
      pose proof (walk_end _ _ _ Kp) as Rp.
      assert (Wp : FsWf (wfs wp)) by (unfold FsWf; now rewrite Flp).
      assert (Vp : forall q, fdat (wfs wp) q = fdat (wfs w3) q) by (now apply fdat_files).
      assert (Hdp : has_dir (wfs wp) [s_staging] = true /\ has_dir (wfs wp) [s_cas] = true).
      { split; apply Dp; [exact (proj1 Hd3)|exact (proj2 Hd3)]. }
      set (pre := c_pre cfg) in *.
      set (data := enc_settings CURRENT_DB_VERSION pre (c_n cfg)).
      set (v4 := vset (vset (fdat (wfs wp)) PSettingsTmp None) PSettings (Some data)).
      assert (Ap : Aux pre [] (wfs wp)).
      { split; [exact Wp|]. split; [|split; [exact Pdp|intros k c []]].
        intros i Li. rewrite Vp. apply Sf3. now rewrite <- Nsp. }
      assert (A4 : AtW (RestP 0 1 (seg_of 1) pre []) (wfs wp) v4).
      { apply (restp_atw H cfg); [exact Ap| | |].
        - intros i. unfold v4. now rewrite !vset_other by discriminate.
        - intros k c [].
        - apply fresh_disk; [exact Nfit| | |].
          + unfold v4. apply vset_same.
          + unfold v4. rewrite !vset_other by discriminate. now rewrite Vp.
          + intros i. unfold v4. rewrite !vset_other by discriminate. now rewrite Vp. }
      destruct (a_atomic_write (fun x => RestB B x []) PSettings PSettingsTmp data wp Fp Wp
                  eq_refl eq_refl Rp) as (w4 & E4 & X4 & V4 & K4).
      { intros o. apply (restb_atw H cfg); try exact Rp; intros; now rewrite vset_other by discriminate. }
      { eapply atw_weaken; [|exact A4]. intros x Rx. now apply (ToRest B 0 1 pre). }
      match goal with |- exists _ _ _, bind ?X _ w3 = _ /\ _ =>
        assert (ERS : X w3 = (Ok pre, w4)) end.
      { rewrite (bind_eq _ _ _ _ _ Ep). rewrite (bind_eq _ _ _ _ _ E4). reflexivity. }
      rewrite (bind_eq _ _ _ _ _ ERS).
      apply (Tail 0 1 pre wp w4 Hdp X4); [|lia|exact B1|exact (walk_trans _ _ _ _ Kp K4)].
      eapply atw_eff; eassumption.
  Qed.

  Lemma restp_live : forall m x sg, sorted cmp sg -> NoCollide (map snd sg) ->
    km (idx m) = km_of sg -> IdxInv cmp (idx m) -> 1 <= nextv (mwal m) ->
    writer (mwal m) = None ->
    has_dir x [s_staging] = true -> has_dir x [s_cas] = true ->
    Aux (mpre m) sg x -> Live0 m x sg.
  Proof.
    intros m x sg Ss Nc Km Iv Nv Wr Hs Hc (W & Sf & Pd & Ca). constructor; try assumption.
    - intros k c Ik. apply fdat_some. now apply (Ca k).
    - intros i Li. apply fdat_none. now apply Sf.
    - split; [exact Hs|]. split; [exact Hc|exact Pd].
    - split; [exact Nv|]. now rewrite Wr.
  Qed.

  (* G1.  Recovery from any state of the memory-less invariant succeeds and yields a fully
     usable handle for exactly sg: Live0 (so km (idx m') = km_of sg and, by IdxInv, exact
     reference counts and statistics -- C12 after crash recovery), the on-disk invariant in
     the form DiskOk' (see the remark there: the strict DiskOk of DiskInv.v is false after a
     crash between a seal and the next append), FsWf.  Together: Inv'. *)
  Theorem rest_open : forall s sg w, Rest s sg -> wfault w = None -> wfs w = s ->
    exists m' os w', open_with_recover H cfg w = (Ok (m', os), w') /\ wfault w' = None /\
      Live0 m' (wfs w') sg /\ DiskOk' m' (wfs w') sg /\ FsWf (wfs w') /\
      writer (mwal m') = None /\
      ssz (idx m') = match fdat (wfs w') PIndex with Some d => len d | None => 0 end.
  Proof.
    intros s sg w R F Ws. pose proof R as (Ss & Nc & _).
    destruct (rest_restb H cfg n_pos _ _ R) as (B & B1 & RB).
    destruct (a_open B s sg w RB B1 F Ws)
      as (m' & os & w' & E & F' & Wr & Nv & _ & Km & Iv & RP & Hs & Hc & Sz & _).
    exists m', os, w'. split; [exact E|]. split; [exact F'|]. destruct RP as [A D].
    split; [now apply restp_live|]. split; [|split; [exact (proj1 A)|split; [exact Wr|exact Sz]]].
    unfold CrashInv.DiskOk'. now rewrite Wr.
  Qed.

  (* C12 after crash recovery, spelled out: key map, reference counts and statistics of the
     recovered handle are exactly those determined by sg *)
  Corollary C12_after_crash : forall s sg w, Rest s sg -> wfault w = None -> wfs w = s ->
    exists m' os w', open_with_recover H cfg w = (Ok (m', os), w') /\
      km (idx m') = km_of sg /\
      (forall h, rc_get (rc (idx m')) h =
                 if count_refs (km_of sg) h =? 0 then None else Some (count_refs (km_of sg) h)) /\
      ub (idx m') = N.of_nat (length (uniq_sizes (km_of sg) [])) /\
      tb (idx m') = usum (uniq_sizes (km_of sg) []) /\
      ssz (idx m') = match fdat (wfs w') PIndex with Some d => len d | None => 0 end.
  Proof.
    intros s sg w R F Ws.
    destruct (rest_open s sg w R F Ws) as (m' & os & w' & E & _ & L & _ & _ & _ & Sz).
    exists m', os, w'. split; [exact E|]. destruct L as [_ Km (_ & _ & Hr & _ & Hu & Ht) _ _ _ _ _].
    rewrite <- Km. repeat split; assumption.
  Qed.

  Corollary rest_open_inv' : forall s sg w, Rest s sg -> wfault w = None -> wfs w = s ->
    exists m' os w', open_with_recover H cfg w = (Ok (m', os), w') /\ wfault w' = None /\
      Inv' m' (wfs w') sg /\ writer (mwal m') = None.
  Proof.
    intros s sg w R F Ws.
    destruct (rest_open s sg w R F Ws) as (m' & os & w' & E & F' & L & D & W & Wr & _).
    exists m', os, w'. split; [exact E|]. split; [exact F'|]. split; [|exact Wr]. now split.
  Qed.

  (* G3.  Recovery is crash-safe: every intermediate filesystem of open_with_recover started
     in a state of the invariant is a state of the invariant, for the same map. *)
  Theorem open_crash : forall s sg w, Rest s sg -> wfault w = None -> wfs w = s ->
    exists m' os w', open_with_recover H cfg w = (Ok (m', os), w') /\
                     Along (fun x => Rest x sg) w w'.
  Proof.
    intros s sg w R F Ws. destruct (rest_restb H cfg n_pos _ _ R) as (B & B1 & RB).
    destruct (a_open B s sg w RB B1 F Ws) as (m' & os & w' & E & _ & _ & _ & _ & _ & _ & _ & _ & _ & _ & K).
    exists m', os, w'. split; [exact E|].
    eapply along_weaken; [|exact (walk_along _ _ _ K)]. intros x. apply (restb_rest H cfg).
  Qed.

  (* the same with the bound on the next version (used for whole histories) *)
  Theorem rest_open_b : forall B s sg w, RestB B s sg -> 1 <= B -> wfault w = None -> wfs w = s ->
    exists m' os w', open_with_recover H cfg w = (Ok (m', os), w') /\ wfault w' = None /\
      Inv' m' (wfs w') sg /\ writer (mwal m') = None /\ nextv (mwal m') <= B /\
      Along (fun x => RestB B x sg) w w'.
  Proof.
    intros B s sg w RB B1 F Ws. pose proof RB as (Ss & Nc & _).
    destruct (a_open B s sg w RB B1 F Ws)
      as (m' & os & w' & E & F' & Wr & Nv & NvB & Km & Iv & RP & Hs & Hc & Sz & K).
    exists m', os, w'. split; [exact E|]. split; [exact F'|]. destruct RP as [A D].
    split; [|split; [exact Wr|split; [exact NvB|exact (walk_along _ _ _ K)]]].
    split; [now apply restp_live|]. split; [|exact (proj1 A)].
    unfold CrashInv.DiskOk'. now rewrite Wr.
  Qed.

  (* the filesystem left by a recovery killed after n calls *)
  Definition crash_open (n : nat) (x : fs) : fs :=
    let w' := snd (open_with_recover H cfg (init_world x None)) in
    crash_fs n (rev (wtrace w')) x.

  Lemma along_crash : forall (P : fs -> Prop) x w' n, Along P (init_world x None) w' ->
    P (crash_fs n (rev (wtrace w')) x).
  Proof.
    intros P x w' n (_ & tr & E & A). cbn [init_world wtrace wfs] in *. rewrite app_nil_r in E.
    rewrite E. unfold crash_fs. destruct (Nat.le_gt_cases n (length tr)) as [L|L]; [now apply A|].
    rewrite firstn_all2 by (rewrite rev_length; lia).
    rewrite <- (firstn_all (rev tr)), rev_length. apply A. lia.
  Qed.

  Theorem crash_open_restb : forall B n x sg, RestB B x sg -> 1 <= B -> RestB B (crash_open n x) sg.
  Proof.
    intros B n x sg R B1. unfold crash_open.
    destruct (rest_open_b B x sg (init_world x None) R B1 eq_refl eq_refl)
      as (m' & os & w' & E & _ & _ & _ & _ & A).
    rewrite E. cbn [snd]. now apply (along_crash (fun y => RestB B y sg)).
  Qed.

  Theorem crash_open_rest : forall n x sg, Rest x sg -> Rest (crash_open n x) sg.
  Proof.
    intros n x sg R. unfold crash_open.
    destruct (open_crash x sg (init_world x None) R eq_refl eq_refl) as (m' & os & w' & E & A).
    rewrite E. cbn [snd]. now apply (along_crash (fun y => Rest y sg)).
  Qed.

  (* nested crashes: a crash during the recovery from a crash (during the recovery from ...),
     to any depth, leaves a state from which the next open recovers the same map *)
  Theorem nested_crash_open : forall ns x sg, Rest x sg ->
    Rest (fold_left (fun y n => crash_open n y) ns x) sg.
  Proof.
    induction ns as [|n ns IH]; intros x sg R; cbn [fold_left]; [exact R|].
    apply IH. now apply crash_open_rest.
  Qed.

  Corollary nested_crash_then_open : forall ns x sg, Rest x sg ->
    let y := fold_left (fun y n => crash_open n y) ns x in
    exists m' os w', open_with_recover H cfg (init_world y None) = (Ok (m', os), w') /\
                     Inv' m' (wfs w') sg.
  Proof.
    intros ns x sg R y.
    destruct (rest_open_inv' y sg (init_world y None) (nested_crash_open ns x sg R) eq_refl eq_refl)
      as (m' & os & w' & E & _ & IV & _).
    now exists m', os, w'.
  Qed.

  (* the empty directory is a state of the invariant (first-time clause), for either choice
     of pre_create_cas_dirs *)
  Lemma rest_empty : c_n cfg < 2 ^ 64 -> Rest empty_fs [].
  Proof.
    intros Nfit. split; [constructor|]. split; [intros a b []|]. right.
    split; [reflexivity|]. split; [exact Nfit|]. split; [exact empty_fs_wf|].
    repeat split; intros; reflexivity.
  Qed.

  (* The FIRST open of an empty directory, killed after ANY number of its calls -- also in the
     middle of the 2 x 65,536 mkdir_p steps of the fan-out tree when pre_create_cas_dirs = true --
     and the recoveries from that killed again, to any depth: the state left is a state of the
     invariant for the empty map, and the next open succeeds with a handle for the empty map
     (it creates the rest of the tree, then writes the settings file). *)
  Theorem first_open_crash : c_n cfg < 2 ^ 64 -> forall ns,
    let y := fold_left (fun y n => crash_open n y) ns empty_fs in
    Rest y [] /\
    exists m' os w', open_with_recover H cfg (init_world y None) = (Ok (m', os), w') /\
                     Inv' m' (wfs w') [].
  Proof.
    intros Nfit ns y. pose proof (nested_crash_open ns empty_fs [] (rest_empty Nfit)) as Ry.
    fold y in Ry. split; [exact Ry|].
    destruct (rest_open_inv' y [] (init_world y None) Ry eq_refl eq_refl)
      as (m' & os & w' & E & _ & IV & _).
    now exists m', os, w'.
  Qed.
End CrashOpen.

Print Assumptions rest_open.
Print Assumptions open_crash.
Print Assumptions nested_crash_then_open.
Print Assumptions first_open_crash.
