(* InodeProofs.v -- long-lived readers (C06): the inode-level model of theories/Inode.v.
   I1  the name table and the content table
   I2  [iwf] is kept by every call
   I3  name-level agreement with FS.v (apply_call / replay_calls), for effective traces
   I4  the reader theorem: under cas_safe traces an inode that is reachable only through names
       under cas/ (or through no name at all) keeps its content
   I5  recorded traces are effective (structural walk over the programs of the data API)
   I6  readers along API histories
   I7  closed examples *)
From Cas Require Import History Inode.
From CasProofs Require Import BaseProofs SMapProofs IndexProofs RangeProofs
  StoreFS StoreInv StoreWrite StoreRead StoreHist.
Open Scope N_scope.

Arguments N.add : simpl never.
Arguments N.sub : simpl never.
Arguments N.mul : simpl never.
Arguments N.div : simpl never.
Arguments N.modulo : simpl never.
Arguments N.eqb : simpl never.
Arguments N.ltb : simpl never.
Arguments N.leb : simpl never.
Arguments N.pow : simpl never.

(* ------------------------------------------------------------------ *)
(* I1. tables                                                          *)
(* ------------------------------------------------------------------ *)
Lemma blook_in : forall l p i, blook l p = Some i -> In (p, i) l.
Proof.
  induction l as [|[q j] l IH]; intros p i E; cbn [blook] in E; [discriminate|].
  destruct (path_eqb_spec p q) as [X|X].
  - inversion E; subst. now left.
  - right. now apply IH.
Qed.

Lemma blook_none_iff : forall l p, blook l p = None <-> ~ In p (map fst l).
Proof.
  induction l as [|[q j] l IH]; intros p; cbn [blook map fst In].
  - split; [intros _ []|reflexivity].
  - destruct (path_eqb_spec p q) as [E|E].
    + split; [discriminate|]. intros N. exfalso. apply N. left. now symmetry.
    + rewrite IH. split.
      * intros N [X|X]; [apply E; now symmetry|now apply N].
      * intros N X. apply N. now right.
Qed.

Lemma in_blook : forall l p i, NoDup (map fst l) -> In (p, i) l -> blook l p = Some i.
Proof.
  induction l as [|[q j] l IH]; intros p i ND I; [destruct I|].
  inversion ND as [|? ? N1 ND']; subst. cbn [blook]. destruct I as [I|I].
  - inversion I; subst. now rewrite path_eqb_refl.
  - destruct (path_eqb_spec p q) as [X|X].
    + subst q. exfalso. apply N1. cbn [fst]. apply in_map_iff. now exists (p, i).
    + now apply IH.
Qed.

Lemma blook_bset : forall l p i q,
  blook (bset l p i) q = if path_eqb q p then Some i else blook l q.
Proof.
  induction l as [|[r j] l IH]; intros p i q; cbn [bset blook].
  - reflexivity.
  - destruct (path_eqb_spec p r) as [E|E]; cbn [blook].
    + subst r. destruct (path_eqb q p); reflexivity.
    + rewrite IH. destruct (path_eqb_spec q r) as [E2|E2]; [|reflexivity].
      subst r. rewrite path_eqb_neq; [reflexivity|]. intros X. apply E. now symmetry.
Qed.

Lemma in_bremove : forall l p q j, In (q, j) (bremove l p) -> In (q, j) l.
Proof.
  induction l as [|[r k] l IH]; intros p q j; cbn [bremove In]; [tauto|].
  destruct (path_eqb p r); cbn [In].
  - intros I. now right.
  - intros [I|I]; [now left|right; eapply IH; exact I].
Qed.

Lemma bremove_names : forall l p, NoDup (map fst l) -> NoDup (map fst (bremove l p)).
Proof.
  induction l as [|[r k] l IH]; intros p ND; cbn [bremove map fst]; [constructor|].
  inversion ND as [|? ? N1 ND']; subst.
  destruct (path_eqb p r); cbn [map fst]; [exact ND'|].
  constructor; [|apply IH, ND']. intros I. apply N1. apply in_map_iff in I.
  destruct I as ([a b] & E & I). cbn [fst] in E. subst a. apply in_bremove in I.
  apply in_map_iff. now exists (r, b).
Qed.

Lemma bremove_inodes : forall l p, NoDup (map snd l) -> NoDup (map snd (bremove l p)).
Proof.
  induction l as [|[r k] l IH]; intros p ND; cbn [bremove map snd]; [constructor|].
  inversion ND as [|? ? N1 ND']; subst.
  destruct (path_eqb p r); cbn [map snd]; [exact ND'|].
  constructor; [|apply IH, ND']. intros I. apply N1. apply in_map_iff in I.
  destruct I as ([a b] & E & I). cbn [snd] in E. subst b. apply in_bremove in I.
  apply in_map_iff. now exists (a, k).
Qed.

Lemma blook_bremove : forall l p q, NoDup (map fst l) ->
  blook (bremove l p) q = if path_eqb q p then None else blook l q.
Proof.
  induction l as [|[r k] l IH]; intros p q ND; cbn [bremove blook].
  - now destruct (path_eqb q p).
  - inversion ND as [|? ? N1 ND']; subst. cbn [fst] in N1.
    destruct (path_eqb_spec p r) as [E|E]; cbn [blook].
    + subst r. destruct (path_eqb_spec q p) as [E2|E2]; [|reflexivity].
      subst q. now apply blook_none_iff.
    + rewrite IH by exact ND'. destruct (path_eqb_spec q r) as [E2|E2]; [|reflexivity].
      subst r. rewrite path_eqb_neq; [reflexivity|]. intros X. apply E. now symmetry.
Qed.

Lemma in_bset : forall l p i q j, In (q, j) (bset l p i) -> (q = p /\ j = i) \/ In (q, j) l.
Proof.
  induction l as [|[r k] l IH]; intros p i q j; cbn [bset In].
  - intros [I|[]]. inversion I. now left.
  - destruct (path_eqb_spec p r) as [E|E]; cbn [In].
    + intros [I|I]; [inversion I; subst; now left|right; now right].
    + intros [I|I]; [right; now left|]. apply IH in I. destruct I; [now left|right; now right].
Qed.

Lemma bset_names : forall l p i, NoDup (map fst l) -> NoDup (map fst (bset l p i)).
Proof.
  induction l as [|[r k] l IH]; intros p i ND; cbn [bset map fst].
  - constructor; [intros []|constructor].
  - inversion ND as [|? ? N1 ND']; subst. cbn [fst] in N1.
    destruct (path_eqb_spec p r) as [E|E]; cbn [map fst]; [now constructor|].
    constructor; [|apply IH, ND']. intros I. apply in_map_iff in I.
    destruct I as ([a b] & Ea & I). cbn [fst] in Ea. subst a. apply in_bset in I.
    destruct I as [[X _]|I]; [apply E; now symmetry|]. apply N1. apply in_map_iff. now exists (r, b).
Qed.

(* the inode i may already be in the table, but then only under the name p itself *)
Lemma bset_inodes : forall l p i, NoDup (map fst l) -> NoDup (map snd l) ->
  (forall q j, In (q, j) l -> q <> p -> j <> i) ->
  NoDup (map snd (bset l p i)).
Proof.
  induction l as [|[r k] l IH]; intros p i NDf ND Fr; cbn [bset map snd].
  - constructor; [intros []|constructor].
  - inversion ND as [|? ? N1 ND']; subst. cbn [snd] in N1.
    inversion NDf as [|? ? N1f NDf']; subst. cbn [fst] in N1f.
    destruct (path_eqb_spec p r) as [E|E]; cbn [map snd].
    + subst r. constructor; [|exact ND']. intros I. apply in_map_iff in I.
      destruct I as ([a b] & Eb & I). cbn [snd] in Eb. subst b.
      destruct (path_eq_dec a p) as [X|X].
      * subst a. apply N1f. apply in_map_iff. now exists (p, i).
      * apply (Fr a i); [now right|exact X|reflexivity].
    + constructor.
      * intros I. apply in_map_iff in I. destruct I as ([a b] & Eb & I). cbn [snd] in Eb. subst b.
        apply in_bset in I. destruct I as [[_ X]|I].
        -- subst k. apply (Fr r i); [now left| |reflexivity]. intros Y. apply E. now symmetry.
        -- apply N1. apply in_map_iff. now exists (a, k).
      * apply IH; [exact NDf'|exact ND'|]. intros q j I. apply Fr. now right.
Qed.

Lemma nolink_inj : forall (l : list (path * nat)) a b i, NoDup (map snd l) -> In (a, i) l -> In (b, i) l -> a = b.
Proof.
  induction l as [|[r k] l IH]; intros a b i ND Ia Ib; [destruct Ia|].
  inversion ND as [|? ? N1 ND']; subst. cbn [snd] in N1.
  destruct Ia as [Ia|Ia], Ib as [Ib|Ib].
  - congruence.
  - inversion Ia; subst. exfalso. apply N1. apply in_map_iff. now exists (b, i).
  - inversion Ib; subst. exfalso. apply N1. apply in_map_iff. now exists (a, i).
  - eapply IH; eassumption.
Qed.

Lemma dget_dset : forall d i c j, dget (dset d i c) j = if Nat.eqb j i then Some c else dget d j.
Proof.
  induction d as [|[k c'] d IH]; intros i c j; cbn [dset dget]; [reflexivity|].
  destruct (Nat.eqb_spec i k) as [E|E]; cbn [dget].
  - subst k. destruct (Nat.eqb j i); reflexivity.
  - rewrite IH. destruct (Nat.eqb_spec j k) as [E2|E2]; [|reflexivity].
    subst k. destruct (Nat.eqb_spec j i); [congruence|reflexivity].
Qed.

Lemma in_dset : forall d i c j c', In (j, c') (dset d i c) -> j = i \/ In (j, c') d.
Proof.
  induction d as [|[k c0] d IH]; intros i c j c'; cbn [dset In].
  - intros [I|[]]. inversion I. now left.
  - destruct (Nat.eqb_spec i k) as [E|E]; cbn [In].
    + intros [I|I]; [inversion I; subst; now left|right; now right].
    + intros [I|I]; [right; now left|]. apply IH in I. destruct I; [now left|right; now right].
Qed.

Lemma dget_in : forall d i c, dget d i = Some c -> In (i, c) d.
Proof.
  induction d as [|[k c0] d IH]; intros i c E; cbn [dget] in E; [discriminate|].
  destruct (Nat.eqb_spec i k) as [X|X].
  - inversion E; subst. now left.
  - right. now apply IH.
Qed.

(* ------------------------------------------------------------------ *)
(* I2. well-formedness                                                 *)
(* ------------------------------------------------------------------ *)
Lemma empty_ifs_wf : iwf empty_ifs.
Proof. constructor; cbn; try constructor; intros; contradiction. Qed.

Lemma ilookup_in : forall s p i, ilookup s p = Some i -> In (p, i) (ibind s).
Proof. intros s p i. apply blook_in. Qed.

Lemma ilookup_lt : forall s p i, iwf s -> ilookup s p = Some i -> (i < inext s)%nat.
Proof. intros s p i W E. eapply iw_bound; [exact W|]. apply ilookup_in. exact E. Qed.

Lemma iread_lt : forall s i c, iwf s -> iread s i = Some c -> (i < inext s)%nat.
Proof. intros s i c W E. eapply iw_data; [exact W|]. apply dget_in. exact E. Qed.

(* no hard links: two names of one inode are the same name *)
Lemma ilookup_inj : forall s p q i, iwf s -> ilookup s p = Some i -> ilookup s q = Some i -> p = q.
Proof.
  intros s p q i W Ep Eq. eapply nolink_inj; [exact (iw_nolink s W)| |]; apply ilookup_in; eassumption.
Qed.

Lemma iwrite_wf : forall s i c, iwf s -> (i < inext s)%nat -> iwf (iwrite s i c).
Proof.
  intros s i c [W1 W2 W3 W4 W5] Li. constructor; cbn [iwrite ibind idata inext]; auto.
  - intros j c' I. apply in_dset in I. destruct I as [->|I]; [exact Li|eauto].
  - intros p j I. rewrite dget_dset. destruct (Nat.eqb j i); [discriminate|eauto].
Qed.

Lemma ialloc_wf : forall s p, iwf s -> iwf (ialloc s p).
Proof.
  intros s p [W1 W2 W3 W4 W5]. constructor; cbn [ialloc ibind idata inext].
  - now apply bset_names.
  - apply bset_inodes; [exact W1|exact W2|]. intros q j I _ X. subst j. apply W3 in I. lia.
  - intros q j I. apply in_bset in I. destruct I as [[_ ->]|I]; [lia|]. apply W3 in I. lia.
  - intros j c' I. apply in_dset in I. destruct I as [->|I]; [lia|]. apply W4 in I. lia.
  - intros q j I. rewrite dget_dset. destruct (Nat.eqb_spec j (inext s)) as [X|X]; [discriminate|].
    apply in_bset in I. destruct I as [[_ ->]|I]; [now elim X|eauto].
Qed.

Lemma irename_wf : forall s p q i, iwf s -> ilookup s p = Some i ->
  iwf (mkIfs (bset (bremove (ibind s) p) q i) (idata s) (inext s)).
Proof.
  intros s p q i W E. pose proof (ilookup_in _ _ _ E) as Ip. destruct W as [W1 W2 W3 W4 W5].
  constructor; cbn [ibind idata inext].
  - now apply bset_names, bremove_names.
  - apply bset_inodes; [now apply bremove_names|now apply bremove_inodes|].
    intros r j I _ X. subst j.
    assert (Er : blook (bremove (ibind s) p) r = Some i) by (apply in_blook; [now apply bremove_names|exact I]).
    rewrite blook_bremove in Er by exact W1. destruct (path_eqb_spec r p) as [Y|Y]; [discriminate|].
    apply Y. eapply nolink_inj; [exact W2| |exact Ip]. now apply blook_in.
  - intros r j I. apply in_bset in I. destruct I as [[_ ->]|I]; [eauto|]. apply in_bremove in I. eauto.
  - exact W4.
  - intros r j I. apply in_bset in I. destruct I as [[_ ->]|I]; [eauto|]. apply in_bremove in I. eauto.
Qed.

Lemma iunlink_wf : forall s p, iwf s -> iwf (mkIfs (bremove (ibind s) p) (idata s) (inext s)).
Proof.
  intros s p [W1 W2 W3 W4 W5]. constructor; cbn [ibind idata inext].
  - now apply bremove_names.
  - now apply bremove_inodes.
  - intros r j I. apply in_bremove in I. eauto.
  - exact W4.
  - intros r j I. apply in_bremove in I. eauto.
Qed.

(* every call keeps the inode filesystem well formed *)
Lemma istep_wf : forall s c, iwf s -> iwf (istep s c).
Proof.
  intros s c W. destruct c; cbn [istep]; try exact W.
  - destruct (ilookup s p) as [i|] eqn:E; [|now apply ialloc_wf].
    apply iwrite_wf; [exact W|]. eapply ilookup_lt; eassumption.
  - destruct (ilookup s p); [exact W|now apply ialloc_wf].
  - destruct (ilookup s p); [exact W|now apply ialloc_wf].
  - destruct (ilookup s p) as [i|] eqn:E; [|exact W]. destruct (iread s i); [|exact W].
    apply iwrite_wf; [exact W|]. eapply ilookup_lt; eassumption.
  - destruct (ilookup s p) as [i|] eqn:E; [|exact W]. now apply irename_wf.
  - now apply iunlink_wf.
Qed.

Lemma iev_wf : forall s e, iwf s -> iwf (iev s e).
Proof. intros s [c|c] W; cbn [iev]; [now apply istep_wf|exact W]. Qed.

Lemma irun_wf : forall tr s, iwf s -> iwf (irun s tr).
Proof.
  unfold irun. induction tr as [|e tr IH]; intros s W; cbn [fold_left]; [exact W|].
  apply IH. now apply iev_wf.
Qed.

Lemma irun_app : forall a b s, irun s (a ++ b) = irun (irun s a) b.
Proof. intros. unfold irun. apply fold_left_app. Qed.

(* ------------------------------------------------------------------ *)
(* I3. what is visible under each name, and agreement with FS.v        *)
(* ------------------------------------------------------------------ *)
Lemma abs_iwrite : forall s p i c r, iwf s -> ilookup s p = Some i ->
  abs_i (iwrite s i c) r = if path_eqb r p then Some c else abs_i s r.
Proof.
  intros s p i c r W E. unfold abs_i, ilookup, iread. cbn [iwrite ibind idata].
  destruct (path_eqb_spec r p) as [X|X].
  - subst r. unfold ilookup in E. rewrite E, dget_dset, Nat.eqb_refl. reflexivity.
  - destruct (blook (ibind s) r) as [j|] eqn:Er; [|reflexivity].
    rewrite dget_dset. destruct (Nat.eqb_spec j i) as [Y|Y]; [|reflexivity].
    subst j. elim X. eapply ilookup_inj; eassumption.
Qed.

Lemma abs_ialloc : forall s p r, iwf s ->
  abs_i (ialloc s p) r = if path_eqb r p then Some [] else abs_i s r.
Proof.
  intros s p r W. unfold abs_i, ilookup, iread. cbn [ialloc ibind idata].
  rewrite blook_bset. destruct (path_eqb_spec r p) as [X|X].
  - now rewrite dget_dset, Nat.eqb_refl.
  - destruct (blook (ibind s) r) as [j|] eqn:Er; [|reflexivity].
    rewrite dget_dset. destruct (Nat.eqb_spec j (inext s)) as [Y|Y]; [|reflexivity].
    pose proof (ilookup_lt s r j W Er). lia.
Qed.

Lemma abs_irename : forall s p q i r, iwf s -> ilookup s p = Some i ->
  abs_i (mkIfs (bset (bremove (ibind s) p) q i) (idata s) (inext s)) r
  = if path_eqb r q then abs_i s p else if path_eqb r p then None else abs_i s r.
Proof.
  intros s p q i r W E. unfold abs_i, ilookup, iread in *. cbn [ibind idata].
  rewrite blook_bset, blook_bremove by exact (iw_names s W). rewrite E.
  destruct (path_eqb r q); [reflexivity|]. destruct (path_eqb r p); reflexivity.
Qed.

Lemma abs_iunlink : forall s p r, iwf s ->
  abs_i (mkIfs (bremove (ibind s) p) (idata s) (inext s)) r
  = if path_eqb r p then None else abs_i s r.
Proof.
  intros s p r W. unfold abs_i, ilookup, iread. cbn [ibind idata].
  rewrite blook_bremove by exact (iw_names s W). destruct (path_eqb r p); reflexivity.
Qed.

(* the name-level abstraction relation *)
Definition agree (s : ifs) (x : fs) : Prop := forall p, abs_i s p = option_map fdata (fget x p).

Lemma abs_some_lookup : forall s p c, abs_i s p = Some c ->
  exists i, ilookup s p = Some i /\ iread s i = Some c.
Proof.
  intros s p c E. unfold abs_i in E. destruct (ilookup s p) as [i|]; [|discriminate]. now exists i.
Qed.

Lemma abs_none_lookup : forall s p, iwf s -> abs_i s p = None -> ilookup s p = None.
Proof.
  intros s p W E. unfold abs_i in E. destruct (ilookup s p) as [i|] eqn:El; [|reflexivity].
  exfalso. exact (iw_live s W p i (ilookup_in _ _ _ El) E).
Qed.

(* one effective call *)
Lemma istep_agree : forall c s x x', iwf s -> FsWf x -> agree s x ->
  apply_call c x = Ok x' -> agree (istep s c) x'.
Proof.
  intros c s x x' W Wx A E r. pose proof (A r) as Ar. destruct c; cbn [apply_call istep] in *.
  - destruct (has_dir x d); [discriminate|].
    destruct (removelast d); [|destruct (has_dir x _)]; inversion E; subst; exact Ar.
  - destruct (parent_ok x p); inversion E; subst. fold (upd x p (mkFile [] 0)). rewrite fget_upd.
    destruct (ilookup s p) as [i|] eqn:El.
    + rewrite (abs_iwrite s p i [] r W El). now destruct (path_eqb r p).
    + rewrite abs_ialloc by exact W. now destruct (path_eqb r p).
  - destruct (parent_ok x p); [|discriminate]. destruct (fget x p) as [f|] eqn:G; inversion E; subst.
    assert (El : ilookup s p = None).
    { apply abs_none_lookup; [exact W|]. now rewrite (A p), G. }
    rewrite El, abs_ialloc by exact W.
    change (fget _ r) with (fget (upd x p (mkFile [] 0)) r). rewrite fget_upd.
    now destruct (path_eqb r p).
  - destruct (parent_ok x p); [|discriminate]. destruct (fget x p) as [f|] eqn:G; inversion E; subst.
    + pose proof (A p) as Ap. rewrite G in Ap. cbn [option_map] in Ap.
      destruct (abs_some_lookup _ _ _ Ap) as (i & El & _). rewrite El. exact Ar.
    + assert (El : ilookup s p = None).
      { apply abs_none_lookup; [exact W|]. now rewrite (A p), G. }
      rewrite El, abs_ialloc by exact W. fold (upd x p (mkFile [] 0)). rewrite fget_upd.
      now destruct (path_eqb r p).
  - destruct (fget x p) as [f|] eqn:G; inversion E; subst.
    pose proof (A p) as Ap. rewrite G in Ap. cbn [option_map] in Ap.
    destruct (abs_some_lookup _ _ _ Ap) as (i & El & Ei). rewrite El, Ei.
    rewrite (abs_iwrite s p i _ r W El).
    fold (upd x p (mkFile (fdata f ++ b) (fsynced f))). rewrite fget_upd.
    now destruct (path_eqb r p).
  - destruct (fget x p) as [f|] eqn:G; inversion E; subst.
    fold (upd x p (mkFile (fdata f) (length (fdata f)))). rewrite fget_upd.
    destruct (path_eqb_spec r p) as [X|X]; [|exact Ar]. subst r. now rewrite Ar, G.
  - destruct (fget x p) as [f|] eqn:G; [|discriminate].
    destruct (parent_ok x q); inversion E; subst.
    pose proof (A p) as Ap. rewrite G in Ap. cbn [option_map] in Ap.
    destruct (abs_some_lookup _ _ _ Ap) as (i & El & Ei). rewrite El.
    rewrite (abs_irename s p q i r W El). fold (ren x p q f). rewrite fget_ren.
    destruct (path_eqb r q); [exact Ap|].
    destruct (path_eqb_spec r p) as [X|X].
    + subst r. now rewrite fget_del_same.
    + now rewrite fget_del_other.
  - destruct (fget x p) as [f|] eqn:G; inversion E; subst.
    rewrite abs_iunlink by exact W. fold (del x p).
    destruct (path_eqb_spec r p) as [X|X].
    + subst r. now rewrite fget_del_same.
    + now rewrite fget_del_other.
Qed.

Lemma effective_app : forall a b x,
  effective (a ++ b) x <-> effective a x /\ effective b (replay_calls a x).
Proof.
  induction a as [|e a IH]; intros b x; cbn [app effective replay_calls]; [tauto|].
  destruct e as [c|c]; [|apply IH]. destruct (apply_call c x); [apply IH|tauto].
Qed.

Lemma replay_wf : forall tr x, FsWf x -> FsWf (replay_calls tr x).
Proof.
  induction tr as [|e tr IH]; intros x W; cbn [replay_calls]; [exact W|].
  destruct e as [c|c]; [|now apply IH]. destruct (apply_call c x) as [x'|] eqn:E; [|now apply IH].
  apply IH. eapply apply_call_wf; eassumption.
Qed.

(* (a) name-level agreement: along an effective trace (every recorded TCall takes effect when
   replayed: what do_call records, see I5) the content visible under every name in the inode
   model is the content FS.v gives.  FsWf / iwf: no duplicate entries in the two list
   representations (with duplicates an unlink uncovers the shadowed entry). *)
Theorem inode_agrees_with_fs : forall tr s0 x0,
  iwf s0 -> FsWf x0 -> effective tr x0 -> agree s0 x0 ->
  agree (irun s0 tr) (replay_calls tr x0).
Proof.
  unfold irun. induction tr as [|e tr IH]; intros s0 x0 W Wx Ef A; cbn [fold_left replay_calls]; [exact A|].
  destruct e as [c|c]; cbn [effective iev] in *; [|now apply IH].
  destruct (apply_call c x0) as [x1|] eqn:E; [|contradiction].
  apply IH; [now apply istep_wf|eapply apply_call_wf; eassumption|exact Ef|].
  eapply istep_agree; eassumption.
Qed.

Corollary inode_name_agreement : forall tr s0 x0,
  iwf s0 -> FsWf x0 -> effective tr x0 ->
  (forall p, abs_i s0 p = option_map fdata (fget x0 p)) ->
  forall p, abs_i (irun s0 tr) p = option_map fdata (fget (replay_calls tr x0) p).
Proof. exact inode_agrees_with_fs. Qed.

(* at every crash point of the trace as well *)
Corollary inode_name_agreement_crash : forall tr s0 x0 n,
  iwf s0 -> FsWf x0 -> effective tr x0 ->
  (forall p, abs_i s0 p = option_map fdata (fget x0 p)) ->
  forall p, abs_i (irun s0 (firstn n tr)) p = option_map fdata (fget (crash_fs n tr x0) p).
Proof.
  intros tr s0 x0 n W Wx Ef A. unfold crash_fs. apply inode_agrees_with_fs; try assumption.
  rewrite <- (firstn_skipn n tr) in Ef. apply effective_app in Ef. exact (proj1 Ef).
Qed.

(* ------------------------------------------------------------------ *)
(* I4. the reader theorem                                              *)
(* ------------------------------------------------------------------ *)
(* the invariant: the reader's inode holds c, and every name that still denotes it is under cas/ *)
Definition reader_inv (ino : nat) (c : bytes) (s : ifs) : Prop :=
  iwf s /\ iread s ino = Some c /\ forall q, ilookup s q = Some ino -> is_cas q.

Lemma not_cas_is_cas : forall q, not_cas q -> is_cas q -> False.
Proof. intros [] N C; cbn in *; contradiction. Qed.

Lemma staging_is_cas : forall q, is_staging q -> is_cas q -> False.
Proof. intros [] N C; cbn in *; contradiction. Qed.

Lemma reader_inv_write : forall ino c s q i c', reader_inv ino c s -> not_cas q ->
  ilookup s q = Some i -> reader_inv ino c (iwrite s i c').
Proof.
  intros ino c s q i c' (W & R & B) Nq El.
  assert (Ni : ino <> i).
  { intros X. subst i. exact (not_cas_is_cas q Nq (B q El)). }
  split; [apply iwrite_wf; [exact W|eapply ilookup_lt; eassumption]|]. split; [|exact B].
  unfold iread. cbn [iwrite idata]. rewrite dget_dset.
  destruct (Nat.eqb_spec ino i); [contradiction|exact R].
Qed.

Lemma reader_inv_alloc : forall ino c s q, reader_inv ino c s -> reader_inv ino c (ialloc s q).
Proof.
  intros ino c s q (W & R & B). pose proof (iread_lt s ino c W R) as Lt.
  split; [now apply ialloc_wf|]. split.
  - unfold iread. cbn [ialloc idata]. rewrite dget_dset.
    destruct (Nat.eqb_spec ino (inext s)); [lia|exact R].
  - intros r. unfold ilookup. cbn [ialloc ibind]. rewrite blook_bset.
    destruct (path_eqb r q); [|apply B]. intros X. inversion X. lia.
Qed.

Lemma reader_inv_step : forall ino c s k, cas_safe_call k -> reader_inv ino c s ->
  reader_inv ino c (istep s k).
Proof.
  intros ino c s k Sf RI. pose proof RI as (W & R & B).
  destruct k; cbn [cas_safe_call istep] in *; try exact RI.
  - destruct (ilookup s p) as [i|] eqn:El; [|now apply reader_inv_alloc].
    eapply reader_inv_write; eassumption.
  - destruct (ilookup s p); [exact RI|now apply reader_inv_alloc].
  - destruct (ilookup s p); [exact RI|now apply reader_inv_alloc].
  - destruct (ilookup s p) as [i|] eqn:El; [|exact RI]. destruct (iread s i); [|exact RI].
    eapply reader_inv_write; eassumption.
  - destruct (ilookup s p) as [i|] eqn:El; [|exact RI].
    split; [now apply irename_wf|]. split; [exact R|].
    intros r. unfold ilookup. cbn [ibind]. rewrite blook_bset, blook_bremove by exact (iw_names s W).
    destruct (path_eqb r q).
    + intros X. inversion X; subst i. exfalso. pose proof (B p El) as Cp.
      destruct Sf as [Sp|[Np _]]; [exact (staging_is_cas p Sp Cp)|exact (not_cas_is_cas p Np Cp)].
    + destruct (path_eqb r p); [discriminate|apply B].
  - split; [now apply iunlink_wf|]. split; [exact R|].
    intros r. unfold ilookup. cbn [ibind]. rewrite blook_bremove by exact (iw_names s W).
    destruct (path_eqb r p); [discriminate|apply B].
Qed.

Lemma reader_inv_run : forall ino c tr s, Forall cas_safe tr -> reader_inv ino c s ->
  reader_inv ino c (irun s tr).
Proof.
  unfold irun. intros ino c. induction tr as [|e tr IH]; intros s F RI; cbn [fold_left]; [exact RI|].
  inversion F as [|? ? Fe Ftr]; subst. apply IH; [exact Ftr|].
  destruct e as [k|k]; cbn [iev]; [|exact RI]. now apply reader_inv_step.
Qed.

Lemma Forall_firstn : forall {A} (P : A -> Prop) n l, Forall P l -> Forall P (firstn n l).
Proof.
  intros A P n l F. rewrite <- (firstn_skipn n l) in F. apply Forall_app in F. exact (proj1 F).
Qed.

(* (b) general form: the descriptor may be older than the current name table (its name may
   already have been unlinked): all that matters is that no name outside cas/ denotes it *)
Theorem reader_keeps_its_content_gen : forall s ino c tr,
  iwf s -> iread s ino = Some c -> (forall q, ilookup s q = Some ino -> is_cas q) ->
  Forall cas_safe tr ->
  forall n, iread (irun s (firstn n tr)) ino = Some c.
Proof.
  intros s ino c tr W R B F n.
  destruct (reader_inv_run ino c (firstn n tr) s (Forall_firstn _ n tr F)) as (_ & R' & _);
    [now split|exact R'].
Qed.

(* (b) a reader opened on the blob file PCas comps: the descriptor denotes the inode the name
   denotes at that moment; whatever cas_safe calls follow (the name is unlinked, another staged
   file is renamed onto it, other blobs come and go), the descriptor streams exactly c.
   [iwf s] contains the side condition "no inode is bound to two names". *)
Theorem C06_reader_keeps_its_content : forall s comps ino c tr,
  iwf s -> ilookup s (PCas comps) = Some ino -> iread s ino = Some c ->
  Forall cas_safe tr ->
  iread (irun s tr) ino = Some c.
Proof.
  intros s comps ino c tr W L R F. rewrite <- (firstn_all tr).
  apply reader_keeps_its_content_gen; try assumption.
  intros q Lq. rewrite (ilookup_inj s q (PCas comps) ino W Lq L). exact I.
Qed.

(* ... and at every intermediate point of the trace *)
Theorem C06_reader_keeps_its_content_always : forall s comps ino c tr,
  iwf s -> ilookup s (PCas comps) = Some ino -> iread s ino = Some c ->
  Forall cas_safe tr ->
  forall n, iread (irun s (firstn n tr)) ino = Some c.
Proof.
  intros s comps ino c tr W L R F. apply reader_keeps_its_content_gen; try assumption.
  intros q Lq. rewrite (ilookup_inj s q (PCas comps) ino W Lq L). exact I.
Qed.

(* ------------------------------------------------------------------ *)
(* I5. recorded traces are effective                                   *)
(* ------------------------------------------------------------------ *)
Lemma replay_app : forall a b s, replay_calls (a ++ b) s = replay_calls b (replay_calls a s).
Proof.
  induction a as [|e a IH]; intros b s; cbn [app replay_calls]; [reflexivity|].
  destruct e as [c|c]; [|apply IH]. destruct (apply_call c s); apply IH.
Qed.

(* under every fault plan: the trace only grows, what was added is effective from the old
   filesystem, and replaying it gives the new filesystem *)
Definition Eff {A} (m : M A) : Prop :=
  forall w, exists tr, wtrace (snd (m w)) = tr ++ wtrace w /\
                       effective (rev tr) (wfs w) /\
                       replay_calls (rev tr) (wfs w) = wfs (snd (m w)).

Lemma eff_ret : forall {A} (a : A), Eff (ret a).
Proof. intros A a w. exists []. cbn [ret snd rev effective replay_calls app]. auto. Qed.

Lemma eff_bind : forall {A B} (m : M A) (f : A -> M B),
  Eff m -> (forall a, Eff (f a)) -> Eff (bind m f).
Proof.
  intros A B m f Sm Sf w. unfold bind. specialize (Sm w). destruct (m w) as [a w1].
  cbn [snd] in Sm. destruct Sm as (t1 & E1 & F1 & R1).
  specialize (Sf a w1). destruct (f a w1) as [b w2]. cbn [snd] in *.
  destruct Sf as (t2 & E2 & F2 & R2).
  exists (t2 ++ t1). split; [rewrite E2, E1; apply app_assoc|].
  rewrite rev_app_distr. split.
  - apply effective_app. split; [exact F1|now rewrite R1].
  - now rewrite replay_app, R1.
Qed.

Lemma eff_do_call : forall c, Eff (do_call c).
Proof.
  intros c w. unfold do_call. destruct (apply_call c (wfs w)) as [s'|e] eqn:E.
  - destruct (wfault w) as [k|] eqn:F; [destruct (Nat.eqb k (wcount w))|]; cbn [snd wtrace wfs].
    + exists [TFault c]. cbn [rev app effective replay_calls]. auto.
    + exists [TCall c]. cbn [rev app effective replay_calls]. rewrite E. cbn [effective replay_calls]. auto.
    + exists [TCall c]. cbn [rev app effective replay_calls]. rewrite E. cbn [effective replay_calls]. auto.
  - cbn [snd]. exists []. cbn [rev effective replay_calls app]. auto.
Qed.

Lemma eff_get_fs : Eff get_fs.
Proof. intros w. exists []. cbn [get_fs snd rev effective replay_calls app]. auto. Qed.

Lemma eff_read_file : forall p, Eff (read_file p).
Proof. intros p w. exists []. cbn [read_file snd rev effective replay_calls app]. auto. Qed.

Create HintDb eff.
#[export] Hint Resolve eff_do_call eff_get_fs eff_read_file : eff.

Ltac eff :=
  repeat (cbv beta iota zeta;
          first
            [ solve [auto with eff]
            | lazymatch goal with
              | |- forall _, _ => intro
              | |- Eff (ret _) => apply eff_ret
              | |- Eff (bind _ _) => apply eff_bind
              | |- Eff (match ?x with _ => _ end) => destruct x
              end ]).

Section EffStore.
  Variable H : bytes -> bytes.

  Lemma eff_mkdir_p : forall d, Eff (mkdir_p d).
  Proof. intros. unfold mkdir_p. eff. Qed.
  Hint Resolve eff_mkdir_p : eff.
  Lemma eff_mkdir_cas2 : forall a b, Eff (mkdir_cas2 a b).
  Proof. intros. unfold mkdir_cas2. eff. Qed.
  Hint Resolve eff_mkdir_cas2 : eff.
  Lemma eff_atomic_write : forall t tmp data, Eff (atomic_write t tmp data).
  Proof. intros. unfold atomic_write. eff. Qed.
  Hint Resolve eff_atomic_write : eff.
  Lemma eff_bw_flush : forall p buf, Eff (bw_flush p buf).
  Proof. intros. unfold bw_flush. eff. Qed.
  Hint Resolve eff_bw_flush : eff.
  Lemma eff_bw_write_all : forall p buf data, Eff (bw_write_all p buf data).
  Proof. intros. unfold bw_write_all. eff. Qed.
  Hint Resolve eff_bw_write_all : eff.
  Lemma eff_writer_close : forall seg buf, Eff (writer_close seg buf).
  Proof. intros. unfold writer_close. eff. Qed.
  Hint Resolve eff_writer_close : eff.
  Lemma eff_writer_seal : forall seg buf, Eff (writer_seal seg buf).
  Proof. intros. unfold writer_seal. eff. Qed.
  Hint Resolve eff_writer_seal : eff.
  Lemma eff_write_entry : forall seg buf ver payload, Eff (write_entry H seg buf ver payload).
  Proof. intros. unfold write_entry. eff. Qed.
  Hint Resolve eff_write_entry : eff.
  Lemma eff_unlink_all : forall ps, Eff (unlink_all ps).
  Proof. induction ps as [|p ps IH]; cbn [unlink_all]; eff. Qed.
  Hint Resolve eff_unlink_all : eff.
  Lemma eff_close : forall m, Eff (close m).
  Proof. intros. unfold close. eff. Qed.

  Section Cfg.
    Variable cfg : config.
    Lemma eff_append_op : forall wl payload, Eff (append_op H cfg wl payload).
    Proof. intros. unfold append_op. eff. Qed.
    Hint Resolve eff_append_op : eff.
    Lemma eff_prune_below : forall bound, Eff (prune_below bound).
    Proof. intros. unfold prune_below. eff. Qed.
    Hint Resolve eff_prune_below : eff.
    Lemma eff_checkpoint_inner : forall reason m, Eff (checkpoint_inner cfg reason m).
    Proof. intros. unfold checkpoint_inner. eff. Qed.
    Hint Resolve eff_checkpoint_inner : eff.
    Lemma eff_delete_blobs : forall hs, Eff (delete_blobs hs).
    Proof. induction hs as [|h hs IH]; cbn [delete_blobs]; eff. Qed.
    Hint Resolve eff_delete_blobs : eff.
    Lemma eff_log_and_apply : forall m o, Eff (log_and_apply H cfg m o).
    Proof. intros. unfold log_and_apply. eff. Qed.
    Hint Resolve eff_log_and_apply : eff.
    Lemma eff_new_staging : Eff new_staging.
    Proof. unfold new_staging. eff. Qed.
    Hint Resolve eff_new_staging : eff.
    Lemma eff_drop_staging : forall p, Eff (drop_staging p).
    Proof. intros. unfold drop_staging. eff. Qed.
    Hint Resolve eff_drop_staging : eff.
    Lemma eff_put : forall m k chunks, Eff (put H cfg m k chunks).
    Proof. intros. unfold put. eff. Qed.
    Lemma eff_abort : forall m k chunks, Eff (abort m k chunks).
    Proof. intros. unfold abort. eff. Qed.
    Lemma eff_remove : forall m k, Eff (Store.remove H cfg m k).
    Proof. intros. unfold Store.remove. eff. Qed.
    Lemma eff_remove_range : forall m lo hi, Eff (remove_range H cfg m lo hi).
    Proof. intros. unfold remove_range. eff. Qed.
    Lemma eff_checkpoint : forall m, Eff (checkpoint cfg m).
    Proof. intros. unfold checkpoint. eff. Qed.
  End Cfg.
End EffStore.

#[export] Hint Resolve eff_close eff_put eff_abort eff_remove eff_remove_range eff_checkpoint : eff.

(* the calls of the data API (on whatever handle, open or closed) *)
Definition data_op (o : op) : Prop :=
  match o with
  | OpOpen _ _ | OpDeleteOrphans | OpQuarantine | OpDeleteOrphan _ => False
  | _ => True
  end.

Lemma api_data_op : forall cfg o, api_op cfg o -> data_op o.
Proof. intros cfg o A. destruct o; cbn [api_op data_op] in *; try exact I; contradiction. Qed.

Lemma eff_step : forall H hd o, data_op o -> Eff (step H hd o).
Proof.
  intros H hd o D. destruct o; cbn [data_op] in D; try contradiction;
    destruct hd as [h|]; cbn [step]; eff.
Qed.

Lemma eff_run_ops : forall H ops hd, Forall data_op ops -> Eff (run_ops H hd ops).
Proof.
  intros H. induction ops as [|o ops IH]; intros hd F; cbn [run_ops]; [apply eff_ret|].
  inversion F as [|? ? Fo Fops]; subst.
  apply eff_bind; [now apply eff_step|]. intros x.
  apply eff_bind; [now apply IH|]. intros y. apply eff_ret.
Qed.

(* ------------------------------------------------------------------ *)
(* I6. readers along API histories                                     *)
(* ------------------------------------------------------------------ *)
(* (a) for the traces of props/C06.v: after any history of data-API calls, under any fault
   plan, the inode model run on the recorded trace shows under every name what FS.v shows *)
Theorem history_name_agreement : forall H ops hd w si,
  Forall data_op ops -> iwf si -> FsWf (wfs w) ->
  (forall p, abs_i si p = option_map fdata (fget (wfs w) p)) ->
  exists tr, wtrace (snd (run_ops H hd ops w)) = tr ++ wtrace w /\
             iwf (irun si (rev tr)) /\ FsWf (wfs (snd (run_ops H hd ops w))) /\
             forall p, abs_i (irun si (rev tr)) p
                       = option_map fdata (fget (wfs (snd (run_ops H hd ops w))) p).
Proof.
  intros H ops hd w si D W Wx A.
  destruct (eff_run_ops H ops hd D w) as (tr & E & Ef & R).
  exists tr. split; [exact E|]. split; [now apply irun_wf|]. rewrite <- R.
  split; [now apply replay_wf|]. now apply inode_agrees_with_fs.
Qed.

Section Hist.
  Variable H : bytes -> bytes.
  Hypothesis H_len : forall b, length (H b) = 32%nat.
  Hypothesis H_byte : forall b, Forall (fun x => x < 256) (H b).
  Variable cfg : config.
  Hypothesis n_pos : 0 < c_n cfg.
  Let cmp := key_cmp (c_kt cfg).

  Lemma fold_spec_contents : forall ops sg x,
    In x (map snd (fold_left (spec_step cmp) ops sg)) ->
    In x (hist_contents ops) \/ In x (map snd sg).
  Proof.
    induction ops as [|o ops IH]; intros sg x Ix; cbn [fold_left hist_contents flat_map] in *; [now right|].
    apply IH in Ix. destruct Ix as [Ix|Ix].
    - left. apply in_or_app. now right.
    - apply spec_step_contents in Ix. destruct Ix as [Ix|Ix]; [|now right].
      left. apply in_or_app. now left.
  Qed.

  (* a blob that a key refers to is there in the inode model, with the key's content *)
  Lemma live_blob_inode : forall m s sg si k c,
    Live0 H cfg m s sg -> (forall p, abs_i si p = option_map fdata (fget s p)) ->
    sm_get cmp sg k = Some c ->
    exists ino, ilookup si (cas_path (H c)) = Some ino /\ iread si ino = Some c.
  Proof.
    intros m s sg si k c L A G.
    apply (get_in cmp (key_cmp_refl _) (key_cmp_eq _) (key_cmp_antisym _) (key_cmp_trans _))
      in G; [|exact (lv_sorted _ _ _ _ _ L)].
    destruct (lv_cas _ _ _ _ _ L k c G) as (f & Gf & Ef).
    apply abs_some_lookup. now rewrite A, Gf, <- Ef.
  Qed.

  (* (c) one phase: a reader opened now on the blob of a key keeps the key's content through
     every later API call of the history (and at every intermediate point: n counts the
     filesystem calls performed so far) *)
  Theorem reader_survives_ops : forall ops m s sg os w si k c,
    Live0 H cfg m s sg -> wfs w = s -> wfault w = None -> Forall (api_op cfg) ops ->
    NoCollide H (hist_contents ops ++ map snd sg) ->
    iwf si -> (forall p, abs_i si p = option_map fdata (fget s p)) ->
    sm_get cmp sg k = Some c ->
    exists ino r w' tr,
      ilookup si (cas_path (H c)) = Some ino /\ iread si ino = Some c /\
      run_ops H (Some (mkHandle cfg m os)) ops w = (r, w') /\ wtrace w' = tr ++ wtrace w /\
      forall n, iread (irun si (firstn n (rev tr))) ino = Some c.
  Proof.
    intros ops m s sg os w si k c L Ws F A NC W Ag G.
    destruct (live_blob_inode m s sg si k c L Ag G) as (ino & Li & Ri).
    destruct (C06_cas_immutable_seq H H_len H_byte cfg n_pos ops m s sg os w L Ws F A NC)
      as (r & w' & E & _ & tr & Et & Sf).
    exists ino, r, w', tr. repeat (split; [assumption|]).
    unfold cas_path in Li. eapply C06_reader_keeps_its_content_always; try eassumption.
    apply Forall_rev. exact Sf.
  Qed.

  (* (c) a reader opened at ANY point of a history: run ops1, open a reader on the blob of a key
     k (content c in the specification state reached by ops1), run ops2.  The inode state is
     the one obtained by running the recorded trace from any inode filesystem that agrees with
     the initial name-level filesystem. *)
  Theorem C06_reader_survives_history : forall ops1 ops2 m s sg os w si,
    Live0 H cfg m s sg -> wfs w = s -> wfault w = None ->
    Forall (api_op cfg) (ops1 ++ ops2) ->
    NoCollide H (hist_contents (ops1 ++ ops2) ++ map snd sg) ->
    FsWf s -> iwf si -> (forall p, abs_i si p = option_map fdata (fget s p)) ->
    exists outs1 hd1 w1 r2 w2 tr1 tr2,
      run_ops H (Some (mkHandle cfg m os)) ops1 w = ((outs1, Some hd1), w1) /\
      wtrace w1 = tr1 ++ wtrace w /\
      run_ops H (Some hd1) ops2 w1 = (r2, w2) /\ wtrace w2 = tr2 ++ wtrace w1 /\
      let si1 := irun si (rev tr1) in
      forall k c, sm_get cmp (fold_left (spec_step cmp) ops1 sg) k = Some c ->
        exists ino, ilookup si1 (cas_path (H c)) = Some ino /\ iread si1 ino = Some c /\
                    forall n, iread (irun si1 (firstn n (rev tr2))) ino = Some c.
  Proof.
    intros ops1 ops2 m s sg os w si L Ws F A NC Wx W Ag.
    apply Forall_app in A. destruct A as [A1 A2].
    assert (NC1 : NoCollide H (hist_contents ops1 ++ map snd sg)).
    { eapply NoCollide_incl; [|exact NC]. intros x Ix. unfold hist_contents. rewrite flat_map_app.
      apply in_app_or in Ix. apply in_or_app. destruct Ix as [Ix|Ix]; [left; apply in_or_app; now left|now right]. }
    destruct (C01_refines_ordered_map H H_len H_byte cfg n_pos ops1 m s sg os w L Ws F A1 NC1)
      as (outs1 & [cfg1 m1 os1] & w1 & E1 & _ & L1 & Ec & F1). cbn [h_cfg h_mem] in *. subst cfg1.
    assert (D1 : Forall data_op ops1).
    { eapply Forall_impl; [|exact A1]. intros o. apply api_data_op. }
    subst s.
    destruct (history_name_agreement H ops1 (Some (mkHandle cfg m os)) w si D1 W Wx Ag)
      as (tr1 & Et1 & W1 & Wx1 & Ag1).
    rewrite E1 in Et1, Wx1, Ag1. cbn [snd] in Et1, Wx1, Ag1.
    set (sg1 := fold_left (spec_step cmp) ops1 sg) in *.
    assert (NC2 : NoCollide H (hist_contents ops2 ++ map snd sg1)).
    { eapply NoCollide_incl; [|exact NC]. intros x Ix. unfold hist_contents. rewrite flat_map_app.
      apply in_app_or in Ix. apply in_or_app. destruct Ix as [Ix|Ix].
      - left. apply in_or_app. now right.
      - apply fold_spec_contents in Ix. destruct Ix as [Ix|Ix]; [|now right].
        left. apply in_or_app. now left. }
    destruct (C06_cas_immutable_seq H H_len H_byte cfg n_pos ops2 m1 (wfs w1) sg1 os1 w1
                L1 eq_refl F1 A2 NC2) as (r2 & w2 & E2 & _ & tr2 & Et2 & Sf2).
    exists outs1, (mkHandle cfg m1 os1), w1, r2, w2, tr1, tr2.
    repeat (split; [assumption|]). cbv zeta. intros k c G. set (si1 := irun si (rev tr1)) in *.
    destruct (live_blob_inode m1 (wfs w1) sg1 si1 k c L1 Ag1 G) as (ino & Li & Ri).
    exists ino. split; [exact Li|]. split; [exact Ri|].
    unfold cas_path in Li. eapply C06_reader_keeps_its_content_always; try eassumption.
    apply Forall_rev. exact Sf2.
  Qed.
End Hist.

(* an inode filesystem that agrees with a given name-level one exists (the hypotheses
   "iwf si" and "agree si s" above are satisfiable for every well-formed s) *)
Lemma number_from_spec : forall l n b d, number_from n l = (b, d) ->
  map fst b = map fst l /\ map snd b = seq n (length l) /\ map fst d = seq n (length l) /\
  (forall p, match blook b p with Some i => dget d i | None => None end
             = option_map fdata (lookup l p)).
Proof.
  induction l as [|[q f] l IH]; intros n b d E; cbn [number_from] in E.
  - inversion E; subst. cbn. auto.
  - destruct (number_from (S n) l) as [b' d'] eqn:E'. inversion E; subst.
    destruct (IH (S n) b' d' E') as (I1 & I2 & I3 & I4).
    cbn [map fst snd length seq]. rewrite I1, I2, I3. repeat (split; [reflexivity|]).
    intros p. cbn [blook lookup]. destruct (path_eqb p q).
    + cbn [dget]. now rewrite Nat.eqb_refl.
    + specialize (I4 p). destruct (blook b' p) as [i|] eqn:Eb; [|exact I4].
      cbn [dget]. destruct (Nat.eqb_spec i n) as [X|X]; [|exact I4].
      exfalso. apply blook_in in Eb. apply (in_map snd) in Eb. cbn [snd] in Eb.
      rewrite I2 in Eb. apply in_seq in Eb. lia.
Qed.

Theorem ifs_of_ok : forall s, FsWf s ->
  iwf (ifs_of s) /\ forall p, abs_i (ifs_of s) p = option_map fdata (fget s p).
Proof.
  intros s Wx. unfold ifs_of. destruct (number_from 0 (files s)) as [b d] eqn:E.
  destruct (number_from_spec _ _ _ _ E) as (I1 & I2 & I3 & I4). split.
  - constructor; cbn [ibind idata inext].
    + rewrite I1. exact Wx.
    + rewrite I2. apply seq_NoDup.
    + intros p i I. apply (in_map snd) in I. rewrite I2 in I. apply in_seq in I. cbn [snd] in I. lia.
    + intros i c I. apply (in_map fst) in I. rewrite I3 in I. apply in_seq in I. cbn [fst] in I. lia.
    + intros p i I X. assert (Eb : blook b p = Some i).
      { apply in_blook; [|exact I]. rewrite I1. exact Wx. }
      specialize (I4 p). rewrite Eb, X in I4.
      destruct (lookup (files s) p) eqn:El; [discriminate|].
      apply lookup_none_iff in El. apply El. unfold paths. rewrite <- I1.
      apply in_map_iff. now exists (p, i).
  - intros p. unfold abs_i, ilookup, iread, fget. cbn [ibind idata]. apply I4.
Qed.

(* ------------------------------------------------------------------ *)
(* I7. closed examples                                                 *)
(* ------------------------------------------------------------------ *)
(* a blob is written the way the store does it (staged, then renamed under cas/) *)
Definition ex_blob : path := PCas [[1]].
Definition ex_open : ifs :=
  irun empty_ifs [TCall (CCreateExcl (PStaging 0)); TCall (CAppend (PStaging 0) [10; 20; 30]);
                  TCall (CRename (PStaging 0) ex_blob)].
(* ... a reader is opened on it (inode 0, content 10 20 30); then the name is unlinked and a
   new staged file with DIFFERENT bytes is renamed to the same name (a hypothetical
   non-content-addressed use: the theorem is about inodes, not about hashes) *)
Definition ex_later : list tev :=
  [TCall (CUnlink ex_blob); TCall (CCreateExcl (PStaging 1)); TCall (CAppend (PStaging 1) [77]);
   TCall (CRename (PStaging 1) ex_blob)].

Example reader_example_unlink_and_replace :
  ilookup ex_open ex_blob = Some 0%nat /\ iread ex_open 0%nat = Some [10; 20; 30] /\
  Forall cas_safe ex_later /\
  (* the reader still streams the old bytes *)
  iread (irun ex_open ex_later) 0%nat = Some [10; 20; 30] /\
  (* while the name now denotes another inode with the new bytes *)
  ilookup (irun ex_open ex_later) ex_blob = Some 1%nat /\
  abs_i (irun ex_open ex_later) ex_blob = Some [77] /\
  (* right after the unlink the name is gone and the reader is unaffected *)
  abs_i (irun ex_open (firstn 1 ex_later)) ex_blob = None /\
  iread (irun ex_open (firstn 1 ex_later)) 0%nat = Some [10; 20; 30].
Proof.
  split; [vm_compute; reflexivity|]. split; [vm_compute; reflexivity|].
  split; [unfold ex_later; repeat constructor|].
  repeat split; vm_compute; reflexivity.
Qed.

(* the same with a rename straight over the existing name (no unlink in between) *)
Example reader_example_rename_over :
  let tr := [TCall (CCreateExcl (PStaging 1)); TCall (CAppend (PStaging 1) [77]);
             TCall (CRename (PStaging 1) ex_blob)] in
  Forall cas_safe tr /\ iread (irun ex_open tr) 0%nat = Some [10; 20; 30] /\
  abs_i (irun ex_open tr) ex_blob = Some [77].
Proof.
  cbv zeta. split; [repeat constructor|]. split; vm_compute; reflexivity.
Qed.

(* what cas_safe excludes: an append to (or a truncating open of) the path under cas/ goes to
   the reader's inode, and the reader's content DOES change: the hypothesis is needed *)
Example reader_example_needs_cas_safe :
  ~ cas_safe (TCall (CAppend ex_blob [99])) /\
  iread (irun ex_open [TCall (CAppend ex_blob [99])]) 0%nat = Some [10; 20; 30; 99] /\
  ~ cas_safe (TCall (CCreate ex_blob)) /\
  iread (irun ex_open [TCall (CCreate ex_blob)]) 0%nat = Some [].
Proof.
  split; [intros X; exact X|]. split; [vm_compute; reflexivity|].
  split; [intros X; exact X|]. vm_compute; reflexivity.
Qed.

(* and the name-level model cannot tell: after unlink + replace FS.v shows only the new file *)
Example name_level_view :
  let x0 := mkFs [(ex_blob, mkFile [10; 20; 30] 3)] [[s_staging]; [s_cas]] 0 in
  effective ex_later x0 /\
  option_map fdata (fget (replay_calls ex_later x0) ex_blob) = Some [77].
Proof. cbv zeta. split; vm_compute; [exact I|reflexivity]. Qed.

Print Assumptions inode_name_agreement.
Print Assumptions inode_name_agreement_crash.
Print Assumptions istep_wf.
Print Assumptions C06_reader_keeps_its_content.
Print Assumptions C06_reader_keeps_its_content_always.
Print Assumptions reader_keeps_its_content_gen.
Print Assumptions history_name_agreement.
Print Assumptions reader_survives_ops.
Print Assumptions C06_reader_survives_history.
Print Assumptions ifs_of_ok.
Print Assumptions reader_example_unlink_and_replace.
Print Assumptions reader_example_needs_cas_safe.
