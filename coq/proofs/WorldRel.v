(* WorldRel.v -- two compositional program logics for the world monad M (theories/FS.v):
   (1) Resp m : in fault-free worlds the result of m and the filesystem it leaves depend on the
       filesystem only -- never on the recorded trace or the call counter;
   (2) Pres P m : m preserves the filesystem predicate P (any fault plan), given that every call
       it issues does.
   Both are proved for open_with_recover / open_store, every API operation and whole histories
   (run_ops). *)
From Cas Require Import History.
From CasProofs Require Import BaseProofs StoreFS.
Open Scope N_scope.

(* ------------------------------------------------------------------ *)
(* 1. Resp                                                             *)
(* ------------------------------------------------------------------ *)
Definition weq (w1 w2 : world) : Prop :=
  wfs w1 = wfs w2 /\ wfault w1 = None /\ wfault w2 = None.

Definition Resp {A} (m : M A) : Prop :=
  forall w1 w2, weq w1 w2 -> fst (m w1) = fst (m w2) /\ weq (snd (m w1)) (snd (m w2)).

Lemma weq_refl : forall w, wfault w = None -> weq w w.
Proof. intros w F. repeat split; assumption. Qed.

Lemma resp_ret : forall {A} (a : A), Resp (ret a).
Proof. intros A a w1 w2 E. split; [reflexivity|exact E]. Qed.

Lemma resp_bind : forall {A B} (m : M A) (f : A -> M B),
  Resp m -> (forall a, Resp (f a)) -> Resp (bind m f).
Proof.
  intros A B m f Rm Rf w1 w2 E. unfold bind. destruct (Rm w1 w2 E) as [E1 E2].
  destruct (m w1) as [a1 w1'], (m w2) as [a2 w2']. cbn [fst snd] in E1, E2. subst a2.
  exact (Rf a1 w1' w2' E2).
Qed.

Lemma resp_do_call : forall c, Resp (do_call c).
Proof.
  intros c w1 w2 (E & F1 & F2). unfold do_call. rewrite <- E, F1, F2.
  destruct (apply_call c (wfs w1)) as [s'|e]; cbn [fst snd].
  - split; [reflexivity|]. repeat split.
  - split; [reflexivity|]. repeat split; assumption.
Qed.

Lemma resp_get_fs : Resp get_fs.
Proof. intros w1 w2 E. unfold get_fs. cbn [fst snd]. split; [exact (proj1 E)|exact E]. Qed.

Lemma resp_read_file : forall p, Resp (read_file p).
Proof.
  intros p w1 w2 E. unfold read_file. cbn [fst snd]. split; [|exact E]. now rewrite (proj1 E).
Qed.

Create HintDb resp.
#[export] Hint Resolve resp_do_call resp_get_fs resp_read_file : resp.

(* structural decomposition; known programs are closed by the hint database *)
Ltac resp :=
  repeat (cbv beta iota zeta;
          first
            [ solve [auto with resp]
            | lazymatch goal with
              | |- forall _, _ => intro
              | |- Resp (ret _) => apply resp_ret
              | |- Resp (bind _ _) => apply resp_bind
              | |- Resp (match ?x with _ => _ end) => destruct x
              end ]).

(* ------------------------------------------------------------------ *)
(* 2. Pres                                                             *)
(* ------------------------------------------------------------------ *)
Definition Pres (P : fs -> Prop) {A} (m : M A) : Prop :=
  forall w, P (wfs w) -> P (wfs (snd (m w))).

Definition call_keeps (P : fs -> Prop) (c : call) : Prop :=
  forall s s', P s -> apply_call c s = Ok s' -> P s'.

Lemma pres_ret : forall P {A} (a : A), Pres P (ret a).
Proof. intros P A a w X. exact X. Qed.

Lemma pres_bind : forall P {A B} (m : M A) (f : A -> M B),
  Pres P m -> (forall a, Pres P (f a)) -> Pres P (bind m f).
Proof.
  intros P A B m f Pm Pf w X. unfold bind. specialize (Pm w X).
  destruct (m w) as [a w']. cbn [snd] in Pm. exact (Pf a w' Pm).
Qed.

Lemma pres_do_call : forall P c, call_keeps P c -> Pres P (do_call c).
Proof.
  intros P c K w X. unfold do_call. destruct (apply_call c (wfs w)) as [s'|e] eqn:E; [|exact X].
  destruct (wfault w) as [n|]; [destruct (Nat.eqb n (wcount w))|]; cbn [snd wfs];
    try exact X; exact (K _ _ X E).
Qed.

Lemma pres_get_fs : forall P, Pres P get_fs.
Proof. intros P w X. exact X. Qed.

Lemma pres_read_file : forall P p, Pres P (read_file p).
Proof. intros P p w X. exact X. Qed.

(* a successful do_call really applied the call (any fault plan) *)
Lemma do_call_ok_inv : forall c w u w', do_call c w = (Ok u, w') ->
  apply_call c (wfs w) = Ok (wfs w').
Proof.
  intros c w u w'. unfold do_call. destruct (apply_call c (wfs w)) as [s'|e]; [|discriminate].
  destruct (wfault w) as [n|]; [destruct (Nat.eqb n (wcount w))|]; intros E; inversion E;
    reflexivity.
Qed.

(* --- which calls keep `fget s p = o` --- *)
Definition call_avoids (p : path) (c : call) : bool :=
  match c with
  | CMkdir _ => true
  | CCreate q | CCreateExcl q | COpenAppend q | CAppend q _ | CSync q | CUnlink q =>
    negb (path_eqb p q)
  | CRename a b => negb (path_eqb p a) && negb (path_eqb p b)
  end.

Lemma negb_path_eqb : forall p q, negb (path_eqb p q) = true -> p <> q.
Proof.
  intros p q E X. subst q. rewrite path_eqb_refl in E. discriminate.
Qed.

Lemma fget_with_files : forall s l q, fget (with_files s l) q = lookup l q.
Proof. reflexivity. Qed.

Lemma avoids_keeps : forall p o c, call_avoids p c = true ->
  call_keeps (fun s => fget s p = o) c.
Proof.
  intros p o c A s s' X E. destruct c; cbn [apply_call call_avoids] in E, A.
  - destruct (has_dir s d); [discriminate|].
    destruct (removelast d); [|destruct (has_dir s (b :: l))]; inversion E; exact X.
  - apply negb_path_eqb in A. destruct (parent_ok s p0); inversion E.
    rewrite <- X. exact (fget_upd_other s p0 _ p A).
  - apply negb_path_eqb in A. destruct (parent_ok s p0); [|discriminate].
    destruct (fget s p0); inversion E. rewrite <- X. unfold fget. cbn [files].
    rewrite lookup_set_path, path_eqb_neq by exact A. reflexivity.
  - apply negb_path_eqb in A. destruct (parent_ok s p0); [|discriminate].
    destruct (fget s p0); inversion E; [subst s'; exact X|].
    rewrite <- X. exact (fget_upd_other s p0 _ p A).
  - apply negb_path_eqb in A. destruct (fget s p0); inversion E.
    rewrite <- X. exact (fget_upd_other s p0 _ p A).
  - apply negb_path_eqb in A. destruct (fget s p0); inversion E.
    rewrite <- X. exact (fget_upd_other s p0 _ p A).
  - apply andb_prop in A. destruct A as [A1 A2]. apply negb_path_eqb in A1, A2.
    destruct (fget s p0); [|discriminate]. destruct (parent_ok s q); inversion E.
    rewrite <- X. change (fget (ren s p0 q f) p = fget s p).
    rewrite fget_ren, path_eqb_neq by exact A2. now apply fget_del_other.
  - apply negb_path_eqb in A. destruct (fget s p0); inversion E.
    rewrite <- X. exact (fget_del_other s p0 p A).
Qed.

(* --- directories never disappear --- *)
Lemma has_dir_keeps : forall d c, call_keeps (fun s => has_dir s d = true) c.
Proof.
  intros d c s s' X E.
  assert (G : forall s'', (forall x, In x (dirs s) -> In x (dirs s'')) -> has_dir s'' d = true).
  { intros s'' I. apply has_dir_iff, I, has_dir_iff, X. }
  destruct c; cbn [apply_call] in E;
    repeat match type of E with
           | (if ?b then _ else _) = _ => destruct b
           | match ?b with _ => _ end = _ => destruct b
           end; inversion E; subst; try exact X; apply G; cbn [dirs with_files]; intros x Ix;
      try exact Ix; apply in_or_app; now left.
Qed.

Create HintDb pres.
#[export] Hint Resolve pres_get_fs pres_read_file : pres.

(* [pres leaf]: structural decomposition; [leaf] discharges the side condition of do_call *)
Ltac pres leaf :=
  repeat (cbv beta iota zeta;
          first
            [ solve [auto with pres]
            | lazymatch goal with
              | |- forall _, _ => intro
              | |- Pres _ (ret _) => apply pres_ret
              | |- Pres _ (bind _ _) => apply pres_bind
              | |- Pres _ (do_call _) => apply pres_do_call; solve [leaf]
              | |- Pres _ (match ?x with _ => _ end) => destruct x
              end ]).

(* ------------------------------------------------------------------ *)
(* 3. Resp for the store programs                                      *)
(* ------------------------------------------------------------------ *)
Section RespStore.
  Variable H : bytes -> bytes.

  Lemma resp_mkdir_p : forall d, Resp (mkdir_p d).
  Proof. intros. unfold mkdir_p. resp. Qed.
  Hint Resolve resp_mkdir_p : resp.

  Lemma resp_mkdir_cas2 : forall a b, Resp (mkdir_cas2 a b).
  Proof. intros. unfold mkdir_cas2. resp. Qed.
  Hint Resolve resp_mkdir_cas2 : resp.

  Lemma resp_atomic_write : forall t tmp data, Resp (atomic_write t tmp data).
  Proof. intros. unfold atomic_write. resp. Qed.
  Hint Resolve resp_atomic_write : resp.

  Lemma resp_bw_flush : forall p buf, Resp (bw_flush p buf).
  Proof. intros. unfold bw_flush. resp. Qed.
  Hint Resolve resp_bw_flush : resp.

  Lemma resp_bw_write_all : forall p buf data, Resp (bw_write_all p buf data).
  Proof. intros. unfold bw_write_all. resp. Qed.
  Hint Resolve resp_bw_write_all : resp.

  Lemma resp_writer_close : forall seg buf, Resp (writer_close seg buf).
  Proof. intros. unfold writer_close. resp. Qed.
  Hint Resolve resp_writer_close : resp.

  Lemma resp_writer_seal : forall seg buf, Resp (writer_seal seg buf).
  Proof. intros. unfold writer_seal. resp. Qed.
  Hint Resolve resp_writer_seal : resp.

  Lemma resp_write_entry : forall seg buf ver payload, Resp (write_entry H seg buf ver payload).
  Proof. intros. unfold write_entry. resp. Qed.
  Hint Resolve resp_write_entry : resp.

  Lemma resp_unlink_all : forall ps, Resp (unlink_all ps).
  Proof. induction ps as [|p ps IH]; cbn [unlink_all]; resp. Qed.
  Hint Resolve resp_unlink_all : resp.

  Lemma resp_mkdirs_pre : forall ds, Resp (mkdirs_pre ds).
  Proof. induction ds as [|[i j] ds IH]; cbn [mkdirs_pre]; resp. Qed.
  Hint Resolve resp_mkdirs_pre : resp.

  Lemma resp_pre_create_all : Resp pre_create_all.
  Proof. unfold pre_create_all. resp. Qed.
  Hint Resolve resp_pre_create_all : resp.

  Lemma resp_close : forall m, Resp (close m).
  Proof. intros. unfold close. resp. Qed.
  Hint Resolve resp_close : resp.

  Section Cfg.
    Variable cfg : config.

    Lemma resp_append_op : forall wl payload, Resp (append_op H cfg wl payload).
    Proof. intros. unfold append_op. resp. Qed.
    Hint Resolve resp_append_op : resp.

    Lemma resp_prune_below : forall bound, Resp (prune_below bound).
    Proof. intros. unfold prune_below. resp. Qed.
    Hint Resolve resp_prune_below : resp.

    Lemma resp_checkpoint_inner : forall reason m, Resp (checkpoint_inner cfg reason m).
    Proof. intros. unfold checkpoint_inner. resp. Qed.
    Hint Resolve resp_checkpoint_inner : resp.

    Lemma resp_delete_blobs : forall hs, Resp (delete_blobs hs).
    Proof. induction hs as [|h hs IH]; cbn [delete_blobs]; resp. Qed.
    Hint Resolve resp_delete_blobs : resp.

    Lemma resp_log_and_apply : forall m o, Resp (log_and_apply H cfg m o).
    Proof. intros. unfold log_and_apply. resp. Qed.
    Hint Resolve resp_log_and_apply : resp.

    Lemma resp_new_staging : Resp new_staging.
    Proof. unfold new_staging. resp. Qed.
    Hint Resolve resp_new_staging : resp.

    Lemma resp_drop_staging : forall p, Resp (drop_staging p).
    Proof. intros. unfold drop_staging. resp. Qed.
    Hint Resolve resp_drop_staging : resp.

    Lemma resp_put : forall m k chunks, Resp (put H cfg m k chunks).
    Proof. intros. unfold put. resp. Qed.

    Lemma resp_abort : forall m k chunks, Resp (abort m k chunks).
    Proof. intros. unfold abort. resp. Qed.

    Lemma resp_remove : forall m k, Resp (remove H cfg m k).
    Proof. intros. unfold remove. resp. Qed.

    Lemma resp_remove_range : forall m lo hi, Resp (remove_range H cfg m lo hi).
    Proof. intros. unfold remove_range. resp. Qed.

    Lemma resp_checkpoint : forall m, Resp (checkpoint cfg m).
    Proof. intros. unfold checkpoint. resp. Qed.

    Lemma resp_delete_orphan_list : forall m hs acc, Resp (delete_orphan_list m hs acc).
    Proof. intros m hs. induction hs as [|h hs IH]; intros acc; cbn [delete_orphan_list]; resp. Qed.
    Hint Resolve resp_delete_orphan_list : resp.

    Lemma resp_remove_paths : forall ps a b, Resp (remove_paths ps a b).
    Proof. induction ps as [|p ps IH]; intros a b; cbn [remove_paths]; resp. Qed.
    Hint Resolve resp_remove_paths : resp.

    Lemma resp_delete_orphans : forall m o, Resp (delete_orphans m o).
    Proof. intros. unfold delete_orphans. resp. Qed.

    Lemma resp_quarantine_list : forall m hs acc, Resp (quarantine_list m hs acc).
    Proof. intros m hs. induction hs as [|h hs IH]; intros acc; cbn [quarantine_list]; resp. Qed.
    Hint Resolve resp_quarantine_list : resp.

    Lemma resp_quarantine_orphans : forall m o, Resp (quarantine_orphans m o).
    Proof. intros. unfold quarantine_orphans. resp. Qed.

    Lemma resp_delete_orphan : forall m o h, Resp (delete_orphan m o h).
    Proof. intros. unfold delete_orphan. resp. Qed.

    Lemma resp_index_load : forall pre, Resp (index_load H cfg pre).
    Proof. intros. unfold index_load. resp. Qed.
    Hint Resolve resp_index_load : resp.

    Theorem resp_open_with_recover : Resp (open_with_recover H cfg).
    Proof. unfold open_with_recover. resp. Qed.
    Hint Resolve resp_open_with_recover : resp.

    Theorem resp_open_store : Resp (open_store H cfg).
    Proof. unfold open_store. resp. Qed.
  End Cfg.

  Hint Resolve resp_put resp_abort resp_remove resp_remove_range resp_checkpoint
       resp_delete_orphans resp_quarantine_orphans resp_delete_orphan
       resp_open_with_recover resp_open_store : resp.

  Theorem resp_step : forall hd o, Resp (step H hd o).
  Proof. intros hd o. destruct o, hd; cbn [step]; resp. Qed.
  Hint Resolve resp_step : resp.

  Theorem resp_run_ops : forall ops hd, Resp (run_ops H hd ops).
  Proof. induction ops as [|o ops IH]; intros hd; cbn [run_ops]; resp. Qed.
End RespStore.

(* ------------------------------------------------------------------ *)
(* 4. Pres for the programs used by open                               *)
(* ------------------------------------------------------------------ *)
(* the calls Index::load may issue: create + sync of the target segment, the atomic rewrite of
   the index file, pruning of segments *)
Definition load_call (c : call) : bool :=
  match c with
  | CCreate q | CAppend q _ | CSync q => match q with PIndexTmp | PWal _ => true | _ => false end
  | CRename PIndexTmp PIndex => true
  | CUnlink (PWal _) => true
  | _ => false
  end.

(* the calls of the settings part of open (first-time creation) *)
Definition gate_call (c : call) : bool :=
  match c with
  | CMkdir _ => true
  | CCreate PSettingsTmp | CAppend PSettingsTmp _ | CSync PSettingsTmp => true
  | CRename PSettingsTmp PSettings => true
  | _ => false
  end.

Section PresStore.
  Variable H : bytes -> bytes.
  Variable cfg : config.
  Variable P : fs -> Prop.

  Section Mkdirs.
    Hypothesis K : forall d, call_keeps P (CMkdir d).
    Local Ltac leaf := apply K.

    Lemma pres_mkdir_p : forall d, Pres P (mkdir_p d).
    Proof. intros. unfold mkdir_p. pres leaf. Qed.
    Hint Resolve pres_mkdir_p : pres.
    Lemma pres_mkdir_cas2 : forall a b, Pres P (mkdir_cas2 a b).
    Proof. intros. unfold mkdir_cas2. pres leaf. Qed.
    Hint Resolve pres_mkdir_cas2 : pres.
    Lemma pres_mkdirs_pre : forall ds, Pres P (mkdirs_pre ds).
    Proof. induction ds as [|[i j] ds IH]; cbn [mkdirs_pre]; pres leaf. Qed.
    Hint Resolve pres_mkdirs_pre : pres.
    Lemma pres_pre_create_all : Pres P pre_create_all.
    Proof. unfold pre_create_all. pres leaf. Qed.
  End Mkdirs.

  Lemma pres_atomic_write : forall t tmp data,
    call_keeps P (CCreate tmp) -> (forall b, call_keeps P (CAppend tmp b)) ->
    call_keeps P (CSync tmp) -> call_keeps P (CRename tmp t) ->
    Pres P (atomic_write t tmp data).
  Proof. intros t tmp data K1 K2 K3 K4. unfold atomic_write. pres ltac:(auto). Qed.

  Section Load.
    Hypothesis K : forall c, load_call c = true -> call_keeps P c.
    Local Ltac leaf := apply K; reflexivity.

    Lemma pres_unlink_wals : forall ids, Pres P (unlink_all (map PWal ids)).
    Proof. induction ids as [|i ids IH]; cbn [map unlink_all]; pres leaf. Qed.
    Hint Resolve pres_unlink_wals : pres.

    Lemma pres_prune_below : forall bound, Pres P (prune_below bound).
    Proof. intros. unfold prune_below. pres leaf. Qed.
    Hint Resolve pres_prune_below : pres.

    Lemma pres_write_index : forall data, Pres P (atomic_write PIndex PIndexTmp data).
    Proof. intros. apply pres_atomic_write; intros; leaf. Qed.
    Hint Resolve pres_write_index : pres.

    Lemma pres_checkpoint_inner : forall reason m, Pres P (checkpoint_inner cfg reason m).
    Proof. intros. unfold checkpoint_inner. pres leaf. Qed.
    Hint Resolve pres_checkpoint_inner : pres.

    Lemma pres_index_load : forall pre, Pres P (index_load H cfg pre).
    Proof. intros. unfold index_load. pres leaf. Qed.
  End Load.
End PresStore.

(* instances: which paths / directories the two call classes leave alone *)
Lemma load_call_avoids : forall p c,
  match p with PIndex | PIndexTmp | PWal _ => False | _ => True end ->
  load_call c = true -> call_avoids p c = true.
Proof.
  intros p c Np L. destruct c as [d|q|q|q|q b|q|a b|q]; cbn [load_call] in L; try discriminate;
    try (destruct q; try discriminate; destruct p; try contradiction; reflexivity).
  destruct a; try discriminate. destruct b; try discriminate.
  destruct p; try contradiction; reflexivity.
Qed.

Lemma gate_call_avoids : forall p c,
  match p with PSettings | PSettingsTmp => False | _ => True end ->
  gate_call c = true -> call_avoids p c = true.
Proof.
  intros p c Np L. destruct c as [d|q|q|q|q b|q|a b|q]; cbn [gate_call] in L; try discriminate;
    try reflexivity;
    try (destruct q; try discriminate; destruct p; try contradiction; reflexivity).
  destruct a; try discriminate. destruct b; try discriminate.
  destruct p; try contradiction; reflexivity.
Qed.

Print Assumptions resp_open_with_recover.
Print Assumptions resp_open_store.
Print Assumptions resp_run_ops.
