(* OpenLockProofs.v -- property C11 (exclusive ownership of a database directory) for the model
   Cas.OpenLock. *)
From Coq Require Import List NArith Bool Arith Lia.
Import ListNotations.
From Cas Require Import OpenLock.

Arguments N.add : simpl never.

(* ------------------------------------------------------------------------------------------ *)
(* The invariant.  Either nobody holds the flock and there is no live handle, or handle [o]    *)
(* holds it and [o] is exactly the one live handle, with at least one reference, an id below   *)
(* [next_id]; the directories and the LOCK file exist.                                         *)
(* ------------------------------------------------------------------------------------------ *)
Definition Inv (s : st) : Prop :=
  match lock_owner (dir s) with
  | None => handles s = []
  | Some o =>
      (exists p r, handles s = [mkH o p r] /\ 1 <= r) /\
      o < next_id s /\ dirs_made (dir s) = true /\ lock_exists (dir s) = true
  end.

Lemma Inv_init : Inv init.
Proof. reflexivity. Qed.

Ltac eqb_cases :=
  repeat match goal with
  | |- context [Nat.eqb ?a ?b] => destruct (Nat.eqb_spec a b); cbn
  | |- context [Nat.leb ?a ?b] => destruct (Nat.leb_spec a b); cbn
  end.

Lemma step_Inv : forall s e, Inv s -> Inv (fst (step s e)).
Proof.
  intros [[o c dm le] hs n] e. unfold Inv. cbn.
  destruct o as [o|].
  - intros ((p & r & -> & Hr) & Hn & -> & ->).
    destruct e as [pid|hid|hid|pid|hid];
      cbn; unfold has_id, has_pid, release, release_pid; cbn; eqb_cases; cbn;
      unfold has_id, has_pid; cbn; eqb_cases;
      try subst; try reflexivity; try lia; try congruence;
      repeat split; eauto; try lia;
      try (do 2 eexists; split; [reflexivity|lia]).
  - intros ->.
    destruct e as [pid|hid|hid|pid|hid]; cbn; try reflexivity.
    repeat split; eauto.
Qed.

Lemma run_Inv : forall evs s, Inv s -> Inv (run s evs).
Proof.
  induction evs as [|e r IH]; intros s H; cbn; [assumption|].
  apply IH, step_Inv, H.
Qed.

Lemma reachable_Inv : forall s, reachable s -> Inv s.
Proof. intros s [evs ->]. apply run_Inv, Inv_init. Qed.

Lemma reachable_init : reachable init.
Proof. exists []. reflexivity. Qed.

Lemma run_app : forall a b s, run s (a ++ b) = run (run s a) b.
Proof. induction a as [|e a IH]; intros b s; cbn; [reflexivity|apply IH]. Qed.

Lemma reachable_step : forall s e, reachable s -> reachable (fst (step s e)).
Proof.
  intros s e [evs ->]. exists (evs ++ [e]). rewrite run_app. reflexivity.
Qed.

Lemma reachable_run : forall evs s, reachable s -> reachable (run s evs).
Proof.
  induction evs as [|e r IH]; intros s H; cbn; [assumption|].
  apply IH, reachable_step, H.
Qed.

(* ------------------------------------------------------------------------------------------ *)
(* The components of the invariant, in the form of the task statement.                         *)
(* ------------------------------------------------------------------------------------------ *)

(* lock_owner = Some o  <->  exactly the handle o is live *)
Lemma Inv_owner_iff_live : forall s, reachable s -> forall o,
  lock_owner (dir s) = Some o <-> exists p r, handles s = [mkH o p r].
Proof.
  intros s R o. apply reachable_Inv in R. unfold Inv in R. split.
  - intros E. rewrite E in R. destruct R as ((p & r & H & _) & _). eauto.
  - intros (p & r & E). destruct (lock_owner (dir s)) as [o'|].
    + destruct R as ((p' & r' & H & _) & _). congruence.
    + congruence.
Qed.

Lemma Inv_unlocked_iff_no_handle : forall s, reachable s ->
  lock_owner (dir s) = None <-> handles s = [].
Proof.
  intros s R. apply reachable_Inv in R. unfold Inv in R.
  destruct (lock_owner (dir s)) as [o|].
  - destruct R as ((p & r & H & _) & _). split; congruence.
  - tauto.
Qed.

Lemma Inv_refs_pos : forall s, reachable s -> forall h, In h (handles s) -> 1 <= h_refs h.
Proof.
  intros s R h Hin. apply reachable_Inv in R. unfold Inv in R.
  destruct (lock_owner (dir s)) as [o|].
  - destruct R as ((p & r & H & Hr) & _). rewrite H in Hin.
    destruct Hin as [<-|[]]. exact Hr.
  - rewrite R in Hin. destruct Hin.
Qed.

Lemma Inv_ids_fresh : forall s, reachable s -> forall h, In h (handles s) -> h_id h < next_id s.
Proof.
  intros s R h Hin. apply reachable_Inv in R. unfold Inv in R.
  destruct (lock_owner (dir s)) as [o|].
  - destruct R as ((p & r & H & _) & Hn & _). rewrite H in Hin.
    destruct Hin as [<-|[]]. exact Hn.
  - rewrite R in Hin. destruct Hin.
Qed.

(* a live handle is the lock owner, and it is the only handle *)
Lemma Inv_live_is_owner : forall s, reachable s -> forall h, In h (handles s) ->
  lock_owner (dir s) = Some (h_id h) /\ handles s = [h].
Proof.
  intros s R h Hin. apply reachable_Inv in R. unfold Inv in R.
  destruct (lock_owner (dir s)) as [o|].
  - destruct R as ((p & r & H & _) & _). rewrite H in *.
    destruct Hin as [<-|[]]. split; reflexivity.
  - rewrite R in Hin. destruct Hin.
Qed.

(* while the directory is locked, staging/, cas/ and LOCK exist *)
Lemma Inv_locked_dirs : forall s, reachable s -> lock_owner (dir s) <> None ->
  dirs_made (dir s) = true /\ lock_exists (dir s) = true.
Proof.
  intros s R H. apply reachable_Inv in R. unfold Inv in R.
  destruct (lock_owner (dir s)) as [o|]; [tauto|congruence].
Qed.

(* ------------------------------------------------------------------------------------------ *)
(* C11                                                                                         *)
(* ------------------------------------------------------------------------------------------ *)

(* at most one live handle, and it is the lock owner *)
Theorem C11_at_most_one_live_reachable : forall s, reachable s ->
  length (handles s) <= 1 /\
  (forall h, In h (handles s) -> lock_owner (dir s) = Some (h_id h)).
Proof.
  intros s R. split.
  - destruct (handles s) as [|h t] eqn:E; [cbn; lia|].
    destruct (Inv_live_is_owner s R h) as [_ H]; [rewrite E; left; reflexivity|].
    rewrite E in H. injection H as ->. cbn. lia.
  - intros h Hin. apply (Inv_live_is_owner s R h Hin).
Qed.

Theorem C11_at_most_one_live : forall evs,
  length (handles (run init evs)) <= 1 /\
  (forall h, In h (handles (run init evs)) ->
     lock_owner (dir (run init evs)) = Some (h_id h)).
Proof.
  intros evs. apply C11_at_most_one_live_reachable. exists evs. reflexivity.
Qed.

(* A losing open returns AlreadyOpened and modifies no database file (only the idempotent mkdirs
   and the truncation of the empty LOCK file).  The first form needs no reachability. *)
Theorem C11_loser_noninterference_any : forall s pid,
  lock_owner (dir s) <> None ->
  exists s', step s (EOpen pid) = (s', RAlreadyOpened) /\
    content (dir s') = content (dir s) /\ handles s' = handles s /\
    lock_owner (dir s') = lock_owner (dir s) /\ next_id s' = next_id s.
Proof.
  intros [[o c dm le] hs n] pid. cbn. destruct o as [o|]; [|congruence].
  intros _. eexists. split; [reflexivity|]. cbn. auto.
Qed.

Theorem C11_loser_noninterference : forall s pid, reachable s ->
  lock_owner (dir s) <> None ->
  exists s', step s (EOpen pid) = (s', RAlreadyOpened) /\
    content (dir s') = content (dir s) /\ handles s' = handles s /\
    lock_owner (dir s') = lock_owner (dir s).
Proof.
  intros s pid _ H. destruct (C11_loser_noninterference_any s pid H) as (s' & E & A & B & C & _).
  exists s'. auto.
Qed.

(* In a reachable state the loser changes nothing at all: the directories and LOCK exist already
   (they were made by the open of the current owner), so even the idempotent part is a no-op. *)
Theorem C11_loser_identity : forall s pid, reachable s ->
  lock_owner (dir s) <> None ->
  step s (EOpen pid) = (s, RAlreadyOpened).
Proof.
  intros s pid R H. destruct (Inv_locked_dirs s R H) as [D L].
  destruct s as [[o c dm le] hs n]. cbn in *. subst.
  destruct o as [o|]; [reflexivity|congruence].
Qed.

(* an open of an unlocked directory succeeds (no reachability needed), the new handle is live,
   owns the lock and has one reference *)
Theorem C11_winner_any : forall s pid,
  lock_owner (dir s) = None ->
  step s (EOpen pid) =
    (mkSt (mkDir (Some (next_id s)) (content (dir s) + 1)%N true true)
          (mkH (next_id s) pid 1 :: handles s) (S (next_id s)),
     ROpened (next_id s)).
Proof.
  intros [[o c dm le] hs n] pid. cbn. intros ->. reflexivity.
Qed.

Theorem C11_winner : forall s pid, reachable s ->
  lock_owner (dir s) = None -> exists h, snd (step s (EOpen pid)) = ROpened h.
Proof.
  intros s pid _ H. rewrite (C11_winner_any s pid H). eexists. reflexivity.
Qed.

(* the winner is the only live handle afterwards *)
Theorem C11_winner_sole : forall s pid, reachable s ->
  lock_owner (dir s) = None ->
  handles (fst (step s (EOpen pid))) = [mkH (next_id s) pid 1] /\
  lock_owner (dir (fst (step s (EOpen pid)))) = Some (next_id s).
Proof.
  intros s pid R H. rewrite (C11_winner_any s pid H). cbn.
  apply (Inv_unlocked_iff_no_handle s R) in H. rewrite H. auto.
Qed.

(* open succeeds iff the directory is not locked *)
Theorem C11_open_result : forall s pid,
  snd (step s (EOpen pid)) =
    match lock_owner (dir s) with None => ROpened (next_id s) | Some _ => RAlreadyOpened end.
Proof.
  intros [[o c dm le] hs n] pid. cbn. destruct o; reflexivity.
Qed.

(* dropping the last reference releases the lock *)
Lemma drop_last_unlocks : forall s h, reachable s ->
  In h (handles s) -> h_refs h = 1 ->
  lock_owner (dir (fst (step s (EDrop (h_id h))))) = None /\
  handles (fst (step s (EDrop (h_id h)))) = [].
Proof.
  intros s h R Hin Hr. destruct (Inv_live_is_owner s R h Hin) as [Ho Hs].
  destruct s as [[o c dm le] hs n]. cbn in *. subst.
  destruct h as [i p r]. cbn in *. subst.
  unfold find_handle, remove_handle, release, has_id. cbn.
  rewrite ?Nat.eqb_refl. cbn. rewrite ?Nat.eqb_refl. cbn. auto.
Qed.

Theorem C11_release_by_drop : forall s h pid, reachable s ->
  In h (handles s) -> h_refs h = 1 ->
  exists h', snd (step (fst (step s (EDrop (h_id h)))) (EOpen pid)) = ROpened h'.
Proof.
  intros s h pid R Hin Hr.
  apply C11_winner; [apply reachable_step, R|].
  apply (drop_last_unlocks s h R Hin Hr).
Qed.

(* with a clone (or an OrphanStats object) alive, dropping one reference keeps the lock *)
Lemma drop_nonlast_keeps : forall s h, reachable s ->
  In h (handles s) -> 2 <= h_refs h ->
  lock_owner (dir (fst (step s (EDrop (h_id h))))) = Some (h_id h) /\
  handles (fst (step s (EDrop (h_id h)))) = [mkH (h_id h) (h_pid h) (h_refs h - 1)].
Proof.
  intros s h R Hin Hr. destruct (Inv_live_is_owner s R h Hin) as [Ho Hs].
  destruct s as [[o c dm le] hs n]. cbn in *. subst.
  destruct h as [i p r]. cbn in *.
  unfold find_handle, upd_refs, has_id. cbn.
  rewrite ?Nat.eqb_refl. cbn.
  destruct (Nat.leb_spec r 1); [lia|]. cbn. rewrite ?Nat.eqb_refl.
  split; [reflexivity|]. do 2 f_equal. lia.
Qed.

Theorem C11_clone_keeps_lock : forall s h pid, reachable s ->
  In h (handles s) -> 2 <= h_refs h ->
  snd (step (fst (step s (EDrop (h_id h)))) (EOpen pid)) = RAlreadyOpened.
Proof.
  intros s h pid R Hin Hr. rewrite C11_open_result.
  destruct (drop_nonlast_keeps s h R Hin Hr) as [-> _]. reflexivity.
Qed.

(* a clone adds a reference, so one drop after a clone never releases the lock *)
Theorem C11_clone_then_drop_keeps_lock : forall s h pid, reachable s ->
  In h (handles s) ->
  snd (step (fst (step (fst (step s (EClone (h_id h)))) (EDrop (h_id h)))) (EOpen pid))
    = RAlreadyOpened.
Proof.
  intros s h pid R Hin.
  pose proof (Inv_refs_pos s R h Hin) as Hr.
  destruct (Inv_live_is_owner s R h Hin) as [Ho Hs].
  set (s1 := fst (step s (EClone (h_id h)))).
  assert (H1 : handles s1 = [mkH (h_id h) (h_pid h) (S (h_refs h))]).
  { unfold s1. cbn. rewrite Hs. unfold upd_refs, has_id. cbn.
    rewrite Nat.eqb_refl. reflexivity. }
  assert (R1 : reachable s1) by (apply reachable_step, R).
  apply (C11_clone_keeps_lock s1 (mkH (h_id h) (h_pid h) (S (h_refs h))) pid R1).
  - rewrite H1. left. reflexivity.
  - cbn. lia.
Qed.

(* the death of the owner's process releases the lock (whatever the number of references) *)
Lemma kill_owner_unlocks : forall s h, reachable s ->
  In h (handles s) ->
  lock_owner (dir (fst (step s (EKill (h_pid h))))) = None /\
  handles (fst (step s (EKill (h_pid h)))) = [].
Proof.
  intros s h R Hin. destruct (Inv_live_is_owner s R h Hin) as [Ho Hs].
  destruct s as [[o c dm le] hs n]. cbn in *. subst.
  destruct h as [i p r]. cbn in *.
  unfold release_pid, remove_pid, has_id, has_pid. cbn.
  rewrite !Nat.eqb_refl. cbn. auto.
Qed.

Theorem C11_release_by_kill : forall s o h pid, reachable s ->
  lock_owner (dir s) = Some o -> In h (handles s) -> h_id h = o ->
  exists h', snd (step (fst (step s (EKill (h_pid h)))) (EOpen pid)) = ROpened h'.
Proof.
  intros s o h pid R _ Hin _.
  apply C11_winner; [apply reachable_step, R|].
  apply (kill_owner_unlocks s h R Hin).
Qed.

(* the death of another process does not release the lock *)
Theorem C11_kill_other_keeps_lock : forall s h pid pid', reachable s ->
  In h (handles s) -> h_pid h <> pid' ->
  fst (step s (EKill pid')) = s /\
  snd (step (fst (step s (EKill pid'))) (EOpen pid)) = RAlreadyOpened.
Proof.
  intros s h pid pid' R Hin Hne. destruct (Inv_live_is_owner s R h Hin) as [Ho Hs].
  assert (E : fst (step s (EKill pid')) = s).
  { destruct s as [[o c dm le] hs n]. cbn in *. subst.
    destruct h as [i p r]. cbn in *.
    unfold release_pid, remove_pid, has_id, has_pid. cbn.
    rewrite Nat.eqb_refl. destruct (Nat.eqb_spec p pid'); [contradiction|]. reflexivity. }
  split; [exact E|]. rewrite E, C11_open_result, Ho. reflexivity.
Qed.

(* operations, clones and drops through an id that is not live change nothing: a handle that
   lost (never obtained) the directory cannot touch it *)
Theorem C11_dead_handle_noninterference : forall s hid,
  live hid (handles s) = false ->
  fst (step s (EOp hid)) = s /\ fst (step s (EDrop hid)) = s /\
  handles (fst (step s (EClone hid))) = handles s /\ dir (fst (step s (EClone hid))) = dir s.
Proof.
  intros s hid H. cbn. rewrite H. unfold find_handle, live in *.
  assert (F : find (has_id hid) (handles s) = None).
  { destruct (find (has_id hid) (handles s)) as [h|] eqn:E; [|reflexivity].
    apply find_some in E. destruct E as [Hin Hid].
    assert (existsb (has_id hid) (handles s) = true)
      by (apply existsb_exists; exists h; auto).
    congruence. }
  rewrite F. repeat split; try reflexivity.
  unfold upd_refs. induction (handles s) as [|a t IH]; [reflexivity|].
  cbn in *. apply orb_false_elim in H. destruct H as [Ha Ht]. rewrite Ha.
  f_equal. apply IH; [exact Ht|].
  rewrite Ha in F. exact F.
Qed.

(* ------------------------------------------------------------------------------------------ *)
(* results                                                                                      *)
(* ------------------------------------------------------------------------------------------ *)
Lemma results_from_length : forall evs s, length (results_from s evs) = length evs.
Proof. induction evs as [|e r IH]; intros s; cbn; [reflexivity|]. rewrite IH. reflexivity. Qed.

Lemma results_length : forall evs, length (results evs) = length evs.
Proof. intros. apply results_from_length. Qed.

Lemma results_from_app : forall a b s,
  results_from s (a ++ b) = results_from s a ++ results_from (run s a) b.
Proof.
  induction a as [|e a IH]; intros b s; cbn; [reflexivity|]. rewrite IH. reflexivity.
Qed.

(* the n-th result is the result of the n-th event in the state reached by the events before *)
Lemma results_nth : forall pre e post,
  nth_error (results (pre ++ e :: post)) (length pre) = Some (snd (step (run init pre) e)).
Proof.
  intros pre e post. unfold results. rewrite results_from_app.
  rewrite nth_error_app2; rewrite results_from_length; [|lia].
  rewrite Nat.sub_diag. reflexivity.
Qed.

(* an open in a run succeeds iff nobody holds the lock at that point, i.e. iff no handle is live *)
Theorem results_open_spec : forall pre pid post,
  nth_error (results (pre ++ EOpen pid :: post)) (length pre) =
    Some (match handles (run init pre) with
          | [] => ROpened (next_id (run init pre))
          | _ :: _ => RAlreadyOpened
          end).
Proof.
  intros pre pid post. rewrite results_nth, C11_open_result. f_equal.
  assert (R : reachable (run init pre)) by (exists pre; reflexivity).
  pose proof (Inv_unlocked_iff_no_handle _ R) as H.
  destruct (lock_owner (dir (run init pre))) as [o|].
  - destruct (handles (run init pre)); [|reflexivity].
    destruct H as [_ H]. discriminate (H eq_refl).
  - destruct H as [H _]. rewrite (H eq_refl). reflexivity.
Qed.

(* racing opens: whatever the processes, the first open wins and all the others lose *)
Lemma results_from_locked_opens : forall pids s,
  lock_owner (dir s) <> None ->
  results_from s (map EOpen pids) = repeat RAlreadyOpened (length pids).
Proof.
  induction pids as [|p r IH]; intros s H; cbn [map results_from length repeat]; [reflexivity|].
  destruct (C11_loser_noninterference_any s p H) as (s' & E & _ & _ & Ho & _).
  rewrite E. cbn [fst snd]. f_equal. apply IH. rewrite Ho. exact H.
Qed.

Theorem C11_racing_opens : forall pid pids,
  results (map EOpen (pid :: pids)) = ROpened 0 :: repeat RAlreadyOpened (length pids).
Proof.
  intros pid pids. unfold results. cbn [map results_from]. f_equal.
  apply results_from_locked_opens. cbn. discriminate.
Qed.

(* exactly one winner among racing opens *)
Theorem C11_racing_opens_one_winner : forall pid pids,
  length (filter (fun r => match r with ROpened _ => true | _ => false end)
                 (results (map EOpen (pid :: pids)))) = 1.
Proof.
  intros pid pids. rewrite C11_racing_opens. cbn. f_equal.
  induction (length pids) as [|n IH]; [reflexivity|exact IH].
Qed.

(* ------------------------------------------------------------------------------------------ *)
(* Examples                                                                                     *)
(* ------------------------------------------------------------------------------------------ *)
Example ex_run :
  results [EOpen 1; EOpen 2; EClone 0; EDrop 0; EOpen 2; EDrop 0; EOpen 2]
  = [ROpened 0; RAlreadyOpened; RNone; RNone; RAlreadyOpened; RNone; ROpened 1].
Proof. vm_compute. reflexivity. Qed.

Example ex_run_state :
  run init [EOpen 1; EOpen 2; EClone 0; EDrop 0; EOpen 2; EDrop 0; EOpen 2]
  = mkSt (mkDir (Some 1) 2%N true true) [mkH 1 2 1] 2.
Proof. vm_compute. reflexivity. Qed.

(* the owner is killed while a clone is alive: the lock is released all the same *)
Example ex_kill :
  results [EOpen 7; EClone 0; EOp 0; EOpen 8; EKill 8; EOpen 8; EKill 7; EOp 0; EOpen 8; EOpen 7]
  = [ROpened 0; RNone; RNone; RAlreadyOpened; RNone; RAlreadyOpened; RNone; RNone;
     ROpened 1; RAlreadyOpened].
Proof. vm_compute. reflexivity. Qed.

(* a loser on a fresh directory cannot exist; a loser after the winner leaves content alone,
   and an operation through a dead handle id does nothing *)
Example ex_content :
  content (dir (run init [EOpen 1; EOpen 2; EOpen 3; EOp 5; EOp 0; EDrop 0; EOp 0])) = 2%N.
Proof. vm_compute. reflexivity. Qed.

Example ex_racing : results (map EOpen [4; 4; 9; 2])
  = [ROpened 0; RAlreadyOpened; RAlreadyOpened; RAlreadyOpened].
Proof. vm_compute. reflexivity. Qed.

Print Assumptions C11_at_most_one_live.
Print Assumptions C11_loser_noninterference.
Print Assumptions C11_loser_identity.
Print Assumptions C11_winner.
Print Assumptions C11_winner_sole.
Print Assumptions C11_release_by_drop.
Print Assumptions C11_clone_keeps_lock.
Print Assumptions C11_clone_then_drop_keeps_lock.
Print Assumptions C11_release_by_kill.
Print Assumptions C11_kill_other_keeps_lock.
Print Assumptions C11_dead_handle_noninterference.
Print Assumptions results_open_spec.
Print Assumptions C11_racing_opens.
Print Assumptions C11_racing_opens_one_winner.
Print Assumptions ex_run.
