(* ConcExamples.v -- closed instances of the concurrent model, by computation.

   1. Two threads put the same key with different contents; three schedules reach final
      states, shown [reachable], to which C04_no_dangling, C07_quiescent_exact and C15 apply;
      the final states are also displayed.
   2. C05_aba_now_returns_content: the interleaving that used to make a KGet report
      CMissing (delete-then-reput while the reader is parked) now parks the reader at the
      open under the shared state lock, and its next step returns the content;
      reader_blocks_exclusive_S: meanwhile a writer at lock_S is blocked;
      progA_never_missing: the instance of C05_read_never_fails.
   3. Progress: the step bound of C15_progress and C15_calls_complete on the two-put program.
   4. Faults: the two-put program with the path of the first blob obstructed (the rename fails,
      the intent is reverted, the put returns CErr) and with failing checkpoints; the general
      theorems instantiated with a nonempty [bad].  (The F6 schedule is in ConcFault.v.)

   5. Ranged reads and iteration: a KGetRange racing an overwrite by a longer value (both
      outcomes: the slice of the old value clamped to the old size; after the retry the slice
      of the new value clamped to the CURRENT size) and a KIter racing a put (blocked while the
      writer holds S exclusively; both snapshots occur).

   Sections 1-3 and 5 instantiate the fault parameters with nobad / false. *)
From Cas Require Import Base Codec SMap Index Conc.
From CasProofs Require Import SMapProofs IndexProofs ConcInv ConcProofs ConcProgress ConcReads.
From Coq Require Import List NArith Lia Bool.
Import ListNotations.
Open Scope N_scope.

Definition toyH (b : bytes) : bytes := repeat (N.of_nat (length b) mod 256) 32.

(* collision freedom of toyH over a list of contents of pairwise different lengths is
   decided by computation *)
Fixpoint nocollide_list (l : list bytes) : bool :=
  match l with
  | [] => true
  | a :: r => forallb (fun b => beqb a b || negb (beqb (toyH a) (toyH b))) r && nocollide_list r
  end.

Lemma nocollide_list_sound l : nocollide_list l = true ->
  forall a b, In a l -> In b l -> toyH a = toyH b -> a = b.
Proof.
  induction l as [|x r IH]; cbn [nocollide_list]; intros C a b Ia Ib E; [destruct Ia|].
  apply andb_true_iff in C. destruct C as [C1 C2]. rewrite forallb_forall in C1.
  assert (X : forall y, In y r -> toyH x = toyH y -> x = y).
  { intros y Iy Ey. specialize (C1 y Iy). apply orb_true_iff in C1. destruct C1 as [C1|C1].
    - apply beqb_true_iff, C1.
    - rewrite Ey, beqb_refl in C1. discriminate. }
  destruct Ia as [<-|Ia], Ib as [<-|Ib].
  - reflexivity.
  - apply X; assumption.
  - symmetry. apply X; [assumption|congruence].
  - apply IH; assumption.
Qed.

(* the fault-free instance of the fault parameters *)
Definition nobad : bytes -> bool := fun _ => false.

(* ---- 1. two puts of the same key ---- *)
Definition prog2 : list (nat * list ccall) :=
  [(1%nat, [KPut [1] [10]]); (2%nat, [KPut [1] [20; 21]])].

Lemma prog2_nodup : NoDup (map fst prog2).
Proof. cbn. repeat constructor; cbn; intuition discriminate. Qed.

Lemma prog2_nocollide :
  forall a b, In a (allc prog2 []) -> In b (allc prog2 []) -> toyH a = toyH b -> a = b.
Proof. apply nocollide_list_sound. vm_compute. reflexivity. Qed.

Definition sched_seq : list nat := repeat 1%nat 9 ++ repeat 2%nat 12.
(* thread 2 registers and renames first, thread 1 overtakes it at the locks, thread 2
   commits last and unlinks the blob of thread 1 *)
Definition sched_mix : list nat :=
  [2; 2; 2; 1; 1; 2; 1; 1; 1; 1; 2; 1; 2; 1; 1; 2; 2; 2; 2; 2; 2; 2]%nat.
(* thread 1 commits last *)
Definition sched_mix' : list nat :=
  [1; 2; 1; 2; 1; 2; 2; 2; 2; 2; 2; 2; 1; 1; 1; 1; 1; 1; 1; 1; 1]%nat.

Definition g_seq := crun toyH lex_cmp 100 nobad false (init_c prog2 []) sched_seq.
Definition g_mix := crun toyH lex_cmp 100 nobad false (init_c prog2 []) sched_mix.
Definition g_mix' := crun toyH lex_cmp 100 nobad false (init_c prog2 []) sched_mix'.

Example g_seq_reachable : reachable toyH lex_cmp 100 nobad false prog2 [] g_seq.
Proof. exists sched_seq. reflexivity. Qed.
Example g_mix_reachable : reachable toyH lex_cmp 100 nobad false prog2 [] g_mix.
Proof. exists sched_mix. reflexivity. Qed.
Example g_mix'_reachable : reachable toyH lex_cmp 100 nobad false prog2 [] g_mix'.
Proof. exists sched_mix'. reflexivity. Qed.

(* all three runs are complete; the last committer wins and only its blob remains *)
Example g_seq_final :
  all_finished g_seq = true /\
  km (g_idx g_seq) = [([1], mkItem (toyH [20; 21]) 2)] /\
  g_cas g_seq = [(toyH [20; 21], [20; 21])] /\ g_byhash g_seq = [] /\
  g_I g_seq = None /\ g_S g_seq = None.
Proof. vm_compute. repeat split. Qed.

Example g_mix_final :
  all_finished g_mix = true /\
  km (g_idx g_mix) = [([1], mkItem (toyH [20; 21]) 2)] /\
  g_cas g_mix = [(toyH [20; 21], [20; 21])] /\ g_byhash g_mix = [].
Proof. vm_compute. repeat split. Qed.

Example g_mix'_final :
  all_finished g_mix' = true /\
  km (g_idx g_mix') = [([1], mkItem (toyH [10]) 1)] /\
  g_cas g_mix' = [(toyH [10], [10])] /\ g_byhash g_mix' = [].
Proof. vm_compute. repeat split. Qed.

(* the theorem instances *)
Definition no_dangling (g : cstate) : Prop :=
  forall k it, sm_get lex_cmp (km (g_idx g)) k = Some it ->
  exists c, sm_get lex_cmp (g_cas g) (ihash it) = Some c /\ toyH c = ihash it /\ len c = isize it.

Lemma prog2_no_dangling g : reachable toyH lex_cmp 100 nobad false prog2 [] g -> no_dangling g.
Proof.
  intros R. unfold no_dangling.
  apply (C04_no_dangling toyH lex_cmp lex_refl lex_eq lex_antisym lex_trans 100 nobad false prog2
           prog2_nodup [] I (fun h c (F : In (h, c) []) => match F with end) prog2_nocollide g R).
Qed.

Example g_seq_no_dangling : no_dangling g_seq.
Proof. apply prog2_no_dangling, g_seq_reachable. Qed.
Example g_mix_no_dangling : no_dangling g_mix.
Proof. apply prog2_no_dangling, g_mix_reachable. Qed.
Example g_mix'_no_dangling : no_dangling g_mix'.
Proof. apply prog2_no_dangling, g_mix'_reachable. Qed.

(* an intermediate state of the interleaved run: both intents registered, both blobs present,
   nothing indexed yet; the invariant (hence no dangling, deadlock freedom) applies too *)
Definition g_mid := crun toyH lex_cmp 100 nobad false (init_c prog2 []) (firstn 9 sched_mix).
Example g_mid_state :
  km (g_idx g_mid) = [] /\
  g_byhash g_mid = [(toyH [10], 1); (toyH [20; 21], 1)] /\
  map fst (g_cas g_mid) = [toyH [10]; toyH [20; 21]] /\ g_I g_mid = Some 1%nat.
Proof. vm_compute. repeat split. Qed.

Example g_mid_can_move : exists t, enabled toyH lex_cmp 100 nobad false g_mid t = true.
Proof.
  apply (C15_deadlock_free toyH lex_cmp lex_refl lex_eq lex_antisym lex_trans 100 nobad false prog2
           prog2_nodup [] I (fun h c (F : In (h, c) []) => match F with end) prog2_nocollide).
  - exists (firstn 9 sched_mix). reflexivity.
  - vm_compute. reflexivity.
Qed.

(* ---- 2. the former ABA interleaving: the reader now returns the content ---- *)
Definition progA : list (nat * list ccall) :=
  [(1%nat, [KPut [1] [10]; KRemove [1]; KPut [1] [10]]); (2%nat, [KGet [1]])].

Lemma progA_nodup : NoDup (map fst progA).
Proof. cbn. repeat constructor; cbn; intuition discriminate. Qed.

Lemma progA_nocollide :
  forall a b, In a (allc progA []) -> In b (allc progA []) -> toyH a = toyH b -> a = b.
Proof. apply nocollide_list_sound. vm_compute. reflexivity. Qed.

(* the schedule that used to end in BlobDataMissing *)
Definition schedA : list nat :=
  repeat 1%nat 9          (* thread 1: put k := c, complete *)
  ++ repeat 2%nat 3       (* thread 2: get k looks up the item (H c, 1), parks at open_blob *)
  ++ repeat 1%nat 10      (* thread 1: remove k, complete: the blob is unlinked *)
  ++ [2%nat]              (* thread 2: open fails with NotFound, parks at the re-read *)
  ++ repeat 1%nat 9       (* thread 1: put k := c again, complete *)
  ++ [2%nat].             (* thread 2: re-reads k and keeps the state lock shared *)

Definition g_A := crun toyH lex_cmp 100 nobad false (init_c progA []) schedA.
Definition g_A' := crun toyH lex_cmp 100 nobad false (init_c progA []) (schedA ++ [2%nat]).

Example C05_aba_now_returns_content :
  reachable toyH lex_cmp 100 nobad false progA [] g_A /\
  (* after the old schedule the reader is parked at the open under the read lock, carrying
     the CURRENT item of the key *)
  tget (g_thr g_A) 2%nat = Some (mkT [] (GOpenL [1] (mkItem (toyH [10]) 1) MFull) []) /\
  g_R g_A = [2%nat] /\ g_S g_A = None /\
  (* its next step returns the content and releases the lock *)
  reachable toyH lex_cmp 100 nobad false progA [] g_A' /\
  all_finished g_A' = true /\
  tget (g_thr g_A') 2%nat = Some (mkT [] Idle [CBytes (Some [10])]) /\
  g_R g_A' = [] /\
  km (g_idx g_A') = [([1], mkItem (toyH [10]) 1)] /\
  g_cas g_A' = [(toyH [10], [10])].
Proof.
  split; [exists schedA; reflexivity|].
  split; [vm_compute; reflexivity|]. split; [vm_compute; reflexivity|].
  split; [vm_compute; reflexivity|].
  split; [exists (schedA ++ [2%nat]); reflexivity|].
  vm_compute. repeat split.
Qed.

(* while the reader holds the lock shared, a writer that wants S exclusively is blocked: here
   thread 1 is made to run a further put up to lock_S after the reader parked *)
Definition progB : list (nat * list ccall) :=
  [(1%nat, [KPut [1] [10]; KRemove [1]; KPut [1] [10]; KPut [2] [30; 31; 32]]); (2%nat, [KGet [1]])].
Definition g_B := crun toyH lex_cmp 100 nobad false (init_c progB []) (schedA ++ repeat 1%nat 5).
Example reader_blocks_exclusive_S :
  tget (g_thr g_B) 1%nat =
    Some (mkT [] (WLockS (WPut [2] (toyH [30; 31; 32]) 3)) [CUnit; CBool true; CUnit]) /\
  g_R g_B = [2%nat] /\
  enabled toyH lex_cmp 100 nobad false g_B 1%nat = false /\ enabled toyH lex_cmp 100 nobad false g_B 2%nat = true.
Proof. vm_compute. repeat split. Qed.

(* the general theorem on this program: no reachable state has a CMissing result *)
Example progA_never_missing g : reachable toyH lex_cmp 100 nobad false progA [] g ->
  forall t ts, tget (g_thr g) t = Some ts -> ~ In CMissing (t_res ts).
Proof.
  apply (C05_read_never_fails toyH lex_cmp lex_refl lex_eq lex_antisym lex_trans 100 nobad false progA
           progA_nodup [] I (fun h c (F : In (h, c) []) => match F with end) progA_nocollide).
Qed.

(* ---- 3. progress on the two-put program ---- *)
(* at most 24 steps under ANY schedule (total work 2 * 12) *)
Example prog2_step_bound : forall sched,
  (csteps toyH lex_cmp 100 nobad false (init_c prog2 []) sched <= 24)%nat.
Proof.
  intros sched.
  apply (C15_progress toyH lex_cmp lex_refl lex_eq lex_antisym lex_trans 100 nobad false prog2 [] sched).
Qed.

(* from the intermediate state some schedule completes both calls *)
Example g_mid_completes : exists sched, all_finished (crun toyH lex_cmp 100 nobad false g_mid sched) = true.
Proof.
  apply (C15_calls_complete toyH lex_cmp lex_refl lex_eq lex_antisym lex_trans 100 nobad false prog2
           prog2_nodup [] I (fun h c (F : In (h, c) []) => match F with end) prog2_nocollide).
  exists (firstn 9 sched_mix). reflexivity.
Qed.

(* ---- 4. faults ---- *)
(* the path of the blob of [10] is obstructed; every checkpoint fails *)
Definition badA : bytes -> bool := fun h => beqb h (toyH [10]).

Definition progC : list (nat * list ccall) :=
  [(1%nat, [KPut [1] [10]; KCheckpoint]); (2%nat, [KPut [1] [20; 21]])].

Lemma progC_nodup : NoDup (map fst progC).
Proof. cbn. repeat constructor; cbn; intuition discriminate. Qed.

Lemma progC_nocollide :
  forall a b, In a (allc progC []) -> In b (allc progC []) -> toyH a = toyH b -> a = b.
Proof. apply nocollide_list_sound. vm_compute. reflexivity. Qed.

(* both threads register their intents; thread 1's rename fails and it parks at the drop of
   its guard; thread 2 commits; thread 1 reverts its intent, returns CErr, then checkpoints *)
Definition sched_C : list nat :=
  [1; 1; 1; 2; 2; 2; 1]%nat ++ repeat 2%nat 6 ++ repeat 1%nat 4.

Definition g_C_mid := crun toyH lex_cmp 100 badA true (init_c progC []) (firstn 7 sched_C).
Definition g_C := crun toyH lex_cmp 100 badA true (init_c progC []) sched_C.

(* thread 1 is parked at guard_drop.lock_I: it remembers that it replaced nothing in by_key,
   while by_key[k] now belongs to thread 2; both hashes are in the ledger *)
Example g_C_mid_state :
  tget (g_thr g_C_mid) 1%nat = Some (mkT [KCheckpoint] (PDropI [1] (toyH [10]) None) []) /\
  g_bykey g_C_mid = [([1], toyH [20; 21])] /\
  g_byhash g_C_mid = [(toyH [10], 1); (toyH [20; 21], 1)] /\ g_cas g_C_mid = [].
Proof. vm_compute. repeat split. Qed.

Example g_C_final :
  all_finished g_C = true /\
  tget (g_thr g_C) 1%nat = Some (mkT [] Idle [CErr; CErr]) /\   (* failed put, failed checkpoint *)
  tget (g_thr g_C) 2%nat = Some (mkT [] Idle [CUnit]) /\
  km (g_idx g_C) = [([1], mkItem (toyH [20; 21]) 2)] /\
  g_cas g_C = [(toyH [20; 21], [20; 21])] /\ g_byhash g_C = [] /\ g_bykey g_C = [] /\
  g_I g_C = None /\ g_S g_C = None.
Proof. vm_compute. repeat split. Qed.

Example g_C_reachable : reachable toyH lex_cmp 100 badA true progC [] g_C.
Proof. exists sched_C. reflexivity. Qed.

(* the general theorems with a nonempty bad and failing checkpoints *)
Example g_C_no_dangling : no_dangling g_C.
Proof.
  unfold no_dangling.
  apply (C04_no_dangling toyH lex_cmp lex_refl lex_eq lex_antisym lex_trans 100 badA true progC
           progC_nodup [] I (fun h c (F : In (h, c) []) => match F with end) progC_nocollide g_C
           g_C_reachable).
Qed.

Example g_C_mid_can_move : exists t, enabled toyH lex_cmp 100 badA true g_C_mid t = true.
Proof.
  apply (C15_deadlock_free toyH lex_cmp lex_refl lex_eq lex_antisym lex_trans 100 badA true progC
           progC_nodup [] I (fun h c (F : In (h, c) []) => match F with end) progC_nocollide).
  - exists (firstn 7 sched_C). reflexivity.
  - vm_compute. reflexivity.
Qed.

(* the run is exact at quiescence although calls failed: nothing was leaked here, and the
   general theorem says so for every run of this program in which no path is obstructed;
   with badA it only applies to runs without error results, so here exactness is by computation *)
Example g_C_exact : map fst (g_cas g_C) = map (fun e => ihash (snd e)) (km (g_idx g_C)).
Proof. vm_compute. reflexivity. Qed.

(* C07 on the fault-free two-put program: every complete run is exact *)
Example prog2_quiescent_exact g : reachable toyH lex_cmp 100 nobad false prog2 [] g ->
  all_finished g = true ->
  forall h, sm_get lex_cmp (g_cas g) h <> None <->
            exists k it, In (k, it) (km (g_idx g)) /\ ihash it = h.
Proof.
  intros R AF.
  apply (C07_quiescent_exact_nofaults toyH lex_cmp lex_refl lex_eq lex_antisym lex_trans 100 nobad
           false prog2 prog2_nodup [] I (fun h c (F : In (h, c) []) => match F with end)
           prog2_nocollide g eq_refl R AF (fun _ => eq_refl)).
Qed.

(* the step bound does not depend on the faults: at most 12 + 3 + 12 steps *)
Example progC_step_bound : forall sched,
  (csteps toyH lex_cmp 100 badA true (init_c progC []) sched <= 27)%nat.
Proof.
  intros sched.
  apply (C15_progress toyH lex_cmp lex_refl lex_eq lex_antisym lex_trans 100 badA true progC [] sched).
Qed.

(* ---- 5. ranged reads and iteration ---- *)
(* thread 1 puts k := 3 bytes, overwrites it with 5 bytes, then puts a second key; thread 2 reads
   the range [1, 4) of k; thread 3 iterates over the keys *)
Definition progRI : list (nat * list ccall) :=
  [(1%nat, [KPut [1] [10; 11; 12]; KPut [1] [20; 21; 22; 23; 24]; KPut [2] [30]]);
   (2%nat, [KGetRange [1] 1 4]); (3%nat, [KIter])].

Lemma progRI_nodup : NoDup (map fst progRI).
Proof. cbn. repeat constructor; cbn; intuition discriminate. Qed.

Lemma progRI_nocollide :
  forall a b, In a (allc progRI []) -> In b (allc progRI []) -> toyH a = toyH b -> a = b.
Proof. apply nocollide_list_sound. vm_compute. reflexivity. Qed.

(* the reader looks up the OLD item (3 bytes) and parks at open_blob ... *)
Definition schedRI0 : list nat := repeat 1%nat 9 ++ repeat 2%nat 3.
(* ... the overwrite is applied but the old blob is not yet unlinked: the reader opens the old
   blob and returns bytes [1, min 4 3) of the OLD value *)
Definition schedRI_old : list nat := schedRI0 ++ repeat 1%nat 8 ++ [2%nat].
(* ... the overwrite completes (old blob unlinked): the open fails with NotFound, the retry
   looks the key up again and clamps the range with the size of the CURRENT item (5 bytes):
   bytes [1, 4) of the NEW value, not [1, 3) *)
Definition schedRI_new : list nat := schedRI0 ++ repeat 1%nat 10 ++ repeat 2%nat 3.

Definition g_RI0 := crun toyH lex_cmp 100 nobad false (init_c progRI []) schedRI0.
Definition g_RI_old := crun toyH lex_cmp 100 nobad false (init_c progRI []) schedRI_old.
Definition g_RI_new := crun toyH lex_cmp 100 nobad false (init_c progRI []) schedRI_new.
(* the reader one step before the end of the second schedule: under the shared lock, carrying
   the current item *)
Definition g_RI_new1 := crun toyH lex_cmp 100 nobad false (init_c progRI []) (removelast schedRI_new).

(* the iteration races the put of the second key: thread 3 takes its call, then thread 1 runs
   its third put up to the point where it holds the state lock exclusively *)
Definition schedI0 : list nat := repeat 1%nat 19 ++ [3%nat].
Definition g_I_blocked := crun toyH lex_cmp 100 nobad false (init_c progRI []) (schedI0 ++ repeat 1%nat 6).
(* the iteration runs before the apply: one key *)
Definition g_I_before :=
  crun toyH lex_cmp 100 nobad false (init_c progRI []) (schedI0 ++ repeat 1%nat 5 ++ [3%nat]).
(* the iteration runs after the apply (while the put is still unfinished): two keys *)
Definition g_I_after :=
  crun toyH lex_cmp 100 nobad false (init_c progRI []) (schedI0 ++ repeat 1%nat 7 ++ [3%nat]).

Example range_read_races_longer_overwrite_and_iter_races_put :
  (* the reader parked at open_blob with the old item *)
  tget (g_thr g_RI0) 2%nat =
    Some (mkT [] (GOpen [1] (mkItem (toyH [10; 11; 12]) 3) (MRange 1 4)) []) /\
  (* outcome 1: the slice of the old value, the range clamped to its 3 bytes *)
  tget (g_thr g_RI_old) 2%nat = Some (mkT [] Idle [CBytes (Some [11; 12])]) /\
  km (g_idx g_RI_old) = [([1], mkItem (toyH [20; 21; 22; 23; 24]) 5)] /\
  (* outcome 2: the retry carries the current item and returns the slice of the new value *)
  tget (g_thr g_RI_new1) 2%nat =
    Some (mkT [] (GOpenL [1] (mkItem (toyH [20; 21; 22; 23; 24]) 5) (MRange 1 4)) []) /\
  g_R g_RI_new1 = [2%nat] /\
  tget (g_thr g_RI_new) 2%nat = Some (mkT [] Idle [CBytes (Some [21; 22; 23])]) /\
  g_R g_RI_new = [] /\
  (* the iteration: blocked while the writer holds S exclusively ... *)
  tget (g_thr g_I_blocked) 3%nat = Some (mkT [] IRead []) /\
  g_S g_I_blocked = Some 1%nat /\
  enabled toyH lex_cmp 100 nobad false g_I_blocked 3%nat = false /\
  (* ... and both snapshots occur: without and with the key that is being put *)
  tget (g_thr g_I_before) 3%nat = Some (mkT [] Idle [CKeys [[1]]]) /\
  tget (g_thr g_I_after) 3%nat = Some (mkT [] Idle [CKeys [[1]; [2]]]) /\
  (exists ts, tget (g_thr g_I_after) 1%nat = Some ts /\ finished_t ts = false).
Proof. vm_compute. repeat split. eexists. split; reflexivity. Qed.

(* the general theorems apply to this program: e.g. no reachable state reports a missing blob,
   and at most 3 * 12 + 6 + 2 steps are taken by any schedule *)
Example progRI_never_missing g : reachable toyH lex_cmp 100 nobad false progRI [] g ->
  forall t ts, tget (g_thr g) t = Some ts -> ~ In CMissing (t_res ts).
Proof.
  apply (C05_read_never_fails toyH lex_cmp lex_refl lex_eq lex_antisym lex_trans 100 nobad false progRI
           progRI_nodup [] I (fun h c (F : In (h, c) []) => match F with end) progRI_nocollide).
Qed.

Example progRI_step_bound : forall sched,
  (csteps toyH lex_cmp 100 nobad false (init_c progRI []) sched <= 44)%nat.
Proof.
  intros sched.
  apply (C15_progress toyH lex_cmp lex_refl lex_eq lex_antisym lex_trans 100 nobad false progRI [] sched).
Qed.

Print Assumptions g_seq_no_dangling.
Print Assumptions g_mix_no_dangling.
Print Assumptions g_mid_can_move.
Print Assumptions C05_aba_now_returns_content.
Print Assumptions reader_blocks_exclusive_S.
Print Assumptions progA_never_missing.
Print Assumptions prog2_step_bound.
Print Assumptions g_mid_completes.
Print Assumptions g_C_mid_state.
Print Assumptions g_C_final.
Print Assumptions g_C_no_dangling.
Print Assumptions g_C_mid_can_move.
Print Assumptions prog2_quiescent_exact.
Print Assumptions progC_step_bound.
Print Assumptions range_read_races_longer_overwrite_and_iter_races_put.
Print Assumptions progRI_never_missing.
Print Assumptions progRI_step_bound.
