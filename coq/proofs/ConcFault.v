(* ConcFault.v -- the fault paths of the concurrent model theories/Conc.v (obstructed blob paths
   [bad], failing checkpoints [ckbad]) and finding F6.

   F6 (fixed in the code): when delete_blobs failed after a put had been applied, the error
   path reverted the put's intent a SECOND time (apply_put_op had already released it).  The
   second release decremented the by_hash count of ANOTHER in-flight put of the same content,
   which lost its protection: a following remove of the first key deleted the blob that the
   other put was about to index -- a dangling reference.

   General theorems (arbitrary bad / ckbad, every schedule):
     C04_no_dangling_with_faults            every indexed key has its blob, of the recorded size
     C04_failed_delete_keeps_other_intents  the by_hash ledger is EXACT in every reachable state:
                                            count of h = number of threads whose put of h is
                                            registered and not yet released ([inflight])
     C04_registered_stays_protected         a step of thread t (in particular a failing unlink or
                                            a reverted intent) never unprotects the hash of an
                                            intent registered by another thread
     ConcInv_bad_mono, late_faults_inv, C04_no_dangling_late_faults
                                            the obstructions may APPEAR during the run (bad only
                                            grows): the invariant, hence C04, still holds
   By computation (toyH, lex_cmp), the F6 schedule:
     F6_fixed_run      with the model as it is (= the fixed code) thread 2's put returns CErr,
                       its remove succeeds, and thread 1's key k3 is visible with its blob present
     F6_fixed_inv      the invariant / no dangling reference for that run, from the theorems
     F6_prefix_refuted with [cstep_f6] (= cstep, except that the failing unlink of a put releases
                       the put's hash once more: the behaviour before the fix) the same schedule
                       ends with k3 visible and its blob ABSENT *)
From Cas Require Import Base Codec SMap Index Conc.
From CasProofs Require Import SMapProofs IndexProofs ConcInv ConcProofs ConcExamples.
From Coq Require Import List NArith Lia Bool Arith.
Import ListNotations.
Open Scope N_scope.

Arguments N.add : simpl never.
Arguments N.sub : simpl never.
Arguments N.mul : simpl never.
Arguments N.div : simpl never.
Arguments N.modulo : simpl never.
Arguments N.eqb : simpl never.
Arguments N.ltb : simpl never.
Arguments N.leb : simpl never.

(* number of threads of g whose put of hash h is registered (PILock step done) and not yet
   released (by the step leaving WApplied, or by the step leaving PDropI) *)
Definition inflight (H : bytes -> bytes) (g : cstate) (h : bytes) : N := intents H (g_thr g) h.

Section ConcFault.
  Variable H : bytes -> bytes.
  Variable cmp : bytes -> bytes -> comparison.
  Hypothesis cmp_refl : forall a, cmp a a = Eq.
  Hypothesis cmp_eq : forall a b, cmp a b = Eq -> a = b.
  Hypothesis cmp_antisym : forall a b, cmp b a = CompOpp (cmp a b).
  Hypothesis cmp_trans : forall a b c, cmp a b = Lt -> cmp b c = Lt -> cmp a c = Lt.
  Variable nops : N.
  Variable bad : bytes -> bool.
  Variable ckbad : bool.
  Variable thr0 : list (nat * list ccall).
  Hypothesis thr0_nodup : NoDup (map fst thr0).
  Variable cas0 : smap bytes.
  Hypothesis cas0_sorted : sorted lex_cmp cas0.
  Hypothesis cas0_named : forall h c, In (h, c) cas0 -> H c = h.
  Hypothesis NoCollideC :
    forall a b, In a (allc thr0 cas0) -> In b (allc thr0 cas0) -> H a = H b -> a = b.

  Local Notation KX L := (L cmp cmp_refl cmp_eq cmp_antisym cmp_trans) (only parsing).
  Local Notation Reach := (reachable H cmp nops bad ckbad thr0 cas0).
  Local Notation step := (cstep H cmp nops bad ckbad).

  Lemma finv g : Reach g -> ConcInv H cmp bad thr0 cas0 g.
  Proof using cmp_refl cmp_eq cmp_antisym cmp_trans thr0_nodup cas0_sorted cas0_named NoCollideC.
    apply reachable_inv; assumption.
  Qed.

  (* (a) faults do not excuse dangling references *)
  Theorem C04_no_dangling_with_faults g : Reach g ->
    forall k it, sm_get cmp (km (g_idx g)) k = Some it ->
    exists c, sm_get lex_cmp (g_cas g) (ihash it) = Some c /\ H c = ihash it /\ len c = isize it.
  Proof using cmp_refl cmp_eq cmp_antisym cmp_trans thr0_nodup cas0_sorted cas0_named NoCollideC.
    apply C04_no_dangling; assumption.
  Qed.

  (* (b) the by_hash ledger is exact: no error path releases an intent twice (F6) or forgets
     to release it (the reverted intent of a failed rename) *)
  Theorem C04_failed_delete_keeps_other_intents g : Reach g ->
    sorted lex_cmp (g_byhash g) /\
    forall h, sm_get lex_cmp (g_byhash g) h =
              if inflight H g h =? 0 then None else Some (inflight H g h).
  Proof using cmp_refl cmp_eq cmp_antisym cmp_trans thr0_nodup cas0_sorted cas0_named NoCollideC.
    intros R. exact (ci_intents _ _ _ _ _ _ (finv g R)).
  Qed.

  (* every registered thread is counted *)
  Lemma inflight_pos g t ts h : tget (g_thr g) t = Some ts -> reg H (t_pc ts) h = true ->
    0 < inflight H g h.
  Proof using. apply intents_pos. Qed.

  (* hence: whatever a step of thread t does (a failing unlink, a reverted intent, ...), the
     hash of an intent registered by ANOTHER thread stays protected *)
  Theorem C04_registered_stays_protected g t g' u tsu h : Reach g -> step g t = Some g' ->
    u <> t -> tget (g_thr g) u = Some tsu -> reg H (t_pc tsu) h = true ->
    sm_get lex_cmp (g_byhash g') h <> None.
  Proof using cmp_refl cmp_eq cmp_antisym cmp_trans thr0_nodup cas0_sorted cas0_named NoCollideC.
    intros R St N G Rg.
    assert (R' : Reach g') by (eapply reachable_step; eassumption).
    apply (registered_protected H cmp bad thr0 cas0 g' u tsu h (finv g' R')); [|exact Rg].
    rewrite (cstep_frame_other H cmp nops bad ckbad _ _ _ _ St N). exact G.
  Qed.

  (* ---- obstructions that appear during the run ---- *)
  Lemma ConcInv_bad_mono bad' g : (forall x, bad x = true -> bad' x = true) ->
    ConcInv H cmp bad thr0 cas0 g -> ConcInv H cmp bad' thr0 cas0 g.
  Proof using.
    intros M I. destruct I as [A1 A2 A3 A4 A5 A6 A7 A8 A9 A10 A11 A12].
    constructor; try assumption.
    - intros t ts G. destruct (A11 t ts G) as [P C]. split; [|exact C].
      destruct (t_pc ts); cbn [pc_ok] in *; auto.
    - intros h c G. destruct (A12 h c G) as [X|[X|[X|[X|((x & Bx) & X)]]]].
      + left; exact X.
      + right; left; exact X.
      + right; right; left; exact X.
      + right; right; right; left; exact X.
      + right; right; right; right. split; [exists x; apply M, Bx|exact X].
  Qed.

  Theorem late_faults_inv bad' ckbad' g sched : (forall x, bad x = true -> bad' x = true) ->
    Reach g -> ConcInv H cmp bad' thr0 cas0 (crun H cmp nops bad' ckbad' g sched).
  Proof using cmp_refl cmp_eq cmp_antisym cmp_trans thr0_nodup cas0_sorted cas0_named NoCollideC.
    intros M R. apply crun_inv; try assumption. apply ConcInv_bad_mono; [exact M|apply finv, R].
  Qed.

  Corollary C04_no_dangling_late_faults bad' ckbad' g sched :
    (forall x, bad x = true -> bad' x = true) -> Reach g ->
    let g' := crun H cmp nops bad' ckbad' g sched in
    forall k it, sm_get cmp (km (g_idx g')) k = Some it ->
    exists c, sm_get lex_cmp (g_cas g') (ihash it) = Some c /\ H c = ihash it /\ len c = isize it.
  Proof using cmp_refl cmp_eq cmp_antisym cmp_trans thr0_nodup cas0_sorted cas0_named NoCollideC.
    intros M R g' k it G. pose proof (late_faults_inv bad' ckbad' g sched M R) as I.
    apply (KX get_in) in G; [|apply (ci_idx _ _ _ _ _ _ I)].
    apply (ci_nodangling _ _ _ _ _ _ I _ _ G).
  Qed.

  (* ---- the behaviour before the fix of F6, as a post-processing of cstep: when the unlink
     of a put fails, the error path releases the put's hash once more ---- *)
  Definition cstep_f6 (g : cstate) (t : nat) : option cstate :=
    match cstep H cmp nops bad ckbad g t with
    | None => None
    | Some g' =>
      match tget (g_thr g) t with
      | Some ts =>
        match t_pc ts with
        | WUnlink (WPut _ h _) (x :: _) _ =>
          if bad x then
            Some (mkC (g_idx g') (g_bykey g') (release_hash (g_byhash g') h) (g_cas g') (g_nextv g')
                      (g_I g') (g_S g') (g_R g') (g_thr g'))
          else Some g'
        | _ => Some g'
        end
      | None => Some g'
      end
    end.

  Fixpoint crun_f6 (g : cstate) (sched : list nat) : cstate :=
    match sched with
    | [] => g
    | t :: r => match cstep_f6 g t with Some g' => crun_f6 g' r | None => crun_f6 g r end
    end.

  (* cstep_f6 differs from cstep only at that one exit *)
  Lemma cstep_f6_same g t :
    (forall ts k h sz x rest rolled, tget (g_thr g) t = Some ts ->
       t_pc ts = WUnlink (WPut k h sz) (x :: rest) rolled -> bad x = false) ->
    cstep_f6 g t = cstep H cmp nops bad ckbad g t.
  Proof using.
    intros A. unfold cstep_f6. destruct (cstep H cmp nops bad ckbad g t) as [g'|]; [|reflexivity].
    destruct (tget (g_thr g) t) as [ts|] eqn:Ht; [|reflexivity].
    destruct (t_pc ts) eqn:Hpc; try reflexivity.
    destruct w as [k h sz|]; [|reflexivity]. destruct todo as [|x rest]; [reflexivity|].
    rewrite (A ts k h sz x rest rolled eq_refl Hpc). reflexivity.
  Qed.
End ConcFault.

Print Assumptions C04_no_dangling_with_faults.
Print Assumptions C04_failed_delete_keeps_other_intents.
Print Assumptions C04_registered_stays_protected.
Print Assumptions late_faults_inv.
Print Assumptions C04_no_dangling_late_faults.
Print Assumptions cstep_f6_same.

(* ------------------------------------------------------------------------------------ *)
(* the F6 schedule on the toy instance *)

Definition k1 : bytes := [1].
Definition k3 : bytes := [3].
Definition cX : bytes := [10].
Definition cY : bytes := [20; 21].

(* thread 0: the setup put; thread 1: put k3 Y; thread 2: put k1 Y, then remove k1 *)
Definition progF : list (nat * list ccall) :=
  [(0%nat, [KPut k1 cX]); (1%nat, [KPut k3 cY]); (2%nat, [KPut k1 cY; KRemove k1])].

Lemma progF_nodup : NoDup (map fst progF).
Proof. cbn. repeat constructor; cbn; intuition discriminate. Qed.

Lemma progF_nocollide :
  forall a b, In a (allc progF []) -> In b (allc progF []) -> toyH a = toyH b -> a = b.
Proof. apply nocollide_list_sound. vm_compute. reflexivity. Qed.

(* the path of the blob of X becomes obstructed AFTER the setup (bad is a parameter of the
   step function, so a run may continue under a larger bad: late_faults_inv) *)
Definition badX : bytes -> bool := fun h => beqb h (toyH cX).

Definition sched_setup : list nat := repeat 0%nat 9.       (* put k1 X, complete *)
Definition sched_F6 : list nat :=
  repeat 1%nat 4           (* thread 1: put k3 Y up to and including its rename; parked at put.lock_I *)
  ++ repeat 2%nat 9        (* thread 2: put k1 Y; its 9th step is the unlink of H X, which fails *)
  ++ repeat 2%nat 10       (* thread 2: remove k1, complete (8 steps in the fixed model) *)
  ++ repeat 1%nat 5.       (* thread 1 resumes: lock_I, lock_S, append+apply, release, return *)

Definition g_F0 := crun toyH lex_cmp 100 nobad false (init_c progF []) sched_setup.
Definition g_F6 := crun toyH lex_cmp 100 badX false g_F0 sched_F6.
(* the same schedule with the pre-fix error path *)
Definition g_F6_old := crun_f6 toyH lex_cmp 100 badX false g_F0 sched_F6.

Example F6_setup :
  km (g_idx g_F0) = [(k1, mkItem (toyH cX) 1)] /\ g_cas g_F0 = [(toyH cX, cX)] /\
  g_byhash g_F0 = [] /\ g_I g_F0 = None.
Proof. vm_compute. repeat split. Qed.

(* thread 1 parked after its rename, thread 2 about to unlink the blob of X *)
Example F6_before_failure :
  let g := crun toyH lex_cmp 100 badX false g_F0 (firstn 12 sched_F6) in
  tget (g_thr g) 1%nat = Some (mkT [] (WLockI (WPut k3 (toyH cY) 2)) []) /\
  tget (g_thr g) 2%nat =
    Some (mkT [KRemove k1] (WUnlink (WPut k1 (toyH cY) 2) [toyH cX] false) []) /\
  g_byhash g = [(toyH cY, 1)] /\ g_I g = Some 2%nat.
Proof. vm_compute. repeat split. Qed.

(* (c) the fixed model: the failed delete returns CErr and leaves the intent of thread 1 alone;
   at the end k3 is visible and its blob is present (the blob of X is leaked: C07 does not hold
   after a failed deletion, C04 does) *)
Example F6_fixed_run :
  all_finished g_F6 = true /\
  tget (g_thr g_F6) 2%nat = Some (mkT [] Idle [CErr; CBool true]) /\
  tget (g_thr g_F6) 1%nat = Some (mkT [] Idle [CUnit]) /\
  km (g_idx g_F6) = [(k3, mkItem (toyH cY) 2)] /\
  sm_get lex_cmp (g_cas g_F6) (toyH cY) = Some cY /\
  sm_get lex_cmp (g_cas g_F6) (toyH cX) = Some cX /\
  g_byhash g_F6 = [] /\ g_I g_F6 = None /\ g_S g_F6 = None.
Proof. vm_compute. repeat split. Qed.

(* right after the failed unlink the ledger still counts thread 1 *)
Example F6_fixed_ledger :
  let g := crun toyH lex_cmp 100 badX false g_F0 (firstn 13 sched_F6) in
  tget (g_thr g) 2%nat = Some (mkT [KRemove k1] Idle [CErr]) /\
  g_byhash g = [(toyH cY, 1)] /\ inflight toyH g (toyH cY) = 1 /\ g_I g = None.
Proof. vm_compute. repeat split. Qed.

Lemma g_F0_reachable : reachable toyH lex_cmp 100 nobad false progF [] g_F0.
Proof. exists sched_setup. reflexivity. Qed.

(* the general theorems apply to this run (the obstruction appears after the setup) *)
Example F6_fixed_inv : ConcInv toyH lex_cmp badX progF [] g_F6.
Proof.
  apply (late_faults_inv toyH lex_cmp lex_refl lex_eq lex_antisym lex_trans 100 nobad false progF
           progF_nodup [] I (fun h c (F : In (h, c) []) => match F with end) progF_nocollide
           badX false g_F0 sched_F6).
  - intros x E. discriminate E.
  - exact g_F0_reachable.
Qed.

Example F6_fixed_no_dangling : no_dangling g_F6.
Proof.
  unfold no_dangling.
  apply (C04_no_dangling_late_faults toyH lex_cmp lex_refl lex_eq lex_antisym lex_trans 100 nobad
           false progF progF_nodup [] I (fun h c (F : In (h, c) []) => match F with end)
           progF_nocollide badX false g_F0 sched_F6).
  - intros x E. discriminate E.
  - exact g_F0_reachable.
Qed.

(* (d) before the fix: the second release drops the count of H Y to zero, the remove of k1
   deletes the blob of Y, and thread 1 then indexes k3 -> H Y: a dangling reference *)
Example F6_prefix_refuted :
  all_finished g_F6_old = true /\
  tget (g_thr g_F6_old) 2%nat = Some (mkT [] Idle [CErr; CBool true]) /\
  sm_get lex_cmp (km (g_idx g_F6_old)) k3 = Some (mkItem (toyH cY) 2) /\
  sm_get lex_cmp (g_cas g_F6_old) (toyH cY) = None.
Proof. vm_compute. repeat split. Qed.

Example F6_prefix_ledger_wrong :
  let g := crun_f6 toyH lex_cmp 100 badX false g_F0 (firstn 13 sched_F6) in
  g_byhash g = [] /\ inflight toyH g (toyH cY) = 1.
Proof. vm_compute. repeat split. Qed.

Example F6_prefix_dangling : ~ no_dangling g_F6_old.
Proof.
  intros ND. destruct (ND k3 (mkItem (toyH cY) 2)) as (c & G & _); [vm_compute; reflexivity|].
  vm_compute in G. discriminate G.
Qed.

Print Assumptions F6_fixed_run.
Print Assumptions F6_fixed_ledger.
Print Assumptions F6_fixed_inv.
Print Assumptions F6_fixed_no_dangling.
Print Assumptions F6_prefix_refuted.
Print Assumptions F6_prefix_ledger_wrong.
Print Assumptions F6_prefix_dangling.
