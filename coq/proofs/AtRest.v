(* AtRest.v -- C20, at-rest part (F5): a disk satisfying [DiskOk] is well-formed.  Every WAL
   segment file parses (parse_segment) into records whose versions lie in the window of the
   segment, versions increase strictly along ascending segment ids, every version above the
   snapshot version and below the next version is present, the snapshot file (if any) decodes
   (dec_snapshot) to the persisted version, and decoding snapshot + log with the model's readers
   (dec_snapshot, load_entries, parse_segment, dec_op, apply_op) yields the abstract map. *)
From Cas Require Import History.
From CasProofs Require Import BaseProofs CodecBase CodecProofs SMapProofs IndexProofs
  StoreFS StoreInv StoreWrite StoreRead StoreHist DiskInv Recover.
From Coq Require Import ZifyBool ZifyNat ZifyN.
Open Scope N_scope.

Arguments N.add : simpl never.
Arguments N.sub : simpl never.
Arguments N.mul : simpl never.
Arguments N.div : simpl never.
Arguments N.modulo : simpl never.
Arguments N.eqb : simpl never.
Arguments N.ltb : simpl never.
Arguments N.leb : simpl never.
Arguments N.pow : simpl never.
Arguments N.max : simpl never.

Section AtRest.
  Variable H : bytes -> bytes.
  Hypothesis H_len : forall b, length (H b) = 32%nat.
  Hypothesis H_byte : forall b, Forall (fun x => x < 256) (H b).
  Variable cfg : config.
  Hypothesis n_pos : 0 < c_n cfg.
  Let cmp := key_cmp (c_kt cfg).

  Local Notation km_of := (km_of H).
  Local Notation seg_of := (seg_of cfg).
  Local Notation DiskW := (DiskW H cfg).
  Local Notation DiskOk := (DiskOk H cfg).
  Local Notation kstep := (kstep cfg).

  (* ---------------------------------------------------------------- *)
  (* the declarative reader                                            *)
  (* ---------------------------------------------------------------- *)
  (* apply, in order, every record with a version above c *)
  Fixpoint apply_recs (c : N) (recs : list (N * bytes)) (st : istate) : option istate :=
    match recs with
    | [] => Some st
    | (v, p) :: r =>
      if c <? v then
        match dec_op p with
        | Ok o => match apply_op cmp st o with
                  | Ok (st', _) => apply_recs c r st'
                  | Err _ => None
                  end
        | Err _ => None
        end
      else apply_recs c r st
    end.

  Fixpoint apply_segs (c : N) (s : fs) (ids : list N) (st : istate) : option istate :=
    match ids with
    | [] => Some st
    | i :: r =>
      match fget s (PWal i) with
      | None => None
      | Some f =>
        match parse_segment H (fdata f) with
        | Err _ => None
        | Ok recs => match apply_recs c recs st with
                     | Some st' => apply_segs c s r st'
                     | None => None
                     end
        end
      end
    end.

  (* snapshot version and state; no snapshot file = version 0, empty state *)
  Definition decode_snapshot (s : fs) : option (N * istate) :=
    match fget s PIndex with
    | None => Some (0, empty_istate)
    | Some f =>
      match dec_snapshot (fdata f) with
      | Err _ => None
      | Ok (ver, es) =>
        match load_entries cmp (c_kt cfg) ver es with
        | None => None
        | Some st => Some (ver, recompute_stats st (len (fdata f)))
        end
      end
    end.

  (* decode the snapshot, then apply every record with version > snapshot version, segment by
     segment in ascending id order *)
  Definition spec_decode (s : fs) : option (smap item) :=
    match decode_snapshot s with
    | None => None
    | Some (c, st0) => option_map km (apply_segs c s (sort_ids (wal_ids s)) st0)
    end.

  (* ---------------------------------------------------------------- *)
  Lemma apply_recs_of_replay : forall c recs st hi cnt st' h' c',
    replay_records cfg c recs st hi cnt = Ok (st', h', c') -> apply_recs c recs st = Some st'.
  Proof.
    intros c. induction recs as [|[v p] recs IH]; intros st hi cnt st' h' c' E.
    - rewrite replay_records_nil in E. inversion E. reflexivity.
    - rewrite replay_records_cons in E. cbn [apply_recs].
      destruct (v <=? c) eqn:Le.
      + replace (c <? v) with false by lia. eapply IH; exact E.
      + replace (c <? v) with true by lia.
        destruct (dec_op p) as [raw|e]; [|discriminate].
        destruct (from_raw (c_kt cfg) raw) as [o|e] eqn:Fr; [|discriminate].
        apply from_raw_ok_inv in Fr. destruct Fr as [-> _].
        fold cmp in E. destruct (apply_op cmp st raw) as [[st1 un]|e]; [|discriminate].
        eapply IH; exact E.
  Qed.

  Lemma apply_recs_app : forall c a b st,
    apply_recs c (a ++ b) st =
    match apply_recs c a st with Some st' => apply_recs c b st' | None => None end.
  Proof.
    intros c. induction a as [|[v p] a IH]; intros b st; [reflexivity|].
    cbn [app apply_recs]. destruct (c <? v); [|apply IH].
    destruct (dec_op p) as [o|e]; [|reflexivity].
    destruct (apply_op cmp st o) as [[st1 un]|e]; [apply IH|reflexivity].
  Qed.

  Lemma apply_segs_flat : forall c s rf ids st,
    (forall i, In i ids -> exists f, fget s (PWal i) = Some f /\
                                     parse_segment H (fdata f) = Ok (rf i)) ->
    apply_segs c s ids st = apply_recs c (flat_map rf ids) st.
  Proof.
    intros c s rf. induction ids as [|i ids IH]; intros st Hf; [reflexivity|].
    cbn [apply_segs flat_map]. rewrite apply_recs_app.
    destruct (Hf i (or_introl eq_refl)) as (f & G & P). rewrite G, P.
    destruct (apply_recs c (rf i) st) as [st'|]; [|reflexivity].
    apply IH. intros j Ij. apply Hf. now right.
  Qed.

  Lemma parse_seg : forall recs b, Forall rec_ok recs ->
    parse_segment H (render H recs ++ tailb b) = Ok recs.
  Proof.
    intros recs [|] Ok0; cbn [tailb].
    - now apply parse_segment_render_sentinel_nil.
    - rewrite app_nil_r. now apply parse_segment_render.
  Qed.

  Lemma disk_ids : forall c nv sb pre s sg ids rf sf km_c ops,
    FsWf s -> DiskW c nv sb pre (fdat s) sg ids rf sf km_c ops -> sort_ids (wal_ids s) = ids.
  Proof.
    intros c nv sb pre s sg ids rf sf km_c ops Wf Dw. pose proof Dw as [].
    apply sort_ids_char; try assumption. intros i. split.
    - intros Ii E. apply fdat_none in E. rewrite (dw_in i Ii) in E. discriminate.
    - intros Ne. destruct (in_dec N.eq_dec i ids) as [Ii|Ni]; [exact Ii|].
      exfalso. apply Ne, fdat_none, dw_out, Ni.
  Qed.

  Lemma seg_window : forall v i, 0 < v -> seg_of v = i ->
    i * c_n cfg < v /\ v <= (i + 1) * c_n cfg.
  Proof.
    intros v i Pv <-. unfold Store.seg_of.
    assert (Nz : c_n cfg <> 0) by lia.
    pose proof (N.mul_div_le (v - 1) (c_n cfg) Nz) as L1.
    pose proof (N.mul_succ_div_gt (v - 1) (c_n cfg) Nz) as L2.
    set (q := (v - 1) / c_n cfg) in *. rewrite (N.mul_comm q), (N.mul_comm (q + 1)).
    replace (N.succ q) with (q + 1) in L2 by lia. lia.
  Qed.

  Lemma asc_flat : forall (rf : N -> list (N * bytes)) ids, asc ids ->
    (forall i, In i ids -> asc (map fst (rf i)) /\ Forall (fun r => seg_of (fst r) = i) (rf i)) ->
    asc (map fst (flat_map rf ids)).
  Proof.
    intros rf. induction ids as [|a ids IH]; intros A Hs; [exact I|].
    destruct A as [Ha A]. cbn [flat_map]. rewrite map_app. apply asc_app.
    split; [apply Hs; now left|]. split; [apply IH; [exact A|intros i Ii; apply Hs; now right]|].
    intros x y Ix Iy. apply in_map_iff in Ix. destruct Ix as (rx & <- & Ix).
    apply in_map_iff in Iy. destruct Iy as (ry & <- & Iy).
    apply in_flat_map in Iy. destruct Iy as (j & Ij & Iy).
    destruct (Hs a (or_introl eq_refl)) as [_ Fa]. destruct (Hs j (or_intror Ij)) as [_ Fj].
    rewrite Forall_forall in Fa, Fj. specialize (Fa _ Ix). specialize (Fj _ Iy).
    specialize (Ha j Ij). destruct (N.lt_ge_cases (fst rx) (fst ry)) as [L|L]; [exact L|].
    apply (seg_of_mono cfg n_pos) in L. lia.
  Qed.

  Lemma enc_from_in : forall ops v0 v, v0 <= v -> v < v0 + N.of_nat (length ops) ->
    exists p, In (v, p) (enc_from v0 ops).
  Proof.
    induction ops as [|o ops IH]; intros v0 v L1 L2; cbn [length] in L2; [lia|].
    cbn [enc_from]. destruct (N.eq_dec v v0) as [->|Ne].
    - eexists. left. reflexivity.
    - destruct (IH (v0 + 1) v) as (p & Ip); [lia|lia|]. exists p. now right.
  Qed.

  (* F5 *)
  Theorem C20_at_rest : forall m s sg, DiskOk m s sg -> FsWf s ->
    let n := c_n cfg in
    let c := lpv (idx m) in
    let ids := sort_ids (wal_ids s) in
    exists rf : N -> list (N * bytes),
      (* every segment file parses; its records lie in the version window of the segment *)
      (forall i f, fget s (PWal i) = Some f ->
         parse_segment H (fdata f) = Ok (rf i) /\
         Forall (fun r => i * n < fst r /\ fst r <= (i + 1) * n) (rf i)) /\
      (* versions increase strictly across ascending segment ids *)
      asc ids /\ asc (map fst (flat_map rf ids)) /\
      (* every version above the snapshot version, up to the last one written, is present *)
      (forall v, c < v -> v < nextv (mwal m) -> exists p, In (v, p) (flat_map rf ids)) /\
      (forall r, In r (flat_map rf ids) -> fst r < nextv (mwal m)) /\
      (* the snapshot file, if any, decodes to the persisted version *)
      match fget s PIndex with
      | None => c = 0
      | Some f => 0 < c /\ exists es, dec_snapshot (fdata f) = Ok (c, es)
      end /\
      (* snapshot + log decode to the abstract map *)
      spec_decode s = Some (km_of sg).
  Proof.
    intros m s sg (ids0 & rf & sf & km_c & ops & Dw) Wf n c ids.
    pose proof (disk_ids _ _ _ _ _ _ _ _ _ _ _ Wf Dw) as Eids. fold ids in Eids.
    pose proof Dw as []. fold c in dw_snap, dw_filter, dw_nv. rewrite Eids.
    assert (Parse : forall i, In i ids0 -> exists f, fget s (PWal i) = Some f /\
                                                     parse_segment H (fdata f) = Ok (rf i)).
    { intros i Ii. pose proof (dw_in i Ii) as G. apply fdat_some in G.
      destruct G as (f & G & Df). exists f. split; [exact G|]. rewrite Df.
      apply parse_seg. destruct (dw_seg i Ii) as (S1 & _). exact S1. }
    assert (Lt : forall r, In r (flat_map rf ids0) -> fst r < nextv (mwal m))
      by (eapply (all_lt_nv cfg n_pos); eassumption).
    destruct dw_kmc as (Sk & Hs & Fa & Ln).
    exists rf. split; [|split; [exact dw_asc|split; [|split; [|split; [exact Lt|split]]]]].
    - intros i f G.
      assert (Ii : In i ids0).
      { destruct (in_dec N.eq_dec i ids0) as [Ii|Ni]; [exact Ii|].
        apply dw_out, fdat_none in Ni. congruence. }
      destruct (Parse i Ii) as (f' & G' & P). rewrite G in G'. inversion G'; subst f'.
      split; [exact P|]. destruct (dw_seg i Ii) as (S1 & S2 & _).
      rewrite Forall_forall in *. intros r Ir. apply seg_window; [|now apply S2].
      destruct (S1 r Ir) as [[P0 _] _]. exact P0.
    - apply asc_flat; [exact dw_asc|]. intros i Ii.
      destruct (dw_seg i Ii) as (_ & S2 & S3 & _). now split.
    - intros v L1 L2. destruct (enc_from_in ops (c + 1) v) as (p & Ip); [lia|lia|].
      exists p. rewrite <- dw_filter in Ip. apply filter_In in Ip. tauto.
    - unfold snap_ok in dw_snap. unfold fdat in dw_snap.
      destruct (fget s PIndex) as [f|]; cbn [option_map] in dw_snap.
      + destruct dw_snap as [Pos Ed]. split; [exact Pos|]. exists km_c. rewrite Ed.
        apply dec_enc_snapshot_nil; [lia|exact Ln|].
        eapply Forall_impl; [|exact Fa]. intros e [X _]. exact X.
      + tauto.
    - (* the decoder *)
      assert (Snap : exists st0, decode_snapshot s = Some (c, st0) /\ IdxInv cmp st0 /\ km st0 = km_c).
      { unfold decode_snapshot. unfold snap_ok, fdat in dw_snap.
        destruct (fget s PIndex) as [f|]; cbn [option_map] in dw_snap.
        - destruct dw_snap as [Pos Ed]. rewrite Ed.
          rewrite dec_enc_snapshot_nil; [|lia|exact Ln|].
          2:{ eapply Forall_impl; [|exact Fa]. intros e [X _]. exact X. }
          destruct (C12_load_sorted cmp (key_cmp_refl _) (key_cmp_eq _) (key_cmp_antisym _)
                      (key_cmp_trans _) (c_kt cfg) c km_c Sk) as (st & El & Ks & Ls & _).
          { intros e Ie. rewrite Forall_forall in Fa. now apply Fa. }
          rewrite El. eexists. split; [reflexivity|]. split; [|exact Ks].
          eapply (C12_load_recompute cmp (key_cmp_refl _) (key_cmp_eq _) (key_cmp_antisym _)
                    (key_cmp_trans _)); [exact El|]. now rewrite Ks.
        - destruct dw_snap as [-> ->]. exists empty_istate. split; [reflexivity|].
          split; [apply C12_empty|reflexivity]. }
      destruct Snap as (st0 & Es & Iv0 & K0).
      unfold spec_decode. rewrite Es. fold ids. rewrite Eids.
      rewrite (apply_segs_flat c s rf ids0 st0 Parse).
      destruct (replay_records_ok H H_len H_byte cfg n_pos c (flat_map rf ids0) (c + 1) ops st0 c 0
                  dw_filter dw_opsfit Iv0) as (st & E & _ & K & _).
      { now rewrite K0. }
      rewrite (apply_recs_of_replay _ _ _ _ _ _ _ _ E). cbn [option_map].
      now rewrite K, K0, dw_fold.
  Qed.
End AtRest.

Print Assumptions C20_at_rest.
