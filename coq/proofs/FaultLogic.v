(* FaultLogic.v -- a small program logic for the world monad M (theories/FS.v) that is valid
   under ANY fault plan (wfault w arbitrary, in particular Some n for every n):
     Hoare P m Q : if the filesystem satisfies P before m, then the result a of m and the
                   filesystem s' it leaves satisfy Q a s';
     Inv P m Q   : m preserves the filesystem predicate P and its result satisfies Q.
   The only primitive that touches the filesystem is do_call; its rule (hoare_call,
   do_call_cases) has two cases: the call took effect (apply_call c s = Ok s'), or it returned an
   error (its own errno, or the injected EIO) and the filesystem is unchanged.
   Then: Inv for the WAL / checkpoint / directory programs of theories/Store.v, for every
   predicate kept by all calls that name no path under cas/. *)
From Cas Require Import History.
From CasProofs Require Import BaseProofs StoreFS WorldRel.
Open Scope N_scope.

(* ------------------------------------------------------------------ *)
(* 1. the two triples                                                  *)
(* ------------------------------------------------------------------ *)
Definition Hoare {A} (P : fs -> Prop) (m : M A) (Q : A -> fs -> Prop) : Prop :=
  forall w, P (wfs w) -> Q (fst (m w)) (wfs (snd (m w))).

Lemma hoare_ret : forall {A} (P : fs -> Prop) (a : A) (Q : A -> fs -> Prop),
  (forall s, P s -> Q a s) -> Hoare P (ret a) Q.
Proof. intros A P a Q I w Pw. exact (I _ Pw). Qed.

Lemma hoare_bind : forall {A B} (P : fs -> Prop) (m : M A) (f : A -> M B) R Q,
  Hoare P m R -> (forall a, Hoare (R a) (f a) Q) -> Hoare P (bind m f) Q.
Proof.
  intros A B P m f R Q Hm Hf w Pw. unfold bind. specialize (Hm w Pw).
  destruct (m w) as [a w1]. cbn [fst snd] in Hm. exact (Hf a w1 Hm).
Qed.

Lemma hoare_conseq : forall {A} (P P' : fs -> Prop) (m : M A) (Q Q' : A -> fs -> Prop),
  (forall s, P' s -> P s) -> (forall a s, Q a s -> Q' a s) -> Hoare P m Q -> Hoare P' m Q'.
Proof. intros A P P' m Q Q' IP IQ Hm w Pw. apply IQ, Hm, IP, Pw. Qed.

Lemma hoare_pre : forall {A} (P P' : fs -> Prop) (m : M A) Q,
  (forall s, P' s -> P s) -> Hoare P m Q -> Hoare P' m Q.
Proof. intros A P P' m Q IP Hm. eapply hoare_conseq; [exact IP| |exact Hm]. auto. Qed.

Lemma hoare_post : forall {A} (P : fs -> Prop) (m : M A) (Q Q' : A -> fs -> Prop),
  (forall a s, Q a s -> Q' a s) -> Hoare P m Q -> Hoare P m Q'.
Proof. intros A P m Q Q' IQ Hm. eapply hoare_conseq; [|exact IQ|exact Hm]. auto. Qed.

(* a pure fact carried by the precondition *)
Lemma hoare_pure : forall {A} (F : Prop) (P : fs -> Prop) (m : M A) Q,
  (F -> Hoare P m Q) -> Hoare (fun s => P s /\ F) m Q.
Proof. intros A F P m Q Hm w [Pw Fw]. exact (Hm Fw w Pw). Qed.

(* whatever a single call does, under any fault plan *)
Lemma do_call_cases : forall c w,
  (exists w1, do_call c w = (Ok tt, w1) /\ apply_call c (wfs w) = Ok (wfs w1)) \/
  (exists e w2, do_call c w = (Err e, w2) /\ wfs w2 = wfs w).
Proof.
  intros c w. unfold do_call. destruct (apply_call c (wfs w)) as [s'|e] eqn:E.
  - destruct (wfault w) as [n|]; [destruct (Nat.eqb n (wcount w))|].
    + right. eexists _, _. split; reflexivity.
    + left. eexists. split; reflexivity.
    + left. eexists. split; reflexivity.
  - right. exists e, w. split; reflexivity.
Qed.

Lemma hoare_call : forall (P : fs -> Prop) c (Q : res errno unit -> fs -> Prop),
  (forall s s', P s -> apply_call c s = Ok s' -> Q (Ok tt) s') ->
  (forall s e, P s -> Q (Err e) s) ->
  Hoare P (do_call c) Q.
Proof.
  intros P c Q Hok Herr w Pw.
  destruct (do_call_cases c w) as [(w1 & E & A)|(e & w2 & E & S)]; rewrite E; cbn [fst snd].
  - exact (Hok _ _ Pw A).
  - rewrite S. exact (Herr _ e Pw).
Qed.

Lemma hoare_get_fs : forall (P : fs -> Prop) (Q : fs -> fs -> Prop),
  (forall s, P s -> Q s s) -> Hoare P get_fs Q.
Proof. intros P Q I w Pw. exact (I _ Pw). Qed.

Definition Inv (P : fs -> Prop) {A} (m : M A) (Q : A -> Prop) : Prop :=
  Hoare P m (fun a s => P s /\ Q a).

Lemma inv_ret : forall (P : fs -> Prop) {A} (a : A) (Q : A -> Prop), Q a -> Inv P (ret a) Q.
Proof. intros P A a Q Qa. apply hoare_ret. auto. Qed.

Lemma inv_bind : forall (P : fs -> Prop) {A B} (m : M A) (f : A -> M B) (R : A -> Prop) Q,
  Inv P m R -> (forall a, R a -> Inv P (f a) Q) -> Inv P (bind m f) Q.
Proof.
  intros P A B m f R Q Hm Hf. eapply hoare_bind; [exact Hm|].
  intros a. apply hoare_pure. intros Ra. exact (Hf a Ra).
Qed.

Lemma inv_bind_ret : forall (P : fs -> Prop) {A B} (a : A) (f : A -> M B) Q,
  Inv P (f a) Q -> Inv P (bind (ret a) f) Q.
Proof. intros P A B a f Q Hf. exact Hf. Qed.

Lemma inv_weaken : forall (P : fs -> Prop) {A} (m : M A) (Q Q' : A -> Prop),
  Inv P m Q -> (forall a, Q a -> Q' a) -> Inv P m Q'.
Proof. intros P A m Q Q' Hm I. eapply hoare_post; [|exact Hm]. intros a s [X Y]. auto. Qed.

Lemma inv_true : forall (P : fs -> Prop) {A} (m : M A) (Q : A -> Prop),
  Inv P m Q -> Inv P m (fun _ => True).
Proof. intros P A m Q Hm. eapply inv_weaken; [exact Hm|auto]. Qed.

Lemma inv_call : forall (P : fs -> Prop) c, call_keeps P c -> Inv P (do_call c) (fun _ => True).
Proof. intros P c K. apply hoare_call; [|auto]. intros s s' Ps E. split; [exact (K _ _ Ps E)|exact I]. Qed.

Lemma inv_get_fs : forall (P : fs -> Prop), Inv P get_fs (fun _ => True).
Proof. intros P. apply hoare_get_fs. auto. Qed.

Lemma inv_pres : forall (P : fs -> Prop) {A} (m : M A), Pres P m -> Inv P m (fun _ => True).
Proof. intros P A m Pm w Pw. split; [exact (Pm w Pw)|exact I]. Qed.

Lemma hoare_of_pres : forall (P : fs -> Prop) {A} (m : M A), Pres P m -> Hoare P m (fun _ s => P s).
Proof. intros P A m Pm w Pw. exact (Pm w Pw). Qed.

(* a pure consequence of the precondition *)
Lemma hoare_pre_elim : forall {A} (F : Prop) (P : fs -> Prop) (m : M A) Q,
  (forall s, P s -> F) -> (F -> Hoare P m Q) -> Hoare P m Q.
Proof. intros A F P m Q HF Hm w Pw. exact (Hm (HF _ Pw) w Pw). Qed.

Lemma inv_to_pres : forall (P : fs -> Prop) {A} (m : M A) Q, Inv P m Q -> Pres P m.
Proof. intros P A m Q Hm w Pw. exact (proj1 (Hm w Pw)). Qed.

(* the result of a program is a pure statement: it can be read off in any world *)
Lemma inv_result : forall {A} (m : M A) (Q : A -> Prop),
  Inv (fun _ => True) m Q -> forall w, Q (fst (m w)).
Proof. intros A m Q Hm w. exact (proj2 (Hm w I)). Qed.

Create HintDb inv.
#[export] Hint Resolve inv_get_fs : inv.

(* [inv_walk leaf]: structural decomposition of a goal [Inv P m Q]; every intermediate result is
   abstracted to True (give the intermediate predicate by hand with inv_bind where it matters);
   [leaf] proves call_keeps P c; what remains are the pure goals [Q a] at the returns *)
Ltac inv_walk leaf :=
  repeat (cbv beta iota zeta;
          first
            [ solve [auto with inv]
            | lazymatch goal with
              | |- forall _, _ => intro
              | |- Inv _ (ret _) _ => apply inv_ret
              | |- Inv _ (bind (ret _) _) _ => apply inv_bind_ret
              | |- Inv _ (bind _ _) _ =>
                eapply (inv_bind _ _ _ (fun _ => True)); [|intros ? _]
              | |- Inv _ (do_call _) (fun _ => True) => apply inv_call; solve [leaf]
              | |- Inv _ (do_call _) _ =>
                eapply inv_weaken; [apply inv_call; solve [leaf]|intros ? _]
              | |- Inv _ (match ?x with _ => _ end) _ => destruct x
              | |- Inv _ _ (fun _ => True) => eapply inv_true; solve [auto with inv]
              end ]).

(* ------------------------------------------------------------------ *)
(* 2. calls that name no path under cas/                               *)
(* ------------------------------------------------------------------ *)
Definition noncas (p : path) : bool := match p with PCas _ => false | _ => true end.
Definition cas_free (c : call) : bool :=
  match c with
  | CMkdir _ => true
  | CCreate q | CCreateExcl q | COpenAppend q | CAppend q _ | CSync q | CUnlink q => noncas q
  | CRename a b => noncas a && noncas b
  end.

Lemma cas_free_avoids : forall comps c, cas_free c = true -> call_avoids (PCas comps) c = true.
Proof.
  intros comps c F. destruct c as [d|q|q|q|q b|q|a b|q]; cbn [cas_free call_avoids] in *;
    try reflexivity; try (destruct q; try discriminate; reflexivity).
  destruct a; try discriminate; destruct b; try discriminate; reflexivity.
Qed.

Lemma keeps_and : forall (P Q : fs -> Prop) c,
  call_keeps P c -> call_keeps Q c -> call_keeps (fun s => P s /\ Q s) c.
Proof. intros P Q c KP KQ s s' [Ps Qs] E. split; [exact (KP _ _ Ps E)|exact (KQ _ _ Qs E)]. Qed.

(* ------------------------------------------------------------------ *)
(* 3. the WAL, checkpoint and directory programs                       *)
(* ------------------------------------------------------------------ *)
Section InvFree.
  Variable H : bytes -> bytes.
  Variable cfg : config.
  Variable P : fs -> Prop.
  Hypothesis K : forall c, cas_free c = true -> call_keeps P c.

  Local Ltac leaf := apply K; reflexivity.
  Local Ltac pure := cbn [fst snd nextv writer idx mwal mpre km rc ub tb]; try tauto; try congruence.

  Lemma inv_bw_flush : forall seg buf, Inv P (bw_flush (PWal seg) buf) (fun _ => True).
  Proof. intros. unfold bw_flush. inv_walk leaf. Qed.
  Hint Resolve inv_bw_flush : inv.

  Lemma inv_bw_write_all : forall seg buf data,
    Inv P (bw_write_all (PWal seg) buf data) (fun _ => True).
  Proof. intros. unfold bw_write_all. inv_walk leaf. Qed.
  Hint Resolve inv_bw_write_all : inv.

  Lemma inv_writer_close : forall seg buf, Inv P (writer_close seg buf) (fun r => r <> Err EPanic).
  Proof. intros. unfold writer_close. inv_walk leaf; pure. Qed.
  Hint Resolve inv_writer_close : inv.

  Lemma inv_writer_seal : forall seg buf, Inv P (writer_seal seg buf) (fun r => r <> Err EPanic).
  Proof. intros. unfold writer_seal. inv_walk leaf; pure. Qed.
  Hint Resolve inv_writer_seal : inv.

  Lemma inv_write_entry : forall seg buf ver payload,
    Inv P (write_entry H seg buf ver payload) (fun rb => fst rb <> Err EPanic).
  Proof. intros. unfold write_entry. inv_walk leaf; pure. Qed.
  Hint Resolve inv_write_entry : inv.

  (* the version counter always advances by one -- also when the append fails (the version is
     burned); the unreachable unwrap() is indeed unreachable *)
  Lemma inv_append_op : forall wl payload,
    Inv P (append_op H cfg wl payload)
        (fun r => nextv (snd r) = nextv wl + 1 /\ fst r <> Err EPanic).
  Proof.
    intros wl payload. unfold append_op. cbv zeta.
    eapply inv_bind with
      (R := fun ro => nextv (snd ro) = nextv wl + 1 /\ fst ro <> Err EPanic /\
                      (forall u, fst ro = Ok u -> writer (snd ro) <> None)).
    - destruct (writer wl) as [[s b]|] eqn:W.
      + destruct (negb (s =? seg_of cfg (nextv wl))).
        * eapply inv_bind; [apply inv_writer_seal|]. intros [u|e] He.
          -- inv_walk leaf; pure; repeat split; pure.
          -- apply inv_ret. pure. repeat split; pure.
        * apply inv_ret. pure. repeat split; pure.
      + inv_walk leaf; pure; repeat split; pure.
    - intros [[u|e] w2] (Hn & He & Hw); cbn [fst snd] in *.
      + destruct (writer w2) as [[s b]|]; [|exfalso; now apply (Hw u)].
        eapply inv_bind; [apply inv_write_entry|]. intros [[u'|e'] b'] Hb; cbn [fst] in Hb;
          apply inv_ret; pure; split; pure.
      + apply inv_ret. pure. split; [exact Hn|]. intros X. inversion X; subst. now apply He.
  Qed.
  Hint Resolve inv_append_op : inv.

  Lemma inv_unlink_wals : forall ids, Inv P (unlink_all (map PWal ids)) (fun _ => True).
  Proof. induction ids as [|i ids IH]; cbn [map unlink_all]; inv_walk leaf. Qed.
  Hint Resolve inv_unlink_wals : inv.

  Lemma inv_prune_below : forall bound, Inv P (prune_below bound) (fun _ => True).
  Proof. intros. unfold prune_below. inv_walk leaf. Qed.
  Hint Resolve inv_prune_below : inv.

  Lemma inv_write_index : forall data, Inv P (atomic_write PIndex PIndexTmp data) (fun _ => True).
  Proof. intros. unfold atomic_write. inv_walk leaf. Qed.
  Hint Resolve inv_write_index : inv.

  (* a checkpoint, successful or not, changes neither the key map, the reference counts, the
     statistics nor the WAL state held in memory *)
  Lemma inv_checkpoint_inner : forall reason m,
    Inv P (checkpoint_inner cfg reason m)
        (fun rm => fst rm <> Err EPanic /\
                   km (idx (snd rm)) = km (idx m) /\ rc (idx (snd rm)) = rc (idx m) /\
                   ub (idx (snd rm)) = ub (idx m) /\ tb (idx (snd rm)) = tb (idx m) /\
                   mwal (snd rm) = mwal m /\ mpre (snd rm) = mpre m).
  Proof.
    intros. unfold checkpoint_inner. inv_walk leaf; pure; repeat split; pure.
  Qed.
  Hint Resolve inv_checkpoint_inner : inv.

  Lemma inv_mkdir_p : forall d, Inv P (mkdir_p d) (fun _ => True).
  Proof. intros. unfold mkdir_p. inv_walk leaf. Qed.
  Hint Resolve inv_mkdir_p : inv.

  Lemma inv_mkdir_cas2 : forall a b, Inv P (mkdir_cas2 a b) (fun _ => True).
  Proof. intros. unfold mkdir_cas2. inv_walk leaf. Qed.
  Hint Resolve inv_mkdir_cas2 : inv.

  Lemma inv_close : forall m, Inv P (close m) (fun _ => True).
  Proof. intros. unfold close. inv_walk leaf. Qed.

  Lemma inv_drop_staging : forall i, Inv P (drop_staging (PStaging i)) (fun _ => True).
  Proof. intros. unfold drop_staging. inv_walk leaf. Qed.
  Hint Resolve inv_drop_staging : inv.

  (* the staging file gets the next unused number; failure is EStageCreate *)
  Lemma inv_new_staging :
    Inv P new_staging (fun rp => match rp with
                                 | Ok p => exists i, p = PStaging i
                                 | Err e => e = EStageCreate
                                 end).
  Proof.
    unfold new_staging. eapply (inv_bind _ _ _ (fun _ => True)); [apply inv_get_fs|].
    intros s _. inv_walk leaf; try (eexists; reflexivity); try reflexivity.
  Qed.

  (* a dropped transaction: memory untouched, never a panic *)
  Lemma inv_abort : forall m k chunks,
    Inv P (abort m k chunks) (fun rm => fst rm <> Err EPanic /\ snd rm = m).
  Proof.
    intros m k chunks. unfold abort. eapply inv_bind; [apply inv_new_staging|].
    intros [p|e] R.
    - destruct R as [i ->]. inv_walk leaf; pure; split; pure.
    - subst e. apply inv_ret. pure. split; pure.
  Qed.
End InvFree.

#[export] Hint Resolve inv_bw_flush inv_bw_write_all inv_writer_close inv_writer_seal inv_write_entry
  inv_append_op inv_unlink_wals inv_prune_below inv_write_index inv_checkpoint_inner
  inv_mkdir_p inv_mkdir_cas2 inv_drop_staging : inv.

Print Assumptions inv_append_op.
Print Assumptions inv_checkpoint_inner.
Print Assumptions inv_abort.
