(* OrphanProofs.v -- property C08 (sequential part): the start-up orphan scan is exact, and the
   clean-up built on it is complete and harmless.  About theories/Store.v: index_hashes,
   scan_orphans, delete_orphan_list, remove_paths, delete_orphans, quarantine_orphans,
   delete_orphan.

   Setting.  [Live0m m sg] is [Live0] without the filesystem clauses (in particular WITHOUT
   lv_cas: a missing blob is what the scan has to report): sg sorted, km (idx m) = km_of sg,
   IdxInv, NoCollide.  The filesystem s is only required to be well formed (FsWf: no path listed
   twice); it may hold arbitrary planted files under cas/ (1, 2, 3 ... components, any names)
   and under staging/.

     ref_hash sg h        := exists k c, In (k, c) sg /\ H c = h
     blob_entry s comps f := fget s (PCas comps) = Some f /\ length comps = 3
     wfhash h             := length h = 32 /\ all bytes < 256
     parse_canon comps = Some h <-> comps = hexpath h /\ wfhash h          (parse_canon_iff)
     canonical_names s    := every 3-component entry whose name hex-decodes (parse_path) to h sits at
                             hexpath h.  NOT a hypothesis of any theorem here: since the repair of
                             finding F5 the scan uses parse_canon, so non-canonical spellings are
                             invalid files; the definition only describes the examples in O4'.

   Organisation:
     O0  lists, lookup, deleting a list of paths (del_all)
     O1  hex decoding produces well-formed hashes; parse_canon; index_hashes
     O2  the scan as five flat_maps and one fold (scan_fold), membership lemmas
     O3  N1: scan_orphans_spec and its components; NoDup facts
     O4  N2: C08_scan_exact; O4' finding F5 (repaired) as computed examples
     O5  runs of delete_orphan_list / quarantine_list / remove_paths in a fault-free world
     O6  N3: delete_orphans_spec, C08_cleanup_safe_seq, C08_cleanup_restores_C07,
         delete_orphan_spec, quarantine_orphans_spec, C08_cleanup_rechecks
     O7  N4: a computed instance with toyH *)
From Cas Require Import History.
From CasProofs Require Import BaseProofs SMapProofs IndexProofs StoreFS StoreInv StoreHist.
From Coq Require Import ZifyBool ZifyNat ZifyN.
Open Scope N_scope.

Arguments N.add : simpl never.
Arguments N.sub : simpl never.
Arguments N.mul : simpl never.
Arguments N.div : simpl never.
Arguments N.modulo : simpl never.
Arguments N.eqb : simpl never.
Arguments N.ltb : simpl never.
Arguments N.leb : simpl never.
Arguments N.pow : simpl never.

(* ------------------------------------------------------------------ *)
(* O0. lists, lookup, deleting a list of paths                         *)
(* ------------------------------------------------------------------ *)

Lemma filter_all : forall {A} (f : A -> bool) l, (forall x, In x l -> f x = true) -> filter f l = l.
Proof.
  induction l as [|a l IH]; intros A1; cbn [filter]; [reflexivity|].
  rewrite (A1 a (or_introl eq_refl)). f_equal. apply IH. intros x I. apply A1. now right.
Qed.

Lemma filter_none : forall {A} (f : A -> bool) l, (forall x, In x l -> f x = false) -> filter f l = [].
Proof.
  induction l as [|a l IH]; intros A1; cbn [filter]; [reflexivity|].
  rewrite (A1 a (or_introl eq_refl)). apply IH. intros x I. apply A1. now right.
Qed.

Lemma NoDup_map_inj_on : forall {A B} (g : A -> B) l,
  (forall x y, In x l -> In y l -> g x = g y -> x = y) -> NoDup l -> NoDup (map g l).
Proof.
  induction l as [|a l IH]; intros Inj ND; cbn [map]; [constructor|].
  inversion ND as [|? ? N1 ND']; subst. constructor.
  - intros I. apply in_map_iff in I. destruct I as (y & E & Iy).
    assert (y = a) by (apply Inj; [now right|now left|exact E]). subst y. contradiction.
  - apply IH; [|exact ND']. intros x y Ix Iy. apply Inj; now right.
Qed.

Lemma NoDup_flat_map : forall {A B} (g : A -> list B) l,
  NoDup l -> (forall x, In x l -> NoDup (g x)) ->
  (forall x y b, In x l -> In y l -> In b (g x) -> In b (g y) -> x = y) ->
  NoDup (flat_map g l).
Proof.
  induction l as [|a l IH]; intros ND Each Sep; cbn [flat_map]; [constructor|].
  inversion ND as [|? ? N1 ND']; subst.
  assert (NDl : NoDup (flat_map g l)).
  { apply IH; [exact ND'| |].
    - intros x I. apply Each. now right.
    - intros x y b Ix Iy. apply Sep; now right. }
  assert (NDa : NoDup (g a)) by (apply Each; now left).
  assert (Dis : forall b, In b (g a) -> ~ In b (flat_map g l)).
  { intros b Ib I. apply in_flat_map in I. destruct I as (y & Iy & Iby).
    assert (a = y) by (eapply Sep; [now left|now right|exact Ib|exact Iby]). subst y. contradiction. }
  revert Dis NDa. induction (g a) as [|b r IHr]; intros Dis NDa; cbn [app]; [exact NDl|].
  inversion NDa as [|? ? Nb NDr]; subst. constructor.
  - intros I. apply in_app_or in I. destruct I as [I|I]; [contradiction|].
    apply (Dis b); [now left|exact I].
  - apply IHr; [|exact NDr]. intros c Ic. apply Dis. now right.
Qed.

Lemma lookup_some_iff : forall l p f, NoDup (paths l) -> (lookup l p = Some f <-> In (p, f) l).
Proof.
  induction l as [|[q g] l IH]; intros p f ND; cbn [lookup In].
  - split; [discriminate|tauto].
  - inversion ND as [|? ? N1 ND']; subst. cbn [fst] in N1.
    destruct (path_eqb_spec p q) as [E|E].
    + subst q. split.
      * intros X. inversion X. now left.
      * intros [X|X]; [congruence|]. exfalso. apply N1.
        change (In (fst (p, f)) (map fst l)). now apply in_map.
    + rewrite (IH p f ND'). split; [tauto|]. intros [X|X]; [|exact X]. inversion X. congruence.
Qed.

Lemma fget_in_iff : forall s p f, FsWf s -> (fget s p = Some f <-> In (p, f) (files s)).
Proof. intros s p f W. unfold fget. now apply lookup_some_iff. Qed.

Lemma files_nodup : forall s, FsWf s -> NoDup (files s).
Proof. intros s W. eapply NoDup_map_inv. exact W. Qed.

Lemma files_path_functional : forall s p f g, FsWf s ->
  In (p, f) (files s) -> In (p, g) (files s) -> f = g.
Proof.
  intros s p f g W I1 I2. apply (fget_in_iff s p f W) in I1. apply (fget_in_iff s p g W) in I2.
  congruence.
Qed.

Lemma remove_path_absent : forall l p, lookup l p = None -> remove_path l p = l.
Proof.
  induction l as [|[q g] l IH]; intros p; cbn [lookup remove_path]; [reflexivity|].
  destruct (path_eqb p q); [discriminate|]. intros E. now rewrite IH.
Qed.

Lemma del_absent : forall s p, fget s p = None -> del s p = s.
Proof.
  intros [fl ds n] p E. unfold fget in E. cbn [files] in E. unfold del, with_files.
  cbn [files dirs nstage]. now rewrite remove_path_absent.
Qed.

(* delete a list of paths, one after the other *)
Definition del_all (ps : list path) (s : fs) : fs := fold_left del ps s.

Lemma del_all_app : forall ps qs s, del_all (ps ++ qs) s = del_all qs (del_all ps s).
Proof. intros. unfold del_all. apply fold_left_app. Qed.

Lemma del_all_wf : forall ps s, FsWf s -> FsWf (del_all ps s).
Proof.
  induction ps as [|p ps IH]; intros s W; cbn [del_all fold_left]; [exact W|].
  apply IH, del_wf, W.
Qed.

Lemma del_all_dirs : forall ps s, dirs (del_all ps s) = dirs s /\ nstage (del_all ps s) = nstage s.
Proof.
  induction ps as [|p ps IH]; intros s; cbn [del_all fold_left]; [now split|].
  destruct (IH (del s p)) as [D N]. unfold del_all in D, N. rewrite D, N. now split.
Qed.

Lemma fget_del_all : forall ps s q, FsWf s ->
  fget (del_all ps s) q = if existsb (path_eqb q) ps then None else fget s q.
Proof.
  induction ps as [|p ps IH]; intros s q W; cbn [del_all fold_left existsb]; [reflexivity|].
  fold (del_all ps (del s p)). rewrite IH by now apply del_wf.
  destruct (path_eqb_spec q p) as [E|E]; cbn [orb].
  - subst q. rewrite fget_del_same by exact W. now destruct (existsb _ ps).
  - now rewrite fget_del_other.
Qed.

Lemma existsb_path_iff : forall q ps, existsb (path_eqb q) ps = true <-> In q ps.
Proof.
  intros q ps. rewrite existsb_exists. split.
  - intros (x & I & E). apply path_eqb_true_iff in E. now subst.
  - intros I. exists q. split; [exact I|apply path_eqb_refl].
Qed.

Lemma fget_del_all_in : forall ps s q, FsWf s -> In q ps -> fget (del_all ps s) q = None.
Proof.
  intros ps s q W I. rewrite fget_del_all by exact W.
  apply existsb_path_iff in I. now rewrite I.
Qed.

Lemma fget_del_all_other : forall ps s q, FsWf s -> ~ In q ps -> fget (del_all ps s) q = fget s q.
Proof.
  intros ps s q W I. rewrite fget_del_all by exact W.
  destruct (existsb (path_eqb q) ps) eqn:E; [|reflexivity].
  apply existsb_path_iff in E. contradiction.
Qed.

Lemma frame_del_all : forall ps s, Frame (fun q => In q ps) s (del_all ps s).
Proof.
  induction ps as [|p ps IH]; intros s; cbn [del_all fold_left]; [apply frame_refl|].
  eapply frame_trans.
  - apply (frame_del (fun q => In q (p :: ps))). now left.
  - eapply frame_weaken; [|apply IH]. intros q I. now right.
Qed.

Lemma has_dir_dirs : forall s s' d, dirs s' = dirs s -> has_dir s' d = has_dir s d.
Proof. intros s s' d E. unfold has_dir. now rewrite E. Qed.

Lemma parent_ok_dirs : forall s s' p, dirs s' = dirs s -> parent_ok s' p = parent_ok s p.
Proof. intros s s' p E. unfold parent_ok. destruct (parent_dir p); [now apply has_dir_dirs|reflexivity]. Qed.

(* ------------------------------------------------------------------ *)
(* O1. decoded names are well-formed hashes; index_hashes              *)
(* ------------------------------------------------------------------ *)

Lemma unhexdigit_lt16 : forall c d, unhexdigit c = Some d -> d < 16.
Proof.
  intros c d. unfold unhexdigit.
  destruct ((48 <=? c) && (c <=? 57)) eqn:E1; [intros X; inversion X; lia|].
  destruct ((97 <=? c) && (c <=? 102)) eqn:E2; [intros X; inversion X; lia|].
  destruct ((65 <=? c) && (c <=? 70)) eqn:E3; [intros X; inversion X; lia|discriminate].
Qed.

Lemma hex_dec_pairs_wf : forall h cs, hex_dec_pairs cs = Some h ->
  length cs = (2 * length h)%nat /\ Forall (fun b => b < 256) h.
Proof.
  induction h as [|x t IH]; intros cs E.
  - destruct cs as [|c1 [|c2 r]]; cbn [hex_dec_pairs] in E; [split; [reflexivity|constructor]|discriminate|].
    destruct (unhexdigit c1), (unhexdigit c2), (hex_dec_pairs r); discriminate.
  - destruct cs as [|c1 [|c2 r]]; cbn [hex_dec_pairs] in E; try discriminate.
    destruct (unhexdigit c1) as [a|] eqn:U1; [|discriminate].
    destruct (unhexdigit c2) as [b|] eqn:U2; [|discriminate].
    destruct (hex_dec_pairs r) as [t'|] eqn:R; [|discriminate].
    inversion E; subst. destruct (IH r R) as [L F].
    apply unhexdigit_lt16 in U1. apply unhexdigit_lt16 in U2.
    split; [cbn [length]; lia|]. constructor; [lia|exact F].
Qed.

(* whatever parse_path accepts is a 32-byte string of bytes *)
Lemma parse_path_wf : forall comps h, parse_path comps = Some h ->
  length h = 32%nat /\ Forall (fun b => b < 256) h.
Proof.
  intros comps h. unfold parse_path. destruct (rev comps) as [|c3 [|c2 [|c1 r]]]; try discriminate.
  unfold hex_dec. destruct (Nat.eqb_spec (length (c1 ++ c2 ++ c3)) (2 * 32)) as [L|L]; [|discriminate].
  intros E. apply hex_dec_pairs_wf in E. destruct E as [L2 F]. split; [lia|exact F].
Qed.

Lemma parse_path_canon : forall h, length h = 32%nat -> Forall (fun b => b < 256) h ->
  parse_path (hexpath h) = Some h /\ length (hexpath h) = 3%nat.
Proof.
  intros h L F. split; [apply (parse_hexpath [] h L F)|reflexivity].
Qed.

(* a well-formed hash: 32 bytes *)
Definition wfhash (h : bytes) : Prop := length h = 32%nat /\ Forall (fun b => b < 256) h.

(* the scan's test (after the repair of F5): an entry names the blob of h only at the canonical
   path of h; upper-case digits and re-split components are rejected *)
Lemma parse_canon_iff : forall comps h,
  parse_canon comps = Some h <-> comps = hexpath h /\ wfhash h.
Proof.
  intros comps h. unfold parse_canon. split.
  - destruct (parse_path comps) as [h'|] eqn:P; [|discriminate].
    destruct (dir_eqb comps (hexpath h')) eqn:D; [|discriminate].
    intros X. inversion X; subst h'. apply dir_eqb_true_iff in D.
    split; [exact D|exact (parse_path_wf _ _ P)].
  - intros [-> [L F]]. rewrite (proj1 (parse_path_canon h L F)).
    now rewrite (proj2 (dir_eqb_true_iff (hexpath h) (hexpath h)) eq_refl).
Qed.

Lemma parse_canon_hexpath : forall h, wfhash h -> parse_canon (hexpath h) = Some h.
Proof. intros h Wh. apply parse_canon_iff. now split. Qed.

Lemma parse_canon_canonical : forall comps h, parse_canon comps = Some h -> comps = hexpath h.
Proof. intros comps h P. now apply parse_canon_iff in P. Qed.

Lemma parse_canon_wf : forall comps h, parse_canon comps = Some h -> wfhash h.
Proof. intros comps h P. now apply parse_canon_iff in P. Qed.

Lemma parse_canon_len3 : forall comps h, parse_canon comps = Some h -> length comps = 3%nat.
Proof. intros comps h P. apply parse_canon_canonical in P. now subst comps. Qed.

(* what the unrepaired test accepted: anything that decodes (kept to describe finding F5) *)
Lemma parse_canon_parse_path : forall comps h, parse_canon comps = Some h -> parse_path comps = Some h.
Proof.
  intros comps h P. apply parse_canon_iff in P. destruct P as [-> [L F]].
  apply (parse_path_canon h L F).
Qed.

(* ---- index_hashes ---- *)
Definition ih_step (acc : smap N) (e : bytes * item) : smap N :=
  sm_ins lex_cmp acc (ihash (snd e)) (isize (snd e)).

Lemma index_hashes_eq : forall m, index_hashes m = fold_left ih_step (km (idx m)) [].
Proof. reflexivity. Qed.

Lemma ih_fold_sorted : forall l acc, sorted lex_cmp acc -> sorted lex_cmp (fold_left ih_step l acc).
Proof.
  induction l as [|e l IH]; intros acc S; cbn [fold_left]; [exact S|].
  apply IH. unfold ih_step. now apply lex_sorted_ins.
Qed.

Lemma ih_fold_get : forall l acc h z, sorted lex_cmp acc ->
  sm_get lex_cmp (fold_left ih_step l acc) h = Some z ->
  sm_get lex_cmp acc h = Some z \/ exists k i, In (k, i) l /\ ihash i = h /\ isize i = z.
Proof.
  induction l as [|[k i] l IH]; intros acc h z S G; cbn [fold_left] in G; [now left|].
  apply IH in G; [|unfold ih_step; now apply lex_sorted_ins].
  destruct G as [G|(k' & i' & I & E1 & E2)].
  - unfold ih_step in G. cbn [snd] in G. destruct (key_eq_dec h (ihash i)) as [E|E].
    + subst h. rewrite lex_get_ins_same in G. inversion G; subst.
      right. exists k, i. split; [now left|now split].
    + rewrite lex_get_ins_other in G by assumption. now left.
  - right. exists k', i'. split; [now right|now split].
Qed.

Lemma ih_fold_dom : forall l acc h, sorted lex_cmp acc ->
  (sm_get lex_cmp acc h <> None \/ exists k i, In (k, i) l /\ ihash i = h) ->
  sm_get lex_cmp (fold_left ih_step l acc) h <> None.
Proof.
  induction l as [|[k i] l IH]; intros acc h S D; cbn [fold_left].
  - destruct D as [D|(k & i & [] & _)]. exact D.
  - apply IH; [unfold ih_step; now apply lex_sorted_ins|].
    destruct D as [D|(k' & i' & [I|I] & E)].
    + left. unfold ih_step. cbn [snd]. destruct (key_eq_dec h (ihash i)) as [E|E].
      * subst h. rewrite lex_get_ins_same. discriminate.
      * now rewrite lex_get_ins_other.
    + inversion I; subst. left. unfold ih_step. cbn [snd]. rewrite lex_get_ins_same. discriminate.
    + right. exists k', i'. now split.
Qed.

Lemma index_hashes_sorted : forall m, sorted lex_cmp (index_hashes m).
Proof. intros m. rewrite index_hashes_eq. apply ih_fold_sorted. exact I. Qed.

(* each referenced hash is mapped to its recorded size *)
Lemma index_hashes_get : forall m h z, hashes_sized (km (idx m)) ->
  (sm_get lex_cmp (index_hashes m) h = Some z <->
   exists k i, In (k, i) (km (idx m)) /\ ihash i = h /\ isize i = z).
Proof.
  intros m h z HS. rewrite index_hashes_eq. split.
  - intros G. apply ih_fold_get in G; [|exact I]. destruct G as [G|G]; [discriminate|exact G].
  - intros (k & i & Ik & E1 & E2).
    destruct (sm_get lex_cmp (fold_left ih_step (km (idx m)) []) h) as [z'|] eqn:G.
    + apply ih_fold_get in G; [|exact I]. destruct G as [G|(k' & i' & Ik' & E1' & E2')]; [discriminate|].
      f_equal. rewrite <- E2, <- E2'. eapply HS; [exact Ik'|exact Ik|congruence].
    + exfalso. revert G. apply ih_fold_dom; [exact I|]. right. exists k, i. now split.
Qed.

Lemma index_hashes_none : forall m h,
  sm_get lex_cmp (index_hashes m) h = None <-> ~ exists k i, In (k, i) (km (idx m)) /\ ihash i = h.
Proof.
  intros m h. rewrite index_hashes_eq. split.
  - intros G D. revert G. apply ih_fold_dom; [exact I|now right].
  - intros D. destruct (sm_get lex_cmp (fold_left ih_step (km (idx m)) []) h) as [z|] eqn:G; [|reflexivity].
    apply ih_fold_get in G; [|exact I]. destruct G as [G|(k & i & Ik & E1 & _)]; [discriminate|].
    exfalso. apply D. exists k, i. now split.
Qed.

(* ------------------------------------------------------------------ *)
(* O2. the scan as flat_maps over the directory listing                *)
(* ------------------------------------------------------------------ *)
Section ScanFold.
  Variable H : bytes -> bytes.
  Variable ih : smap N.
  Variable verify : bool.

  (* the loop body of scan_orphans (a copy of the local definition) *)
  Definition scan_step (acc : ostats * smap unit) (pf : path * file) : ostats * smap unit :=
    let '(o, seen) := acc in
    match fst pf with
    | PCas comps =>
      match comps with
      | [_; _; _] =>
        match parse_canon comps with
        | Some h =>
          let seen' := sm_ins lex_cmp seen h tt in
          match sm_get lex_cmp ih h with
          | None => (mkOstats (o_orphans o ++ [h]) (o_invalid o) (o_missing o) (o_corrupted o) (o_staging o) 0, seen')
          | Some sz =>
            if verify && negb ((len (fdata (snd pf)) =? sz) && beqb (H (fdata (snd pf))) h)
            then (mkOstats (o_orphans o) (o_invalid o) (o_missing o) (o_corrupted o ++ [h]) (o_staging o) 0, seen')
            else (o, seen')
          end
        | None => (mkOstats (o_orphans o) (o_invalid o ++ [fst pf]) (o_missing o) (o_corrupted o) (o_staging o) 0, seen)
        end
      | _ => (mkOstats (o_orphans o) (o_invalid o ++ [fst pf]) (o_missing o) (o_corrupted o) (o_staging o) 0, seen)
      end
    | PStaging _ => (mkOstats (o_orphans o) (o_invalid o) (o_missing o) (o_corrupted o) (o_staging o ++ [fst pf]) 0, seen)
    | _ => acc
    end.

  (* the hash a directory entry is taken for: three components below cas/ that hex-decode *)
  Definition parsed3 (pf : path * file) : option bytes :=
    match fst pf with
    | PCas comps => match comps with [_; _; _] => parse_canon comps | _ => None end
    | _ => None
    end.
  Definition bad_blob (f : file) (sz : N) (h : bytes) : bool :=
    negb ((len (fdata f) =? sz) && beqb (H (fdata f)) h).
  Definition orph_of (pf : path * file) : list bytes :=
    match parsed3 pf with
    | Some h => match sm_get lex_cmp ih h with None => [h] | Some _ => [] end
    | None => []
    end.
  Definition corr_of (pf : path * file) : list bytes :=
    match parsed3 pf with
    | Some h => match sm_get lex_cmp ih h with
                | Some sz => if verify && bad_blob (snd pf) sz h then [h] else []
                | None => [] end
    | None => []
    end.
  Definition inval_of (pf : path * file) : list path :=
    match fst pf with
    | PCas _ => match parsed3 pf with Some _ => [] | None => [fst pf] end
    | _ => []
    end.
  Definition stag_of (pf : path * file) : list path :=
    match fst pf with PStaging _ => [fst pf] | _ => [] end.
  Definition seen_step (seen : smap unit) (pf : path * file) : smap unit :=
    match parsed3 pf with Some h => sm_ins lex_cmp seen h tt | None => seen end.

  Lemma scan_step_spec : forall o seen pf,
    let r := scan_step (o, seen) pf in
    o_orphans (fst r) = o_orphans o ++ orph_of pf /\
    o_invalid (fst r) = o_invalid o ++ inval_of pf /\
    o_corrupted (fst r) = o_corrupted o ++ corr_of pf /\
    o_staging (fst r) = o_staging o ++ stag_of pf /\
    snd r = seen_step seen pf.
  Proof using.
    intros o seen [p f]. unfold scan_step, orph_of, corr_of, inval_of, stag_of, seen_step, parsed3, bad_blob.
    cbn [fst snd].
    destruct p as [| | | | | i | i | comps]; cbn [fst snd o_orphans o_invalid o_corrupted o_staging];
      rewrite ?app_nil_r; try (repeat split; reflexivity).
    destruct comps as [|a [|b [|c [|d r]]]]; cbn [fst snd o_orphans o_invalid o_corrupted o_staging];
      rewrite ?app_nil_r; try (repeat split; reflexivity).
    destruct (parse_canon [a; b; c]) as [h|]; cbn [fst snd o_orphans o_invalid o_corrupted o_staging];
      rewrite ?app_nil_r; try (repeat split; reflexivity).
    destruct (sm_get lex_cmp ih h) as [sz|]; cbn [fst snd o_orphans o_invalid o_corrupted o_staging];
      rewrite ?app_nil_r; try (repeat split; reflexivity).
    destruct (verify && negb ((len (fdata f) =? sz) && beqb (H (fdata f)) h));
      cbn [fst snd o_orphans o_invalid o_corrupted o_staging];
      rewrite ?app_nil_r; repeat split; reflexivity.
  Qed.

  Lemma scan_fold : forall l o seen,
    let r := fold_left scan_step l (o, seen) in
    o_orphans (fst r) = o_orphans o ++ flat_map orph_of l /\
    o_invalid (fst r) = o_invalid o ++ flat_map inval_of l /\
    o_corrupted (fst r) = o_corrupted o ++ flat_map corr_of l /\
    o_staging (fst r) = o_staging o ++ flat_map stag_of l /\
    snd r = fold_left seen_step l seen.
  Proof using.
    induction l as [|pf l IH]; intros o seen; cbn [fold_left flat_map].
    - rewrite !app_nil_r. repeat split; reflexivity.
    - destruct (scan_step_spec o seen pf) as (E1 & E2 & E3 & E4 & E5).
      destruct (scan_step (o, seen) pf) as [o1 seen1]. cbn [fst snd] in E1, E2, E3, E4, E5.
      destruct (IH o1 seen1) as (F1 & F2 & F3 & F4 & F5).
      cbv zeta. rewrite F1, F2, F3, F4, F5, E1, E2, E3, E4, E5, !app_assoc.
      repeat split; reflexivity.
  Qed.

  (* ---- the [seen] map ---- *)
  Lemma seen_fold : forall l seen, sorted lex_cmp seen ->
    sorted lex_cmp (fold_left seen_step l seen) /\
    forall h, sm_get lex_cmp (fold_left seen_step l seen) h <> None <->
              (sm_get lex_cmp seen h <> None \/ exists pf, In pf l /\ parsed3 pf = Some h).
  Proof using.
    induction l as [|pf l IH]; intros seen S; cbn [fold_left].
    - split; [exact S|]. intros h. split; [now left|]. intros [X|(pf & [] & _)]. exact X.
    - assert (S1 : sorted lex_cmp (seen_step seen pf)).
      { unfold seen_step. destruct (parsed3 pf); [now apply lex_sorted_ins|exact S]. }
      destruct (IH _ S1) as [S2 G]. split; [exact S2|]. intros h. rewrite G. clear G.
      unfold seen_step. destruct (parsed3 pf) as [h'|] eqn:P.
      + destruct (key_eq_dec h h') as [E|E].
        * subst h'. rewrite lex_get_ins_same. split; intros _.
          -- right. exists pf. split; [now left|exact P].
          -- left. discriminate.
        * rewrite lex_get_ins_other by assumption. split.
          -- intros [X|(x & Ix & Px)]; [now left|]. right. exists x. split; [now right|exact Px].
          -- intros [X|(x & [Ix|Ix] & Px)]; [now left| |].
             ++ subst x. congruence.
             ++ right. exists x. now split.
      + split.
        * intros [X|(x & Ix & Px)]; [now left|]. right. exists x. split; [now right|exact Px].
        * intros [X|(x & [Ix|Ix] & Px)]; [now left| |].
          -- subst x. congruence.
          -- right. exists x. now split.
  Qed.

  (* ---- membership in the per-entry lists ---- *)
  Lemma parsed3_iff : forall p f h,
    parsed3 (p, f) = Some h <->
    exists comps, p = PCas comps /\ length comps = 3%nat /\ parse_canon comps = Some h.
  Proof using.
    intros p f h. unfold parsed3. cbn [fst]. split.
    - destruct p as [| | | | | i | i | comps]; try discriminate.
      destruct comps as [|a [|b [|c [|d r]]]]; try discriminate.
      intros E. exists [a; b; c]. now repeat split.
    - intros (comps & -> & L & E).
      destruct comps as [|a [|b [|c [|d r]]]]; try discriminate. exact E.
  Qed.

  Lemma parsed3_none_iff : forall comps f,
    parsed3 (PCas comps, f) = None <-> (length comps <> 3%nat \/ parse_canon comps = None).
  Proof using.
    intros comps f. unfold parsed3. cbn [fst].
    destruct comps as [|a [|b [|c [|d r]]]]; cbn [length]; split; intros X;
      try reflexivity; try (left; discriminate); try (now right).
    destruct X as [X|X]; [contradiction|exact X].
  Qed.

  Lemma In_orph_of : forall pf h,
    In h (orph_of pf) <-> parsed3 pf = Some h /\ sm_get lex_cmp ih h = None.
  Proof using.
    intros pf h. unfold orph_of. destruct (parsed3 pf) as [h'|]; [|split; [intros []|intros [X _]; discriminate]].
    destruct (sm_get lex_cmp ih h') as [sz|] eqn:G; cbn [In].
    - split; [intros []|]. intros [X Y]. inversion X; subst. congruence.
    - split.
      + intros [X|[]]. subst. now split.
      + intros [X _]. inversion X. now left.
  Qed.

  Lemma In_corr_of : forall pf h,
    In h (corr_of pf) <->
    verify = true /\ parsed3 pf = Some h /\
    exists sz, sm_get lex_cmp ih h = Some sz /\ bad_blob (snd pf) sz h = true.
  Proof using.
    intros pf h. unfold corr_of. destruct (parsed3 pf) as [h'|];
      [|split; [intros []|intros (_ & X & _); discriminate]].
    destruct (sm_get lex_cmp ih h') as [sz|] eqn:G.
    - destruct verify; cbn [andb].
      + destruct (bad_blob (snd pf) sz h') eqn:B; cbn [In].
        * split.
          -- intros [X|[]]. subst. split; [reflexivity|]. split; [reflexivity|]. exists sz. now split.
          -- intros (_ & X & _). inversion X. now left.
        * split; [intros []|]. intros (_ & X & sz' & G' & B'). inversion X; subst. congruence.
      + split; [intros []|]. intros (X & _). discriminate.
    - split; [intros []|]. intros (_ & X & sz' & G' & _). inversion X; subst. congruence.
  Qed.

  Lemma In_inval_of : forall p f q,
    In q (inval_of (p, f)) <->
    exists comps, p = PCas comps /\ q = p /\ (length comps <> 3%nat \/ parse_canon comps = None).
  Proof using.
    intros p f q. unfold inval_of. cbn [fst].
    destruct p as [| | | | | i | i | comps];
      try (split; [intros []|intros (c & X & _); discriminate]).
    destruct (parsed3 (PCas comps, f)) as [h|] eqn:P; cbn [In].
    - split; [intros []|]. intros (c & X & _ & Y). inversion X; subst c.
      apply (parsed3_none_iff comps f) in Y. rewrite Y in P. discriminate.
    - split.
      + intros [X|[]]. exists comps. split; [reflexivity|]. split; [now symmetry|].
        eapply parsed3_none_iff. exact P.
      + intros (c & _ & X & _). now left.
  Qed.

  Lemma In_stag_of : forall p f q, In q (stag_of (p, f)) <-> exists i, p = PStaging i /\ q = p.
  Proof using.
    intros p f q. unfold stag_of. cbn [fst].
    destruct p as [| | | | | i | i | comps]; cbn [In];
      try (split; [intros []|intros (j & X & _); discriminate]).
    split.
    - intros [X|[]]. exists i. split; [reflexivity|now symmetry].
    - intros (j & _ & X). now left.
  Qed.
End ScanFold.

(* scan_orphans in terms of the above *)
Lemma scan_orphans_unfold : forall H m s verify,
  let ih := index_hashes m in
  let seen := fold_left seen_step (files s) [] in
  scan_orphans H m s verify =
  mkOstats (flat_map (orph_of ih) (files s)) (flat_map inval_of (files s))
           (map fst (filter (fun e => match sm_get lex_cmp seen (fst e) with None => true | Some _ => false end) ih))
           (flat_map (corr_of H ih verify) (files s)) (flat_map stag_of (files s))
           (N.of_nat (length seen)).
Proof.
  intros H m s verify ih seen.
  change (scan_orphans H m s verify) with
    (let '(o, sn) := fold_left (scan_step H ih verify) (files s) (mkOstats [] [] [] [] [] 0, []) in
     mkOstats (o_orphans o) (o_invalid o)
       (map fst (filter (fun e => match sm_get lex_cmp sn (fst e) with None => true | Some _ => false end) ih))
       (o_corrupted o) (o_staging o) (N.of_nat (length sn))).
  pose proof (scan_fold H ih verify (files s) (mkOstats [] [] [] [] [] 0) []) as F. cbv zeta in F.
  set (r := fold_left (scan_step H ih verify) (files s) _) in *.
  destruct F as (E1 & E2 & E3 & E4 & E5). clearbody r. destruct r as [o sn].
  cbn [fst snd o_orphans o_invalid o_corrupted o_staging app] in E1, E2, E3, E4, E5.
  subst seen. now rewrite E1, E2, E3, E4, E5.
Qed.

(* ------------------------------------------------------------------ *)
(* O3. N1: the scan is exact                                           *)
(* ------------------------------------------------------------------ *)
Section Orphans.
  Variable H : bytes -> bytes.
  Hypothesis H_len : forall b, length (H b) = 32%nat.
  Hypothesis H_byte : forall b, Forall (fun x => x < 256) (H b).
  Variable cfg : config.
  Let cmp := key_cmp (c_kt cfg).

  (* Live0 without the filesystem: in particular without lv_cas *)
  Record Live0m (m : mem) (sg : smap bytes) : Prop := mkLive0m {
    lm_sorted : sorted cmp sg;
    lm_km : km (idx m) = km_of H sg;
    lm_idx : IdxInv cmp (idx m);
    lm_nocollide : NoCollide H (map snd sg)
  }.

  Lemma Live0_Live0m : forall m s sg, Live0 H cfg m s sg -> Live0m m sg.
  Proof using. intros m s sg L. destruct L. now constructor. Qed.

  Definition ref_hash (sg : smap bytes) (h : bytes) : Prop := exists k c, In (k, c) sg /\ H c = h.
  Definition blob_entry (s : fs) (comps : list bytes) (f : file) : Prop :=
    fget s (PCas comps) = Some f /\ length comps = 3%nat.
  (* a CAS entry that the scan takes for the blob with hash h *)
  Definition names (s : fs) (h : bytes) : Prop :=
    exists comps f, blob_entry s comps f /\ parse_canon comps = Some h.
  (* the property the unrepaired scan needed as a hypothesis (finding F5); with parse_canon it is
     no longer assumed anywhere, it only serves to describe the examples in O4' *)
  Definition canonical_names (s : fs) : Prop :=
    forall comps f h, blob_entry s comps f -> parse_path comps = Some h -> comps = hexpath h.

  Lemma km_of_in : forall sg k i, In (k, i) (km_of H sg) <-> exists c, In (k, c) sg /\ i = item_of H c.
  Proof using.
    intros sg k i. unfold km_of. rewrite in_map_iff. split.
    - intros ([k' c] & E & I). cbn [fst snd] in E. inversion E; subst. now exists c.
    - intros (c & I & ->). exists (k, c). now split.
  Qed.

  Lemma ref_hash_km : forall m sg h, km (idx m) = km_of H sg ->
    (ref_hash sg h <-> exists k i, In (k, i) (km (idx m)) /\ ihash i = h).
  Proof using.
    intros m sg h K. rewrite K. unfold ref_hash. split.
    - intros (k & c & I & E). exists k, (item_of H c). split; [apply km_of_in; now exists c|exact E].
    - intros (k & i & I & E). apply km_of_in in I. destruct I as (c & I & ->). now exists k, c.
  Qed.

  Lemma hashes_sized_sg : forall sg, NoCollide H (map snd sg) -> hashes_sized (km_of H sg).
  Proof using.
    intros sg NC k1 k2 i1 i2 I1 I2 E. apply km_of_in in I1, I2.
    destruct I1 as (c1 & I1 & ->), I2 as (c2 & I2 & ->). cbn [item_of ihash isize] in *.
    assert (c1 = c2); [|now subst].
    apply NC; [| |exact E].
    - change c1 with (snd (k1, c1)). now apply in_map.
    - change c2 with (snd (k2, c2)). now apply in_map.
  Qed.

  Section Scan.
    Variables (m : mem) (s : fs) (sg : smap bytes) (verify : bool).
    Hypothesis L : Live0m m sg.
    Hypothesis W : FsWf s.
    Let o := scan_orphans H m s verify.
    Let ih := index_hashes m.

    (* index_hashes maps exactly the referenced hashes, each to the length of its content *)
    Lemma ih_get_sg : forall h z,
      sm_get lex_cmp ih h = Some z <-> exists k c, In (k, c) sg /\ H c = h /\ len c = z.
    Proof using L.
      intros h z. unfold ih. rewrite index_hashes_get.
      - rewrite (lm_km _ _ L). split.
        + intros (k & i & I & E1 & E2). apply km_of_in in I. destruct I as (c & I & ->).
          now exists k, c.
        + intros (k & c & I & E1 & E2). exists k, (item_of H c).
          split; [apply km_of_in; now exists c|now split].
      - rewrite (lm_km _ _ L). apply hashes_sized_sg, (lm_nocollide _ _ L).
    Qed.

    Lemma ih_none_sg : forall h, sm_get lex_cmp ih h = None <-> ~ ref_hash sg h.
    Proof using L.
      intros h. unfold ih. rewrite index_hashes_none, <- (ref_hash_km m sg h (lm_km _ _ L)). tauto.
    Qed.

    Lemma ih_some_sg : forall h, sm_get lex_cmp ih h <> None <-> ref_hash sg h.
    Proof using L.
      intros h. split.
      - intros G. destruct (sm_get lex_cmp ih h) as [z|] eqn:E; [|contradiction].
        apply ih_get_sg in E. destruct E as (k & c & I & E & _). now exists k, c.
      - intros (k & c & I & E) G. apply ih_none_sg in G. apply G. now exists k, c.
    Qed.

    Lemma ref_hash_dec : forall h, ref_hash sg h \/ ~ ref_hash sg h.
    Proof using L.
      intros h. destruct (sm_get lex_cmp ih h) eqn:E.
      - left. apply ih_some_sg. congruence.
      - right. now apply ih_none_sg.
    Qed.

    (* directory entries *)
    Lemma entry_parsed : forall h,
      (exists pf, In pf (files s) /\ parsed3 pf = Some h) <-> names s h.
    Proof using W.
      intros h. unfold names, blob_entry. split.
      - intros ([p f] & I & P). apply parsed3_iff in P. destruct P as (comps & -> & Lc & P).
        exists comps, f. split; [split; [now apply fget_in_iff|exact Lc]|exact P].
      - intros (comps & f & [G Lc] & P). exists (PCas comps, f).
        split; [now apply fget_in_iff|]. apply parsed3_iff. now exists comps.
    Qed.

    Theorem scan_In_orphans : forall h,
      In h (o_orphans o) <->
      exists comps f, blob_entry s comps f /\ parse_canon comps = Some h /\ ~ ref_hash sg h.
    Proof using L W.
      intros h. unfold o. rewrite scan_orphans_unfold. cbn [o_orphans]. rewrite in_flat_map.
      fold ih. split.
      - intros ([p f] & I & Io). apply In_orph_of in Io. destruct Io as [P G].
        apply parsed3_iff in P. destruct P as (comps & -> & Lc & P). exists comps, f.
        split; [split; [now apply fget_in_iff|exact Lc]|]. split; [exact P|now apply ih_none_sg].
      - intros (comps & f & [G Lc] & P & NR). exists (PCas comps, f).
        split; [now apply fget_in_iff|]. apply In_orph_of.
        split; [apply parsed3_iff; now exists comps|now apply ih_none_sg].
    Qed.

    Theorem scan_In_invalid : forall p,
      In p (o_invalid o) <->
      exists comps f, p = PCas comps /\ fget s p = Some f /\
                      (length comps <> 3%nat \/ parse_canon comps = None).
    Proof using W.
      intros p. unfold o. rewrite scan_orphans_unfold. cbn [o_invalid]. rewrite in_flat_map. split.
      - intros ([q f] & I & Iq). apply In_inval_of in Iq. destruct Iq as (comps & -> & -> & B).
        exists comps, f. split; [reflexivity|]. split; [now apply fget_in_iff|exact B].
      - intros (comps & f & -> & G & B). exists (PCas comps, f).
        split; [now apply fget_in_iff|]. apply In_inval_of. now exists comps.
    Qed.

    Theorem scan_In_staging : forall p,
      In p (o_staging o) <-> exists i f, p = PStaging i /\ fget s p = Some f.
    Proof using W.
      intros p. unfold o. rewrite scan_orphans_unfold. cbn [o_staging]. rewrite in_flat_map. split.
      - intros ([q f] & I & Iq). apply In_stag_of in Iq. destruct Iq as (i & -> & ->).
        exists i, f. split; [reflexivity|now apply fget_in_iff].
      - intros (i & f & -> & G). exists (PStaging i, f).
        split; [now apply fget_in_iff|]. apply In_stag_of. now exists i.
    Qed.

    Lemma seen_sorted_get :
      let seen := fold_left seen_step (files s) [] in
      sorted lex_cmp seen /\ forall h, sm_get lex_cmp seen h <> None <-> names s h.
    Proof using W.
      destruct (seen_fold (files s) [] I) as [S G]. split; [exact S|].
      intros h. rewrite G, <- entry_parsed. cbn [sm_get]. split; [|now right].
      intros [X|X]; [exfalso; now apply X|exact X].
    Qed.

    Theorem scan_In_missing : forall h,
      In h (o_missing o) <-> ref_hash sg h /\ ~ names s h.
    Proof using L W.
      intros h. unfold o. rewrite scan_orphans_unfold. cbn [o_missing].
      destruct seen_sorted_get as [S G]. fold ih.
      set (seen := fold_left seen_step (files s) []) in *. rewrite in_map_iff. split.
      - intros ([h' z] & E & I). cbn [fst] in E. subst h'. apply filter_In in I.
        destruct I as [I F]. cbn [fst] in F.
        apply (lex_get_in _ _ _ (index_hashes_sorted m)) in I. fold ih in I. split.
        + apply ih_some_sg. congruence.
        + intros N. apply G in N. destruct (sm_get lex_cmp seen h); [discriminate|now apply N].
      - intros [R N]. apply ih_some_sg in R. destruct (sm_get lex_cmp ih h) as [z|] eqn:E; [|contradiction].
        exists (h, z). split; [reflexivity|]. apply filter_In.
        split; [now apply (lex_get_in _ _ _ (index_hashes_sorted m))|]. cbn [fst].
        destruct (sm_get lex_cmp seen h) eqn:E2; [|reflexivity].
        exfalso. apply N, G. rewrite E2. discriminate.
    Qed.

    (* verify = true: a referenced hash whose file has the wrong length or the wrong hash; the
       recorded size of h is the length of the (by NoCollide unique) content c with H c = h *)
    Theorem scan_In_corrupted : verify = true -> forall h,
      In h (o_corrupted o) <->
      exists comps f k c, blob_entry s comps f /\ parse_canon comps = Some h /\
                          In (k, c) sg /\ H c = h /\
                          ~ (len (fdata f) = len c /\ H (fdata f) = h).
    Proof using L W.
      intros V h. unfold o. rewrite scan_orphans_unfold. cbn [o_corrupted]. rewrite in_flat_map.
      fold ih. split.
      - intros ([p f] & I & Ic). apply In_corr_of in Ic. destruct Ic as (_ & P & sz & G & B).
        apply parsed3_iff in P. destruct P as (comps & -> & Lc & P).
        apply ih_get_sg in G. destruct G as (k & c & Ik & E1 & E2).
        exists comps, f, k, c. split; [split; [now apply fget_in_iff|exact Lc]|].
        split; [exact P|]. split; [exact Ik|]. split; [exact E1|].
        unfold bad_blob in B. cbn [snd] in B. intros [X Y].
        apply negb_true_iff, andb_false_iff in B. destruct B as [B|B].
        + apply N.eqb_neq in B. congruence.
        + apply beqb_false_iff in B. contradiction.
      - intros (comps & f & k & c & [G Lc] & P & Ik & E & B). exists (PCas comps, f).
        split; [now apply fget_in_iff|]. apply In_corr_of. split; [exact V|].
        split; [apply parsed3_iff; now exists comps|]. exists (len c).
        split; [apply ih_get_sg; now exists k, c|]. unfold bad_blob. cbn [snd].
        apply negb_true_iff, andb_false_iff.
        destruct (N.eqb_spec (len (fdata f)) (len c)) as [X|X]; [|now left]. right.
        apply beqb_false_iff. intros Y. apply B. now split.
    Qed.

    Theorem scan_corrupted_off : verify = false -> o_corrupted o = [].
    Proof using.
      intros V. unfold o. rewrite scan_orphans_unfold. cbn [o_corrupted]. rewrite V.
      induction (files s) as [|pf l IH]; cbn [flat_map]; [reflexivity|]. rewrite IH, app_nil_r.
      unfold corr_of. destruct (parsed3 pf); [|reflexivity].
      destruct (sm_get lex_cmp (index_hashes m) _); reflexivity.
    Qed.

    (* o_total = number of distinct hashes that some entry is taken for *)
    Theorem scan_total : exists hs,
      NoDup hs /\ (forall h, In h hs <-> names s h) /\ o_total o = N.of_nat (length hs).
    Proof using W.
      destruct seen_sorted_get as [S G].
      exists (sm_keys (fold_left seen_step (files s) [])). split; [now apply lex_keys_nodup|]. split.
      - intros h. rewrite <- G. unfold sm_keys. rewrite in_map_iff. split.
        + intros ([h' u] & E & I). cbn [fst] in E. subst h'.
          apply (lex_get_in _ _ _ S) in I. congruence.
        + intros N. destruct (sm_get lex_cmp _ h) as [u|] eqn:E; [|contradiction].
          exists (h, u). split; [reflexivity|now apply (lex_get_in _ _ _ S)].
      - unfold o. rewrite scan_orphans_unfold. cbn [o_total]. unfold sm_keys. now rewrite map_length.
    Qed.

    (* N1, all membership statements at once *)
    Theorem scan_orphans_spec :
      (forall h, In h (o_orphans o) <->
         exists comps f, blob_entry s comps f /\ parse_canon comps = Some h /\ ~ ref_hash sg h) /\
      (forall p, In p (o_invalid o) <->
         exists comps f, p = PCas comps /\ fget s p = Some f /\
                         (length comps <> 3%nat \/ parse_canon comps = None)) /\
      (forall h, In h (o_missing o) <->
         ref_hash sg h /\ ~ exists comps f, blob_entry s comps f /\ parse_canon comps = Some h) /\
      (forall p, In p (o_staging o) <-> exists i f, p = PStaging i /\ fget s p = Some f) /\
      (verify = true -> forall h, In h (o_corrupted o) <->
         exists comps f k c, blob_entry s comps f /\ parse_canon comps = Some h /\
                             In (k, c) sg /\ H c = h /\
                             ~ (len (fdata f) = len c /\ H (fdata f) = h)) /\
      (verify = false -> o_corrupted o = []) /\
      (exists hs, NoDup hs /\
         (forall h, In h hs <-> exists comps f, blob_entry s comps f /\ parse_canon comps = Some h) /\
         o_total o = N.of_nat (length hs)).
    Proof using L W.
      split; [exact scan_In_orphans|]. split; [exact scan_In_invalid|].
      split; [exact scan_In_missing|]. split; [exact scan_In_staging|].
      split; [exact scan_In_corrupted|]. split; [exact scan_corrupted_off|exact scan_total].
    Qed.

    (* ---- multiplicities ---- *)
    Theorem scan_invalid_nodup : NoDup (o_invalid o).
    Proof using W.
      unfold o. rewrite scan_orphans_unfold. cbn [o_invalid].
      apply NoDup_flat_map; [now apply files_nodup| |].
      - intros [p f] _. unfold inval_of. cbn [fst]. destruct p; try constructor.
        destruct (parsed3 _); repeat constructor. intros [].
      - intros [p f] [q g] b Ix Iy Bx By. apply In_inval_of in Bx, By.
        destruct Bx as (_ & _ & -> & _), By as (_ & _ & E & _). subst q.
        f_equal. eapply files_path_functional; eassumption.
    Qed.

    Theorem scan_staging_nodup : NoDup (o_staging o).
    Proof using W.
      unfold o. rewrite scan_orphans_unfold. cbn [o_staging].
      apply NoDup_flat_map; [now apply files_nodup| |].
      - intros [p f] _. unfold stag_of. cbn [fst]. destruct p; repeat constructor. intros [].
      - intros [p f] [q g] b Ix Iy Bx By. apply In_stag_of in Bx, By.
        destruct Bx as (_ & _ & ->), By as (_ & _ & E). subst q.
        f_equal. eapply files_path_functional; eassumption.
    Qed.

    Theorem scan_missing_nodup : NoDup (o_missing o).
    Proof using.
      unfold o. rewrite scan_orphans_unfold. cbn [o_missing].
      apply (lex_keys_nodup (filter _ (index_hashes m))), lex_sorted_filter, index_hashes_sorted.
    Qed.

    (* an entry is taken for h only at hexpath h, so no hash is listed twice *)
    Theorem scan_orphans_nodup : NoDup (o_orphans o).
    Proof using W.
      unfold o. rewrite scan_orphans_unfold. cbn [o_orphans].
      apply NoDup_flat_map; [now apply files_nodup| |].
      - intros pf _. unfold orph_of. destruct (parsed3 pf); [|constructor].
        destruct (sm_get lex_cmp _ _); repeat constructor. intros [].
      - intros [p f] [q g] b Ix Iy Bx By. apply In_orph_of in Bx, By.
        destruct Bx as [Bx _], By as [By _]. apply parsed3_iff in Bx, By.
        destruct Bx as (c1 & -> & L1 & P1), By as (c2 & -> & L2 & P2).
        assert (c1 = hexpath b).
        { now apply parse_canon_canonical. }
        assert (c2 = hexpath b).
        { now apply parse_canon_canonical. }
        subst c1 c2. f_equal. eapply files_path_functional; eassumption.
    Qed.

    Theorem scan_corrupted_nodup : NoDup (o_corrupted o).
    Proof using W.
      unfold o. rewrite scan_orphans_unfold. cbn [o_corrupted].
      apply NoDup_flat_map; [now apply files_nodup| |].
      - intros pf _. unfold corr_of. destruct (parsed3 pf); [|constructor].
        destruct (sm_get lex_cmp _ _); [|constructor].
        destruct (verify && _); repeat constructor. intros [].
      - intros [p f] [q g] b Ix Iy Bx By. apply In_corr_of in Bx, By.
        destruct Bx as (_ & Bx & _), By as (_ & By & _). apply parsed3_iff in Bx, By.
        destruct Bx as (c1 & -> & L1 & P1), By as (c2 & -> & L2 & P2).
        assert (c1 = hexpath b).
        { now apply parse_canon_canonical. }
        assert (c2 = hexpath b).
        { now apply parse_canon_canonical. }
        subst c1 c2. f_equal. eapply files_path_functional; eassumption.
    Qed.

    (* ---------------------------------------------------------------- *)
    (* O4. N2: the scan speaks about hashes (no assumption on names)      *)
    (* ---------------------------------------------------------------- *)
    Lemma ref_hash_wf : forall h, ref_hash sg h -> wfhash h.
    Proof using H_len H_byte. intros h (k & c & _ & <-). split; [apply H_len|apply H_byte]. Qed.

    (* an entry is a blob of h iff it is the file at the canonical path of the well-formed h *)
    Lemma names_canonical : forall h, names s h <-> wfhash h /\ fget s (cas_path h) <> None.
    Proof using.
      intros h. split.
      - intros (comps & f & [G _] & P). apply parse_canon_iff in P. destruct P as [-> Wh].
        split; [exact Wh|]. unfold cas_path. congruence.
      - intros [Wh G]. destruct (fget s (cas_path h)) as [f|] eqn:E; [|contradiction].
        exists (hexpath h), f. split; [now split|now apply parse_canon_hexpath].
    Qed.

    Theorem C08_scan_exact :
      (* orphans: the canonical CAS files of unreferenced hashes *)
      (forall h, In h (o_orphans o) <->
                 wfhash h /\ fget s (cas_path h) <> None /\ ~ ref_hash sg h) /\
      (* missing: the referenced hashes without a file at their canonical path *)
      (forall h, In h (o_missing o) <-> ref_hash sg h /\ fget s (cas_path h) = None) /\
      (* invalid: the files under cas/ that are not at the canonical path of any hash; this
         includes upper-case and re-split spellings of a hash *)
      (forall p, In p (o_invalid o) <->
                 exists comps f, p = PCas comps /\ fget s p = Some f /\
                                 ~ exists h, wfhash h /\ comps = hexpath h) /\
      (forall p, In p (o_staging o) <-> exists i f, p = PStaging i /\ fget s p = Some f) /\
      (* corrupted: referenced, present, but of the wrong length or with the wrong hash *)
      (verify = true -> forall h, In h (o_corrupted o) <->
         exists f k c, fget s (cas_path h) = Some f /\ In (k, c) sg /\ H c = h /\
                       ~ (len (fdata f) = len c /\ H (fdata f) = h)) /\
      (verify = false -> o_corrupted o = []) /\
      NoDup (o_orphans o) /\ NoDup (o_missing o) /\ NoDup (o_invalid o) /\
      NoDup (o_staging o) /\ NoDup (o_corrupted o) /\
      (* total: the number of canonical CAS files *)
      (exists hs, NoDup hs /\ (forall h, In h hs <-> wfhash h /\ fget s (cas_path h) <> None) /\
                  o_total o = N.of_nat (length hs)).
    Proof using H_len H_byte L W.
      pose proof names_canonical as NC.
      split; [|split; [|split; [|split; [|split; [|split]]]]].
      - intros h. rewrite scan_In_orphans. split.
        + intros (comps & f & B & P & NR).
          assert (N : names s h) by now exists comps, f. apply NC in N. tauto.
        + intros (Wh & G & NR). destruct (proj2 (NC h) (conj Wh G)) as (comps & f & B & P).
          now exists comps, f.
      - intros h. rewrite scan_In_missing. split.
        + intros [R N]. split; [exact R|]. destruct (fget s (cas_path h)) eqn:E; [|reflexivity].
          exfalso. apply N, NC. split; [now apply ref_hash_wf|congruence].
        + intros [R G]. split; [exact R|]. intros N. apply NC in N. now apply (proj2 N).
      - intros p. rewrite scan_In_invalid. split.
        + intros (comps & f & -> & G & B). exists comps, f. split; [reflexivity|]. split; [exact G|].
          intros (h & Wh & ->). pose proof (parse_canon_hexpath h Wh) as P.
          destruct B as [B|B]; [now apply B|congruence].
        + intros (comps & f & -> & G & B). exists comps, f. split; [reflexivity|]. split; [exact G|].
          destruct (parsed3 (PCas comps, f)) as [h|] eqn:P; [|now apply (parsed3_none_iff comps f)].
          exfalso. apply parsed3_iff in P. destruct P as (c' & E & L3 & P). inversion E; subst c'.
          apply B. exists h. apply parse_canon_iff in P. now split.
      - exact scan_In_staging.
      - intros V h. rewrite (scan_In_corrupted V). split.
        + intros (comps & f & k & c & B & P & Ik & E & Bad).
          apply parse_canon_canonical in P. subst comps. destruct B as [G _].
          now exists f, k, c.
        + intros (f & k & c & G & Ik & E & Bad).
          assert (Wh : wfhash h) by (apply ref_hash_wf; now exists k, c).
          exists (hexpath h), f, k, c. split; [now split|].
          split; [now apply parse_canon_hexpath|now repeat split].
      - exact scan_corrupted_off.
      - split; [exact scan_orphans_nodup|]. split; [exact scan_missing_nodup|].
        split; [exact scan_invalid_nodup|]. split; [exact scan_staging_nodup|].
        split; [exact scan_corrupted_nodup|].
        destruct scan_total as (hs & ND & Ih & T). exists hs. split; [exact ND|]. split; [|exact T].
        intros h. now rewrite Ih, NC.
    Qed.
  End Scan.
End Orphans.

  (* ------------------------------------------------------------------ *)
  (* O5. runs of the clean-up loops in a fault-free world                *)
  (* ------------------------------------------------------------------ *)

  (* unlink in a fault-free world: afterwards the filesystem is [del _ p] in both cases *)
  Lemma unlink_run : forall w p, wfault w = None ->
    exists r w', do_call (CUnlink p) w = (r, w') /\ wfault w' = None /\
                 wfs w' = del (wfs w) p /\
                 ((r = Ok tt /\ fget (wfs w) p <> None) \/ (r = Err ENOENT /\ fget (wfs w) p = None /\ w' = w)).
  Proof.
    intros w p F. destruct (fget (wfs w) p) as [f|] eqn:G.
    - exists (Ok tt), (mkWorld (del (wfs w) p) (TCall (CUnlink p) :: wtrace w) (S (wcount w)) None).
      split; [apply do_call_ok; [exact F|cbn [apply_call]; now rewrite G]|].
      split; [reflexivity|]. split; [reflexivity|]. left. split; [reflexivity|discriminate].
    - exists (Err ENOENT), w. split; [apply do_call_err; cbn [apply_call]; now rewrite G|].
      split; [exact F|]. split; [symmetry; now apply del_absent|]. right. now repeat split.
  Qed.

  Definition unref (m : mem) (h : bytes) : bool := negb (referenced m h).

  Lemma filter_unref_cons : forall m' h hs,
    filter (unref m') (h :: hs) = if negb (referenced m' h) then h :: filter (unref m') hs else filter (unref m') hs.
  Proof. reflexivity. Qed.
  Lemma filter_ref_cons : forall m' h hs,
    filter (referenced m') (h :: hs) =
    if referenced m' h then h :: filter (referenced m') hs else filter (referenced m') hs.
  Proof. reflexivity. Qed.

  Lemma dol_run : forall m' hs acc w, wfault w = None ->
    exists r w', delete_orphan_list m' hs acc w = (r, w') /\ wfault w' = None /\
      wfs w' = del_all (map cas_path (filter (unref m') hs)) (wfs w) /\
      r_quarantined r = r_quarantined acc /\ r_invalid r = r_invalid acc /\
      r_staging r = r_staging acc /\ r_errors r = r_errors acc /\
      r_deleted r + r_skipped r = r_deleted acc + r_skipped acc + N.of_nat (length hs) /\
      r_skipped acc + N.of_nat (length (filter (referenced m') hs)) <= r_skipped r /\
      (FsWf (wfs w) -> NoDup (map cas_path (filter (unref m') hs)) ->
       (forall h, In h (filter (unref m') hs) -> fget (wfs w) (cas_path h) <> None) ->
       r_deleted r = r_deleted acc + N.of_nat (length (filter (unref m') hs)) /\
       r_skipped r = r_skipped acc + N.of_nat (length (filter (referenced m') hs))).
  Proof.
    intros m'. induction hs as [|h hs IH]; intros acc w F.
    - exists acc, w. cbn [delete_orphan_list filter map length del_all fold_left]. unfold ret.
      repeat split; try reflexivity; try assumption; lia.
    - cbn [delete_orphan_list]. destruct (referenced m' h) eqn:R.
      + rewrite (filter_unref_cons m' h hs), (filter_ref_cons m' h hs), R. cbn [negb].
        destruct (IH (mkRecovery (r_deleted acc) (r_quarantined acc) (r_skipped acc + 1)
                                 (r_invalid acc) (r_staging acc) (r_errors acc)) w F)
          as (r & w' & E & F' & S & Q1 & Q2 & Q3 & Q4 & Q5 & Q6 & Q7).
        cbn [r_deleted r_quarantined r_skipped r_invalid r_staging r_errors] in E, Q1, Q2, Q3, Q4, Q5, Q6, Q7 |- *.
        exists r, w'. split; [exact E|]. split; [exact F'|]. split; [exact S|].
        repeat (split; [assumption|]). cbn [length]. split; [lia|]. split; [lia|].
        intros Wf ND Ex. destruct (Q7 Wf ND Ex) as [D1 D2]. split; lia.
      + rewrite (filter_unref_cons m' h hs), (filter_ref_cons m' h hs), R. cbn [negb].
        destruct (unlink_run w (cas_path h) F) as (x & w1 & E1 & F1 & S1 & Cases).
        rewrite (bind_eq _ _ _ _ _ E1). cbn [map del_all fold_left]. fold (del_all (map cas_path (filter (unref m') hs))).
        destruct Cases as [[-> Ex1]|(-> & Ex1 & ->)].
        * destruct (IH (mkRecovery (r_deleted acc + 1) (r_quarantined acc) (r_skipped acc)
                                   (r_invalid acc) (r_staging acc) (r_errors acc)) w1 F1)
            as (r & w' & E & F' & S & Q1 & Q2 & Q3 & Q4 & Q5 & Q6 & Q7).
          cbn [r_deleted r_quarantined r_skipped r_invalid r_staging r_errors] in E, Q1, Q2, Q3, Q4, Q5, Q6, Q7 |- *.
          exists r, w'. split; [exact E|]. split; [exact F'|]. split; [now rewrite S, S1|].
          repeat (split; [assumption|]). cbn [length]. split; [lia|]. split; [lia|].
          intros Wf ND Ex. inversion ND as [|? ? N1 ND']; subst.
          destruct (Q7 (eq_ind_r FsWf (del_wf _ _ Wf) S1) ND') as [D1 D2]; [|split; lia].
          intros h' Ih'. rewrite S1, fget_del_other; [apply Ex; now right|].
          intros X. apply N1. rewrite <- X. now apply in_map.
        * destruct (IH (mkRecovery (r_deleted acc) (r_quarantined acc) (r_skipped acc + 1)
                                   (r_invalid acc) (r_staging acc) (r_errors acc)) w F)
            as (r & w' & E & F' & S & Q1 & Q2 & Q3 & Q4 & Q5 & Q6 & Q7).
          cbn [r_deleted r_quarantined r_skipped r_invalid r_staging r_errors] in E, Q1, Q2, Q3, Q4, Q5, Q6, Q7 |- *.
          exists r, w'. split; [exact E|]. split; [exact F'|]. split; [now rewrite S, <- S1|].
          repeat (split; [assumption|]). cbn [length]. split; [lia|]. split; [lia|].
          intros Wf ND Ex. exfalso. apply (Ex h); [now left|exact Ex1].
  Qed.

  (* the same loop with the quarantine counter *)
  Lemma ql_run : forall m' hs acc w, wfault w = None ->
    exists r w', quarantine_list m' hs acc w = (r, w') /\ wfault w' = None /\
      wfs w' = del_all (map cas_path (filter (unref m') hs)) (wfs w) /\
      r_errors r = r_errors acc /\
      r_quarantined r + r_skipped r = r_quarantined acc + r_skipped acc + N.of_nat (length hs) /\
      r_skipped acc + N.of_nat (length (filter (referenced m') hs)) <= r_skipped r /\
      (FsWf (wfs w) -> NoDup (map cas_path (filter (unref m') hs)) ->
       (forall h, In h (filter (unref m') hs) -> fget (wfs w) (cas_path h) <> None) ->
       r_quarantined r = r_quarantined acc + N.of_nat (length (filter (unref m') hs)) /\
       r_skipped r = r_skipped acc + N.of_nat (length (filter (referenced m') hs))).
  Proof.
    intros m'. induction hs as [|h hs IH]; intros acc w F.
    - exists acc, w. cbn [quarantine_list filter map length del_all fold_left]. unfold ret.
      repeat split; try reflexivity; try assumption; lia.
    - cbn [quarantine_list]. destruct (referenced m' h) eqn:R.
      + rewrite (filter_unref_cons m' h hs), (filter_ref_cons m' h hs), R. cbn [negb].
        destruct (IH (mkRecovery 0 (r_quarantined acc) (r_skipped acc + 1) 0 0 (r_errors acc)) w F)
          as (r & w' & E & F' & S & Q4 & Q5 & Q6 & Q7).
        cbn [r_deleted r_quarantined r_skipped r_invalid r_staging r_errors] in E, Q4, Q5, Q6, Q7 |- *.
        exists r, w'. split; [exact E|]. split; [exact F'|]. split; [exact S|].
        split; [assumption|]. cbn [length]. split; [lia|]. split; [lia|].
        intros Wf ND Ex. destruct (Q7 Wf ND Ex) as [D1 D2]. split; lia.
      + rewrite (filter_unref_cons m' h hs), (filter_ref_cons m' h hs), R. cbn [negb].
        destruct (unlink_run w (cas_path h) F) as (x & w1 & E1 & F1 & S1 & Cases).
        rewrite (bind_eq _ _ _ _ _ E1). cbn [map del_all fold_left]. fold (del_all (map cas_path (filter (unref m') hs))).
        destruct Cases as [[-> Ex1]|(-> & Ex1 & ->)].
        * destruct (IH (mkRecovery 0 (r_quarantined acc + 1) (r_skipped acc) 0 0 (r_errors acc)) w1 F1)
            as (r & w' & E & F' & S & Q4 & Q5 & Q6 & Q7).
          cbn [r_deleted r_quarantined r_skipped r_invalid r_staging r_errors] in E, Q4, Q5, Q6, Q7 |- *.
          exists r, w'. split; [exact E|]. split; [exact F'|]. split; [now rewrite S, S1|].
          split; [assumption|]. cbn [length]. split; [lia|]. split; [lia|].
          intros Wf ND Ex. inversion ND as [|? ? N1 ND']; subst.
          destruct (Q7 (eq_ind_r FsWf (del_wf _ _ Wf) S1) ND') as [D1 D2]; [|split; lia].
          intros h' Ih'. rewrite S1, fget_del_other; [apply Ex; now right|].
          intros X. apply N1. rewrite <- X. now apply in_map.
        * destruct (IH (mkRecovery 0 (r_quarantined acc) (r_skipped acc + 1) 0 0 (r_errors acc)) w F)
            as (r & w' & E & F' & S & Q4 & Q5 & Q6 & Q7).
          cbn [r_deleted r_quarantined r_skipped r_invalid r_staging r_errors] in E, Q4, Q5, Q6, Q7 |- *.
          exists r, w'. split; [exact E|]. split; [exact F'|]. split; [now rewrite S, <- S1|].
          split; [assumption|]. cbn [length]. split; [lia|]. split; [lia|].
          intros Wf ND Ex. exfalso. apply (Ex h); [now left|exact Ex1].
  Qed.

  Lemma rp_run : forall ps okc errc w, wfault w = None ->
    exists n w', remove_paths ps okc errc w = ((n, errc), w') /\ wfault w' = None /\
      wfs w' = del_all ps (wfs w) /\ n <= okc + N.of_nat (length ps) /\
      (FsWf (wfs w) -> NoDup ps -> (forall p, In p ps -> fget (wfs w) p <> None) ->
       n = okc + N.of_nat (length ps)).
  Proof.
    induction ps as [|p ps IH]; intros okc errc w F.
    - exists okc, w. cbn [remove_paths length del_all fold_left]. unfold ret.
      repeat split; try reflexivity; try assumption; lia.
    - cbn [remove_paths]. rewrite (bind_eq get_fs _ w (wfs w) w eq_refl).
      cbn [del_all fold_left]. fold (del_all ps (del (wfs w) p)).
      destruct (fget (wfs w) p) as [f|] eqn:G.
      + destruct (unlink_run w p F) as (x & w1 & E1 & F1 & S1 & Cases).
        rewrite (bind_eq _ _ _ _ _ E1).
        destruct Cases as [[-> _]|(_ & Ex1 & _)]; [|congruence].
        destruct (IH (okc + 1) errc w1 F1) as (n & w' & E & F' & S & Le & Ex).
        exists n, w'. split; [exact E|]. split; [exact F'|]. split; [now rewrite S, S1|].
        cbn [length]. split; [lia|]. intros Wf ND All. inversion ND as [|? ? N1 ND']; subst.
        rewrite Ex; [lia|rewrite S1; now apply del_wf|exact ND'|].
        intros q Iq. rewrite S1, fget_del_other; [apply All; now right|]. intros X. now subst q.
      + destruct (IH okc errc w F) as (n & w' & E & F' & S & Le & Ex).
        exists n, w'. split; [exact E|]. split; [exact F'|].
        split; [now rewrite S, (del_absent _ _ G)|]. cbn [length]. split; [lia|].
        intros Wf ND All. exfalso. apply (All p); [now left|exact G].
  Qed.

(* ------------------------------------------------------------------ *)
(* O6. N3: the clean-up is complete and harmless                       *)
(* ------------------------------------------------------------------ *)

Lemma existsb_beqb_iff : forall h l, existsb (beqb h) l = true <-> In h l.
Proof.
  intros h l. rewrite existsb_exists. split.
  - intros (x & I & E). apply beqb_true_iff in E. now subst.
  - intros I. exists h. split; [exact I|apply beqb_refl].
Qed.

Lemma cas_path_inj : forall h1 h2, wfhash h1 -> wfhash h2 -> cas_path h1 = cas_path h2 -> h1 = h2.
Proof.
  intros h1 h2 [L1 F1] [L2 F2] E. unfold cas_path in E.
  assert (hexpath h1 = hexpath h2) by congruence. now apply hexpath_inj.
Qed.

(* everything the clean-up unlinks *)
Definition cleaned (o : ostats) : list path :=
  map cas_path (o_orphans o) ++ o_invalid o ++ o_staging o.

(* single-hash deletion, any stats, any (later) memory *)
Theorem delete_orphan_run : forall m' o h w, wfault w = None ->
  exists b w', delete_orphan m' o h w = (Ok b, w') /\ wfault w' = None /\
    ((b = true /\ In h (o_orphans o) /\ referenced m' h = false /\
      fget (wfs w) (cas_path h) <> None /\ wfs w' = del (wfs w) (cas_path h)) \/
     (b = false /\ w' = w /\
      (~ In h (o_orphans o) \/ referenced m' h = true \/ fget (wfs w) (cas_path h) = None))).
Proof.
  intros m' o h w F. unfold delete_orphan.
  destruct (existsb (beqb h) (o_orphans o)) eqn:E; cbn [negb].
  - apply existsb_beqb_iff in E. destruct (referenced m' h) eqn:R.
    + exists false, w. split; [reflexivity|]. split; [exact F|]. right. split; [reflexivity|].
      split; [reflexivity|]. right. now left.
    + destruct (unlink_run w (cas_path h) F) as (x & w1 & E1 & F1 & S1 & Cases).
      rewrite (bind_eq _ _ _ _ _ E1). destruct Cases as [[-> Ex]|(-> & Ex & ->)].
      * exists true, w1. split; [reflexivity|]. split; [exact F1|]. left. now repeat split.
      * exists false, w. split; [reflexivity|]. split; [exact F|]. right. split; [reflexivity|].
        split; [reflexivity|]. right. now right.
  - exists false, w. split; [reflexivity|]. split; [exact F|]. right. split; [reflexivity|].
    split; [reflexivity|]. left. intros I. apply existsb_beqb_iff in I. congruence.
Qed.

(* C08_cleanup_rechecks, general form: the list loop consults the memory it is given (a later
   one than the scan's, say): a hash referenced there is skipped and counted, and its file stays,
   provided no other listed hash shares its path *)
Theorem delete_orphan_list_rechecks : forall m' hs acc w h,
  wfault w = None -> FsWf (wfs w) ->
  In h hs -> referenced m' h = true ->
  (forall h', In h' hs -> cas_path h' = cas_path h -> h' = h) ->
  exists r w', delete_orphan_list m' hs acc w = (r, w') /\
    fget (wfs w') (cas_path h) = fget (wfs w) (cas_path h) /\
    r_skipped acc + N.of_nat (length (filter (referenced m') hs)) <= r_skipped r /\
    r_skipped acc + 1 <= r_skipped r /\ r_errors r = r_errors acc.
Proof.
  intros m' hs acc w h F Wf Ih R Inj.
  destruct (dol_run m' hs acc w F) as (r & w' & E & F' & S & _ & _ & _ & Q4 & _ & Q6 & _).
  exists r, w'. split; [exact E|]. split; [|split; [exact Q6|split; [|exact Q4]]].
  - rewrite S. apply fget_del_all_other; [exact Wf|]. intros I. apply in_map_iff in I.
    destruct I as (h' & E' & I'). apply filter_In in I'. destruct I' as [I' U].
    apply Inj in E'; [|exact I']. subst h'. unfold unref in U. rewrite R in U. discriminate.
  - assert (In h (filter (referenced m') hs)) as X by (apply filter_In; now split).
    destruct (filter (referenced m') hs); [destruct X|]. cbn [length] in Q6. lia.
Qed.

Section Cleanup.
  Variable H : bytes -> bytes.
  Hypothesis H_len : forall b, length (H b) = 32%nat.
  Hypothesis H_byte : forall b, Forall (fun x => x < 256) (H b).
  Variable cfg : config.
  Let cmp := key_cmp (c_kt cfg).
  Local Notation Live0m := (Live0m H cfg).
  Local Notation Live0 := (Live0 H cfg).
  Local Notation ref_hash := (ref_hash H).

  Lemma referenced_iff : forall m sg h, Live0m m sg -> (referenced m h = true <-> ref_hash sg h).
  Proof using.
    intros m sg h L. rewrite (ref_hash_km H m sg h (lm_km _ _ _ _ L)).
    rewrite <- (C12_known_iff_referenced _ _ (lm_idx _ _ _ _ L) h).
    unfold referenced. destruct (rc_get (rc (idx m)) h); split; congruence.
  Qed.

  Section WithScan.
    Variables (m : mem) (s : fs) (sg : smap bytes) (verify : bool).
    Hypothesis L : Live0m m sg.
    Hypothesis W : FsWf s.
    Let o := scan_orphans H m s verify.

    Lemma orphan_facts : forall h, In h (o_orphans o) ->
      wfhash h /\ ~ ref_hash sg h /\ referenced m h = false /\ names s h.
    Proof using L W.
      intros h I. apply (scan_In_orphans H cfg m s sg verify L W) in I.
      destruct I as (comps & f & B & P & NR). split; [exact (parse_canon_wf _ _ P)|].
      split; [exact NR|]. split; [|now exists comps, f].
      destruct (referenced m h) eqn:R; [|reflexivity]. apply (referenced_iff m sg h L) in R. contradiction.
    Qed.

    Lemma orphans_all_unref : filter (unref m) (o_orphans o) = o_orphans o /\
                              filter (referenced m) (o_orphans o) = [].
    Proof using L W.
      split.
      - apply filter_all. intros h I. unfold unref. now rewrite (proj1 (proj2 (proj2 (orphan_facts h I)))).
      - apply filter_none. intros h I. apply orphan_facts, I.
    Qed.

    Lemma invalid_facts : forall p, In p (o_invalid o) ->
      fget s p <> None /\ (exists comps, p = PCas comps) /\ forall h, wfhash h -> p <> cas_path h.
    Proof using W.
      intros p I. apply (scan_In_invalid H m s verify W) in I.
      destruct I as (comps & f & -> & G & B). split; [congruence|]. split; [now exists comps|].
      intros h Wh E. unfold cas_path in E. assert (comps = hexpath h) by congruence. subst comps.
      pose proof (parse_canon_hexpath h Wh) as P. destruct B as [B|B]; [now apply B|congruence].
    Qed.

    Lemma staging_facts : forall p, In p (o_staging o) -> fget s p <> None /\ exists i, p = PStaging i.
    Proof using W.
      intros p I. apply (scan_In_staging H m s verify W) in I. destruct I as (i & f & -> & G).
      split; [congruence|now exists i].
    Qed.

    Lemma invalid_not_orphan_path : forall p, In p (o_invalid o) -> ~ In p (map cas_path (o_orphans o)).
    Proof using L W.
      intros p I X. apply in_map_iff in X. destruct X as (h & E & Ih).
      destruct (invalid_facts p I) as (_ & _ & N). apply (N h); [apply orphan_facts, Ih|now symmetry].
    Qed.

    Lemma staging_not_cas : forall p, In p (o_staging o) ->
      ~ In p (map cas_path (o_orphans o)) /\ ~ In p (o_invalid o).
    Proof using W.
      intros p I. destruct (staging_facts p I) as (_ & i & ->). split.
      - intros X. apply in_map_iff in X. destruct X as (h & E & _). discriminate.
      - intros X. destruct (invalid_facts _ X) as (_ & (c & E) & _). discriminate.
    Qed.

    Lemma cleaned_kind : forall p, In p (cleaned o) ->
      (exists comps, p = PCas comps) \/ exists i, p = PStaging i.
    Proof using W.
      intros p I. unfold cleaned in I. apply in_app_or in I. destruct I as [I|I].
      - apply in_map_iff in I. destruct I as (h & <- & _). left. now exists (hexpath h).
      - apply in_app_or in I. destruct I as [I|I].
        + left. apply invalid_facts, I.
        + right. apply staging_facts, I.
    Qed.

    (* the path of a referenced blob is never unlinked (no assumption on names) *)
    Lemma ref_not_cleaned : forall h, ref_hash sg h -> ~ In (cas_path h) (cleaned o).
    Proof using H_len H_byte L W.
      intros h R I. pose proof (ref_hash_wf H H_len H_byte sg h R) as Wh.
      unfold cleaned in I. apply in_app_or in I. destruct I as [I|I].
      - apply in_map_iff in I. destruct I as (h' & E & Ih'). destruct (orphan_facts h' Ih') as (Wh' & NR & _).
        apply cas_path_inj in E; [|exact Wh'|exact Wh]. subst h'. contradiction.
      - apply in_app_or in I. destruct I as [I|I].
        + destruct (invalid_facts _ I) as (_ & _ & N). now apply (N h Wh).
        + destruct (staging_facts _ I) as (_ & i & E). discriminate.
    Qed.

    (* every orphan's file is there (at its canonical path), and orphans have distinct paths *)
    Lemma orphan_file_canonical : forall h, In h (o_orphans o) -> fget s (cas_path h) <> None.
    Proof using L W.
      intros h I. destruct (orphan_facts h I) as (_ & _ & _ & N).
      apply (names_canonical s h) in N. apply N.
    Qed.

    Lemma orphan_paths_nodup : NoDup (map cas_path (o_orphans o)).
    Proof using L W.
      apply NoDup_map_inj_on; [|now apply scan_orphans_nodup].
      intros x y Ix Iy. apply cas_path_inj; now apply orphan_facts.
    Qed.

    (* ---- delete_orphans ---- *)
    Theorem delete_orphans_run : forall w, wfs w = s -> wfault w = None ->
      exists r w', delete_orphans m o w = (r, w') /\ wfault w' = None /\
        wfs w' = del_all (cleaned o) s /\
        r_deleted r + r_skipped r = N.of_nat (length (o_orphans o)) /\
        r_quarantined r = 0 /\
        r_invalid r = N.of_nat (length (o_invalid o)) /\
        r_staging r = N.of_nat (length (o_staging o)) /\
        r_errors r = 0 /\
        r_deleted r = N.of_nat (length (o_orphans o)) /\ r_skipped r = 0.
    Proof using L W.
      intros w Ws F. unfold delete_orphans. destruct orphans_all_unref as [FU FR].
      destruct (dol_run m (o_orphans o) (mkRecovery 0 0 0 0 0 0) w F)
        as (r1 & w1 & E1 & F1 & S1 & _ & _ & _ & Q4 & Q5 & _ & Q7).
      rewrite FU, FR, Ws in *. cbn [r_deleted r_skipped r_errors length] in Q4, Q5, Q7.
      rewrite (bind_eq _ _ _ _ _ E1).
      assert (W1 : FsWf (wfs w1)) by (rewrite S1; now apply del_all_wf).
      destruct (rp_run (o_invalid o) 0 0 w1 F1) as (n2 & w2 & E2 & F2 & S2 & _ & X2).
      rewrite (bind_eq _ _ _ _ _ E2).
      assert (N2 : n2 = 0 + N.of_nat (length (o_invalid o))).
      { apply X2; [exact W1|apply (scan_invalid_nodup H m s verify W)|].
        intros p Ip. rewrite S1, fget_del_all_other; [apply invalid_facts, Ip|exact W|].
        now apply invalid_not_orphan_path. }
      assert (W2 : FsWf (wfs w2)) by (rewrite S2; now apply del_all_wf).
      destruct (rp_run (o_staging o) 0 0 w2 F2) as (n3 & w3 & E3 & F3 & S3 & _ & X3).
      rewrite (bind_eq _ _ _ _ _ E3).
      assert (N3 : n3 = 0 + N.of_nat (length (o_staging o))).
      { apply X3; [exact W2|apply (scan_staging_nodup H m s verify W)|].
        intros p Ip. destruct (staging_not_cas p Ip) as [A B].
        rewrite S2, fget_del_all_other; [|exact W1|exact B].
        rewrite S1, fget_del_all_other; [apply staging_facts, Ip|exact W|exact A]. }
      eexists. exists w3. split; [reflexivity|]. split; [exact F3|].
      cbn [r_deleted r_quarantined r_skipped r_invalid r_staging r_errors fst snd].
      split; [|split; [lia|split; [reflexivity|split; [lia|split; [lia|split; [lia|]]]]]].
      - rewrite S3, S2, S1. unfold cleaned. now rewrite !del_all_app.
      - destruct Q7 as [D1 D2]; [exact W|exact orphan_paths_nodup| |lia].
        intros h Ih. now apply orphan_file_canonical.
    Qed.

    (* N3, delete_orphans_spec.  The program has type M recovery: it only reads the memory m,
       so index and memory are untouched by construction. *)
    Theorem delete_orphans_spec : forall w, wfs w = s -> wfault w = None ->
      exists r w', delete_orphans m o w = (r, w') /\ wfault w' = None /\
        (* exactly the listed files are removed, nothing else is touched *)
        (forall q, fget (wfs w') q = if existsb (path_eqb q) (cleaned o) then None else fget s q) /\
        (forall h, In h (o_orphans o) -> fget s (cas_path h) <> None /\ fget (wfs w') (cas_path h) = None) /\
        (forall p, In p (o_invalid o) -> fget (wfs w') p = None) /\
        (forall p, In p (o_staging o) -> fget (wfs w') p = None) /\
        Frame (fun q => In q (cleaned o)) s (wfs w') /\
        (* the report *)
        r_deleted r = N.of_nat (length (o_orphans o)) /\ r_quarantined r = 0 /\ r_skipped r = 0 /\
        r_invalid r = N.of_nat (length (o_invalid o)) /\
        r_staging r = N.of_nat (length (o_staging o)) /\ r_errors r = 0.
    Proof using L W.
      intros w Ws F.
      destruct (delete_orphans_run w Ws F) as (r & w' & E & F' & S & _ & Q2 & Q3 & Q4 & Q5 & Q6).
      destruct Q6 as [D1 D2]. exists r, w'. split; [exact E|]. split; [exact F'|].
      split; [intros q; rewrite S; now apply fget_del_all|].
      split; [|split; [|split; [|split; [rewrite S; apply frame_del_all|now repeat split]]]].
      - intros h Ih. split; [now apply orphan_file_canonical|]. rewrite S.
        apply fget_del_all_in; [exact W|]. unfold cleaned. apply in_or_app. left. now apply in_map.
      - intros p Ip. rewrite S. apply fget_del_all_in; [exact W|]. unfold cleaned.
        apply in_or_app. right. apply in_or_app. now left.
      - intros p Ip. rewrite S. apply fget_del_all_in; [exact W|]. unfold cleaned.
        apply in_or_app. right. apply in_or_app. now right.
    Qed.

    (* ---- quarantine ---- *)
    Theorem quarantine_orphans_spec : forall w, wfs w = s -> wfault w = None ->
      exists r w', quarantine_orphans m o w = (r, w') /\ wfault w' = None /\
        wfs w' = del_all (map cas_path (o_orphans o)) s /\
        (forall q, fget (wfs w') q =
                   if existsb (path_eqb q) (map cas_path (o_orphans o)) then None else fget s q) /\
        (forall h, In h (o_orphans o) -> fget s (cas_path h) <> None /\ fget (wfs w') (cas_path h) = None) /\
        Frame (fun q => In q (map cas_path (o_orphans o))) s (wfs w') /\
        r_quarantined r = N.of_nat (length (o_orphans o)) /\ r_skipped r = 0 /\ r_errors r = 0.
    Proof using L W.
      intros w Ws F. unfold quarantine_orphans. destruct orphans_all_unref as [FU FR].
      destruct (ql_run m (o_orphans o) (mkRecovery 0 0 0 0 0 0) w F)
        as (r & w' & E & F' & S & Q4 & _ & _ & Q7).
      rewrite FU, FR, Ws in *. cbn [r_quarantined r_skipped r_errors length] in Q4, Q7.
      destruct Q7 as [D1 D2]; [exact W|exact orphan_paths_nodup| |].
      { intros h Ih. now apply orphan_file_canonical. }
      exists r, w'. split; [exact E|]. split; [exact F'|]. split; [exact S|].
      split; [intros q; rewrite S; now apply fget_del_all|].
      split; [|split; [rewrite S; apply frame_del_all|split; [lia|split; [lia|exact Q4]]]].
      intros h Ih. split; [now apply orphan_file_canonical|]. rewrite S.
      apply fget_del_all_in; [exact W|]. now apply in_map.
    Qed.

    (* ---- single hash ---- *)
    Theorem delete_orphan_spec : forall w h, wfs w = s -> wfault w = None ->
      (In h (o_orphans o) ->
         exists w', delete_orphan m o h w = (Ok true, w') /\ wfault w' = None /\
                    wfs w' = del s (cas_path h) /\ fget (wfs w') (cas_path h) = None /\
                    Frame (fun q => q = cas_path h) s (wfs w')) /\
      (~ In h (o_orphans o) -> delete_orphan m o h w = (Ok false, w)).
    Proof using L W.
      intros w h Ws F. destruct (delete_orphan_run m o h w F) as (b & w' & E & F' & Cases). split.
      - intros Ih. destruct Cases as [(-> & _ & _ & _ & S)|(_ & _ & [X|[X|X]])].
        + exists w'. split; [exact E|]. split; [exact F'|]. rewrite Ws in S. split; [exact S|].
          rewrite S. split; [now apply fget_del_same|now apply frame_del].
        + contradiction.
        + rewrite (proj1 (proj2 (proj2 (orphan_facts h Ih)))) in X. discriminate.
        + exfalso. rewrite Ws in X. now apply (orphan_file_canonical h Ih).
      - intros NI. destruct Cases as [(_ & Ih & _)|(-> & -> & _)]; [contradiction|exact E].
    Qed.

    (* the re-check against a later memory m': nothing happens to a hash referenced by then *)
    Theorem delete_orphan_rechecks : forall m' w h, referenced m' h = true ->
      delete_orphan m' o h w = (Ok false, w).
    Proof using.
      intros m' w h R. unfold delete_orphan. rewrite R. now destruct (negb _).
    Qed.

    Theorem C08_cleanup_rechecks : forall m' acc w h, wfs w = s -> wfault w = None ->
      In h (o_orphans o) -> referenced m' h = true ->
      exists r w', delete_orphan_list m' (o_orphans o) acc w = (r, w') /\
        fget (wfs w') (cas_path h) = fget s (cas_path h) /\
        r_skipped acc + N.of_nat (length (filter (referenced m') (o_orphans o))) <= r_skipped r /\
        r_skipped acc + 1 <= r_skipped r /\ r_errors r = r_errors acc.
    Proof using L W.
      intros m' acc w h Ws F Ih R. rewrite <- Ws.
      apply delete_orphan_list_rechecks; try assumption; [now rewrite Ws|].
      intros h' Ih'. apply cas_path_inj; now apply orphan_facts.
    Qed.
  End WithScan.

  (* ---- the invariants after the clean-up ---- *)
  Section Restores.
    Variables (m : mem) (s : fs) (sg : smap bytes) (verify : bool).
    Hypothesis LV : Live0 m s sg.
    Hypothesis W : FsWf s.
    Let o := scan_orphans H m s verify.
    Let L : Live0m m sg := Live0_Live0m H cfg m s sg LV.

    (* no referenced blob is removed; Live0 survives *)
    Theorem C08_cleanup_safe_seq : forall w r w', wfs w = s -> wfault w = None ->
      delete_orphans m o w = (r, w') ->
      (forall k c, In (k, c) sg -> fget (wfs w') (cas_path (H c)) = fget s (cas_path (H c))) /\
      Live0 m (wfs w') sg /\ FsWf (wfs w').
    Proof using H_len H_byte LV W.
      intros w r w' Ws F E.
      destruct (delete_orphans_run m s sg verify L W w Ws F) as (r0 & w0 & E0 & _ & S & _).
      fold o in E0, S. rewrite E in E0. inversion E0; subst r0 w0. clear E0.
      assert (Keep : forall k c, In (k, c) sg ->
                fget (wfs w') (cas_path (H c)) = fget s (cas_path (H c))).
      { intros k c I. rewrite S. apply fget_del_all_other; [exact W|].
        apply (ref_not_cleaned m s sg verify L W). now exists k, c. }
      assert (Other : forall q, (forall comps, q <> PCas comps) -> (forall i, q <> PStaging i) ->
                fget (wfs w') q = fget s q).
      { intros q N1 N2. rewrite S. apply fget_del_all_other; [exact W|]. intros I.
        apply (cleaned_kind m s verify W) in I. destruct I as [(c & ->)|(i & ->)];
          [now apply (N1 c)|now apply (N2 i)]. }
      destruct (del_all_dirs (cleaned o) s) as [Dd Dn]. rewrite <- S in Dd, Dn.
      split; [exact Keep|]. split; [|rewrite S; now apply del_all_wf].
      pose proof LV as LVc. destruct LVc as [L1 L2 L3 L4 L5 L6 L7 L8]. constructor; try assumption.
      - intros k c I. rewrite (Keep k c I). eapply L5. exact I.
      - intros i Hi. rewrite Dn in Hi. pose proof (L6 i Hi) as L6'. rewrite S, fget_del_all by exact W.
        rewrite L6'. now destruct (existsb _ _).
      - destruct L7 as (D1 & D2 & D3). unfold dirs_ok.
        rewrite !(has_dir_dirs s (wfs w') _ Dd). split; [exact D1|]. split; [exact D2|].
        intros P h Lh Bh. rewrite (parent_ok_dirs s (wfs w') _ Dd). now apply D3.
      - destruct L8 as [V1 V2]. split; [exact V1|]. destruct (writer (mwal m)) as [[sgm buf]|]; [|exact I].
        destruct V2 as (B1 & B2 & B3 & B4). repeat split; try assumption.
        rewrite Other; [exact B2|discriminate|discriminate].
    Qed.

    (* the clean-up re-establishes exactness (C07), whatever was planted under cas/ and staging/ *)
    Theorem C08_cleanup_restores_C07 : forall w r w',
      wfs w = s -> wfault w = None -> delete_orphans m o w = (r, w') ->
      Clean H (wfs w') sg /\ Live0 m (wfs w') sg /\ FsWf (wfs w').
    Proof using H_len H_byte LV W.
      intros w r w' Ws F E. destruct (C08_cleanup_safe_seq w r w' Ws F E) as (_ & LV' & W').
      split; [|now split].
      destruct (delete_orphans_run m s sg verify L W w Ws F) as (r0 & w0 & E0 & _ & S & _).
      fold o in E0, S. rewrite E in E0. inversion E0; subst r0 w0. clear E0.
      assert (G : forall q, fget (wfs w') q = if existsb (path_eqb q) (cleaned o) then None else fget s q)
        by (intros q; rewrite S; now apply fget_del_all).
      split.
      - intros comps f Gf. rewrite G in Gf.
        destruct (existsb (path_eqb (PCas comps)) (cleaned o)) eqn:X; [discriminate|].
        assert (NI : ~ In (PCas comps) (cleaned o)).
        { intros I. apply existsb_path_iff in I. congruence. }
        destruct (parsed3 (PCas comps, f)) as [h|] eqn:P.
        + apply parsed3_iff in P. destruct P as (c' & E' & L3 & P). inversion E'; subst c'.
          assert (B : blob_entry s comps f) by now split.
          pose proof (parse_canon_canonical comps h P) as Ec.
          destruct (ref_hash_dec H cfg m sg L h) as [(k & c & Ik & Eh)|NR].
          * exists k, c. split; [exact Ik|congruence].
          * exfalso. apply NI. unfold cleaned. apply in_or_app. left.
            apply in_map_iff. exists h. split; [unfold cas_path; congruence|].
            apply (scan_In_orphans H cfg m s sg verify L W). now exists comps, f.
        + exfalso. apply NI. unfold cleaned. apply in_or_app. right. apply in_or_app. left.
          apply (scan_In_invalid H m s verify W). exists comps, f.
          split; [reflexivity|]. split; [exact Gf|]. now apply (parsed3_none_iff comps f).
      - intros i. rewrite G. destruct (existsb (path_eqb (PStaging i)) (cleaned o)) eqn:X; [reflexivity|].
        destruct (fget s (PStaging i)) as [f|] eqn:Gs; [|reflexivity]. exfalso.
        assert (In (PStaging i) (cleaned o)) as I.
        { unfold cleaned. apply in_or_app. right. apply in_or_app. right.
          apply (scan_In_staging H m s verify W). now exists i, f. }
        apply existsb_path_iff in I. congruence.
    Qed.
  End Restores.
End Cleanup.

(* ------------------------------------------------------------------ *)
(* O4'. Finding F5 (repaired): names that decode but are not canonical *)
(* ------------------------------------------------------------------ *)
(* Remark (F5).  parse_path concatenates the last three components and hex-decodes them, and the
   decoder accepts upper-case digits.  Before the repair the scan used parse_path, so a file at
   cas/AB/ab/abab... or at cas/a/bab/abab... was taken for the blob with hash abab... and reported
   as an orphan, while every clean-up entry point unlinks cas_path h = cas/ab/ab/abab..., which
   does not exist: the orphan was skipped for ever and exactness (Clean) was never restored.
   The scan now uses parse_canon (parse_canon_iff: accepted iff the entry sits at hexpath h of a
   well-formed h), so such spellings are INVALID files: reported in o_invalid and removed by
   delete_orphans.  Consequently [canonical_names] is no hypothesis of any theorem above. *)
Definition f5_h : bytes := repeat 171 32.                                 (* hex: abab...ab *)
Definition f5_upper : list bytes := [[65; 66]; [97; 98]; skipn 4 (hex_enc f5_h)].   (* AB/ab/abab... *)
Definition f5_shift : list bytes := [[97]; [98; 97; 98]; skipn 4 (hex_enc f5_h)].   (* a/bab/abab... *)
Definition f5_m : mem := mkMem empty_istate (mkWal 1 None) false.
Definition f5_fs (comps : list bytes) : fs := mkFs [(PCas comps, mkFile [1; 2; 3] 3)] [] 0.

Lemma f5_live0m : Live0m toyH toy_cfg f5_m [].
Proof.
  constructor; [exact I|reflexivity|apply C12_empty|].
  intros a b [].
Qed.

Lemma f5_wf : forall comps, FsWf (f5_fs comps).
Proof. intros comps. repeat constructor. intros []. Qed.

(* the upper-case spelling decodes, is not canonical, is reported as invalid and is removed *)
Example F5_uppercase_orphan_is_never_deleted_fixed :
  let s := f5_fs f5_upper in
  let o := scan_orphans toyH f5_m s false in
  let rw := delete_orphans f5_m o (init_world s None) in
  parse_path f5_upper = Some f5_h /\ parse_canon f5_upper = None /\
  o = mkOstats [] [PCas f5_upper] [] [] [] 0 /\
  fst rw = mkRecovery 0 0 0 1 0 0 /\ files (wfs (snd rw)) = [] /\
  delete_orphan f5_m o f5_h (init_world s None) = (Ok false, init_world s None).
Proof. vm_compute. repeat split. Qed.

Example F5_shifted_slashes_orphan_is_never_deleted_fixed :
  let s := f5_fs f5_shift in
  let o := scan_orphans toyH f5_m s false in
  let rw := delete_orphans f5_m o (init_world s None) in
  parse_path f5_shift = Some f5_h /\ parse_canon f5_shift = None /\
  o = mkOstats [] [PCas f5_shift] [] [] [] 0 /\
  fst rw = mkRecovery 0 0 0 1 0 0 /\ files (wfs (snd rw)) = [].
Proof. vm_compute. repeat split. Qed.

(* the canonical spelling of the same hash is an orphan, and is deleted *)
Example F5_canonical_orphan_is_deleted :
  let s := f5_fs (hexpath f5_h) in
  let o := scan_orphans toyH f5_m s false in
  let rw := delete_orphans f5_m o (init_world s None) in
  o = mkOstats [f5_h] [] [] [] [] 1 /\
  fst rw = mkRecovery 1 0 0 0 0 0 /\ files (wfs (snd rw)) = [].
Proof. vm_compute. repeat split. Qed.

(* these directories are not canonical in the sense the unrepaired scan needed ... *)
Example F5_not_canonical_fixed :
  ~ canonical_names (f5_fs f5_upper) /\ ~ canonical_names (f5_fs f5_shift).
Proof.
  split; intros CN.
  - specialize (CN f5_upper (mkFile [1; 2; 3] 3) f5_h (conj eq_refl eq_refl) eq_refl).
    vm_compute in CN. discriminate.
  - specialize (CN f5_shift (mkFile [1; 2; 3] 3) f5_h (conj eq_refl eq_refl) eq_refl).
    vm_compute in CN. discriminate.
Qed.

(* ... and exactness is restored all the same *)
Example F5_clean_not_restored_fixed :
  let s := f5_fs f5_upper in
  let o := scan_orphans toyH f5_m s false in
  Live0m toyH toy_cfg f5_m [] /\ FsWf s /\
  Clean toyH (wfs (snd (delete_orphans f5_m o (init_world s None)))) [].
Proof.
  cbv zeta. split; [exact f5_live0m|]. split; [apply f5_wf|].
  set (s' := wfs _). vm_compute in s'. subst s'. split.
  - intros comps f G. discriminate G.
  - intros i. reflexivity.
Qed.

(* ------------------------------------------------------------------ *)
(* O7. N4: a computed instance                                         *)
(* ------------------------------------------------------------------ *)
Definition n4_c1 : bytes := [10; 11; 12].
Definition n4_h1 : bytes := toyH n4_c1.                       (* 0303...03, referenced *)
Definition n4_h5 : bytes := repeat 5 32.                      (* 0505...05, not referenced *)
Definition n4_idx : istate := mkIstate [([1], mkItem n4_h1 3)] [(n4_h1, 1)] 0 1 3 0.
Definition n4_m : mem := mkMem n4_idx (mkWal 1 None) false.
Definition n4_sg : smap bytes := [([1], n4_c1)].
Definition n4_bad3 : path := PCas [[48; 51]; [48; 51]; [122; 122]].     (* cas/03/03/zz *)
Definition n4_lvl1 : path := PCas [[120]].                               (* cas/x *)
Definition n4_fs : fs :=
  mkFs [(cas_path n4_h1, mkFile n4_c1 3); (cas_path n4_h5, mkFile [7; 7] 2);
        (n4_bad3, mkFile [] 0); (n4_lvl1, mkFile [9] 0); (PStaging 7, mkFile [1] 0)]
       [[s_staging]; [s_cas]] 8.

Example N4_scan :
  scan_orphans toyH n4_m n4_fs true = mkOstats [n4_h5] [n4_bad3; n4_lvl1] [] [] [PStaging 7] 2.
Proof. vm_compute. reflexivity. Qed.

Example N4_cleanup :
  let rw := delete_orphans n4_m (scan_orphans toyH n4_m n4_fs true) (init_world n4_fs None) in
  fst rw = mkRecovery 1 0 0 2 1 0 /\
  files (wfs (snd rw)) = [(cas_path n4_h1, mkFile n4_c1 3)].
Proof. vm_compute. split; reflexivity. Qed.

(* the same directory with the referenced blob damaged / lost *)
Example N4_scan_corrupted_and_missing :
  let bad := mkFs [(cas_path n4_h1, mkFile [10; 11] 2)] [] 0 in
  o_corrupted (scan_orphans toyH n4_m bad true) = [n4_h1] /\
  o_corrupted (scan_orphans toyH n4_m bad false) = [] /\
  o_missing (scan_orphans toyH n4_m bad true) = [] /\
  o_missing (scan_orphans toyH n4_m empty_fs true) = [n4_h1].
Proof. vm_compute. repeat split. Qed.

(* the instance satisfies the hypotheses of the theorems above *)
Lemma n4_wf : FsWf n4_fs.
Proof.
  unfold FsWf. cbn [n4_fs files paths map fst]. repeat constructor; cbn [In]; intros X;
    repeat (destruct X as [X|X]; [try discriminate X|]); try contradiction;
    vm_compute in X; discriminate X.
Qed.

Lemma n4_hyps : Live0m toyH toy_cfg n4_m n4_sg /\ FsWf n4_fs /\ canonical_names n4_fs.
Proof.
  split; [|split; [exact n4_wf|]].
  - constructor.
    + cbn. auto.
    + reflexivity.
    + destruct (C12_apply_ok (key_cmp (c_kt toy_cfg)) (key_cmp_refl _) (key_cmp_eq _)
                  (key_cmp_antisym _) (key_cmp_trans _) empty_istate (RPut [1] n4_h1 3))
        as (s' & un & E & Inv).
      * apply C12_empty.
      * intros k i [].
      * vm_compute in E. inversion E; subst. exact Inv.
    + intros a b [<-|[]] [<-|[]] _. reflexivity.
  - intros comps f h [G L3] P. apply (fget_in_iff _ _ _ n4_wf) in G.
    cbn [n4_fs files In] in G. unfold cas_path, n4_bad3, n4_lvl1 in G.
    destruct G as [G|[G|[G|[G|[G|[]]]]]]; try discriminate G; injection G as G1 G2; subst comps.
    + vm_compute in P. injection P as <-. vm_compute. reflexivity.
    + vm_compute in P. injection P as <-. vm_compute. reflexivity.
    + vm_compute in P. discriminate P.
    + discriminate L3.
Qed.

Print Assumptions scan_orphans_spec.
Print Assumptions C08_scan_exact.
Print Assumptions scan_orphans_nodup.
Print Assumptions delete_orphans_run.
Print Assumptions delete_orphans_spec.
Print Assumptions C08_cleanup_safe_seq.
Print Assumptions C08_cleanup_restores_C07.
Print Assumptions delete_orphan_run.
Print Assumptions delete_orphan_spec.
Print Assumptions quarantine_orphans_spec.
Print Assumptions delete_orphan_list_rechecks.
Print Assumptions C08_cleanup_rechecks.
Print Assumptions parse_canon_iff.
Print Assumptions F5_uppercase_orphan_is_never_deleted_fixed.
Print Assumptions F5_shifted_slashes_orphan_is_never_deleted_fixed.
Print Assumptions F5_clean_not_restored_fixed.
Print Assumptions N4_scan.
Print Assumptions N4_cleanup.
Print Assumptions n4_hyps.
