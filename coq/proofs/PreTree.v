(* PreTree.v -- the pre-created fan-out tree cas/<hh>/<hh> (pre_create_cas_dirs = true), the part
   that does not depend on the store invariants: PreDirs / WfDirs, and what mkdirs_pre /
   pre_create_all establish in a fault-free world (P0 - P2 of PreCreate.v, moved here so that
   CrashOpen.v -- first-time initialisation interrupted in the middle of the mkdir loop -- can
   use them; PreCreate.v re-exports this file).
     - PreDirs s  := cas/<hex2 i> and cas/<hex2 i>/<hex2 j> exist for all i, j < 256
                     (what pre_create_all establishes and what the stored flag promises);
       WfDirs s   := forall h, length h = 32 -> Forall (< 256) h -> parent_ok s (cas_path h) = true
                     (dirs_ok's third clause; PreDirs -> WfDirs).
   Never evaluate all256 / pre_create_all by computation (65,536 directories). *)
From Cas Require Import History.
From CasProofs Require Import BaseProofs CodecBase CodecProofs SMapProofs IndexProofs RangeProofs
  StoreFS StoreInv StoreWrite WorldRel.
From Coq Require Import ZifyBool ZifyNat ZifyN.
Open Scope N_scope.

Local Opaque all256.

(* ------------------------------------------------------------------ *)
(* P0. hexpath of a list with at least two elements                    *)
(* ------------------------------------------------------------------ *)
Lemma hexpath_cons2 : forall b0 b1 r,
  hexpath (b0 :: b1 :: r) = [hex2 b0; hex2 b1; hex_enc r].
Proof. intros. reflexivity. Qed.

Lemma parent_dir_cas2 : forall b0 b1 r,
  parent_dir (cas_path (b0 :: b1 :: r)) = Some [s_cas; hex2 b0; hex2 b1].
Proof. intros. reflexivity. Qed.

(* Q1 *)
Theorem hex2_covers : forall h, length h = 32%nat -> Forall (fun x => x < 256) h ->
  let i := nth 0 h 0 in let j := nth 1 h 0 in
  i < 256 /\ j < 256 /\
  nth 0 (hexpath h) [] = hex2 i /\ nth 1 (hexpath h) [] = hex2 j /\
  parent_dir (cas_path h) = Some [s_cas; hex2 i; hex2 j].
Proof.
  intros h L B. destruct h as [|b0 [|b1 r]]; try discriminate.
  inversion B as [|? ? B0 B']; subst. inversion B' as [|? ? B1 _]; subst.
  cbn [nth]. rewrite hexpath_cons2. cbn [nth]. repeat split; assumption.
Qed.

(* ------------------------------------------------------------------ *)
(* P1. the directories a well-formed hash needs                        *)
(* ------------------------------------------------------------------ *)
Definition PreDirs (s : fs) : Prop :=
  forall i j, i < 256 -> j < 256 ->
    has_dir s [s_cas; hex2 i] = true /\ has_dir s [s_cas; hex2 i; hex2 j] = true.

Definition WfHash (h : bytes) : Prop := length h = 32%nat /\ Forall (fun x => x < 256) h.

Definition WfDirs (s : fs) : Prop := forall h, WfHash h -> parent_ok s (cas_path h) = true.

Lemma PreDirs_WfDirs : forall s, PreDirs s -> WfDirs s.
Proof.
  intros s P h [L B]. destruct (hex2_covers h L B) as (I & J & _ & _ & E).
  unfold parent_ok. rewrite E. exact (proj2 (P _ _ I J)).
Qed.

(* conversely (every pair of bytes starts some well-formed hash) *)
Lemma WfDirs_PreDirs2 : forall s, WfDirs s ->
  forall i j, i < 256 -> j < 256 -> has_dir s [s_cas; hex2 i; hex2 j] = true.
Proof.
  intros s W i j I J. specialize (W (i :: j :: repeat 0 30)).
  unfold parent_ok in W. rewrite parent_dir_cas2 in W. apply W. split; [reflexivity|].
  constructor; [exact I|]. constructor; [exact J|]. apply Forall_forall. intros x Ix.
  apply repeat_spec in Ix. subst x. reflexivity.
Qed.

Lemma WfDirs_keeps : forall c, call_keeps WfDirs c.
Proof.
  intros c s s' W E h Hh. specialize (W h Hh). unfold parent_ok in *.
  cbn [cas_path parent_dir] in *. exact (has_dir_keeps _ c _ _ W E).
Qed.

Lemma PreDirs_keeps : forall c, call_keeps PreDirs c.
Proof.
  intros c s s' P E i j I J. destruct (P i j I J) as [A B].
  split; [exact (has_dir_keeps _ c _ _ A E)|exact (has_dir_keeps _ c _ _ B E)].
Qed.

(* ------------------------------------------------------------------ *)
(* P2. mkdirs_pre / pre_create_all (Q2)                                *)
(* ------------------------------------------------------------------ *)
Lemma in_all256 : forall i, In i all256 <-> i < 256.
Proof.
  intros i. Local Transparent all256. unfold all256. Local Opaque all256.
  rewrite in_map_iff. split.
  - intros (n & <- & I). apply in_seq in I. lia.
  - intros L. exists (N.to_nat i). split; [apply N2Nat.id|]. apply in_seq. lia.
Qed.

Lemma in_pre_list : forall i j,
  In (i, j) (flat_map (fun i => map (fun j => (i, j)) all256) all256) <-> i < 256 /\ j < 256.
Proof.
  intros i j. rewrite in_flat_map. split.
  - intros (i' & Ii & Ij). apply in_map_iff in Ij. destruct Ij as (j' & E & Ij).
    inversion E; subst. split; now apply in_all256.
  - intros [I J]. exists i. split; [now apply in_all256|]. apply in_map_iff. exists j.
    split; [reflexivity|now apply in_all256].
Qed.

Lemma mkdir_cas2_ok2 : forall a b w, wfault w = None -> has_dir (wfs w) [s_cas] = true ->
  exists w', mkdir_cas2 a b w = (Ok tt, w') /\ Grow w w' /\
             has_dir (wfs w') [s_cas; a] = true /\ has_dir (wfs w') [s_cas; a; b] = true.
Proof.
  intros a b w F Hc. unfold mkdir_cas2.
  destruct (mkdir_p_ok [s_cas; a] w F) as (w1 & E1 & G1 & D1); [right; exact Hc|].
  rewrite (bind_eq _ _ _ _ _ E1).
  destruct (mkdir_p_ok [s_cas; a; b] w1 (proj1 (gr_ext _ _ G1))) as (w2 & E2 & G2 & D2);
    [right; exact D1|].
  exists w2. split; [exact E2|]. split; [eapply grow_trans; eassumption|].
  split; [exact (gr_dirs _ _ G2 _ D1)|exact D2].
Qed.

(* a directory that exists is not created again: no call, same world *)
Lemma mkdir_p_noop : forall d w, has_dir (wfs w) d = true -> mkdir_p d w = (Ok tt, w).
Proof. intros d w Hd. unfold mkdir_p, bind, get_fs. now rewrite Hd. Qed.

Lemma mkdir_cas2_noop : forall a b w,
  has_dir (wfs w) [s_cas; a] = true -> has_dir (wfs w) [s_cas; a; b] = true ->
  mkdir_cas2 a b w = (Ok tt, w).
Proof.
  intros a b w D1 D2. unfold mkdir_cas2. rewrite (bind_eq _ _ _ _ _ (mkdir_p_noop _ _ D1)).
  now apply mkdir_p_noop.
Qed.

(* Q2.  [Grow w w'] says: no fault; the recorded calls are all CMkdir; files and the staging
   counter are unchanged; every directory that existed still exists *)
Theorem mkdirs_pre_ok : forall ds w, wfault w = None -> has_dir (wfs w) [s_cas] = true ->
  exists w', mkdirs_pre ds w = (Ok tt, w') /\ Grow w w' /\
    forall i j, In (i, j) ds ->
      has_dir (wfs w') [s_cas; hex2 i] = true /\ has_dir (wfs w') [s_cas; hex2 i; hex2 j] = true.
Proof.
  induction ds as [|[i j] ds IH]; intros w F Hc.
  - exists w. split; [reflexivity|]. split; [now apply grow_refl|]. intros i j [].
  - cbn [mkdirs_pre].
    destruct (mkdir_cas2_ok2 (hex2 i) (hex2 j) w F Hc) as (w1 & E1 & G1 & D1 & D2).
    rewrite (bind_eq _ _ _ _ _ E1).
    destruct (IH w1 (proj1 (gr_ext _ _ G1)) (gr_dirs _ _ G1 _ Hc)) as (w2 & E2 & G2 & D).
    exists w2. split; [exact E2|]. split; [eapply grow_trans; eassumption|].
    intros i' j' [X|X]; [|now apply D]. inversion X; subst.
    split; [exact (gr_dirs _ _ G2 _ D1)|exact (gr_dirs _ _ G2 _ D2)].
Qed.

Corollary mkdirs_pre_explicit : forall ds w, wfault w = None -> has_dir (wfs w) [s_cas] = true ->
  exists w', mkdirs_pre ds w = (Ok tt, w') /\ wfault w' = None /\
    files (wfs w') = files (wfs w) /\ nstage (wfs w') = nstage (wfs w) /\
    (forall d, has_dir (wfs w) d = true -> has_dir (wfs w') d = true) /\
    (FsWf (wfs w) -> FsWf (wfs w')) /\
    (exists tr, wtrace w' = tr ++ wtrace w /\ Forall cas_safe tr /\
                Forall (fun e => exists d, e = TCall (CMkdir d)) tr) /\
    forall i j, In (i, j) ds ->
      has_dir (wfs w') [s_cas; hex2 i] = true /\ has_dir (wfs w') [s_cas; hex2 i; hex2 j] = true.
Proof.
  intros ds w F Hc. destruct (mkdirs_pre_ok ds w F Hc) as (w' & E & G & D).
  exists w'. split; [exact E|]. destruct G as [(F' & tr & Et & At) Gf Gn Gd].
  split; [exact F'|]. split; [exact Gf|]. split; [exact Gn|]. split; [exact Gd|].
  split; [unfold FsWf; now rewrite Gf|]. split; [|exact D].
  exists tr. split; [exact Et|]. split; [|exact At].
  eapply Forall_impl; [|exact At]. apply mkdir_ev_safe.
Qed.

Theorem pre_create_all_ok : forall w, wfault w = None -> has_dir (wfs w) [s_cas] = true ->
  exists w', pre_create_all w = (Ok tt, w') /\ Grow w w' /\ PreDirs (wfs w').
Proof.
  intros w F Hc. unfold pre_create_all.
  destruct (mkdirs_pre_ok (flat_map (fun i => map (fun j => (i, j)) all256) all256) w F Hc)
    as (w' & E & G & D).
  exists w'. split; [exact E|]. split; [exact G|]. intros i j I J. apply D, in_pre_list. now split.
Qed.

Print Assumptions hex2_covers.
Print Assumptions mkdirs_pre_ok.
Print Assumptions mkdirs_pre_explicit.
Print Assumptions pre_create_all_ok.
