(* BaseProofs.v -- lemmas about theories/Base.v: little-endian integers, checked slicing,
   byte-string equality, the key orders, hex and blob paths. *)
From Cas Require Import Base.
From Coq Require Import ZifyBool ZifyNat ZifyN.
Arguments N.add : simpl never.
Arguments N.sub : simpl never.
Arguments N.mul : simpl never.
Arguments N.div : simpl never.
Arguments N.modulo : simpl never.
Arguments N.eqb : simpl never.
Arguments N.ltb : simpl never.
Arguments N.leb : simpl never.
Arguments N.pow : simpl never.
Ltac Zify.zify_post_hook ::= Z.div_mod_to_equations.
Open Scope N_scope.

(* "well-formed byte list": every element is < 256 *)
Definition wf (bs : bytes) : Prop := Forall (fun b => b < 256) bs.

(* ------------------------------------------------------------------ *)
(* 0. list helpers                                                     *)
(* ------------------------------------------------------------------ *)

Lemma skipn_skipn' {A} (x y : nat) (l : list A) :
  skipn x (skipn y l) = skipn (y + x) l.
Proof.
  revert l; induction y as [|y IH]; intro l; [reflexivity|].
  destruct l as [|a l]; cbn [skipn Nat.add].
  - now rewrite skipn_nil.
  - apply IH.
Qed.

Lemma Forall_firstn' {A} (P : A -> Prop) n (l : list A) :
  Forall P l -> Forall P (firstn n l).
Proof.
  intro H. rewrite <- (firstn_skipn n l) in H. apply Forall_app in H. tauto.
Qed.

Lemma Forall_skipn' {A} (P : A -> Prop) n (l : list A) :
  Forall P l -> Forall P (skipn n l).
Proof.
  intro H. rewrite <- (firstn_skipn n l) in H. apply Forall_app in H. tauto.
Qed.

(* ------------------------------------------------------------------ *)
(* 1-3. little endian                                                  *)
(* ------------------------------------------------------------------ *)

Lemma length_le_enc : forall n v, length (le_enc n v) = n.
Proof.
  induction n as [|n IH]; intro v; cbn [le_enc length]; [reflexivity|].
  now rewrite IH.
Qed.

Lemma le_enc_lt256 : forall n v, Forall (fun b => b < 256) (le_enc n v).
Proof.
  induction n as [|n IH]; intro v; cbn [le_enc]; constructor.
  - apply N.mod_lt. discriminate.
  - apply IH.
Qed.

Lemma pow256_succ : forall n : nat, 256 ^ N.of_nat (S n) = 256 * 256 ^ N.of_nat n.
Proof. intro n. rewrite Nat2N.inj_succ. apply N.pow_succ_r'. Qed.

Lemma pow256_nz : forall n : N, 256 ^ n <> 0.
Proof. intro n. apply N.pow_nonzero. discriminate. Qed.

Lemma le_dec_le_enc : forall n v, le_dec (le_enc n v) = v mod 256 ^ N.of_nat n.
Proof.
  induction n as [|n IH]; intro v; cbn [le_enc le_dec].
  - change (N.of_nat 0) with 0. rewrite N.pow_0_r. now rewrite N.mod_1_r.
  - rewrite IH, pow256_succ.
    rewrite N.mod_mul_r; [reflexivity | discriminate | apply pow256_nz].
Qed.

Corollary le_dec_le_enc_small : forall n v,
  v < 256 ^ N.of_nat n -> le_dec (le_enc n v) = v.
Proof. intros n v H. rewrite le_dec_le_enc. now apply N.mod_small. Qed.

Corollary le_dec_u32 : forall v, v < 2 ^ 32 -> le_dec (u32 v) = v.
Proof. intros v H. unfold u32. apply le_dec_le_enc_small. exact H. Qed.

Corollary le_dec_u64 : forall v, v < 2 ^ 64 -> le_dec (u64 v) = v.
Proof. intros v H. unfold u64. apply le_dec_le_enc_small. exact H. Qed.

Lemma length_u32 : forall v, length (u32 v) = 4%nat.
Proof. intro v. apply length_le_enc. Qed.

Lemma length_u64 : forall v, length (u64 v) = 8%nat.
Proof. intro v. apply length_le_enc. Qed.

Lemma le_enc_le_dec : forall bs : bytes,
  Forall (fun b => b < 256) bs -> le_enc (length bs) (le_dec bs) = bs.
Proof.
  induction bs as [|b r IH]; intro H; cbn [length le_enc le_dec]; [reflexivity|].
  inversion H as [|b' r' Hb Hr]; subst.
  assert (E1 : (b + 256 * le_dec r) mod 256 = b) by lia.
  assert (E2 : (b + 256 * le_dec r) / 256 = le_dec r) by lia.
  rewrite E1, E2, IH by assumption. reflexivity.
Qed.

Lemma le_dec_bound : forall bs : bytes,
  Forall (fun b => b < 256) bs -> le_dec bs < 256 ^ N.of_nat (length bs).
Proof.
  induction bs as [|b r IH]; intro H; cbn [length le_dec].
  - change (N.of_nat 0) with 0. rewrite N.pow_0_r. lia.
  - inversion H as [|b' r' Hb Hr]; subst. specialize (IH Hr).
    rewrite pow256_succ. set (P := 256 ^ N.of_nat (length r)) in *. lia.
Qed.

Lemma le_dec_inj : forall a b : bytes,
  length a = length b ->
  Forall (fun x => x < 256) a -> Forall (fun x => x < 256) b ->
  le_dec a = le_dec b -> a = b.
Proof.
  intros a b Hl Ha Hb E.
  rewrite <- (le_enc_le_dec a Ha), <- (le_enc_le_dec b Hb), Hl, E. reflexivity.
Qed.

(* ------------------------------------------------------------------ *)
(* 4. take / takeN                                                     *)
(* ------------------------------------------------------------------ *)

Lemma take_app : forall n (a b : bytes), length a = n -> take n (a ++ b) = Some (a, b).
Proof.
  intros n a b H. subst n. unfold take.
  assert (L : Nat.leb (length a) (length (a ++ b)) = true).
  { apply Nat.leb_le. rewrite app_length. lia. }
  rewrite L, firstn_app, skipn_app, firstn_all, skipn_all, Nat.sub_diag.
  cbn [firstn skipn app]. now rewrite app_nil_r.
Qed.

Lemma take_some_inv : forall n bs h r,
  take n bs = Some (h, r) -> bs = h ++ r /\ length h = n.
Proof.
  intros n bs h r H. unfold take in H.
  destruct (Nat.leb n (length bs)) eqn:L; [|discriminate].
  apply Nat.leb_le in L. inversion H; subst. split.
  - symmetry. apply firstn_skipn.
  - now apply firstn_length_le.
Qed.

Lemma take_none_iff : forall n bs, take n bs = None <-> (length bs < n)%nat.
Proof.
  intros n bs. unfold take. destruct (Nat.leb n (length bs)) eqn:L.
  - apply Nat.leb_le in L. split; [discriminate | lia].
  - apply Nat.leb_gt in L. tauto.
Qed.

Lemma takeN_take : forall n bs,
  (n <= len bs -> takeN n bs = take (N.to_nat n) bs) /\
  (len bs < n -> takeN n bs = None).
Proof.
  intros n bs. unfold takeN, len. split; intro H.
  - assert (E : (n <=? N.of_nat (length bs)) = true) by lia. now rewrite E.
  - assert (E : (n <=? N.of_nat (length bs)) = false) by lia. now rewrite E.
Qed.

Lemma takeN_app : forall n (a b : bytes), len a = n -> takeN n (a ++ b) = Some (a, b).
Proof.
  intros n a b H. unfold len in H.
  destruct (takeN_take n (a ++ b)) as [T _]. rewrite T.
  - apply take_app. lia.
  - unfold len. rewrite app_length. lia.
Qed.

Lemma takeN_some_inv : forall n bs h r,
  takeN n bs = Some (h, r) -> bs = h ++ r /\ len h = n.
Proof.
  intros n bs h r H. unfold takeN in H.
  destruct (n <=? N.of_nat (length bs)) eqn:L; [|discriminate].
  apply take_some_inv in H. destruct H as [H1 H2]. split; [exact H1|].
  unfold len. lia.
Qed.

(* ------------------------------------------------------------------ *)
(* 5. beqb                                                             *)
(* ------------------------------------------------------------------ *)

Lemma beqb_true_iff : forall a b, beqb a b = true <-> a = b.
Proof.
  induction a as [|x a IH]; destruct b as [|y b]; cbn [beqb];
    try (split; [discriminate | discriminate]); [tauto|].
  rewrite andb_true_iff, N.eqb_eq, IH. split.
  - intros [E1 E2]. now subst.
  - intro E. inversion E. auto.
Qed.

Lemma beqb_refl : forall a, beqb a a = true.
Proof. intro a. now apply beqb_true_iff. Qed.

Lemma beqb_false_iff : forall a b, beqb a b = false <-> a <> b.
Proof.
  intros a b. rewrite <- beqb_true_iff. destruct (beqb a b); split; congruence.
Qed.

(* ------------------------------------------------------------------ *)
(* 6. lex_cmp is a strict total order on all byte lists                *)
(* ------------------------------------------------------------------ *)

Lemma lex_cmp_refl : forall a, lex_cmp a a = Eq.
Proof.
  induction a as [|x a IH]; cbn [lex_cmp]; [reflexivity|].
  now rewrite N.compare_refl.
Qed.

Lemma lex_cmp_eq : forall a b, lex_cmp a b = Eq -> a = b.
Proof.
  induction a as [|x a IH]; destruct b as [|y b]; cbn [lex_cmp]; intro H;
    try discriminate; [reflexivity|].
  destruct (N.compare_spec x y) as [E|E|E]; try discriminate.
  subst. f_equal. now apply IH.
Qed.

Lemma lex_cmp_antisym : forall a b, lex_cmp b a = CompOpp (lex_cmp a b).
Proof.
  induction a as [|x a IH]; destruct b as [|y b]; cbn [lex_cmp]; try reflexivity.
  rewrite (N.compare_antisym x y). destruct (x ?= y); cbn [CompOpp]; auto.
Qed.

Lemma lex_cmp_trans : forall a b c,
  lex_cmp a b = Lt -> lex_cmp b c = Lt -> lex_cmp a c = Lt.
Proof.
  induction a as [|x a IH]; destruct b as [|y b]; destruct c as [|z c];
    cbn [lex_cmp]; intros H1 H2; try discriminate; try reflexivity.
  destruct (N.compare_spec x y) as [E1|E1|E1]; try discriminate;
  destruct (N.compare_spec y z) as [E2|E2|E2]; try discriminate;
  destruct (N.compare_spec x z) as [E3|E3|E3]; try reflexivity; try lia.
  eapply IH; eassumption.
Qed.

Lemma lex_cmp_gt_lt : forall a b, lex_cmp a b = Gt <-> lex_cmp b a = Lt.
Proof.
  intros a b. rewrite (lex_cmp_antisym a b).
  destruct (lex_cmp a b); cbn [CompOpp]; split; congruence.
Qed.

(* ------------------------------------------------------------------ *)
(* 7. by_num f, key_cmp t                                              *)
(* ------------------------------------------------------------------ *)

Section ByNum.
  Variable f : bytes -> Z.

  Lemma by_num_refl : forall a, by_num f a a = Eq.
  Proof. intro a. unfold by_num. rewrite Z.compare_refl. apply lex_cmp_refl. Qed.

  Lemma by_num_eq : forall a b, by_num f a b = Eq -> a = b.
  Proof.
    intros a b. unfold by_num.
    destruct (f a ?= f b)%Z; try discriminate. apply lex_cmp_eq.
  Qed.

  Lemma by_num_antisym : forall a b, by_num f b a = CompOpp (by_num f a b).
  Proof.
    intros a b. unfold by_num. rewrite (Z.compare_antisym (f a) (f b)).
    destruct (f a ?= f b)%Z; cbn [CompOpp]; auto. apply lex_cmp_antisym.
  Qed.

  Lemma by_num_trans : forall a b c,
    by_num f a b = Lt -> by_num f b c = Lt -> by_num f a c = Lt.
  Proof.
    intros a b c. unfold by_num.
    destruct (Z.compare_spec (f a) (f b)) as [E1|E1|E1]; try discriminate;
    destruct (Z.compare_spec (f b) (f c)) as [E2|E2|E2]; try discriminate;
    destruct (Z.compare_spec (f a) (f c)) as [E3|E3|E3]; intros H1 H2;
      try reflexivity; try lia.
    eapply lex_cmp_trans; eassumption.
  Qed.
End ByNum.

Lemma key_cmp_refl : forall t a, key_cmp t a a = Eq.
Proof. destruct t; intro a; cbn [key_cmp]; auto using lex_cmp_refl, by_num_refl. Qed.

Lemma key_cmp_eq : forall t a b, key_cmp t a b = Eq -> a = b.
Proof. destruct t; intros a b; cbn [key_cmp]; first [apply lex_cmp_eq | apply by_num_eq]. Qed.

Lemma key_cmp_antisym : forall t a b, key_cmp t b a = CompOpp (key_cmp t a b).
Proof.
  destruct t; intros a b; cbn [key_cmp]; auto using lex_cmp_antisym, by_num_antisym.
Qed.

Lemma key_cmp_trans : forall t a b c,
  key_cmp t a b = Lt -> key_cmp t b c = Lt -> key_cmp t a c = Lt.
Proof.
  destruct t; intros a b c; cbn [key_cmp]; first [apply lex_cmp_trans | apply by_num_trans].
Qed.

Lemma key_cmp_eq_iff : forall t a b, key_cmp t a b = Eq <-> a = b.
Proof.
  intros t a b. split; [apply key_cmp_eq|]. intro E; subst. apply key_cmp_refl.
Qed.

Lemma key_cmp_gt_lt : forall t a b, key_cmp t a b = Gt <-> key_cmp t b a = Lt.
Proof.
  intros t a b. rewrite (key_cmp_antisym t a b).
  destruct (key_cmp t a b); cbn [CompOpp]; split; congruence.
Qed.

(* ------------------------------------------------------------------ *)
(* 8. numeric agreement                                                *)
(* ------------------------------------------------------------------ *)

Lemma key_cmp_uns_numeric : forall n (a b : bytes),
  length a = n -> length b = n ->
  Forall (fun x => x < 256) a -> Forall (fun x => x < 256) b ->
  key_cmp (KUns n) a b = N.compare (le_dec a) (le_dec b).
Proof.
  intros n a b La Lb Ha Hb. cbn [key_cmp]. unfold by_num, unsigned_of.
  rewrite N2Z.inj_compare.
  destruct (N.compare_spec (le_dec a) (le_dec b)) as [E|E|E]; try reflexivity.
  assert (a = b) by (apply le_dec_inj; congruence). subst. apply lex_cmp_refl.
Qed.

(* signed_of is injective on well-formed byte lists of equal length *)
Lemma signed_of_inj : forall a b : bytes,
  length a = length b ->
  Forall (fun x => x < 256) a -> Forall (fun x => x < 256) b ->
  signed_of a = signed_of b -> a = b.
Proof.
  intros a b Hl Ha Hb E. apply le_dec_inj; try assumption.
  pose proof (le_dec_bound a Ha) as Ba. pose proof (le_dec_bound b Hb) as Bb.
  unfold signed_of in E. cbv zeta in E. rewrite <- Hl in E, Bb.
  assert (W : (256 ^ Z.of_nat (length a))%Z = Z.of_N (256 ^ N.of_nat (length a))).
  { rewrite N2Z.inj_pow. f_equal. lia. }
  rewrite W in E. clear W.
  set (w := 256 ^ N.of_nat (length a)) in *.
  set (va := le_dec a) in *. set (vb := le_dec b) in *.
  destruct (Z.leb_spec (Z.of_N w / 2) (Z.of_N va));
  destruct (Z.leb_spec (Z.of_N w / 2) (Z.of_N vb)); lia.
Qed.

(* the signed little-endian (two's complement) numeric order on well-formed keys *)
Lemma key_cmp_sig_numeric : forall n (a b : bytes),
  length a = n -> length b = n ->
  Forall (fun x => x < 256) a -> Forall (fun x => x < 256) b ->
  key_cmp (KSig n) a b = Z.compare (signed_of a) (signed_of b).
Proof.
  intros n a b La Lb Ha Hb. cbn [key_cmp]. unfold by_num.
  destruct (Z.compare_spec (signed_of a) (signed_of b)) as [E|E|E]; try reflexivity.
  assert (a = b) by (apply signed_of_inj; congruence). subst. apply lex_cmp_refl.
Qed.

(* ------------------------------------------------------------------ *)
(* 9. hex                                                              *)
(* ------------------------------------------------------------------ *)

(* a lower-case hex character: '0'..'9' or 'a'..'f' *)
Definition is_hexchar (c : byte) : Prop := (48 <= c <= 57) \/ (97 <= c <= 102).

Lemma hexdigit_is_hexchar : forall d, d < 16 -> is_hexchar (hexdigit d).
Proof.
  intros d H. unfold is_hexchar, hexdigit. destruct (N.ltb_spec d 10); lia.
Qed.

Lemma unhexdigit_hexdigit : forall d, d < 16 -> unhexdigit (hexdigit d) = Some d.
Proof.
  intros d H. unfold hexdigit, unhexdigit. destruct (N.ltb_spec d 10) as [L|L].
  - assert (E : (48 <=? 48 + d) && (48 + d <=? 57) = true) by lia.
    rewrite E. f_equal. lia.
  - assert (E1 : (48 <=? 87 + d) && (87 + d <=? 57) = false) by lia.
    assert (E2 : (97 <=? 87 + d) && (87 + d <=? 102) = true) by lia.
    rewrite E1, E2. f_equal. lia.
Qed.

Lemma hexdigit_unhexdigit_lower : forall c d,
  is_hexchar c -> unhexdigit c = Some d -> d < 16 /\ hexdigit d = c.
Proof.
  intros c d Hc. unfold unhexdigit, hexdigit.
  destruct ((48 <=? c) && (c <=? 57)) eqn:E1.
  - intro E; inversion E; subst. split; [lia|].
    destruct (N.ltb_spec (c - 48) 10); lia.
  - destruct ((97 <=? c) && (c <=? 102)) eqn:E2.
    + intro E; inversion E; subst. split; [lia|].
      destruct (N.ltb_spec (c - 87) 10); lia.
    + unfold is_hexchar in Hc. lia.
Qed.

Lemma hex_dec_pairs_hex_enc : forall h : bytes,
  Forall (fun b => b < 256) h -> hex_dec_pairs (hex_enc h) = Some h.
Proof.
  induction h as [|b r IH]; intro H; cbn [hex_enc hex_dec_pairs]; [reflexivity|].
  inversion H as [|b' r' Hb Hr]; subst.
  rewrite !unhexdigit_hexdigit, IH by (assumption || lia).
  f_equal. f_equal. lia.
Qed.

Lemma length_hex_enc : forall h : bytes, length (hex_enc h) = (2 * length h)%nat.
Proof.
  induction h as [|b r IH]; cbn [hex_enc length]; [reflexivity|]. rewrite IH. lia.
Qed.

Lemma hex_dec_hex_enc : forall h : bytes,
  Forall (fun b => b < 256) h -> hex_dec (length h) (hex_enc h) = Some h.
Proof.
  intros h H. unfold hex_dec. rewrite length_hex_enc, Nat.eqb_refl.
  now apply hex_dec_pairs_hex_enc.
Qed.

Lemma hex_enc_is_hexchar : forall h : bytes,
  Forall (fun b => b < 256) h -> Forall is_hexchar (hex_enc h).
Proof.
  induction h as [|b r IH]; intro H; cbn [hex_enc]; [constructor|].
  inversion H as [|b' r' Hb Hr]; subst.
  constructor; [|constructor]; try (apply hexdigit_is_hexchar; lia). now apply IH.
Qed.

Lemma hex_enc_inj : forall h1 h2 : bytes,
  Forall (fun b => b < 256) h1 -> Forall (fun b => b < 256) h2 ->
  hex_enc h1 = hex_enc h2 -> h1 = h2.
Proof.
  intros h1 h2 H1 H2 E.
  apply hex_dec_pairs_hex_enc in H1. apply hex_dec_pairs_hex_enc in H2. congruence.
Qed.

(* ------------------------------------------------------------------ *)
(* 10. blob paths                                                      *)
(* ------------------------------------------------------------------ *)

Lemma hexpath_concat : forall h : bytes,
  let x := hex_enc h in
  firstn 2 x ++ firstn 2 (skipn 2 x) ++ skipn 4 x = x.
Proof.
  intros h x.
  change 4%nat with (2 + 2)%nat. rewrite <- (skipn_skipn' 2 2 x).
  now rewrite !firstn_skipn.
Qed.

Lemma hexpath_shape : forall h : bytes,
  length h = 32%nat -> Forall (fun b => b < 256) h ->
  exists a b c,
    hexpath h = [a; b; c] /\
    length a = 2%nat /\ length b = 2%nat /\ length c = 60%nat /\
    Forall is_hexchar a /\ Forall is_hexchar b /\ Forall is_hexchar c.
Proof.
  intros h L H. unfold hexpath. cbv zeta.
  pose proof (length_hex_enc h) as Lx. rewrite L in Lx.
  pose proof (hex_enc_is_hexchar h H) as Hx.
  set (x := hex_enc h) in *.
  exists (firstn 2 x), (firstn 2 (skipn 2 x)), (skipn 4 x).
  split; [reflexivity|].
  repeat split.
  - rewrite firstn_length. lia.
  - rewrite firstn_length, skipn_length. lia.
  - rewrite skipn_length. lia.
  - now apply Forall_firstn'.
  - now apply Forall_firstn', Forall_skipn'.
  - now apply Forall_skipn'.
Qed.

Lemma parse_hexpath : forall (pre : list bytes) (h : bytes),
  length h = 32%nat -> Forall (fun b => b < 256) h ->
  parse_path (pre ++ hexpath h) = Some h.
Proof.
  intros pre h L H. unfold parse_path, hexpath. cbv zeta.
  rewrite rev_app_distr. cbn [rev app].
  rewrite hexpath_concat. rewrite <- L. now apply hex_dec_hex_enc.
Qed.

Lemma hexpath_inj : forall h1 h2 : bytes,
  length h1 = 32%nat -> Forall (fun b => b < 256) h1 ->
  length h2 = 32%nat -> Forall (fun b => b < 256) h2 ->
  hexpath h1 = hexpath h2 -> h1 = h2.
Proof.
  intros h1 h2 L1 H1 L2 H2 E.
  pose proof (parse_hexpath [] h1 L1 H1) as P1.
  pose proof (parse_hexpath [] h2 L2 H2) as P2.
  cbn [app] in P1, P2. rewrite E in P1. congruence.
Qed.

Print Assumptions length_le_enc.
Print Assumptions le_enc_lt256.
Print Assumptions le_dec_le_enc.
Print Assumptions le_dec_u32.
Print Assumptions le_dec_u64.
Print Assumptions le_enc_le_dec.
Print Assumptions le_dec_bound.
Print Assumptions le_dec_inj.
Print Assumptions take_app.
Print Assumptions take_some_inv.
Print Assumptions takeN_take.
Print Assumptions takeN_app.
Print Assumptions beqb_true_iff.
Print Assumptions lex_cmp_refl.
Print Assumptions lex_cmp_eq.
Print Assumptions lex_cmp_antisym.
Print Assumptions lex_cmp_trans.
Print Assumptions by_num_trans.
Print Assumptions key_cmp_refl.
Print Assumptions key_cmp_eq.
Print Assumptions key_cmp_antisym.
Print Assumptions key_cmp_trans.
Print Assumptions key_cmp_uns_numeric.
Print Assumptions key_cmp_sig_numeric.
Print Assumptions unhexdigit_hexdigit.
Print Assumptions hex_dec_pairs_hex_enc.
Print Assumptions length_hex_enc.
Print Assumptions hex_dec_hex_enc.
Print Assumptions hexpath_shape.
Print Assumptions parse_hexpath.
Print Assumptions hexpath_inj.
