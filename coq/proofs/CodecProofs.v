(* CodecProofs.v -- properties of theories/Codec.v:
   B1/B2 decoder-after-encoder round trips, B3 from_raw, B4 allocation bound,
   B5 fuel independence, B6 record framing, B7 damage detection, B8 examples. *)
From Coq Require Import List NArith ZArith Bool Lia ZifyBool ZifyNat ZifyN.
From Cas Require Import Base Codec.
From CasProofs Require Import CodecBase.
Import ListNotations.
Open Scope N_scope.

Arguments N.add : simpl never.
Arguments N.sub : simpl never.
Arguments N.mul : simpl never.
Arguments N.div : simpl never.
Arguments N.modulo : simpl never.
Arguments N.eqb : simpl never.
Arguments N.ltb : simpl never.
Arguments N.leb : simpl never.
Arguments N.pow : simpl never.

(* [2^32] and [2^64] as numerals, so that [lia] can use the bounds *)
Ltac pow_consts :=
  change (2 ^ 32) with 4294967296 in *;
  change (2 ^ 64) with 18446744073709551616 in *.

(* ------------------------------------------------------------------ *)
(** * Well-formedness predicates *)

Definition key_fits (k : bytes) : Prop := len k < 2 ^ 32.
Definition hash_ok (h : bytes) : Prop := length h = 32%nat.
Definition op_fits (o : rawop) : Prop :=
  match o with
  | RPut k h sz => key_fits k /\ hash_ok h /\ sz < 2 ^ 64
  | RRemove ks => N.of_nat (length ks) < 2 ^ 32 /\ Forall key_fits ks
  end.
Definition entry_fits (e : entry) : Prop :=
  key_fits (fst e) /\ hash_ok (ihash (snd e)) /\ isize (snd e) < 2 ^ 64.

Lemma key_fits_small (k : bytes) : (length k < 1000)%nat -> key_fits k.
Proof. unfold key_fits, len. pow_consts. lia. Qed.

Example key_fits_ex : key_fits [1; 2; 3].
Proof. apply key_fits_small. cbn. lia. Qed.
Example hash_ok_ex : hash_ok (repeat 7 32).
Proof. reflexivity. Qed.
Example op_fits_put_ex : op_fits (RPut [1; 2; 3] (repeat 7 32) 12345).
Proof.
  cbn [op_fits]. split; [apply key_fits_ex|]. split; [apply hash_ok_ex|]. pow_consts. lia.
Qed.
Example op_fits_remove_ex : op_fits (RRemove [[1; 2; 3]; []; [255]]).
Proof.
  cbn [op_fits length]. split; [pow_consts; lia|].
  repeat constructor; apply key_fits_small; cbn; lia.
Qed.
Example entry_fits_ex : entry_fits ([104; 105], mkItem (repeat 0 32) 42).
Proof.
  unfold entry_fits. cbn [fst snd ihash isize].
  split; [apply key_fits_small; cbn; lia|]. split; [reflexivity|]. pow_consts. lia.
Qed.

(* ------------------------------------------------------------------ *)
(** * Readers applied to encoder output *)

Lemma read_fixed_app (n : nat) (a b : bytes) :
  length a = n -> read_fixed n (a ++ b) = Ok (a, b).
Proof. intro Hl. unfold read_fixed. now rewrite take_app. Qed.

Lemma read_u32_app v tl : v < 2 ^ 32 -> read_u32 (u32 v ++ tl) = Ok (v, tl).
Proof.
  intro Hv. unfold read_u32. rewrite read_fixed_app by apply u32_length.
  cbn [rbind]. now rewrite le_dec_u32.
Qed.

Lemma read_u64_app v tl : v < 2 ^ 64 -> read_u64 (u64 v ++ tl) = Ok (v, tl).
Proof.
  intro Hv. unfold read_u64. rewrite read_fixed_app by apply u64_length.
  cbn [rbind]. now rewrite le_dec_u64.
Qed.

Lemma read_bwl_app k tl : key_fits k -> read_bytes_with_len (enc_key k ++ tl) = Ok (k, tl).
Proof.
  intro Hk. unfold enc_key, read_bytes_with_len. rewrite <- app_assoc.
  rewrite read_u32_app by exact Hk. cbn [rbind]. now rewrite takeN_app.
Qed.

(* ------------------------------------------------------------------ *)
(** * Inversion of successful reads (lengths) *)

Lemma read_fixed_ok n bs h r : read_fixed n bs = Ok (h, r) -> bs = h ++ r /\ length h = n.
Proof.
  unfold read_fixed. destruct (take n bs) as [[a b]|] eqn:E; [|discriminate].
  intro Hq. inversion Hq; subst. now apply take_some.
Qed.

Lemma read_u32_ok bs v r : read_u32 bs = Ok (v, r) -> length bs = (4 + length r)%nat.
Proof.
  unfold read_u32. destruct (read_fixed 4 bs) as [[h t]|] eqn:E; cbn [rbind]; [|discriminate].
  intro Hq. inversion Hq; subst. apply read_fixed_ok in E. destruct E as [-> Hl].
  rewrite app_length. lia.
Qed.

Lemma read_u64_ok bs v r : read_u64 bs = Ok (v, r) -> length bs = (8 + length r)%nat.
Proof.
  unfold read_u64. destruct (read_fixed 8 bs) as [[h t]|] eqn:E; cbn [rbind]; [|discriminate].
  intro Hq. inversion Hq; subst. apply read_fixed_ok in E. destruct E as [-> Hl].
  rewrite app_length. lia.
Qed.

Lemma read_bwl_ok bs k r :
  read_bytes_with_len bs = Ok (k, r) -> length bs = (4 + length k + length r)%nat.
Proof.
  unfold read_bytes_with_len.
  destruct (read_u32 bs) as [[n t]|] eqn:E; cbn [rbind]; [|discriminate].
  destruct (takeN n t) as [[a b]|] eqn:E2; [|discriminate].
  intro Hq. inversion Hq; subst. apply read_u32_ok in E. apply takeN_some in E2.
  destruct E2 as [-> _]. rewrite E, app_length. lia.
Qed.

(* ------------------------------------------------------------------ *)
(** * B5: fuel independence *)

Lemma read_keys_fuel f1 : forall f2 cnt bs,
  (length bs < f1)%nat -> (length bs < f2)%nat -> read_keys f1 cnt bs = read_keys f2 cnt bs.
Proof.
  induction f1 as [|f1 IH]; intros f2 cnt bs H1 H2; [lia|].
  destruct f2 as [|f2]; [lia|]. cbn [read_keys].
  destruct (cnt =? 0); [reflexivity|].
  destruct (read_bytes_with_len bs) as [[k r]|e] eqn:E; cbn [rbind]; [|reflexivity].
  apply read_bwl_ok in E. rewrite (IH f2 (cnt - 1) r) by lia. reflexivity.
Qed.

Lemma read_entries_fuel f1 : forall f2 cnt bs,
  (length bs < f1)%nat -> (length bs < f2)%nat -> read_entries f1 cnt bs = read_entries f2 cnt bs.
Proof.
  induction f1 as [|f1 IH]; intros f2 cnt bs H1 H2; [lia|].
  destruct f2 as [|f2]; [lia|]. cbn [read_entries].
  destruct (cnt =? 0); [reflexivity|].
  destruct (read_bytes_with_len bs) as [[k r]|e] eqn:E; cbn [rbind]; [|reflexivity].
  destruct (read_fixed 32 r) as [[h r1]|e] eqn:E1; cbn [rbind]; [|reflexivity].
  destruct (read_u64 r1) as [[sz r2]|e] eqn:E2; cbn [rbind]; [|reflexivity].
  apply read_bwl_ok in E. apply read_fixed_ok in E1. destruct E1 as [-> Hh].
  apply read_u64_ok in E2. rewrite app_length in E.
  rewrite (IH f2 (cnt - 1) r2) by lia. reflexivity.
Qed.

(* a successful run stays successful (with the same result) under any larger fuel; this
   one does not need the fuel to exceed the input length *)
Lemma read_keys_fuel_mono f : forall f' cnt bs x,
  read_keys f cnt bs = Ok x -> (f <= f')%nat -> read_keys f' cnt bs = Ok x.
Proof.
  induction f as [|f IH]; intros f' cnt bs x Hr Hle.
  - destruct f'; cbn [read_keys] in *; destruct (cnt =? 0); try discriminate; exact Hr.
  - destruct f' as [|f']; [lia|]. cbn [read_keys] in *.
    destruct (cnt =? 0); [exact Hr|].
    destruct (read_bytes_with_len bs) as [[k r]|e]; cbn [rbind] in *; [|discriminate].
    destruct (read_keys f (cnt - 1) r) as [[ks r']|e] eqn:E; cbn [rbind] in *; [|discriminate].
    rewrite (IH f' _ _ _ E) by lia. exact Hr.
Qed.

Lemma read_entries_fuel_mono f : forall f' cnt bs x,
  read_entries f cnt bs = Ok x -> (f <= f')%nat -> read_entries f' cnt bs = Ok x.
Proof.
  induction f as [|f IH]; intros f' cnt bs x Hr Hle.
  - destruct f'; cbn [read_entries] in *; destruct (cnt =? 0); try discriminate; exact Hr.
  - destruct f' as [|f']; [lia|]. cbn [read_entries] in *.
    destruct (cnt =? 0); [exact Hr|].
    destruct (read_bytes_with_len bs) as [[k r]|e]; cbn [rbind] in *; [|discriminate].
    destruct (read_fixed 32 r) as [[h r1]|e]; cbn [rbind] in *; [|discriminate].
    destruct (read_u64 r1) as [[sz r2]|e]; cbn [rbind] in *; [|discriminate].
    destruct (read_entries f (cnt - 1) r2) as [[es r']|e] eqn:E; cbn [rbind] in *; [|discriminate].
    rewrite (IH f' _ _ _ E) by lia. exact Hr.
Qed.

(* ------------------------------------------------------------------ *)
(** * B1: dec_op after enc_op *)

Lemma enc_key_length k : length (enc_key k) = (4 + length k)%nat.
Proof. unfold enc_key. now rewrite app_length, u32_length. Qed.

Lemma flat_map_enc_key_length ks : (4 * length ks <= length (flat_map enc_key ks))%nat.
Proof.
  induction ks as [|k ks IH]; cbn [flat_map length]; [lia|].
  rewrite app_length, enc_key_length. lia.
Qed.

Lemma read_keys_enc ks : forall f tl,
  Forall key_fits ks -> (length ks <= f)%nat ->
  read_keys f (N.of_nat (length ks)) (flat_map enc_key ks ++ tl) = Ok (ks, tl).
Proof.
  induction ks as [|k ks IH]; intros f tl Hf Hle.
  - destruct f; reflexivity.
  - cbn [length] in Hle. destruct f as [|f]; [lia|].
    inversion Hf as [|? ? Hk Hks]; subst.
    cbn [read_keys flat_map length].
    replace (N.of_nat (S (length ks)) =? 0) with false by (symmetry; apply N.eqb_neq; lia).
    rewrite <- app_assoc, read_bwl_app by exact Hk. cbn [rbind].
    replace (N.of_nat (S (length ks)) - 1) with (N.of_nat (length ks)) by lia.
    rewrite IH by (auto; lia). reflexivity.
Qed.

Theorem dec_enc_op o tl : op_fits o -> dec_op (enc_op o ++ tl) = Ok o.
Proof.
  destruct o as [k h sz | ks]; cbn [op_fits enc_op]; unfold dec_op.
  - intros (Hk & Hh & Hsz). rewrite <- app_comm_cons. cbn [read_u8 rbind].
    change (0 =? 0) with true. cbv iota.
    rewrite <- !app_assoc.
    rewrite read_bwl_app by exact Hk. cbn [rbind].
    rewrite read_fixed_app by exact Hh. cbn [rbind].
    rewrite read_u64_app by exact Hsz. reflexivity.
  - intros (Hn & Hks). rewrite <- app_comm_cons. cbn [read_u8 rbind].
    change (1 =? 0) with false. change (1 =? 1) with true. cbv iota.
    rewrite <- !app_assoc.
    rewrite read_u32_app by exact Hn. cbn [rbind].
    rewrite read_keys_enc; [reflexivity | exact Hks |].
    rewrite app_length. pose proof (flat_map_enc_key_length ks). lia.
Qed.

Corollary dec_enc_op_nil o : op_fits o -> dec_op (enc_op o) = Ok o.
Proof. intro Hf. rewrite <- (app_nil_r (enc_op o)). now apply dec_enc_op. Qed.

Lemma enc_op_nonempty o : 0 < len (enc_op o).
Proof. destruct o; cbn [enc_op]; unfold len; cbn [length]; lia. Qed.

(* ------------------------------------------------------------------ *)
(** * B2: dec_snapshot after enc_snapshot *)

Lemma enc_entry_length e : (4 <= length (enc_entry e))%nat.
Proof. unfold enc_entry. rewrite app_length, enc_key_length. lia. Qed.

Lemma flat_map_enc_entry_length es : (4 * length es <= length (flat_map enc_entry es))%nat.
Proof.
  induction es as [|e es IH]; cbn [flat_map length]; [lia|].
  rewrite app_length. pose proof (enc_entry_length e). lia.
Qed.

Lemma read_entries_enc es : forall f tl,
  Forall entry_fits es -> (length es <= f)%nat ->
  read_entries f (N.of_nat (length es)) (flat_map enc_entry es ++ tl) = Ok (es, tl).
Proof.
  induction es as [|e es IH]; intros f tl Hf Hle.
  - destruct f; reflexivity.
  - cbn [length] in Hle. destruct f as [|f]; [lia|].
    inversion Hf as [|? ? He Hes]; subst. destruct He as (Hk & Hh & Hsz).
    destruct e as [k [h sz]]. cbn [fst snd ihash isize] in *.
    cbn [read_entries flat_map length].
    replace (N.of_nat (S (length es)) =? 0) with false by (symmetry; apply N.eqb_neq; lia).
    unfold enc_entry at 1. cbn [fst snd ihash isize]. rewrite <- !app_assoc.
    rewrite read_bwl_app by exact Hk. cbn [rbind].
    rewrite read_fixed_app by exact Hh. cbn [rbind].
    rewrite read_u64_app by exact Hsz. cbn [rbind].
    replace (N.of_nat (S (length es)) - 1) with (N.of_nat (length es)) by lia.
    rewrite IH by (auto; lia). reflexivity.
Qed.

Theorem dec_enc_snapshot ver es tl :
  ver < 2 ^ 64 -> N.of_nat (length es) < 2 ^ 32 -> Forall entry_fits es ->
  dec_snapshot (enc_snapshot ver es ++ tl) = Ok (ver, es).
Proof.
  intros Hv Hn Hes. unfold dec_snapshot, enc_snapshot. rewrite <- !app_assoc.
  rewrite read_u64_app by exact Hv. cbn [rbind].
  rewrite read_u32_app by exact Hn. cbn [rbind].
  rewrite read_entries_enc; [reflexivity | exact Hes |].
  rewrite app_length. pose proof (flat_map_enc_entry_length es). lia.
Qed.

Corollary dec_enc_snapshot_nil ver es :
  ver < 2 ^ 64 -> N.of_nat (length es) < 2 ^ 32 -> Forall entry_fits es ->
  dec_snapshot (enc_snapshot ver es) = Ok (ver, es).
Proof.
  intros. rewrite <- (app_nil_r (enc_snapshot ver es)). now apply dec_enc_snapshot.
Qed.

(* ------------------------------------------------------------------ *)
(** * B3: from_raw *)

Definition op_keys (o : rawop) : list bytes :=
  match o with RPut k _ _ => [k] | RRemove ks => ks end.
Definition keys_valid (t : ktype) (ks : list bytes) : Prop :=
  Forall (fun k => key_valid t k = true) ks.

Lemma first_invalid_none t ks : forall i, first_invalid t i ks = None <-> keys_valid t ks.
Proof.
  induction ks as [|k ks IH]; intro i; cbn [first_invalid].
  - split; [constructor | reflexivity].
  - destruct (key_valid t k) eqn:E.
    + rewrite IH. split; [now constructor | now inversion 1].
    + split; [discriminate|]. inversion 1; congruence.
Qed.

Theorem from_raw_valid t o : keys_valid t (op_keys o) -> from_raw t o = Ok o.
Proof.
  destruct o as [k h sz | ks]; cbn [op_keys from_raw]; intro Hv.
  - inversion Hv as [|? ? Hk _]; subst. now rewrite Hk.
  - apply (first_invalid_none t ks 0%nat) in Hv. now rewrite Hv.
Qed.

Theorem from_raw_ok_inv t o o' : from_raw t o = Ok o' -> o' = o /\ keys_valid t (op_keys o).
Proof.
  destruct o as [k h sz | ks]; cbn [op_keys from_raw].
  - destruct (key_valid t k) eqn:E; [|discriminate].
    intro Hq. inversion Hq. split; [reflexivity|]. now repeat constructor.
  - destruct (first_invalid t 0 ks) eqn:E; [discriminate|].
    intro Hq. inversion Hq. split; [reflexivity|]. now apply (first_invalid_none t ks 0%nat).
Qed.

Corollary from_raw_ok_iff t o : from_raw t o = Ok o <-> keys_valid t (op_keys o).
Proof.
  split; [intro Hq; now apply from_raw_ok_inv in Hq | apply from_raw_valid].
Qed.

(* the error index is the position of the first invalid key *)
Lemma first_invalid_some t ks : forall i j, first_invalid t i ks = Some j ->
  exists n, j = (i + n)%nat /\ keys_valid t (firstn n ks) /\
            exists k, nth_error ks n = Some k /\ key_valid t k = false.
Proof.
  induction ks as [|k ks IH]; intros i j; cbn [first_invalid]; [discriminate|].
  destruct (key_valid t k) eqn:E.
  - intro Hq. apply IH in Hq. destruct Hq as (n & -> & Hv & k' & Hn & Hk').
    exists (S n). split; [lia|]. split; [now constructor|]. now exists k'.
  - intro Hq. inversion Hq; subst. exists 0%nat. split; [lia|]. split; [constructor|].
    now exists k.
Qed.

(* ------------------------------------------------------------------ *)
(** * B4: allocation bound *)

Lemma read_keys_alloc f : forall cnt bs ks r,
  read_keys f cnt bs = Ok (ks, r) ->
  (op_alloc (RRemove ks) + 4 * length ks + length r = length bs)%nat.
Proof.
  induction f as [|f IH]; intros cnt bs ks r; cbn [read_keys]; destruct (cnt =? 0).
  - intro Hq. inversion Hq; subst. cbn. lia.
  - discriminate.
  - intro Hq. inversion Hq; subst. cbn. lia.
  - destruct (read_bytes_with_len bs) as [[k r0]|e] eqn:E; cbn [rbind]; [|discriminate].
    destruct (read_keys f (cnt - 1) r0) as [[ks0 r']|e] eqn:E2; cbn [rbind]; [|discriminate].
    intro Hq. inversion Hq; subst. apply read_bwl_ok in E. apply IH in E2.
    cbn [op_alloc fold_right length] in *. lia.
Qed.

Theorem dec_op_alloc bs o : dec_op bs = Ok o -> (op_alloc o <= length bs)%nat.
Proof.
  unfold dec_op. destruct bs as [|tag r]; cbn [read_u8 rbind]; [discriminate|].
  destruct (tag =? 0).
  - destruct (read_bytes_with_len r) as [[k r1]|e] eqn:E; cbn [rbind]; [|discriminate].
    destruct (read_fixed 32 r1) as [[h r2]|e] eqn:E1; cbn [rbind]; [|discriminate].
    destruct (read_u64 r2) as [[sz r3]|e] eqn:E2; cbn [rbind]; [|discriminate].
    intro Hq. inversion Hq; subst. apply read_bwl_ok in E. apply read_fixed_ok in E1.
    destruct E1 as [-> Hh]. rewrite app_length in E. cbn [op_alloc length]. lia.
  - destruct (tag =? 1); [|discriminate].
    destruct (read_u32 r) as [[n r1]|e] eqn:E; cbn [rbind]; [|discriminate].
    destruct (read_keys (S (length r1)) n r1) as [[ks r2]|e] eqn:E1; cbn [rbind]; [|discriminate].
    intro Hq. inversion Hq; subst. apply read_u32_ok in E. apply read_keys_alloc in E1.
    cbn [length]. lia.
Qed.

Lemma read_entries_alloc f : forall cnt bs es r,
  read_entries f cnt bs = Ok (es, r) ->
  (entries_alloc es + 12 * length es + length r = length bs)%nat.
Proof.
  induction f as [|f IH]; intros cnt bs es r; cbn [read_entries]; destruct (cnt =? 0).
  - intro Hq. inversion Hq; subst. cbn. lia.
  - discriminate.
  - intro Hq. inversion Hq; subst. cbn. lia.
  - destruct (read_bytes_with_len bs) as [[k r0]|e] eqn:E; cbn [rbind]; [|discriminate].
    destruct (read_fixed 32 r0) as [[h r1]|e] eqn:E1; cbn [rbind]; [|discriminate].
    destruct (read_u64 r1) as [[sz r2]|e] eqn:E2; cbn [rbind]; [|discriminate].
    destruct (read_entries f (cnt - 1) r2) as [[es0 r']|e] eqn:E3; cbn [rbind]; [|discriminate].
    intro Hq. inversion Hq; subst. apply read_bwl_ok in E. apply read_fixed_ok in E1.
    destruct E1 as [-> Hh]. apply read_u64_ok in E2. apply IH in E3.
    rewrite app_length in E.
    cbn [entries_alloc fold_right length fst snd ihash] in *. fold (entries_alloc es0). lia.
Qed.

Theorem dec_snapshot_alloc bs v es :
  dec_snapshot bs = Ok (v, es) -> (entries_alloc es <= length bs)%nat.
Proof.
  unfold dec_snapshot.
  destruct (read_u64 bs) as [[ver r]|e] eqn:E; cbn [rbind]; [|discriminate].
  destruct (read_u32 r) as [[n r1]|e] eqn:E1; cbn [rbind]; [|discriminate].
  destruct (read_entries (S (length r1)) n r1) as [[es0 r2]|e] eqn:E2; cbn [rbind]; [|discriminate].
  intro Hq. inversion Hq; subst. apply read_u64_ok in E. apply read_u32_ok in E1.
  apply read_entries_alloc in E2. lia.
Qed.

(* the decoded list has exactly [cnt] elements ... *)
Lemma read_keys_count f : forall cnt bs ks r,
  read_keys f cnt bs = Ok (ks, r) -> N.of_nat (length ks) = cnt.
Proof.
  induction f as [|f IH]; intros cnt bs ks r; cbn [read_keys]; destruct (cnt =? 0) eqn:Ec.
  - intro Hq; inversion Hq; subst. apply N.eqb_eq in Ec. cbn [length]. lia.
  - discriminate.
  - intro Hq; inversion Hq; subst. apply N.eqb_eq in Ec. cbn [length]. lia.
  - destruct (read_bytes_with_len bs) as [[k r1]|e]; cbn [rbind]; [|discriminate].
    destruct (read_keys f (cnt - 1) r1) as [[ks1 r']|e] eqn:E2; cbn [rbind]; [|discriminate].
    intro Hq; inversion Hq; subst. apply IH in E2. apply N.eqb_neq in Ec.
    cbn [length]. lia.
Qed.

(* ... so a remove record is accepted only if the input really holds 4 bytes per announced
   key: a count of 2^32-1 in a short input is an error, not an allocation request *)
Corollary dec_op_count_bound cnt tl o :
  cnt < 2 ^ 32 -> dec_op (1 :: u32 cnt ++ tl) = Ok o ->
  exists ks, o = RRemove ks /\ N.of_nat (length ks) = cnt /\ (4 * length ks <= length tl)%nat.
Proof.
  intro Hc. unfold dec_op. cbn [read_u8 rbind].
  change (1 =? 0) with false. change (1 =? 1) with true. cbv iota.
  rewrite read_u32_app by exact Hc. cbn [rbind].
  destruct (read_keys (S (length tl)) cnt tl) as [[ks r]|e] eqn:E1; cbn [rbind]; [|discriminate].
  intro Hq. inversion Hq; subst. exists ks. split; [reflexivity|].
  pose proof (read_keys_count _ _ _ _ _ E1). apply read_keys_alloc in E1. split; [assumption|lia].
Qed.

(* ------------------------------------------------------------------ *)
(** * B6 / B7: record framing and damage detection *)

Section FramingProofs.
  Variable H : bytes -> bytes.
  Hypothesis Hlen : forall b, length (H b) = 32%nat.

  Definition rec_ok (r : N * bytes) : Prop :=
    (0 < fst r /\ fst r < 2 ^ 64) /\ (0 < len (snd r) /\ len (snd r) < 2 ^ 32).

  Definition render (recs : list (N * bytes)) : bytes :=
    flat_map (fun r => enc_record H (fst r) (snd r)) recs.

  Lemma header_length ver p : length (header H ver p) = 44%nat.
  Proof. unfold header. now rewrite !app_length, u64_length, u32_length, Hlen. Qed.

  Lemma enc_record_length ver p : length (enc_record H ver p) = (44 + length p)%nat.
  Proof. unfold enc_record. now rewrite app_length, header_length. Qed.

  (* the general shape of a record read: a 44 byte header with arbitrary checksum field *)
  Lemma read_record_raw ver c n rest :
    length c = 32%nat -> 0 < ver -> ver < 2 ^ 64 -> 0 < n -> n < 2 ^ 32 ->
    read_record H (u64 ver ++ c ++ u32 n ++ rest) =
    match takeN n rest with
    | None => Err RShortPayload
    | Some (pl, r') => if beqb (H pl) c then Ok (Some (ver, pl, r')) else Err RChecksum
    end.
  Proof.
    intros Hc Hv0 Hv Hn0 Hn.
    assert (E : u64 ver ++ c ++ u32 n ++ rest = (u64 ver ++ c ++ u32 n) ++ rest)
      by (now rewrite <- !app_assoc).
    rewrite E. unfold read_record.
    rewrite (take_app 44) by (now rewrite !app_length, u64_length, u32_length, Hc).
    cbv zeta.
    rewrite (firstn_app_n 8) by apply u64_length.
    rewrite (skipn_app_n 8) by apply u64_length.
    rewrite (firstn_app_n 32) by exact Hc.
    assert (E2 : u64 ver ++ c ++ u32 n = (u64 ver ++ c) ++ u32 n) by (now rewrite <- app_assoc).
    rewrite E2.
    rewrite (skipn_app_n 40) by (now rewrite app_length, u64_length, Hc).
    rewrite le_dec_u64 by exact Hv. rewrite le_dec_u32 by exact Hn.
    replace (ver =? 0) with false by (symmetry; apply N.eqb_neq; lia).
    replace (n =? 0) with false by (symmetry; apply N.eqb_neq; lia).
    reflexivity.
  Qed.

  Lemma header_app ver p rest :
    header H ver p ++ rest = u64 ver ++ H p ++ u32 (len p) ++ rest.
  Proof. unfold header. now rewrite <- !app_assoc. Qed.

  (** B6 *)
  Theorem read_record_enc ver p rest :
    0 < ver -> ver < 2 ^ 64 -> 0 < len p -> len p < 2 ^ 32 ->
    read_record H (enc_record H ver p ++ rest) = Ok (Some (ver, p, rest)).
  Proof.
    intros Hv0 Hv Hp0 Hp. unfold enc_record. rewrite <- app_assoc, header_app.
    rewrite read_record_raw by auto.
    rewrite takeN_app by reflexivity. now rewrite beqb_refl.
  Qed.

  (* a framed operation comes back as the same operation *)
  Corollary wal_record_roundtrip ver o rest :
    0 < ver -> ver < 2 ^ 64 -> op_fits o -> len (enc_op o) < 2 ^ 32 ->
    exists p, read_record H (enc_record H ver (enc_op o) ++ rest) = Ok (Some (ver, p, rest)) /\
              dec_op p = Ok o.
  Proof.
    intros Hv0 Hv Ho Hl. exists (enc_op o). split.
    - apply read_record_enc; auto. apply enc_op_nonempty.
    - now apply dec_enc_op_nil.
  Qed.

  Lemma read_record_short t : (length t < 44)%nat -> read_record H t = Ok None.
  Proof. intro Hl. unfold read_record. now rewrite take_none. Qed.

  Lemma read_record_sentinel rest : read_record H (sentinel ++ rest) = Ok None.
  Proof.
    unfold read_record. rewrite (take_app 44) by reflexivity. reflexivity.
  Qed.

  (** B7 (a): truncation of a record *)
  Theorem read_record_truncated ver p n :
    0 < ver -> ver < 2 ^ 64 -> 0 < len p -> len p < 2 ^ 32 ->
    (n < length (enc_record H ver p))%nat ->
    read_record H (firstn n (enc_record H ver p)) =
    if (n <? 44)%nat then Ok None else Err RShortPayload.
  Proof.
    intros Hv0 Hv Hp0 Hp Hn. rewrite enc_record_length in Hn.
    destruct (n <? 44)%nat eqn:E.
    - apply Nat.ltb_lt in E. apply read_record_short. rewrite firstn_length. lia.
    - apply Nat.ltb_ge in E. unfold enc_record.
      rewrite firstn_app, header_length.
      rewrite firstn_all2 by (rewrite header_length; lia).
      rewrite header_app, read_record_raw by auto.
      rewrite takeN_none; [reflexivity|].
      unfold len. rewrite firstn_length. lia.
  Qed.

  (** B7 (b): payload corruption.  [p' <> p] is implied by [H p' <> H p]; it is kept in
      the statement only to match the informal property. *)
  Theorem read_record_bad_payload ver p p' rest :
    0 < ver -> ver < 2 ^ 64 -> 0 < len p -> len p < 2 ^ 32 ->
    length p' = length p -> p' <> p -> H p' <> H p ->
    read_record H (header H ver p ++ p' ++ rest) = Err RChecksum.
  Proof.
    intros Hv0 Hv Hp0 Hp Hl _ Hne. rewrite header_app, read_record_raw by auto.
    rewrite takeN_app by (unfold len; now rewrite Hl).
    apply beqb_false_iff in Hne. now rewrite Hne.
  Qed.

  (** B7 (b): checksum corruption *)
  Theorem read_record_bad_checksum ver c' p rest :
    0 < ver -> ver < 2 ^ 64 -> 0 < len p -> len p < 2 ^ 32 ->
    length c' = 32%nat -> c' <> H p ->
    read_record H (u64 ver ++ c' ++ u32 (len p) ++ p ++ rest) = Err RChecksum.
  Proof.
    intros Hv0 Hv Hp0 Hp Hc Hne. rewrite read_record_raw by auto.
    rewrite takeN_app by reflexivity.
    assert (Hne' : H p <> c') by congruence.
    apply beqb_false_iff in Hne'. now rewrite Hne'.
  Qed.

  (* a successfully read record is authenticated by its stored checksum: whatever the
     bytes are, the payload delivered hashes to the checksum field of the header *)
  Theorem read_record_sound bs ver p rest :
    read_record H bs = Ok (Some (ver, p, rest)) ->
    exists hd, bs = hd ++ p ++ rest /\ length hd = 44%nat /\
               ver = le_dec (firstn 8 hd) /\ ver <> 0 /\
               H p = firstn 32 (skipn 8 hd) /\ len p = le_dec (skipn 40 hd) /\ len p <> 0.
  Proof.
    unfold read_record. destruct (take 44 bs) as [[hd r]|] eqn:E; [|discriminate].
    cbv zeta. apply take_some in E. destruct E as [-> Hhd].
    destruct (le_dec (firstn 8 hd) =? 0) eqn:Ev; [discriminate|].
    destruct (le_dec (skipn 40 hd) =? 0) eqn:En; [discriminate|].
    destruct (takeN (le_dec (skipn 40 hd)) r) as [[pl r']|] eqn:Et; [|discriminate].
    destruct (beqb (H pl) (firstn 32 (skipn 8 hd))) eqn:Eb; [|discriminate].
    intro Hq. inversion Hq; subst. apply takeN_some in Et. destruct Et as [-> Hpl].
    apply beqb_true_iff in Eb. apply N.eqb_neq in Ev. apply N.eqb_neq in En.
    exists hd. repeat split; auto. congruence.
  Qed.

  (* ---------------------------------------------------------------- *)
  (** ** segments *)

  Lemma render_app a b : render (a ++ b) = render a ++ render b.
  Proof. unfold render. apply flat_map_app. Qed.

  Lemma render_length_le recs : (length recs <= length (render recs))%nat.
  Proof.
    induction recs as [|r recs IH]; cbn [render flat_map length]; [lia|].
    fold (render recs). rewrite app_length, enc_record_length. lia.
  Qed.

  (* eager and lazy readers agree *)
  Lemma read_segment_of_lazy f : forall bs,
    read_segment H f bs =
    match snd (read_segment_lazy H f bs) with
    | None => Ok (fst (read_segment_lazy H f bs))
    | Some e => Err e
    end.
  Proof.
    induction f as [|f IH]; intro bs; cbn [read_segment read_segment_lazy]; [reflexivity|].
    destruct (read_record H bs) as [[[[ver p] r]|]|e]; cbn [rbind fst snd]; try reflexivity.
    rewrite IH. destruct (read_segment_lazy H f r) as [t [e|]]; reflexivity.
  Qed.

  (* reading through a well-formed rendered prefix *)
  Lemma lazy_render recs : forall f tl,
    Forall rec_ok recs ->
    read_segment_lazy H (length recs + f) (render recs ++ tl) =
    (recs ++ fst (read_segment_lazy H f tl), snd (read_segment_lazy H f tl)).
  Proof.
    induction recs as [|[ver p] recs IH]; intros f tl Hok.
    - cbn [length render flat_map app Nat.add]. now destruct (read_segment_lazy H f tl).
    - inversion Hok as [|? ? Hr Hrs]; subst. destruct Hr as [[Hv0 Hv] [Hp0 Hp]].
      cbn [fst snd] in *.
      cbn [length Nat.add render flat_map read_segment_lazy fst snd]. fold (render recs).
      rewrite <- app_assoc, read_record_enc by assumption.
      rewrite IH by exact Hrs. reflexivity.
  Qed.

  Lemma lazy_render_gen recs fuel tl :
    Forall rec_ok recs -> (length recs <= fuel)%nat ->
    read_segment_lazy H fuel (render recs ++ tl) =
    (recs ++ fst (read_segment_lazy H (fuel - length recs) tl),
     snd (read_segment_lazy H (fuel - length recs) tl)).
  Proof.
    intros Hok Hle.
    replace fuel with (length recs + (fuel - length recs))%nat at 1 by lia.
    now apply lazy_render.
  Qed.

  (* the generic end-of-log / error statements, fuel as in [parse_segment] *)
  Lemma lazy_render_stop recs tl :
    Forall rec_ok recs -> read_record H tl = Ok None ->
    read_segment_lazy H (S (length (render recs ++ tl))) (render recs ++ tl) = (recs, None).
  Proof.
    intros Hok Hstop. rewrite lazy_render_gen; auto.
    2: { rewrite app_length. pose proof (render_length_le recs). lia. }
    rewrite app_length. pose proof (render_length_le recs) as Hl.
    replace (S (length (render recs) + length tl) - length recs)%nat
      with (S (length (render recs) + length tl - length recs))%nat by lia.
    cbn [read_segment_lazy]. rewrite Hstop. cbn [fst snd]. now rewrite app_nil_r.
  Qed.

  Lemma lazy_render_err recs tl e :
    Forall rec_ok recs -> read_record H tl = Err e ->
    read_segment_lazy H (S (length (render recs ++ tl))) (render recs ++ tl) = (recs, Some e).
  Proof.
    intros Hok Herr. rewrite lazy_render_gen; auto.
    2: { rewrite app_length. pose proof (render_length_le recs). lia. }
    rewrite app_length. pose proof (render_length_le recs) as Hl.
    replace (S (length (render recs) + length tl) - length recs)%nat
      with (S (length (render recs) + length tl - length recs))%nat by lia.
    cbn [read_segment_lazy]. rewrite Herr. cbn [fst snd]. now rewrite app_nil_r.
  Qed.

  Lemma parse_render_stop recs tl :
    Forall rec_ok recs -> read_record H tl = Ok None ->
    parse_segment H (render recs ++ tl) = Ok recs.
  Proof.
    intros Hok Hstop. unfold parse_segment.
    now rewrite read_segment_of_lazy, lazy_render_stop.
  Qed.

  Lemma parse_render_err recs tl e :
    Forall rec_ok recs -> read_record H tl = Err e ->
    parse_segment H (render recs ++ tl) = Err e.
  Proof.
    intros Hok Herr. unfold parse_segment.
    now rewrite read_segment_of_lazy, (lazy_render_err _ _ e).
  Qed.

  (** B6: parse_segment / read_segment_lazy on rendered logs *)
  Theorem parse_segment_render recs :
    Forall rec_ok recs -> parse_segment H (render recs) = Ok recs.
  Proof.
    intro Hok. rewrite <- (app_nil_r (render recs)).
    apply parse_render_stop; [exact Hok | apply read_record_short; cbn [length]; lia].
  Qed.

  Theorem parse_segment_render_sentinel recs rest :
    Forall rec_ok recs -> parse_segment H (render recs ++ sentinel ++ rest) = Ok recs.
  Proof. intro Hok. apply parse_render_stop; [exact Hok | apply read_record_sentinel]. Qed.

  Corollary parse_segment_render_sentinel_nil recs :
    Forall rec_ok recs -> parse_segment H (render recs ++ sentinel) = Ok recs.
  Proof.
    intro Hok. rewrite <- (app_nil_r sentinel). now apply parse_segment_render_sentinel.
  Qed.

  Theorem parse_segment_render_torn recs t :
    Forall rec_ok recs -> (length t < 44)%nat -> parse_segment H (render recs ++ t) = Ok recs.
  Proof. intros Hok Ht. apply parse_render_stop; [exact Hok | now apply read_record_short]. Qed.

  Theorem lazy_segment_render recs :
    Forall rec_ok recs ->
    read_segment_lazy H (S (length (render recs))) (render recs) = (recs, None).
  Proof.
    intro Hok. rewrite <- (app_nil_r (render recs)).
    apply lazy_render_stop; [exact Hok | apply read_record_short; cbn [length]; lia].
  Qed.

  Theorem lazy_segment_render_sentinel recs rest :
    Forall rec_ok recs ->
    let bs := render recs ++ sentinel ++ rest in
    read_segment_lazy H (S (length bs)) bs = (recs, None).
  Proof. intro Hok. apply lazy_render_stop; [exact Hok | apply read_record_sentinel]. Qed.

  Corollary lazy_segment_render_sentinel_nil recs :
    Forall rec_ok recs ->
    let bs := render recs ++ sentinel in
    read_segment_lazy H (S (length bs)) bs = (recs, None).
  Proof.
    intro Hok. cbv zeta. rewrite <- (app_nil_r sentinel).
    now apply lazy_segment_render_sentinel.
  Qed.

  Theorem lazy_segment_render_torn recs t :
    Forall rec_ok recs -> (length t < 44)%nat ->
    let bs := render recs ++ t in
    read_segment_lazy H (S (length bs)) bs = (recs, None).
  Proof. intros Hok Ht. apply lazy_render_stop; [exact Hok | now apply read_record_short]. Qed.

  (** B7 (c): damage inside a segment.  In each case exactly the records before the
      damaged one are delivered. *)

  (* (a) the log recs1 ++ [r] ++ recs2 is cut [n] bytes into record r *)
  Theorem lazy_segment_truncated recs1 r recs2 n :
    Forall rec_ok recs1 -> rec_ok r ->
    (n < length (enc_record H (fst r) (snd r)))%nat ->
    let bs := firstn (length (render recs1) + n) (render (recs1 ++ [r] ++ recs2)) in
    read_segment_lazy H (S (length bs)) bs =
    (recs1, if (n <? 44)%nat then None else Some RShortPayload).
  Proof.
    intros Hok [[Hv0 Hv] [Hp0 Hp]] Hn. cbv zeta.
    rewrite !render_app, firstn_app_2.
    assert (E : firstn n (render [r] ++ render recs2) = firstn n (enc_record H (fst r) (snd r))).
    { cbn [render flat_map]. rewrite app_nil_r, firstn_app.
      replace (n - length (enc_record H (fst r) (snd r)))%nat with 0%nat by lia.
      cbn [firstn]. now rewrite app_nil_r. }
    rewrite E.
    pose proof (read_record_truncated (fst r) (snd r) n Hv0 Hv Hp0 Hp Hn) as Hr.
    destruct (n <? 44)%nat.
    - now apply lazy_render_stop.
    - now apply lazy_render_err.
  Qed.

  Corollary parse_segment_truncated recs1 r recs2 n :
    Forall rec_ok recs1 -> rec_ok r ->
    (n < length (enc_record H (fst r) (snd r)))%nat ->
    parse_segment H (firstn (length (render recs1) + n) (render (recs1 ++ [r] ++ recs2))) =
    if (n <? 44)%nat then Ok recs1 else Err RShortPayload.
  Proof.
    intros Hok Hr Hn. unfold parse_segment.
    rewrite read_segment_of_lazy.
    pose proof (lazy_segment_truncated recs1 r recs2 n Hok Hr Hn) as Hl. cbv zeta in Hl.
    rewrite Hl. cbn [fst snd]. now destruct (n <? 44)%nat.
  Qed.

  (* (b1) the payload of r = (ver, p) is replaced by p' *)
  Theorem lazy_segment_bad_payload recs1 ver p p' rest :
    Forall rec_ok recs1 -> rec_ok (ver, p) ->
    length p' = length p -> p' <> p -> H p' <> H p ->
    let bs := render recs1 ++ header H ver p ++ p' ++ rest in
    read_segment_lazy H (S (length bs)) bs = (recs1, Some RChecksum).
  Proof.
    intros Hok [[Hv0 Hv] [Hp0 Hp]] Hl Hne HneH. cbn [fst snd] in *.
    apply lazy_render_err; [exact Hok|]. now apply read_record_bad_payload.
  Qed.

  (* (b2) the checksum field of r = (ver, p) is replaced by c' *)
  Theorem lazy_segment_bad_checksum recs1 ver p c' rest :
    Forall rec_ok recs1 -> rec_ok (ver, p) ->
    length c' = 32%nat -> c' <> H p ->
    let bs := render recs1 ++ u64 ver ++ c' ++ u32 (len p) ++ p ++ rest in
    read_segment_lazy H (S (length bs)) bs = (recs1, Some RChecksum).
  Proof.
    intros Hok [[Hv0 Hv] [Hp0 Hp]] Hc Hne. cbn [fst snd] in *.
    apply lazy_render_err; [exact Hok|]. now apply read_record_bad_checksum.
  Qed.

  Corollary parse_segment_bad_payload recs1 ver p p' rest :
    Forall rec_ok recs1 -> rec_ok (ver, p) ->
    length p' = length p -> p' <> p -> H p' <> H p ->
    parse_segment H (render recs1 ++ header H ver p ++ p' ++ rest) = Err RChecksum.
  Proof.
    intros Hok [[Hv0 Hv] [Hp0 Hp]] Hl Hne HneH. cbn [fst snd] in *.
    apply parse_render_err; [exact Hok|]. now apply read_record_bad_payload.
  Qed.

  Corollary parse_segment_bad_checksum recs1 ver p c' rest :
    Forall rec_ok recs1 -> rec_ok (ver, p) ->
    length c' = 32%nat -> c' <> H p ->
    parse_segment H (render recs1 ++ u64 ver ++ c' ++ u32 (len p) ++ p ++ rest) = Err RChecksum.
  Proof.
    intros Hok [[Hv0 Hv] [Hp0 Hp]] Hc Hne. cbn [fst snd] in *.
    apply parse_render_err; [exact Hok|]. now apply read_record_bad_checksum.
  Qed.

  (* every position of a rendered log is either its end or lies inside exactly one record *)
  Lemma render_position recs : forall m, (m < length (render recs))%nat ->
    exists recs1 r recs2 n, recs = recs1 ++ [r] ++ recs2 /\
      m = (length (render recs1) + n)%nat /\ (n < length (enc_record H (fst r) (snd r)))%nat.
  Proof.
    induction recs as [|r recs IH]; intros m Hm; [cbn in Hm; lia|].
    cbn [render flat_map] in Hm. fold (render recs) in Hm. rewrite app_length in Hm.
    destruct (Nat.lt_ge_cases m (length (enc_record H (fst r) (snd r)))) as [Hlt|Hge].
    - exists [], r, recs, m. repeat split; auto.
    - destruct (IH (m - length (enc_record H (fst r) (snd r)))%nat) as (r1 & x & r2 & n & -> & Hm' & Hn);
        [lia|].
      exists (r :: r1), x, r2, n. repeat split; auto.
      cbn [render flat_map]. fold (render r1). rewrite app_length. lia.
  Qed.

  (* truncating a well-formed log at ANY byte position delivers a prefix of its records,
     with either a clean end or a short-payload error: never an altered record *)
  Theorem lazy_segment_any_truncation recs m :
    Forall rec_ok recs ->
    let bs := firstn m (render recs) in
    exists recs1 recs2 e, recs = recs1 ++ recs2 /\
      read_segment_lazy H (S (length bs)) bs = (recs1, e) /\
      (e = None \/ e = Some RShortPayload).
  Proof.
    intros Hok. cbv zeta.
    destruct (Nat.lt_ge_cases m (length (render recs))) as [Hlt|Hge].
    - destruct (render_position recs m Hlt) as (r1 & r & r2 & n & -> & -> & Hn).
      apply Forall_app in Hok. destruct Hok as [Hok1 Hok2].
      inversion Hok2 as [|? ? Hr _]; subst.
      exists r1, ([r] ++ r2). eexists. split; [reflexivity|]. split.
      + apply (lazy_segment_truncated r1 r r2 n Hok1 Hr Hn).
      + destruct (n <? 44)%nat; auto.
    - rewrite firstn_all2 by exact Hge.
      exists recs, [], None. rewrite app_nil_r. split; [reflexivity|]. split; auto.
      now apply lazy_segment_render.
  Qed.
End FramingProofs.

(* ------------------------------------------------------------------ *)
(** * B8: concrete examples *)

Definition toyH (b : bytes) : bytes := repeat (N.of_nat (length b) mod 256) 32.

Lemma toyH_length b : length (toyH b) = 32%nat.
Proof. apply repeat_length. Qed.

Definition ex_put : rawop := RPut [107; 101; 121] (repeat 171 32) 1234567890123.
Definition ex_remove : rawop := RRemove [[97]; []; [98; 99; 255]].

Example ex_put_roundtrip : dec_op (enc_op ex_put) = Ok ex_put.
Proof. vm_compute. reflexivity. Qed.
Example ex_remove_roundtrip : dec_op (enc_op ex_remove) = Ok ex_remove.
Proof. vm_compute. reflexivity. Qed.
Example ex_put_roundtrip_trailing : dec_op (enc_op ex_put ++ [1; 2; 3]) = Ok ex_put.
Proof. vm_compute. reflexivity. Qed.
Example ex_from_raw : from_raw (KArr 3) ex_put = Ok ex_put.
Proof. vm_compute. reflexivity. Qed.
Example ex_from_raw_bad : from_raw (KArr 1) ex_remove = Err (FRemoveKey 1).
Proof. vm_compute. reflexivity. Qed.
Example ex_snapshot_roundtrip :
  dec_snapshot (enc_snapshot 7 [([1; 2], mkItem (repeat 9 32) 100); ([], mkItem (repeat 0 32) 0)])
  = Ok (7, [([1; 2], mkItem (repeat 9 32) 100); ([], mkItem (repeat 0 32) 0)]).
Proof. vm_compute. reflexivity. Qed.
Example ex_record_roundtrip :
  read_record toyH (enc_record toyH 5 (enc_op ex_put) ++ [9; 9]) = Ok (Some (5, enc_op ex_put, [9; 9])).
Proof. vm_compute. reflexivity. Qed.
Example ex_segment_roundtrip :
  parse_segment toyH (enc_record toyH 1 (enc_op ex_put) ++ enc_record toyH 2 (enc_op ex_remove)
                      ++ sentinel)
  = Ok [(1, enc_op ex_put); (2, enc_op ex_remove)].
Proof. vm_compute. reflexivity. Qed.
Example ex_segment_truncated :
  read_segment_lazy toyH 200
    (firstn 150 (enc_record toyH 1 (enc_op ex_put) ++ enc_record toyH 2 (enc_op ex_remove)))
  = ([(1, enc_op ex_put)], Some RShortPayload).
Proof. vm_compute. reflexivity. Qed.
(* a huge count field in a tiny input is an error, not an allocation *)
Example ex_huge_count : dec_op (1 :: u32 4294967295 ++ [0; 0; 0; 0]) = Err DInsufficient.
Proof. vm_compute. reflexivity. Qed.

Print Assumptions dec_enc_op.
Print Assumptions dec_enc_snapshot.
Print Assumptions from_raw_valid.
Print Assumptions from_raw_ok_inv.
Print Assumptions dec_op_alloc.
Print Assumptions dec_snapshot_alloc.
Print Assumptions read_keys_fuel.
Print Assumptions read_entries_fuel.
Print Assumptions read_record_enc.
Print Assumptions parse_segment_render.
Print Assumptions parse_segment_render_sentinel.
Print Assumptions parse_segment_render_torn.
Print Assumptions lazy_segment_render.
Print Assumptions lazy_segment_render_sentinel.
Print Assumptions lazy_segment_render_torn.
Print Assumptions read_record_truncated.
Print Assumptions read_record_bad_payload.
Print Assumptions read_record_bad_checksum.
Print Assumptions read_record_sound.
Print Assumptions lazy_segment_truncated.
Print Assumptions lazy_segment_bad_payload.
Print Assumptions lazy_segment_bad_checksum.
Print Assumptions lazy_segment_any_truncation.
Print Assumptions enc_op_nonempty.
Print Assumptions wal_record_roundtrip.
Print Assumptions dec_op_count_bound.
Print Assumptions parse_segment_truncated.
Print Assumptions parse_segment_bad_payload.
Print Assumptions parse_segment_bad_checksum.
