(* ConcLin.v -- C05: linearizability of the concurrent model theories/Conc.v.

   History variables live OUTSIDE the model (theories/Conc.v carries none).  For a schedule
   [sched] run from [g0 = init_c thr0 cas0] the trace [ctrace g0 sched] is the list of states
       st 0, st 1, ..., st N        (N = NN = length sched,  st i = crun g0 (firstn i sched),
                                     [ctrace_nth], [st_trace], [ctrace_step], [ctrace_last])
   STEP i is the move from [st i] to [st (S i)] made by thread [who i] (the i-th entry of the
   schedule; a blocked or finished thread stutters).  POSITION i is the state [st i], i.e. the
   state just before step i.  [kmap i] is the key map of position i and
   [val i k = option_map (fun it => (ihash it, isize it)) (sm_get cmp (kmap i) k)].

   P1  call intervals, defined on the trace.  [prog t] is the program of thread t ([prog_thr0]).
         starts_at s t j c : step s is the step of thread t that leaves Idle taking its j-th
                             call, which is c
         ends_at e t j r   : step e is the step of thread t that appends its j-th result, r
       both are unique ([starts_at_unique], [ends_at_unique]) and s <= e ([start_le_end]).
       [own q t c]: step q is a step of t parked at the pc where call c reads the key map
       (GRead / GReread / GOpenL for get and get_range, GRead for get_size, IRead for iteration,
       RRead, RRRead for the removals).

   The invariant [HistInv] ([hist_inv], by induction along the trace; [hist_step] is the case
   analysis over the pcs) attaches to every pc of a call in progress what the thread has seen
   so far, with the positions where it saw it, and keeps for every finished call the record
   [fin_hist].  Its consequence, for every finished call (any thread, any call kind):

     C05_calls_linearizable   there are s <= q <= e (s < q unless the call returns in the step
                              that takes it) with starts_at s, ends_at e, and the key map of
                              position q justifies the result ([lin_spec]); for get / get_size
                              / get_range / iteration / remove / remove_range step q is a
                              step of the thread itself
                              ([own]); a call that reports a write has an entry in the write
                              log at a step strictly between s and e.

   P2  C05_read_linearizable (+ _cases), C05_get_size_linearizable : a get returns 'absent' or
       the complete content that the key held at position q, s < q <= e; the content is the
       blob stored under the key's hash at position q.
       C05_range_read_linearizable : a get_range returns 'absent' or exactly the answer of the
       sequential get_range ([range_answer_is_get_range]: theories/Range.v) on the item the key
       held at position q and the blob stored under its hash at position q (the answers decided
       from the item alone -- empty range, InvalidRange -- else the slice [a, min b size));
       C05_iteration_is_a_snapshot : an iteration returns the key list of ONE position q.
       The three reads share [rd_spec] / [rd_call]; the read pcs carry the mode (rmode).
   P5  C05_remove_linearizable, C05_remove_range_linearizable : presence / number of keys in
       range at the call's own scan step q, s < q <= e.
   P3' C05_km_is_fold_of_writes : at every position the key map is the fold (kstep = the
       key-map component of apply_op) of the operations of the WLockW steps taken so far, in
       step order ([wlog], [wlog_sorted]).
   P4  C05_final_is_linearization : after a complete run  km = fold_left kstep ws []  where ws
       is the log; every entry is the write of a call (RPut k (H c) (len c) for KPut,
       RRemove ks for the removals with the keys found at their scan step: [op_of_call]),
       applied strictly inside the interval of that call; the calls that report a write have
       exactly one entry ([wlog_key_unique]), the others none ([wlog_entry_call]);
       C05_write_order_respects_real_time : if call A returned before call B was taken, the
       entry of A precedes the entry of B.
   P3  C05_put_visible : a put that returned before a get of the same key was taken is seen
       by it: the get returns the put's content unless a write on the key applied after the
       put's own linearisation point intervenes; C05_put_applied_at_return.
   P6  examples by vm_compute (toyH, lex_cmp): a reader racing an overwriting writer under two
       schedules, with the witness positions; P6': a get_range racing an overwrite by a longer
       value (both outcomes) and an iteration racing a put, with the witness positions.

   FAULTS.  Everything holds for ARBITRARY fault parameters bad / ckbad.  A call that can fail
   ([can_err]: put, remove, remove_range, get, get_range, checkpoint) may return the I/O error CErr:
   [lin_spec c r m] = (can_err c /\ r = CErr) \/ [lin_spec0 c r m] (the fault-free spec), so the
   interval / own-step / write-log parts of C05_calls_linearizable also cover failed calls.
   The read / remove theorems (P2, P5) are stated for results other than CErr (r <> CErr).
   [writes c r] = the call is KNOWN to have an entry in the write log: a removal returns CErr
   only after its apply (failed unlink / failed rollover checkpoint), so writes (KRemove _) CErr
   = true; a put returns CErr either before registering its write (failed rename: no entry) or
   after its apply, so writes (KPut _ _) CErr = false and the converse direction of P4 says
   [may_write c r] = writes c r = true \/ r = CErr.  P3 needs rp <> CErr and ru <> CErr.
   Without faults no result is CErr (ConcProofs.no_faults_no_errors). *)
From Cas Require Import Base Codec SMap Index Conc.
From Cas Require Import Range.
From CasProofs Require Import SMapProofs IndexProofs RangeProofs ConcInv ConcProofs ConcExamples.
From Coq Require Import List NArith Lia Bool Arith Sorted.
Import ListNotations.
Open Scope N_scope.

Arguments N.add : simpl never.
Arguments N.sub : simpl never.
Arguments N.mul : simpl never.
Arguments N.div : simpl never.
Arguments N.modulo : simpl never.
Arguments N.eqb : simpl never.
Arguments N.ltb : simpl never.
Arguments N.leb : simpl never.

(* ------------------------------------------------------------------------------------ *)
(* generic list facts *)

Lemma firstn_S_nth {A} (l : list A) (d : A) : forall i, (i < length l)%nat ->
  firstn (S i) l = firstn i l ++ [nth i l d].
Proof.
  induction l as [|a l IH]; intros i Hi; cbn [length] in Hi; [lia|].
  destruct i as [|i]; [reflexivity|].
  rewrite !firstn_cons. cbn [nth app]. rewrite (IH i) by lia. reflexivity.
Qed.

Lemma skipn_cons_nth {A} (l : list A) : forall j c r,
  skipn j l = c :: r -> nth_error l j = Some c /\ skipn (S j) l = r.
Proof.
  induction l as [|a l IH]; intros [|j] c r E; cbn [skipn] in E; try discriminate.
  - injection E as -> ->. split; reflexivity.
  - apply IH in E. exact E.
Qed.

Lemma nth_error_snoc {A} (l : list A) (x : A) j y :
  nth_error (l ++ [x]) j = Some y ->
  (nth_error l j = Some y /\ (j < length l)%nat) \/ (j = length l /\ y = x).
Proof.
  intros E. destruct (Nat.lt_ge_cases j (length l)) as [L|L].
  - left. rewrite nth_error_app1 in E by exact L. split; assumption.
  - right. rewrite nth_error_app2 in E by exact L.
    destruct (j - length l)%nat as [|d] eqn:D.
    + cbn in E. injection E as <-. split; [lia|reflexivity].
    + cbn in E. destruct d; discriminate.
Qed.

(* ------------------------------------------------------------------------------------ *)
(* the key-map component of apply_op *)

Definition kstep (cmp : bytes -> bytes -> comparison) (m : smap item) (o : rawop) : smap item :=
  match o with
  | RPut k h sz => sm_ins cmp m k (mkItem h sz)
  | RRemove ks => fold_left (fun m k => sm_del cmp m k) ks m
  end.

(* operation o writes key k *)
Definition touches (o : rawop) (k : bytes) : Prop :=
  match o with RPut k' _ _ => k' = k | RRemove ks => In k ks end.

(* every operation of a list is applicable (in the sense of IndexProofs.op_respects_sizes) to the
   key map produced by its predecessors *)
Fixpoint ops_resp (cmp : bytes -> bytes -> comparison) (m : smap item) (ops : list rawop) : Prop :=
  match ops with
  | [] => True
  | o :: r => op_respects_sizes (mkIstate m [] 0 0 0 0) o /\ ops_resp cmp (kstep cmp m o) r
  end.
Lemma ops_resp_app cmp a : forall m b,
  ops_resp cmp m (a ++ b) <-> ops_resp cmp m a /\ ops_resp cmp (fold_left (kstep cmp) a m) b.
Proof.
  induction a as [|o a IH]; intros m b; cbn [app ops_resp fold_left]; [tauto|].
  rewrite IH. tauto.
Qed.

(* an entry of the write log: step, thread, call number, operation *)
Record wlent := mkWl { wl_p : nat; wl_t : nat; wl_j : nat; wl_o : rawop }.

(* calls that return in the very step that takes them *)
Definition immediate (c : ccall) : bool :=
  match c with KAbort _ _ | KDelOrphans [] => true | _ => false end.
(* calls whose result depends on the key map *)
Definition observes (c : ccall) : bool :=
  match c with
  | KGet _ | KGetSize _ | KGetRange _ _ _ | KIter | KRemove _ | KRemoveRange _ _ => true
  | _ => false
  end.
(* the I/O error result *)
Definition is_err (r : cres) : bool := match r with CErr => true | _ => false end.
(* calls that may return an I/O error under the fault parameters bad / ckbad *)
Definition can_err (c : ccall) : bool :=
  match c with
  | KPut _ _ | KRemove _ | KRemoveRange _ _ | KGet _ | KGetRange _ _ _ | KCheckpoint => true
  | _ => false
  end.
(* calls (with their result) that are KNOWN to have applied a write operation.  A removal
   returns CErr only after its operation was applied (failed unlink / failed rollover
   checkpoint); a put that returns CErr may (same two failures) or may not (failed rename)
   have applied its operation, so nothing is claimed for it: see [may_write] *)
Definition writes (c : ccall) (r : cres) : bool :=
  match c, r with
  | KPut _ _, r => negb (is_err r)
  | KRemove _, CBool b => b
  | KRemove _, CErr => true
  | KRemoveRange _ _, CNum n => negb (n =? 0)
  | KRemoveRange _ _, CErr => true
  | _, _ => false
  end.
(* calls (with their result) that MAY have applied a write operation *)
Definition may_write (c : ccall) (r : cres) : Prop := writes c r = true \/ r = CErr.

Lemma is_err_false r : r <> CErr -> is_err r = false.
Proof. destruct r; try reflexivity. intros X; exfalso; apply X; reflexivity. Qed.

Lemma writes_can_err c r : writes c r = true -> can_err c = true.
Proof. destruct c; cbn [writes can_err]; try reflexivity; destruct r; discriminate. Qed.
(* the pc at which a call observes the key map *)
(* a read in mode md observes the key map at its lookup (GRead), or at the lookup of its retry
   (GReread), or -- having kept the state lock shared since that lookup -- at the open of the
   retry (GOpenL) *)
Definition rd_pc (k : bytes) (md : rmode) (p : pc) : Prop :=
  p = GRead k md \/ (exists it, p = GReread k it md) \/ (exists it, p = GOpenL k it md).
Definition lin_pc (c : ccall) (p : pc) : Prop :=
  match c with
  | KGet k => rd_pc k MFull p
  | KGetSize k => p = GRead k MSize
  | KGetRange k a b => rd_pc k (MRange a b) p
  | KIter => p = IRead
  | KRemove k => p = RRead k
  | KRemoveRange lo hi => p = RRRead lo hi
  | _ => True
  end.
(* the call executed by a reader in mode md *)
Definition rd_call (k : bytes) (md : rmode) : ccall :=
  match md with MFull => KGet k | MSize => KGetSize k | MRange a b => KGetRange k a b end.

Lemma lin_pc_gread k md : lin_pc (rd_call k md) (GRead k md).
Proof. destruct md; cbn [rd_call lin_pc]; [left; reflexivity|reflexivity|left; reflexivity]. Qed.
Lemma lin_pc_rd k md it p : pre_open md it = None -> rd_pc k md p -> lin_pc (rd_call k md) p.
Proof. destruct md; cbn [rd_call lin_pc pre_open]; [auto|discriminate|auto]. Qed.
Lemma can_err_rd k md it : pre_open md it = None -> can_err (rd_call k md) = true.
Proof. destruct md; cbn [rd_call can_err pre_open]; [reflexivity|discriminate|reflexivity]. Qed.
Lemma writes_rd k md r : writes (rd_call k md) r = false.
Proof. destruct md; reflexivity. Qed.
Lemma observes_rd k md : observes (rd_call k md) = true.
Proof. destruct md; reflexivity. Qed.

Lemma classic_wlockw (p : pc) : (exists w, p = WLockW w) \/ (forall w, p <> WLockW w).
Proof. destruct p; try (right; intros w0 E; discriminate E). left. eexists. reflexivity. Qed.

Section Lin.
  Variable H : bytes -> bytes.
  Variable cmp : bytes -> bytes -> comparison.
  Hypothesis cmp_refl : forall a, cmp a a = Eq.
  Hypothesis cmp_eq : forall a b, cmp a b = Eq -> a = b.
  Hypothesis cmp_antisym : forall a b, cmp b a = CompOpp (cmp a b).
  Hypothesis cmp_trans : forall a b c, cmp a b = Lt -> cmp b c = Lt -> cmp a c = Lt.
  Variable nops : N.
  Variable bad : bytes -> bool.
  Variable ckbad : bool.
  Variable thr0 : list (nat * list ccall).
  Hypothesis thr0_nodup : NoDup (map fst thr0).
  Variable cas0 : smap bytes.
  Hypothesis cas0_sorted : sorted lex_cmp cas0.
  Hypothesis cas0_named : forall h c, In (h, c) cas0 -> H c = h.
  Hypothesis NoCollideC :
    forall a b, In a (allc thr0 cas0) -> In b (allc thr0 cas0) -> H a = H b -> a = b.

  Local Notation KX L := (L cmp cmp_refl cmp_eq cmp_antisym cmp_trans) (only parsing).
  Local Notation Inv := (ConcInv H cmp bad thr0 cas0).
  Local Notation Reach := (reachable H cmp nops bad ckbad thr0 cas0).
  Local Notation step := (cstep H cmp nops bad ckbad).
  Local Notation run := (crun H cmp nops bad ckbad).
  Local Notation g0 := (init_c thr0 cas0).

  Lemma rinv' g : Reach g -> Inv g.
  Proof. apply reachable_inv; assumption. Qed.

  (* ---------------------------------------------------------------------------------- *)
  (* the trace of a run *)

  Definition cnext (g : cstate) (t : nat) : cstate :=
    match step g t with Some g' => g' | None => g end.

  Fixpoint ctrace (g : cstate) (sched : list nat) : list cstate :=
    g :: match sched with [] => [] | t :: r => ctrace (cnext g t) r end.

  Lemma crun_cons g t r : run g (t :: r) = run (cnext g t) r.
  Proof. unfold cnext. cbn [crun]. destruct (step g t); reflexivity. Qed.

  Lemma crun_app a : forall g b, run g (a ++ b) = run (run g a) b.
  Proof.
    induction a as [|t a IH]; intros g b; [reflexivity|].
    cbn [app]. rewrite !crun_cons. apply IH.
  Qed.

  Lemma ctrace_length sched : forall g, length (ctrace g sched) = S (length sched).
  Proof. induction sched as [|t r IH]; intros g; cbn [ctrace length]; [reflexivity|]. rewrite IH. reflexivity. Qed.

  (* the i-th state of the trace is the state reached by the first i entries of the schedule *)
  Lemma ctrace_nth sched : forall g i, (i <= length sched)%nat ->
    nth_error (ctrace g sched) i = Some (run g (firstn i sched)).
  Proof.
    induction sched as [|t r IH]; intros g i Hi; cbn [length] in Hi.
    - assert (i = 0%nat) by lia. subst i. reflexivity.
    - destruct i as [|i]; [reflexivity|].
      cbn [ctrace nth_error firstn]. rewrite crun_cons. apply IH. lia.
  Qed.

  Lemma ctrace_last sched : forall g d, last (ctrace g sched) d = run g sched.
  Proof.
    induction sched as [|t r IH]; intros g d; [reflexivity|].
    rewrite crun_cons, <- (IH (cnext g t) d).
    change (ctrace g (t :: r)) with (g :: ctrace (cnext g t) r).
    destruct r; reflexivity.
  Qed.

  Lemma ctrace_In sched : forall g g', In g' (ctrace g sched) ->
    exists i, (i <= length sched)%nat /\ g' = run g (firstn i sched).
  Proof.
    intros g g' I. apply In_nth_error in I. destruct I as [i E].
    assert (Hi : (i < length (ctrace g sched))%nat) by (apply nth_error_Some; congruence).
    rewrite ctrace_length in Hi. exists i. split; [lia|].
    rewrite ctrace_nth in E by lia. congruence.
  Qed.

  Lemma ctrace_reachable sched g : In g (ctrace g0 sched) -> Reach g.
  Proof. intros I. apply ctrace_In in I. destruct I as (i & _ & ->). eexists. reflexivity. Qed.

  (* consecutive states of the trace are related by a (possibly stuttering) step *)
  Lemma ctrace_step sched g i gi gi' :
    nth_error (ctrace g sched) i = Some gi -> nth_error (ctrace g sched) (S i) = Some gi' ->
    exists t, nth_error sched i = Some t /\ gi' = cnext gi t.
  Proof.
    intros E1 E2.
    assert (Hi : (S i < length (ctrace g sched))%nat) by (apply nth_error_Some; congruence).
    rewrite ctrace_length in Hi.
    rewrite ctrace_nth in E1, E2 by lia.
    assert (X1 : gi = run g (firstn i sched)) by congruence.
    assert (X2 : gi' = run g (firstn (S i) sched)) by congruence.
    clear E1 E2. subst gi gi'.
    exists (nth i sched 0%nat). split; [apply nth_error_nth'; lia|].
    rewrite (firstn_S_nth sched 0%nat) by lia. rewrite crun_app. apply crun_cons.
  Qed.

  (* ---------------------------------------------------------------------------------- *)
  (* when does a key map m justify the result r of a call c *)
  Definition lin_spec0 (c : ccall) (r : cres) (m : smap item) : Prop :=
    match c with
    | KPut _ _ | KAbort _ _ | KCheckpoint => r = CUnit
    | KRemove k => r = CBool (match sm_get cmp m k with Some _ => true | None => false end)
    | KRemoveRange lo hi => r = CNum (N.of_nat (length (keys_in cmp m lo hi)))
    | KGet k =>
      match sm_get cmp m k with
      | None => r = CBytes None
      | Some it => exists x, r = CBytes (Some x) /\ In x (allc thr0 cas0) /\
                             H x = ihash it /\ len x = isize it
      end
    | KGetSize k => r = CSize (option_map isize (sm_get cmp m k))
    | KGetRange k a b =>
      (* the sequential get_range on the item of k: the exits decided from the item alone
         (empty range, invalid range), else the slice [a, min b size) of the item's blob *)
      match sm_get cmp m k with
      | None => r = CBytes None
      | Some it =>
        match pre_open (MRange a b) it with
        | Some r' => r = r'
        | None => exists x, r = CBytes (Some (slice x a (N.min b (isize it)))) /\
                            In x (allc thr0 cas0) /\ H x = ihash it /\ len x = isize it
        end
      end
    | KIter => r = CKeys (map fst m)
    | KDelOrphans _ => exists d s, r = COrphans d s
    end.
  (* the three reads at once: what key map m allows a read of k in mode md to return *)
  Definition rd_spec (md : rmode) (k : bytes) (r : cres) (m : smap item) : Prop :=
    match sm_get cmp m k with
    | None => r = absent_result md
    | Some it =>
      match pre_open md it with
      | Some r' => r = r'
      | None => exists x, r = read_result md it x /\ In x (allc thr0 cas0) /\
                          H x = ihash it /\ len x = isize it
      end
    end.
  Lemma rd_spec_lin md k r m : rd_spec md k r m -> lin_spec0 (rd_call k md) r m.
  Proof.
    unfold rd_spec. destruct md as [| |a b]; cbn [rd_call lin_spec0 pre_open absent_result read_result].
    - destruct (sm_get cmp m k); auto.
    - destruct (sm_get cmp m k); cbn [option_map]; auto.
    - destruct (sm_get cmp m k); auto.
  Qed.
  (* ... or the call is one that can fail and it returned the I/O error *)
  Definition lin_spec (c : ccall) (r : cres) (m : smap item) : Prop :=
    (can_err c = true /\ r = CErr) \/ lin_spec0 c r m.

  Lemma lin_ok c r m : lin_spec0 c r m -> lin_spec c r m.
  Proof. intros X. right. exact X. Qed.
  Lemma lin_err c m : can_err c = true -> lin_spec c CErr m.
  Proof. intros X. left. split; [exact X|reflexivity]. Qed.
  Lemma lin_inv c r m : lin_spec c r m -> r <> CErr -> lin_spec0 c r m.
  Proof. intros [[_ X]|X] N; [contradiction|exact X]. Qed.
  Lemma lin_inv' c r m : can_err c = false -> lin_spec c r m -> lin_spec0 c r m.
  Proof. intros E [[X _]|X]; [congruence|exact X]. Qed.

  (* the content found by open_blob under the hash of a valid item is the item's content *)
  Lemma open_content g it c : Inv g -> valid_item H thr0 cas0 it ->
    sm_get lex_cmp (g_cas g) (ihash it) = Some c ->
    In c (allc thr0 cas0) /\ H c = ihash it /\ len c = isize it.
  Proof.
    intros I (c0 & Ic0 & Hh0 & Hl0) G.
    apply (lex_get_in _ _ _ (ci_cas_sorted _ _ _ _ _ _ I)) in G.
    destruct (ci_cas_named _ _ _ _ _ _ I _ _ G) as [Hh Ic].
    assert (c0 = c) by (apply NoCollideC; try assumption; congruence).
    subst c0. repeat split; assumption.
  Qed.

  (* the shape of a step of thread t, as seen on its own tstate *)
  Definition is_idle (p : pc) : bool := match p with Idle => true | _ => false end.

  Definition shape (ts ts' : tstate) : Prop :=
    if is_idle (t_pc ts) then
      exists c, t_calls ts = c :: t_calls ts' /\
        (if immediate c then t_pc ts' = Idle /\ exists r, t_res ts' = t_res ts ++ [r]
         else is_idle (t_pc ts') = false /\ t_res ts' = t_res ts)
    else
      t_calls ts' = t_calls ts /\
      ((is_idle (t_pc ts') = false /\ t_res ts' = t_res ts) \/
       (t_pc ts' = Idle /\ exists r, t_res ts' = t_res ts ++ [r])).

  Ltac head_destruct :=
    repeat (match goal with
            | |- (match ?x with _ => _ end = _) -> _ => destruct x eqn:?
            end).

  Lemma cstep_shape g t g' ts : step g t = Some g' -> tget (g_thr g) t = Some ts ->
    exists ts', g_thr g' = tset (g_thr g) t ts' /\ shape ts ts'.
  Proof.
    intros St Ht. revert St. unfold cstep. rewrite Ht. unfold shape.
    destruct (t_pc ts) eqn:Hpc; head_destruct; try discriminate;
      intros E; injection E as <-; (eexists; split; [reflexivity|]);
      cbn [is_idle t_pc t_calls t_res];
      first [ solve [eexists; split; [reflexivity|]; cbn [immediate];
                     first [split; reflexivity | split; [reflexivity|eexists; reflexivity]]]
            | solve [split; [reflexivity|];
                     first [left; split; reflexivity
                           | right; split; [reflexivity|eexists; reflexivity]]] ].
  Qed.

  (* the pcs of the second half of a write, after its operation has been applied *)
  Definition applied_pc (p : pc) : bool :=
    match p with
    | WApplied _ _ _ | WUnlink _ _ _ | WReleased _ _ => true
    | WCkS _ e | WCkW _ e => match e with N0 => false | Npos _ => true end
    | _ => false
    end.

  Lemma cstep_applied g t g' ts : step g t = Some g' -> tget (g_thr g) t = Some ts ->
    exists ts', g_thr g' = tset (g_thr g) t ts' /\
      ((t_pc ts' = Idle /\ exists r, t_res ts' = t_res ts ++ [r] /\
          (applied_pc (t_pc ts) = true ->
             (exists w, t_pc ts = WReleased w false /\ r = wres w) \/
             (exists e, t_pc ts = WCkW r (Npos e)) \/ r = CErr)) \/
       (t_res ts' = t_res ts /\
        (applied_pc (t_pc ts) = true -> applied_pc (t_pc ts') = true) /\
        (forall w, t_pc ts = WLockW w -> applied_pc (t_pc ts') = true))).
  Proof.
    intros St Ht. revert St. unfold cstep. rewrite Ht.
    destruct (t_pc ts) eqn:Hpc; head_destruct; try discriminate;
      intros E; injection E as <-; (eexists; split; [reflexivity|]);
      cbn [t_pc t_res applied_pc];
      first [ solve [left; split; [reflexivity|]; eexists; split; [reflexivity|];
                     intros X; first [discriminate X
                                     | left; eexists; split; reflexivity
                                     | right; right; reflexivity
                                     | right; left; eexists; reflexivity
                                     | right; destruct who; [discriminate X|];
                                       left; eexists; reflexivity
                                     | right; destruct who; [discriminate X|];
                                       destruct ckbad; [right; reflexivity|left];
                                       eexists; reflexivity ]]
            | solve [right; split; [reflexivity|]; split;
                     [intros X; first [exact X | reflexivity | discriminate X
                                      | destruct w; reflexivity]
                     |intros w0 X; first [discriminate X | reflexivity]]] ].
  Qed.

  (* ---------------------------------------------------------------------------------- *)
  (* folds of kstep *)

  Lemma fold_del_sorted ks : forall m : smap item,
    sorted cmp m -> sorted cmp (fold_left (fun m k => sm_del cmp m k) ks m).
  Proof.
    induction ks as [|a ks IH]; intros m S; cbn [fold_left]; [exact S|].
    apply IH. apply (KX sorted_del). exact S.
  Qed.

  Lemma fold_del_other ks k : forall m : smap item, sorted cmp m -> ~ In k ks ->
    sm_get cmp (fold_left (fun m k => sm_del cmp m k) ks m) k = sm_get cmp m k.
  Proof.
    induction ks as [|a ks IH]; intros m S NI; cbn [fold_left]; [reflexivity|].
    rewrite IH.
    - apply (KX get_del_other); [|exact S]. intros E. apply NI. left. congruence.
    - apply (KX sorted_del). exact S.
    - intros I. apply NI. right. exact I.
  Qed.

  Lemma kstep_sorted m o : sorted cmp m -> sorted cmp (kstep cmp m o).
  Proof.
    intros S. destruct o as [k h sz|ks]; cbn [kstep].
    - apply (KX sorted_ins). exact S.
    - apply fold_del_sorted, S.
  Qed.

  Lemma kstep_untouched m o k : sorted cmp m -> ~ touches o k ->
    sm_get cmp (kstep cmp m o) k = sm_get cmp m k.
  Proof.
    intros S NT. destruct o as [k' h sz|ks]; cbn [kstep touches] in *.
    - apply (KX get_ins_other); [|exact S]. intros E. apply NT. congruence.
    - apply fold_del_other; assumption.
  Qed.

  Lemma fold_kstep_sorted l : forall m, sorted cmp m -> sorted cmp (fold_left (kstep cmp) l m).
  Proof.
    induction l as [|o l IH]; intros m S; cbn [fold_left]; [exact S|].
    apply IH, kstep_sorted, S.
  Qed.

  Lemma fold_kstep_untouched l k : forall m, sorted cmp m ->
    (forall o, In o l -> ~ touches o k) ->
    sm_get cmp (fold_left (kstep cmp) l m) k = sm_get cmp m k.
  Proof.
    induction l as [|o l IH]; intros m S NT; cbn [fold_left]; [reflexivity|].
    rewrite IH.
    - apply kstep_untouched; [exact S|]. apply NT. left; reflexivity.
    - apply kstep_sorted, S.
    - intros o' I. apply NT. right; exact I.
  Qed.

  Lemma touches_dec o k : {touches o k} + {~ touches o k}.
  Proof.
    destruct o as [k' h sz|ks]; cbn [touches].
    - apply key_eq_dec.
    - apply (in_dec key_eq_dec).
  Qed.

  Lemma touch_split (l : list rawop) k :
    (forall o, In o l -> ~ touches o k) \/ (exists o, In o l /\ touches o k).
  Proof.
    induction l as [|o l IH]; [left; intros o []|].
    destruct (touches_dec o k) as [T|T]; [right; exists o; split; [left; reflexivity|exact T]|].
    destruct IH as [IH|(o' & I & T')].
    - left. intros o' [<-|I]; [exact T|apply IH, I].
    - right. exists o'. split; [right; exact I|exact T'].
  Qed.

  Lemma StronglySorted_app_r {A} (R : A -> A -> Prop) (l1 l2 : list A) :
    StronglySorted R (l1 ++ l2) -> StronglySorted R l2.
  Proof.
    induction l1 as [|a l1 IH]; cbn [app]; [auto|].
    intros S. inversion S; subst. apply IH. assumption.
  Qed.

  (* the existence of a thread is preserved by runs *)
  Lemma tget_run t sched : forall g, tget (g_thr g) t <> None -> tget (g_thr (run g sched)) t <> None.
  Proof.
    induction sched as [|u r IH]; intros g E; [exact E|].
    rewrite crun_cons. apply IH. unfold cnext.
    destruct (step g u) as [g'|] eqn:St; [|exact E].
    destruct (Nat.eq_dec t u) as [->|N].
    - destruct (tget (g_thr g) u) as [ts|] eqn:Ht; [|contradiction].
      destruct (cstep_shape _ _ _ _ St Ht) as (ts' & Et & _). rewrite Et, tget_tset_same. discriminate.
    - rewrite (cstep_frame_other H cmp nops bad ckbad _ _ _ _ St N). exact E.
  Qed.

  (* ---------------------------------------------------------------------------------- *)
  Section Trace.
    Variable sched : list nat.

    Definition st (i : nat) : cstate := run g0 (firstn i sched).
    Definition who (i : nat) : nat := nth i sched 0%nat.
    Definition NN : nat := length sched.

    Definition tst (i t : nat) : option tstate := tget (g_thr (st i)) t.
    Definition kmap (i : nat) : smap item := km (g_idx (st i)).
    Definition prog (t : nat) : list ccall :=
      match tget (g_thr g0) t with Some ts => t_calls ts | None => [] end.

    Lemma st_0 : st 0 = g0.
    Proof. reflexivity. Qed.

    Lemma st_S i : (i < NN)%nat -> st (S i) = cnext (st i) (who i).
    Proof.
      intros Hi. unfold st, who. rewrite (firstn_S_nth sched 0%nat) by exact Hi.
      rewrite crun_app. apply crun_cons.
    Qed.

    Lemma st_final : st NN = run g0 sched.
    Proof. unfold st, NN. rewrite firstn_all. reflexivity. Qed.

    Lemma st_reach i : Reach (st i).
    Proof. eexists. reflexivity. Qed.

    Lemma st_inv i : Inv (st i).
    Proof. apply rinv', st_reach. Qed.

    Lemma st_trace i : (i <= NN)%nat -> nth_error (ctrace g0 sched) i = Some (st i).
    Proof. intros Hi. apply ctrace_nth, Hi. Qed.

    Lemma prog_thr0 t cs : In (t, cs) thr0 -> prog t = cs.
    Proof.
      intros I. unfold prog, init_c. cbn [g_thr].
      rewrite (In_tget _ t (mkT cs Idle [])); [reflexivity| |].
      - rewrite map_map. cbn [fst]. exact thr0_nodup.
      - apply in_map_iff. exists (t, cs). split; [reflexivity|exact I].
    Qed.

    (* ------------------------------------------------------------------------------ *)
    (* one step of the trace *)

    Lemma st_S_none i : (i < NN)%nat -> step (st i) (who i) = None -> st (S i) = st i.
    Proof. intros Hi E. rewrite (st_S i Hi). unfold cnext. rewrite E. reflexivity. Qed.

    Lemma st_S_some i g' : (i < NN)%nat -> step (st i) (who i) = Some g' -> st (S i) = g'.
    Proof. intros Hi E. rewrite (st_S i Hi). unfold cnext. rewrite E. reflexivity. Qed.

    Lemma tst_other i t : (i < NN)%nat -> t <> who i -> tst (S i) t = tst i t.
    Proof.
      intros Hi Nt. unfold tst. destruct (step (st i) (who i)) as [g'|] eqn:E.
      - rewrite (st_S_some i g' Hi E). eapply cstep_frame_other; eassumption.
      - rewrite (st_S_none i Hi E). reflexivity.
    Qed.

    Lemma step_needs_thread g t : tget (g_thr g) t = None -> step g t = None.
    Proof. intros E. unfold cstep. rewrite E. reflexivity. Qed.

    (* the thread that moves: its new tstate *)
    Lemma tst_self i g' ts : (i < NN)%nat -> step (st i) (who i) = Some g' ->
      tst i (who i) = Some ts ->
      exists ts', tst (S i) (who i) = Some ts' /\ tget (g_thr g') (who i) = Some ts' /\
                  shape ts ts'.
    Proof.
      intros Hi E Ht. destruct (cstep_shape _ _ _ _ E Ht) as (ts' & Et & Sh).
      exists ts'. unfold tst. rewrite (st_S_some i g' Hi E), Et, tget_tset_same.
      split; [reflexivity|split; [reflexivity|exact Sh]].
    Qed.

    (* ------------------------------------------------------------------------------ *)
    (* P1: call intervals *)

    (* step s is the step by which thread t leaves Idle taking its j-th call, which is c *)
    Definition starts_at (s t j : nat) (c : ccall) : Prop :=
      (s < NN)%nat /\ who s = t /\
      exists ts, tst s t = Some ts /\ t_pc ts = Idle /\ length (t_res ts) = j /\
                 hd_error (t_calls ts) = Some c.

    (* step e is the step by which the j-th result of thread t, r, is appended *)
    Definition ends_at (e t j : nat) (r : cres) : Prop :=
      (e < NN)%nat /\ who e = t /\
      exists ts ts', tst e t = Some ts /\ tst (S e) t = Some ts' /\ length (t_res ts) = j /\
                     t_res ts' = t_res ts ++ [r].

    (* step q is a step of thread t, parked at the pc where call c observes the key map *)
    Definition own (q t : nat) (c : ccall) : Prop :=
      (q < NN)%nat /\ who q = t /\ exists ts, tst q t = Some ts /\ lin_pc c (t_pc ts).

    (* progress measure of a thread: 2 * finished calls + 1 if a call is in progress *)
    Definition mu (ts : tstate) : nat :=
      (2 * length (t_res ts) + (if is_idle (t_pc ts) then 0 else 1))%nat.
    Definition mu_at (i t : nat) : nat := match tst i t with Some ts => mu ts | None => 0%nat end.
    Definition rl_at (i t : nat) : nat :=
      match tst i t with Some ts => length (t_res ts) | None => 0%nat end.

    Lemma shape_mu ts ts' : shape ts ts' ->
      (mu ts <= mu ts')%nat /\ (length (t_res ts) <= length (t_res ts'))%nat /\
      (t_pc ts = Idle -> (mu ts < mu ts')%nat).
    Proof.
      unfold shape, mu. destruct (is_idle (t_pc ts)) eqn:Ei.
      - intros (c & _ & Hc). destruct (immediate c).
        + destruct Hc as (-> & r & ->). rewrite app_length. cbn [length is_idle]. lia.
        + destruct Hc as (-> & ->). lia.
      - intros (_ & [(-> & ->)|(-> & r & ->)]).
        + split; [lia|]. split; [lia|]. intros E. rewrite E in Ei. discriminate.
        + rewrite app_length. cbn [length is_idle]. split; [lia|]. split; [lia|].
          intros E. rewrite E in Ei. discriminate.
    Qed.

    Lemma mu_rl_S i t : (i < NN)%nat ->
      (mu_at i t <= mu_at (S i) t)%nat /\ (rl_at i t <= rl_at (S i) t)%nat.
    Proof.
      intros Hi. unfold mu_at, rl_at. destruct (Nat.eq_dec t (who i)) as [->|Nt].
      2:{ rewrite (tst_other i t Hi Nt). split; lia. }
      destruct (step (st i) (who i)) as [g'|] eqn:E.
      2:{ unfold tst. rewrite (st_S_none i Hi E). split; lia. }
      destruct (tst i (who i)) as [ts|] eqn:Ht.
      2:{ unfold tst in Ht. rewrite (step_needs_thread _ _ Ht) in E. discriminate. }
      destruct (tst_self i g' ts Hi E Ht) as (ts' & Ht' & _ & Sh). rewrite Ht'.
      destruct (shape_mu _ _ Sh) as (A & B & _). split; assumption.
    Qed.

    Lemma mono_le (f : nat -> nat) : (forall i, (i < NN)%nat -> (f i <= f (S i))%nat) ->
      forall i i', (i <= i')%nat -> (i' <= NN)%nat -> (f i <= f i')%nat.
    Proof.
      intros Hf i i' L. induction L as [|i' L IH]; intros Hn; [lia|].
      specialize (Hf i'). lia.
    Qed.

    Lemma mu_mono t i i' : (i <= i')%nat -> (i' <= NN)%nat -> (mu_at i t <= mu_at i' t)%nat.
    Proof. apply (mono_le (fun i => mu_at i t)). intros j Hj. apply mu_rl_S, Hj. Qed.

    Lemma rl_mono t i i' : (i <= i')%nat -> (i' <= NN)%nat -> (rl_at i t <= rl_at i' t)%nat.
    Proof. apply (mono_le (fun i => rl_at i t)). intros j Hj. apply mu_rl_S, Hj. Qed.

    (* the step that takes a call always succeeds *)
    Lemma starts_step s t j c : starts_at s t j c ->
      (mu_at s t = 2 * j)%nat /\ (mu_at s t < mu_at (S s) t)%nat.
    Proof.
      intros (Hs & <- & ts & Ht & Hpc & Hj & Hc).
      unfold mu_at at 1 2. rewrite Ht. unfold mu at 1 2. rewrite Hpc, Hj. cbn [is_idle].
      split; [lia|].
      assert (E : exists g', step (st s) (who s) = Some g').
      { unfold cstep. unfold tst in Ht. rewrite Ht, Hpc.
        destruct (t_calls ts) as [|c0 rest]; [discriminate|].
        destruct c0; try (eexists; reflexivity). destruct hs; eexists; reflexivity. }
      destruct E as (g' & E).
      destruct (tst_self s g' ts Hs E Ht) as (ts' & Ht' & _ & Sh).
      unfold mu_at. rewrite Ht'. destruct (shape_mu _ _ Sh) as (_ & _ & C).
      specialize (C Hpc). unfold mu in C at 1. rewrite Hpc, Hj in C. cbn [is_idle] in C. lia.
    Qed.

    Theorem starts_at_unique s s' t j c c' :
      starts_at s t j c -> starts_at s' t j c' -> s = s' /\ c = c'.
    Proof.
      intros A B.
      assert (E : s = s').
      { destruct (starts_step _ _ _ _ A) as [A1 A2]. destruct (starts_step _ _ _ _ B) as [B1 B2].
        destruct A as (HA & _). destruct B as (HB & _).
        destruct (Nat.lt_trichotomy s s') as [L|[L|L]]; [|exact L|].
        - pose proof (mu_mono t (S s) s' ltac:(lia) ltac:(lia)). lia.
        - pose proof (mu_mono t (S s') s ltac:(lia) ltac:(lia)). lia. }
      subst s'. split; [reflexivity|].
      destruct A as (_ & _ & ts & Ht & _ & _ & Hc). destruct B as (_ & _ & ts2 & Ht2 & _ & _ & Hc2).
      rewrite Ht in Ht2. injection Ht2 as <-. congruence.
    Qed.

    Theorem ends_at_unique e e' t j r r' :
      ends_at e t j r -> ends_at e' t j r' -> e = e' /\ r = r'.
    Proof.
      intros A B.
      assert (X : forall e1 e2 r1 r2, ends_at e1 t j r1 -> ends_at e2 t j r2 -> ~ (e1 < e2)%nat).
      { intros e1 e2 r1 r2 (H1 & _ & ts1 & ts1' & _ & G1 & L1 & R1) (H2 & _ & ts2 & _ & G2 & _ & L2 & _) L.
        pose proof (rl_mono t (S e1) e2 ltac:(lia) ltac:(lia)) as M.
        unfold rl_at in M. rewrite G1, G2, R1, app_length in M. cbn [length] in M. lia. }
      assert (E : e = e').
      { destruct (Nat.lt_trichotomy e e') as [L|[L|L]]; [|exact L|]; exfalso.
        - eapply X; [exact A|exact B|exact L].
        - eapply X; [exact B|exact A|exact L]. }
      subst e'. split; [reflexivity|].
      destruct A as (_ & _ & ts & ts' & G1 & G2 & _ & R1).
      destruct B as (_ & _ & ts2 & ts2' & G3 & G4 & _ & R2).
      rewrite G1 in G3. injection G3 as <-. rewrite G2 in G4. injection G4 as <-.
      rewrite R1 in R2. apply app_inv_head in R2. congruence.
    Qed.

    (* a call does not end before it starts *)
    Lemma start_le_end s e t j c r : starts_at s t j c -> ends_at e t j r -> (s <= e)%nat.
    Proof.
      intros A (He & _ & ts & ts' & G1 & G2 & L1 & R1).
      destruct (starts_step _ _ _ _ A) as [A1 A2]. destruct A as (Hs & _).
      destruct (Nat.le_gt_cases s e) as [L|L]; [exact L|exfalso].
      pose proof (mu_mono t (S e) s ltac:(lia) ltac:(lia)) as M.
      unfold mu_at in M at 1. rewrite G2 in M. unfold mu in M at 1.
      rewrite R1, app_length in M. cbn [length] in M. lia.
    Qed.

    (* ------------------------------------------------------------------------------ *)
    (* the write log: the operations applied by the WLockW steps, in step order *)

    Definition wev (i : nat) : list wlent :=
      match tst i (who i) with
      | Some ts =>
        match t_pc ts with
        | WLockW w => [mkWl i (who i) (length (t_res ts)) (wop w)]
        | _ => []
        end
      | None => []
      end.

    Fixpoint wlog (n : nat) : list wlent :=
      match n with O => [] | S i => wlog i ++ wev i end.

    Lemma wev_at i ts w : tst i (who i) = Some ts -> t_pc ts = WLockW w ->
      wev i = [mkWl i (who i) (length (t_res ts)) (wop w)].
    Proof. intros Ht Hpc. unfold wev. rewrite Ht, Hpc. reflexivity. Qed.

    Lemma wev_nil i ts : tst i (who i) = Some ts -> (forall w, t_pc ts <> WLockW w) -> wev i = [].
    Proof.
      intros Ht Hpc. unfold wev. rewrite Ht. destruct (t_pc ts); try reflexivity.
      exfalso. eapply Hpc. reflexivity.
    Qed.

    Lemma wev_In i e : In e (wev i) ->
      wl_p e = i /\ wl_t e = who i /\
      exists ts w, tst i (who i) = Some ts /\ t_pc ts = WLockW w /\
                   wl_j e = length (t_res ts) /\ wl_o e = wop w.
    Proof.
      unfold wev. destruct (tst i (who i)) as [ts|] eqn:Ht; [|intros []].
      destruct (t_pc ts) eqn:Hpc; try solve [intros []].
      intros [<-|[]]. cbn [wl_p wl_t wl_j wl_o]. split; [reflexivity|]. split; [reflexivity|].
      exists ts, w. split; [reflexivity|]. split; [exact Hpc|]. split; reflexivity.
    Qed.

    Lemma wlog_mono n n' e : (n <= n')%nat -> In e (wlog n) -> In e (wlog n').
    Proof.
      intros L. induction L as [|n' L IH]; intros I; [exact I|].
      cbn [wlog]. apply in_or_app. left. apply IH, I.
    Qed.

    Lemma wlog_lt n e : In e (wlog n) -> (wl_p e < n)%nat.
    Proof.
      induction n as [|n IH]; cbn [wlog]; [intros []|].
      intros I. apply in_app_or in I. destruct I as [I|I].
      - specialize (IH I). lia.
      - apply wev_In in I. destruct I as (E & _). lia.
    Qed.

    (* the log at position n is the part of any later log made of the steps before n *)
    Lemma wlog_cut n n' e : (n <= n')%nat -> In e (wlog n') -> (wl_p e < n)%nat -> In e (wlog n).
    Proof.
      intros L. induction L as [|n' L IH]; intros I P; [exact I|].
      cbn [wlog] in I. apply in_app_or in I. destruct I as [I|I]; [apply IH; assumption|].
      apply wev_In in I. destruct I as (E & _). lia.
    Qed.

    (* the step indices of the log are strictly increasing *)
    Lemma wlog_sorted n : StronglySorted lt (map wl_p (wlog n)).
    Proof.
      induction n as [|n IH]; cbn [wlog map]; [constructor|].
      rewrite map_app.
      assert (X : forall l2, (forall x, In x l2 -> x = n) -> (length l2 <= 1)%nat ->
                  StronglySorted lt (map wl_p (wlog n) ++ l2)).
      { intros l2 Hl2 Hlen.
        assert (B : forall x, In x (map wl_p (wlog n)) -> (x < n)%nat).
        { intros x Ix. apply in_map_iff in Ix. destruct Ix as (e & <- & Ie). apply wlog_lt, Ie. }
        revert IH B. generalize (map wl_p (wlog n)). intros l1.
        induction l1 as [|a l1 IHl]; intros S1 B; cbn [app].
        - destruct l2 as [|x [|y l2]]; [constructor|repeat constructor|cbn [length] in Hlen; lia].
        - inversion S1 as [|? ? S1' F1]; subst. constructor.
          + apply IHl; [exact S1'|]. intros x Ix. apply B. right; exact Ix.
          + apply Forall_app. split; [exact F1|]. apply Forall_forall. intros x Ix.
            rewrite (Hl2 x Ix). apply B. left; reflexivity. }
      apply X.
      - intros x Ix. apply in_map_iff in Ix. destruct Ix as (e & <- & Ie).
        apply wev_In in Ie. apply Ie.
      - unfold wev. destruct (tst n (who n)) as [ts|]; [|cbn; lia].
        destruct (t_pc ts); cbn; lia.
    Qed.

    (* P3': the key map at every position is the fold of the operations logged so far *)
    Theorem C05_km_is_fold_of_writes n : (n <= NN)%nat ->
      kmap n = fold_left (kstep cmp) (map wl_o (wlog n)) [].
    Proof.
      induction n as [|n IH]; intros Hn; [reflexivity|].
      specialize (IH ltac:(lia)). assert (Hn' : (n < NN)%nat) by lia.
      cbn [wlog]. rewrite map_app, fold_left_app, <- IH. clear IH.
      destruct (tst n (who n)) as [ts|] eqn:Ht.
      2:{ unfold kmap. rewrite (st_S_none n Hn').
          - unfold wev. rewrite Ht. reflexivity.
          - apply step_needs_thread. exact Ht. }
      destruct (classic_wlockw (t_pc ts)) as [(w & Hpc)|Hpc].
      - rewrite (wev_at n ts w Ht Hpc). cbn [map fold_left wl_o].
        destruct (C04_apply_never_panics H cmp cmp_refl cmp_eq cmp_antisym cmp_trans nops bad ckbad thr0
                    thr0_nodup cas0 cas0_sorted cas0_named NoCollideC (st n) (who n) ts w
                    (st_reach n) Ht Hpc) as (_ & _ & idx' & un & Ea).
        assert (Es : step (st n) (who n) =
                     Some (mkC idx' (g_bykey (st n)) (g_byhash (st n)) (g_cas (st n))
                               (g_nextv (st n) + 1) (g_I (st n)) None (g_R (st n))
                               (tset (g_thr (st n)) (who n)
                                  (mkT (t_calls ts)
                                     (WApplied w un
                                        (negb ((if g_nextv (st n) - 1 =? 0 then 0
                                                else seg_ofc nops (g_nextv (st n) - 1))
                                               =? seg_ofc nops (g_nextv (st n)))))
                                     (t_res ts))))).
        { unfold cstep. unfold tst in Ht. rewrite Ht, Hpc. cbn zeta. rewrite Ea. reflexivity. }
        unfold kmap. rewrite (st_S_some n _ Hn' Es). cbn [g_idx].
        destruct (KX C12_km_spec _ _ _ _ Ea) as [K _]. rewrite K.
        destruct (wop w); reflexivity.
      - rewrite (wev_nil n ts Ht Hpc). cbn [map fold_left].
        unfold kmap. destruct (step (st n) (who n)) as [g'|] eqn:E.
        + rewrite (st_S_some n g' Hn' E).
          destruct (cstep_km H cmp nops bad ckbad _ _ _ E) as [K|(ts2 & w & Ht2 & Hpc2)].
          * exact (proj1 K).
          * unfold tst in Ht. rewrite Ht in Ht2. injection Ht2 as <-.
            exfalso. apply (Hpc w). exact Hpc2.
        + rewrite (st_S_none n Hn' E). reflexivity.
    Qed.

    (* the versions handed out are dense and follow the log: the entry at index i of the log was
       written with version i + 1 (g_nextv is bumped by exactly the WLockW steps) *)
    Lemma cstep_nextv g t g' : step g t = Some g' ->
      g_nextv g' = g_nextv g \/ exists ts w, tget (g_thr g) t = Some ts /\ t_pc ts = WLockW w.
    Proof.
      unfold cstep. destruct (tget (g_thr g) t) as [ts|] eqn:Ht; [|discriminate].
      destruct (t_pc ts) eqn:Hpc;
        try (solve [cbn zeta;
                    repeat (match goal with
                            | |- (match ?x with _ => _ end = _) -> _ => destruct x
                            end); try discriminate; intros E; injection E as <-; left; reflexivity]).
      intros _. right. exists ts, w. split; [reflexivity|exact Hpc].
    Qed.

    Theorem wlog_versions n : (n <= NN)%nat ->
      g_nextv (st n) = 1 + N.of_nat (length (wlog n)).
    Proof.
      induction n as [|n IH]; intros Hn; [reflexivity|].
      specialize (IH ltac:(lia)). assert (Hn' : (n < NN)%nat) by lia.
      cbn [wlog]. rewrite app_length, Nat2N.inj_add, N.add_assoc, <- IH. clear IH.
      destruct (tst n (who n)) as [ts|] eqn:Ht.
      2:{ rewrite (st_S_none n Hn').
          - unfold wev. rewrite Ht. cbn [length]. lia.
          - apply step_needs_thread. exact Ht. }
      destruct (classic_wlockw (t_pc ts)) as [(w & Hpc)|Hpc].
      - rewrite (wev_at n ts w Ht Hpc). cbn [length].
        destruct (C04_apply_never_panics H cmp cmp_refl cmp_eq cmp_antisym cmp_trans nops bad ckbad thr0
                    thr0_nodup cas0 cas0_sorted cas0_named NoCollideC (st n) (who n) ts w
                    (st_reach n) Ht Hpc) as (_ & _ & idx' & un & Ea).
        destruct (step (st n) (who n)) as [g'|] eqn:Es.
        + rewrite (st_S_some n g' Hn' Es). revert Es.
          unfold cstep. unfold tst in Ht. rewrite Ht, Hpc. cbn zeta. rewrite Ea.
          intros E. injection E as <-. cbn [g_nextv]. lia.
        + exfalso. revert Es. unfold cstep. unfold tst in Ht. rewrite Ht, Hpc. cbn zeta. rewrite Ea.
          discriminate.
      - rewrite (wev_nil n ts Ht Hpc). cbn [length].
        destruct (step (st n) (who n)) as [g'|] eqn:E.
        + rewrite (st_S_some n g' Hn' E).
          destruct (cstep_nextv _ _ _ E) as [K|(ts2 & w & Ht2 & Hpc2)].
          * rewrite K. lia.
          * unfold tst in Ht. rewrite Ht in Ht2. injection Ht2 as <-.
            exfalso. apply (Hpc w). exact Hpc2.
        + rewrite (st_S_none n Hn' E). lia.
    Qed.

    (* every logged operation was applicable to the key map it met (the hypothesis under which
       the sequential replay of the same operations cannot fail: IndexProofs.op_respects_sizes) *)
    Theorem wlog_respects n : (n <= NN)%nat ->
      ops_resp cmp [] (map wl_o (wlog n)).
    Proof.
      induction n as [|n IH]; intros Hn; [exact I|].
      specialize (IH ltac:(lia)). assert (Hn' : (n < NN)%nat) by lia.
      cbn [wlog]. rewrite map_app. apply ops_resp_app. split; [exact IH|].
      rewrite <- (C05_km_is_fold_of_writes n ltac:(lia)).
      destruct (tst n (who n)) as [ts|] eqn:Ht; [|unfold wev; rewrite Ht; exact I].
      destruct (classic_wlockw (t_pc ts)) as [(w & Hpc)|Hpc].
      - rewrite (wev_at n ts w Ht Hpc). cbn [map wl_o ops_resp]. split; [|exact I].
        pose proof (window_respects H cmp bad thr0 cas0 (st n) (who n) ts w (rinv' _ (st_reach n)) Ht
                      (or_intror (or_intror Hpc))) as R.
        destruct (wop w); [|exact I]. exact R.
      - rewrite (wev_nil n ts Ht Hpc). exact I.
    Qed.


    (* ------------------------------------------------------------------------------ *)
    (* history attached to the pc of a call in progress: call c of thread t (its j-th),
       taken at step s, seen from position m *)

    (* the scan of a removal: what the thread found at its scan step q *)
    Definition rm_scan (q : nat) (c : ccall) (ks : list bytes) (r : cres) : Prop :=
      (exists k, c = KRemove k /\ ks = [k] /\ r = CBool true /\ sm_get cmp (kmap q) k <> None) \/
      (exists lo hi, c = KRemoveRange lo hi /\ ks = keys_in cmp (kmap q) lo hi /\ ks <> [] /\
                     r = CNum (N.of_nat (length ks))).

    Definition scanned (m s : nat) (c : ccall) (t : nat) (ks : list bytes) (r : cres) : Prop :=
      exists q, (s < q < m)%nat /\ own q t c /\ rm_scan q c ks r.
    Definition looked (m s : nat) (c : ccall) (t : nat) (k : bytes) (it : item) : Prop :=
      exists q, (s < q < m)%nat /\ own q t c /\ sm_get cmp (kmap q) k = Some it.
    Definition lin_win (m s : nat) (c : ccall) (t : nat) (r : cres) : Prop :=
      exists q, (s < q <= m)%nat /\ lin_spec c r (kmap q) /\ (observes c = true -> own q t c).
    Definition applied (m s t j : nat) (o : rawop) : Prop :=
      exists p, (s < p < m)%nat /\ In (mkWl p t j o) (wlog m).

    Definition wk_hist (m s : nat) (c : ccall) (t : nat) (w : wkind) : Prop :=
      match w with
      | WPut k h sz => exists x, c = KPut k x /\ h = H x /\ sz = len x
      | WRm ks r => scanned m s c t ks r
      end.

    Definition ck_hist (m s : nat) (c : ccall) (t j : nat) (r : cres) (e : N) : Prop :=
      match e with
      | N0 => c = KCheckpoint
      | Npos _ => writes c r = true /\ exists o, applied m s t j o
      end.

    Definition pc_hist (m s : nat) (c : ccall) (t j : nat) (p : pc) : Prop :=
      match p with
      | Idle => False
      | PReg k x | PILock k x | PRen k x _ => c = KPut k x
      | PDropI k _ _ => exists x, c = KPut k x
      | WLockI w | WLockS w | WLockW w => wk_hist m s c t w
      | WApplied w _ _ | WUnlink w _ _ | WReleased w _ =>
        wk_hist m s c t w /\ applied m s t j (wop w)
      | WCkS r e | WCkW r e => lin_win m s c t r /\ ck_hist m s c t j r e
      | RRead k => c = KRemove k
      | RScanned k => scanned m s c t [k] (CBool true)
      | RRRead lo hi => c = KRemoveRange lo hi
      | RRScanned ks =>
        exists lo hi, c = KRemoveRange lo hi /\
          exists q, (s < q < m)%nat /\ own q t c /\ ks = keys_in cmp (kmap q) lo hi
      | GRead k md => c = rd_call k md
      | GLooked k it md => c = rd_call k md /\ looked m s c t k it
      | GOpen k it md => c = rd_call k md /\ pre_open md it = None /\ looked m s c t k it
      | GReread k it md | GOpenL k it md => c = rd_call k md /\ pre_open md it = None
      | IRead => c = KIter
      | OLockI _ _ _ | ORead _ _ _ _ | OUnlink _ _ _ _ => exists hs, c = KDelOrphans hs
      end.

    Lemma scanned_mono m m' s c t ks r : (m <= m')%nat -> scanned m s c t ks r -> scanned m' s c t ks r.
    Proof. intros L (q & B & O & R). exists q. split; [lia|]. split; assumption. Qed.
    Lemma looked_mono m m' s c t k it : (m <= m')%nat -> looked m s c t k it -> looked m' s c t k it.
    Proof. intros L (q & B & O & R). exists q. split; [lia|]. split; assumption. Qed.
    Lemma lin_win_mono m m' s c t r : (m <= m')%nat -> lin_win m s c t r -> lin_win m' s c t r.
    Proof. intros L (q & B & O & R). exists q. split; [lia|]. split; assumption. Qed.
    Lemma applied_mono m m' s t j o : (m <= m')%nat -> applied m s t j o -> applied m' s t j o.
    Proof. intros L (p & B & I). exists p. split; [lia|]. eapply wlog_mono; eassumption. Qed.
    Lemma wk_hist_mono m m' s c t w : (m <= m')%nat -> wk_hist m s c t w -> wk_hist m' s c t w.
    Proof. intros L. destruct w; cbn [wk_hist]; [auto|]. apply scanned_mono, L. Qed.
    Lemma ck_hist_mono m m' s c t j r e :
      (m <= m')%nat -> ck_hist m s c t j r e -> ck_hist m' s c t j r e.
    Proof.
      intros L. destruct e; cbn [ck_hist]; [auto|]. intros (W & o & A). split; [exact W|].
      exists o. eapply applied_mono; eassumption.
    Qed.

    Lemma pc_hist_mono m m' s c t j p : (m <= m')%nat -> pc_hist m s c t j p -> pc_hist m' s c t j p.
    Proof.
      intros L. destruct p; cbn [pc_hist]; auto;
        try (apply wk_hist_mono, L);
        try (intros [A B]; split;
             [first [eapply wk_hist_mono | eapply lin_win_mono]; eassumption
             |first [eapply applied_mono | eapply ck_hist_mono]; eassumption]);
        try (intros [A B]; split; [exact A|eapply looked_mono; eassumption]);
        try (intros (A & B & C); split; [exact A|split; [exact B|eapply looked_mono; eassumption]]).
      - apply scanned_mono, L.
      - intros (lo & hi & E & q & B & O & K). exists lo, hi. split; [exact E|].
        exists q. split; [lia|]. split; assumption.
    Qed.

    (* the result carried by the second half of a write is justified by the scan *)
    Lemma wk_lin m s c t w : (s < m)%nat -> wk_hist m s c t w -> lin_win m s c t (wres w).
    Proof.
      intros L. destruct w as [k h sz|ks r]; cbn [wk_hist wres].
      - intros (x & -> & _ & _). exists m. split; [lia|]. split; [apply lin_ok; reflexivity|].
        cbn [observes]. discriminate.
      - intros (q & B & O & [(k & -> & -> & -> & G)|(lo & hi & -> & E & NE & ->)]);
          exists q; (split; [lia|]); (split; [|intros _; exact O]); apply lin_ok; cbn [lin_spec0].
        + destruct (sm_get cmp (kmap q) k); [reflexivity|contradiction].
        + rewrite E. reflexivity.
    Qed.

    Lemma wk_writes m s c t w : wk_hist m s c t w -> writes c (wres w) = true.
    Proof.
      destruct w as [k h sz|ks r]; cbn [wk_hist wres].
      - intros (x & -> & _). reflexivity.
      - intros (q & _ & _ & [(k & -> & _ & -> & _)|(lo & hi & -> & _ & NE & ->)]); cbn [writes];
          [reflexivity|].
        destruct ks as [|a l]; [contradiction|]. cbn [length].
        destruct (N.eqb_spec (N.of_nat (S (length l))) 0) as [Z|Z]; [lia|reflexivity].
    Qed.

    Lemma wk_can_err m s c t w : wk_hist m s c t w -> can_err c = true.
    Proof. intros X. eapply writes_can_err, wk_writes, X. Qed.

    (* a call that can fail may return the error at any point of its window *)
    Lemma lin_win_err m s c t r : can_err c = true -> lin_win m s c t r -> lin_win m s c t CErr.
    Proof.
      intros E (q & B & _ & O). exists q. split; [exact B|]. split; [apply lin_err, E|exact O].
    Qed.

    (* what is known when a call returns at step n *)
    Definition fin_now (n s : nat) (c : ccall) (t j : nat) (r : cres) : Prop :=
      exists q, (s < q <= n)%nat /\ lin_spec c r (kmap q) /\ (observes c = true -> own q t c) /\
        (writes c r = true -> exists p o, (s < p < n)%nat /\ In (mkWl p t j o) (wlog n)).

    Lemma own_now n ts c : (n < NN)%nat -> tst n (who n) = Some ts -> lin_pc c (t_pc ts) ->
      own n (who n) c.
    Proof. intros Hn Ht L. split; [exact Hn|]. split; [reflexivity|]. exists ts. split; assumption. Qed.


    Lemma fin_here n s c ts r : (n < NN)%nat -> (s < n)%nat -> tst n (who n) = Some ts ->
      lin_spec c r (kmap n) -> (observes c = true -> lin_pc c (t_pc ts)) ->
      writes c r = false -> fin_now n s c (who n) (length (t_res ts)) r.
    Proof.
      intros Hn Hs Ht L O W. exists n. split; [lia|]. split; [exact L|]. split.
      - intros X. apply (own_now n ts); [exact Hn|exact Ht|exact (O X)].
      - rewrite W. discriminate.
    Qed.

    Lemma fin_win n s c t j r : lin_win n s c t r ->
      (writes c r = true -> exists o, applied n s t j o) -> fin_now n s c t j r.
    Proof.
      intros (q & B & L & O) W. exists q. split; [exact B|]. split; [exact L|]. split; [exact O|].
      intros X. destruct (W X) as (o & p & Bp & Ip). exists p, o. split; assumption.
    Qed.

    Ltac step_go Ht' n :=
      head_destruct; try discriminate;
      let E := fresh "E" in
      intros E; injection E as <-; unfold finish, set_pc in Ht'; cbn [g_thr] in Ht';
      rewrite tget_tset_same in Ht'; injection Ht' as <-; cbn [t_pc t_calls t_res];
      (split; [reflexivity|]);
      try (split; [reflexivity|]; cbn [pc_hist]);
      try (eexists; split; [reflexivity|]);
      change (km (g_idx (st n))) with (kmap n) in *.

    Lemma hist_step n ts g' ts' s c :
      (n < NN)%nat -> tst n (who n) = Some ts -> step (st n) (who n) = Some g' ->
      tget (g_thr g') (who n) = Some ts' -> (s < n)%nat ->
      pc_hist n s c (who n) (length (t_res ts)) (t_pc ts) ->
      t_calls ts' = t_calls ts /\
      match t_pc ts' with
      | Idle => exists r, t_res ts' = t_res ts ++ [r] /\
                          fin_now n s c (who n) (length (t_res ts)) r
      | p' => t_res ts' = t_res ts /\ pc_hist (S n) s c (who n) (length (t_res ts)) p'
      end.
    Proof.
      intros Hn Ht St Ht' Hs Hh. pose proof (st_inv n) as I.
      pose proof Ht as Ht0. unfold tst in Ht0.
      destruct (ci_pc _ _ _ _ _ _ I _ _ Ht0) as [Pt _].
      revert St. unfold cstep. rewrite Ht0. revert Pt Hh.
      destruct (t_pc ts) eqn:Hpc; cbn [pc_ok pc_hist]; intros Pt Hh.
      - (* Idle *) contradiction.
      - (* PReg *) step_go Ht' n. exact Hh.
      - (* PILock *) step_go Ht' n. exact Hh.
      - (* PRen *) step_go Ht' n.
        + eexists. exact Hh.
        + cbn [wk_hist]. eexists. split; [exact Hh|split; reflexivity].
      - (* PDropI *) step_go Ht' n. destruct Hh as (x & ->).
        apply fin_here; try assumption; [apply lin_err; reflexivity|discriminate|reflexivity].
      - (* WLockI *) step_go Ht' n. eapply wk_hist_mono; [|exact Hh]; lia.
      - (* WLockS *) step_go Ht' n. eapply wk_hist_mono; [|exact Hh]; lia.
      - (* WLockW *) step_go Ht' n. split; [eapply wk_hist_mono; [|exact Hh]; lia|].
        exists n. split; [lia|]. cbn [wlog]. apply in_or_app. right.
        rewrite (wev_at n ts w Ht Hpc). left. reflexivity.
      - (* WApplied *) step_go Ht' n; destruct Hh as [A B];
          (split; [eapply wk_hist_mono; [|exact A]; lia|eapply applied_mono; [|exact B]; lia]).
      - (* WUnlink *) step_go Ht' n; destruct Hh as [A B];
          [apply fin_win;
             [eapply lin_win_err; [eapply wk_can_err; exact A|apply wk_lin; [exact Hs|exact A]]
             |intros _; eexists; exact B]
          | |];
          (split; [eapply wk_hist_mono; [|exact A]; lia|eapply applied_mono; [|exact B]; lia]).
      - (* WReleased *) step_go Ht' n; destruct Hh as [A B].
        + split; [eapply lin_win_mono; [|eapply wk_lin; [|exact A]]; lia|].
          pose proof (wk_writes _ _ _ _ _ A) as W.
          destruct w; cbn [ck_hist]; (split; [exact W|]); eexists;
            (eapply applied_mono; [|exact B]; lia).
        + apply fin_win; [apply wk_lin; assumption|]. intros _. eexists. exact B.
      - (* WCkS *) step_go Ht' n. destruct Hh as [A B].
        split; [eapply lin_win_mono; [|exact A]; lia|eapply ck_hist_mono; [|exact B]; lia].
      - (* WCkW *) step_go Ht' n; destruct Hh as [A B]; [|destruct ckbad].
        + (* the checkpoint is skipped *)
          apply fin_win; [exact A|].
          intros W. destruct who0; cbn [ck_hist] in B; [subst c; discriminate W|apply B].
        + apply fin_win.
          * eapply lin_win_err; [|exact A].
            destruct who0; cbn [ck_hist] in B; [subst c; reflexivity|].
            eapply writes_can_err, B.
          * intros W. destruct who0; cbn [ck_hist] in B; [subst c; discriminate W|apply B].
        + apply fin_win; [exact A|].
          intros W. destruct who0; cbn [ck_hist] in B; [subst c; discriminate W|apply B].
      - (* RRead *) step_go Ht' n; subst c.
        + exists n. split; [lia|]. split.
          { apply (own_now n ts); [assumption|assumption|rewrite Hpc; reflexivity]. }
          left. exists k. split; [reflexivity|]. split; [reflexivity|]. split; [reflexivity|].
          congruence.
        + apply fin_here; try assumption.
          * apply lin_ok; cbn [lin_spec0].
            match goal with G : sm_get cmp (kmap n) k = None |- _ => rewrite G end. reflexivity.
          * intros _. rewrite Hpc. reflexivity.
          * reflexivity.
      - (* RScanned *) step_go Ht' n. cbn [wk_hist]. eapply scanned_mono; [|exact Hh]; lia.
      - (* RRRead *) step_go Ht' n. exists lo, hi. split; [exact Hh|]. exists n. split; [lia|].
        split; [|reflexivity].
        apply (own_now n ts); [assumption|assumption|rewrite Hpc, Hh; reflexivity].
      - (* RRScanned *) step_go Ht' n; destruct Hh as (lo & hi & -> & q & B & O & K).
        + exists q. split; [lia|]. split; [apply lin_ok; cbn [lin_spec0]; rewrite <- K; reflexivity|].
          split; [intros _; exact O|]. cbn [writes]. change (0 =? 0) with true. discriminate.
        + cbn [wk_hist]. exists q. split; [lia|]. split; [exact O|]. right. exists lo, hi.
          split; [reflexivity|]. split; [exact K|]. split; [discriminate|reflexivity].
      - (* GRead *) step_go Ht' n; subst c.
        + split; [reflexivity|]. exists n. split; [lia|]. split; [|assumption].
          apply (own_now n ts); [assumption|assumption|].
          rewrite Hpc. apply lin_pc_gread.
        + apply fin_here; try assumption.
          * apply lin_ok, rd_spec_lin. unfold rd_spec.
            match goal with G : sm_get cmp (kmap n) k = None |- _ => rewrite G end. reflexivity.
          * intros _. rewrite Hpc. apply lin_pc_gread.
          * apply writes_rd.
      - (* GLooked *) step_go Ht' n.
        + destruct Hh as [-> (q & B & O & G)]. exists q. split; [lia|].
          split; [apply lin_ok, rd_spec_lin; unfold rd_spec; rewrite G;
                  match goal with G2 : pre_open md it = Some _ |- _ => rewrite G2 end; reflexivity|].
          split; [intros _; exact O|]. rewrite writes_rd. discriminate.
        + destruct Hh as [-> L]. split; [reflexivity|]. split; [assumption|].
          eapply looked_mono; [|exact L]; lia.
      - (* GOpen *) step_go Ht' n.
        + destruct Hh as (-> & Po & q & B & O & G). exists q. split; [lia|].
          split; [apply lin_err; eapply can_err_rd; exact Po|split; [intros _; exact O|]].
          rewrite writes_rd. discriminate.
        + destruct Hh as (-> & Po & q & B & O & G). exists q. split; [lia|].
          split; [|split; [intros _; exact O|rewrite writes_rd; discriminate]].
          apply lin_ok, rd_spec_lin. unfold rd_spec.
          rewrite G, Po. eexists. split; [reflexivity|]. eapply open_content; eassumption.
        + destruct Hh as (-> & Po & _). split; [reflexivity|exact Po].
      - (* GReread *) step_go Ht' n; destruct Hh as [-> Po].
        + (* the current item answers by itself *)
          apply fin_here; try assumption.
          * apply lin_ok, rd_spec_lin. unfold rd_spec.
            match goal with G : sm_get cmp (kmap n) k = Some _ |- _ => rewrite G end.
            match goal with G2 : pre_open md _ = Some _ |- _ => rewrite G2 end. reflexivity.
          * intros _. rewrite Hpc. eapply lin_pc_rd; [exact Po|]. right; left. eexists. reflexivity.
          * apply writes_rd.
        + split; [reflexivity|assumption].
        + apply fin_here; try assumption.
          * apply lin_ok, rd_spec_lin. unfold rd_spec.
            match goal with G : sm_get cmp (kmap n) k = None |- _ => rewrite G end. reflexivity.
          * intros _. rewrite Hpc. eapply lin_pc_rd; [exact Po|]. right; left. eexists. reflexivity.
          * apply writes_rd.
      - (* GOpenL *) step_go Ht' n; destruct Hh as [-> Po].
        + apply fin_here; try assumption.
          * apply lin_err. eapply can_err_rd; exact Po.
          * intros _. rewrite Hpc. eapply lin_pc_rd; [exact Po|]. right; right. eexists. reflexivity.
          * apply writes_rd.
        + apply fin_here; try assumption.
          * apply lin_ok, rd_spec_lin. unfold rd_spec. rewrite Pt, Po.
            eexists. split; [reflexivity|].
            eapply open_content; [exact I| |eassumption].
            eapply km_valid_item; eassumption.
          * intros _. rewrite Hpc. eapply lin_pc_rd; [exact Po|]. right; right. eexists. reflexivity.
          * apply writes_rd.
        + exfalso. apply (KX get_in) in Pt; [|apply (ci_idx _ _ _ _ _ _ I)].
          destruct (ci_nodangling _ _ _ _ _ _ I _ _ Pt) as (c1 & G1 & _). congruence.
      - (* IRead *) step_go Ht' n. subst c.
        apply fin_here; try assumption.
        + apply lin_ok. reflexivity.
        + intros _. rewrite Hpc. reflexivity.
        + reflexivity.
      - (* OLockI *) step_go Ht' n; try exact Hh; destruct Hh as (hs & ->);
          (apply fin_here; try assumption;
           [apply lin_ok; cbn [lin_spec0]; eexists _, _; reflexivity|discriminate|reflexivity]).
      - (* ORead *) step_go Ht' n; try exact Hh; destruct Hh as (hs & ->);
          (apply fin_here; try assumption;
           [apply lin_ok; cbn [lin_spec0]; eexists _, _; reflexivity|discriminate|reflexivity]).
      - (* OUnlink *) step_go Ht' n; try exact Hh; destruct Hh as (hs & ->);
          (apply fin_here; try assumption;
           [apply lin_ok; cbn [lin_spec0]; eexists _, _; reflexivity|discriminate|reflexivity]).
    Qed.


    (* the step that takes a call *)
    Lemma start_step n ts g' ts' c rest :
      (n < NN)%nat -> tst n (who n) = Some ts -> t_pc ts = Idle -> t_calls ts = c :: rest ->
      step (st n) (who n) = Some g' -> tget (g_thr g') (who n) = Some ts' ->
      t_calls ts' = rest /\
      match t_pc ts' with
      | Idle => immediate c = true /\
                exists r, t_res ts' = t_res ts ++ [r] /\ lin_spec c r (kmap n) /\
                          observes c = false /\ writes c r = false
      | p' => immediate c = false /\ t_res ts' = t_res ts /\
              pc_hist (S n) n c (who n) (length (t_res ts)) p'
      end.
    Proof.
      intros Hn Ht Hpc Hc St Ht'. revert St. unfold cstep. unfold tst in Ht.
      rewrite Ht, Hpc, Hc.
      destruct c as [k x|k x|k|lo hi|k|k|k a b| | |hs]; try destruct hs;
        intros E; injection E as <-; unfold finish, set_pc in Ht'; cbn [g_thr] in Ht';
        rewrite tget_tset_same in Ht'; injection Ht' as <-; cbn [t_pc t_calls t_res];
        (split; [reflexivity|]); (split; [reflexivity|]);
        try (split; [reflexivity|]; cbn [pc_hist]); try reflexivity.
      - (* KAbort *) eexists. split; [reflexivity|].
        split; [apply lin_ok; reflexivity|split; reflexivity].
      - (* KCheckpoint *) split; [|reflexivity]. exists (S n). split; [lia|].
        split; [apply lin_ok; reflexivity|discriminate].
      - (* KDelOrphans [] *) eexists. split; [reflexivity|]. split; [|split; reflexivity].
        apply lin_ok. eexists _, _. reflexivity.
      - (* KDelOrphans (_ :: _) *) eexists. reflexivity.
    Qed.

    (* ------------------------------------------------------------------------------ *)
    (* the history invariant *)

    (* the j-th call of t, which is c, has returned r: its interval, its linearisation step q
       and (for writes) its entry in the log *)
    Definition fin_hist (n t j : nat) (c : ccall) (r : cres) : Prop :=
      exists s e q, starts_at s t j c /\ ends_at e t j r /\ (e < n)%nat /\
        (s <= q <= e)%nat /\ (immediate c = false -> (s < q)%nat) /\
        lin_spec c r (kmap q) /\ (observes c = true -> own q t c) /\
        (writes c r = true -> exists p o, (s < p < e)%nat /\ In (mkWl p t j o) (wlog n)).

    Definition thr_hist (n t : nat) (ts : tstate) : Prop :=
      ((t_pc ts = Idle /\ skipn (length (t_res ts)) (prog t) = t_calls ts) \/
       (exists c s, skipn (length (t_res ts)) (prog t) = c :: t_calls ts /\
                    starts_at s t (length (t_res ts)) c /\ (s < n)%nat /\
                    pc_hist n s c t (length (t_res ts)) (t_pc ts))) /\
      (forall j c r, nth_error (prog t) j = Some c -> nth_error (t_res ts) j = Some r ->
                     fin_hist n t j c r).

    Definition HistInv (n : nat) : Prop := forall t ts, tst n t = Some ts -> thr_hist n t ts.

    Lemma fin_hist_mono n n' t j c r : (n <= n')%nat -> fin_hist n t j c r -> fin_hist n' t j c r.
    Proof.
      intros L (s & e & q & A & B & C & D & E & F & G & K). exists s, e, q.
      repeat (split; [first [assumption|lia]|]).
      intros W. destruct (K W) as (p & o & Bp & Ip). exists p, o. split; [exact Bp|].
      eapply wlog_mono; eassumption.
    Qed.

    Lemma thr_hist_mono n n' t ts : (n <= n')%nat -> thr_hist n t ts -> thr_hist n' t ts.
    Proof.
      intros L [A B]. split.
      - destruct A as [A|(c & s & A1 & A2 & A3 & A4)]; [left; exact A|right].
        exists c, s. split; [exact A1|]. split; [exact A2|]. split; [lia|].
        eapply pc_hist_mono; eassumption.
      - intros j c r Hc Hr. eapply fin_hist_mono; [exact L|]. eapply B; eassumption.
    Qed.

    Lemma hist_init : HistInv 0.
    Proof.
      intros t ts Ht. unfold tst in Ht. rewrite st_0 in Ht.
      assert (P : prog t = t_calls ts) by (unfold prog; rewrite Ht; reflexivity).
      cbn [init_c g_thr] in Ht. apply tget_init in Ht. destruct Ht as (cs & _ & ->).
      cbn [t_calls t_res t_pc length] in *. split.
      - left. split; [reflexivity|exact P].
      - intros j c r _ E. destruct j; discriminate E.
    Qed.

    Lemma hist_step_inv n : (n < NN)%nat -> HistInv n -> HistInv (S n).
    Proof.
      intros Hn IH t ts' Ht'.
      destruct (Nat.eq_dec t (who n)) as [->|Nt].
      2:{ rewrite (tst_other n t Hn Nt) in Ht'. eapply thr_hist_mono; [|apply IH, Ht']. lia. }
      destruct (step (st n) (who n)) as [g'|] eqn:St.
      2:{ unfold tst in Ht'. rewrite (st_S_none n Hn St) in Ht'.
          eapply thr_hist_mono; [|apply IH, Ht']. lia. }
      destruct (tst n (who n)) as [ts|] eqn:Ht.
      2:{ unfold tst in Ht. rewrite (step_needs_thread _ _ Ht) in St. discriminate. }
      destruct (tst_self n g' ts Hn St Ht) as (ts2 & Ht2 & Hg & _).
      rewrite Ht' in Ht2. injection Ht2 as <-.
      destruct (IH _ _ Ht) as [A B].
      (* facts about finished calls carry over *)
      assert (Bold : forall j c r, nth_error (prog (who n)) j = Some c ->
                nth_error (t_res ts) j = Some r -> fin_hist (S n) (who n) j c r).
      { intros j c r Hc Hr. eapply fin_hist_mono; [|eapply B; eassumption]. lia. }
      destruct A as [[Hpc Hsk]|(c & s & Hsk & Hst & Hs & Hh)].
      - (* the thread takes its next call *)
        destruct (t_calls ts) as [|c rest] eqn:Hc.
        { exfalso. revert St. unfold cstep. unfold tst in Ht. rewrite Ht, Hpc, Hc. discriminate. }
        destruct (start_step n ts g' ts' c rest Hn Ht Hpc Hc St Hg) as [Ec Hm].
        destruct (skipn_cons_nth _ _ _ _ Hsk) as [Hnth Hsk'].
        assert (Sa : starts_at n (who n) (length (t_res ts)) c).
        { split; [exact Hn|]. split; [reflexivity|]. exists ts. split; [exact Ht|].
          split; [exact Hpc|]. split; [reflexivity|]. rewrite Hc. reflexivity. }
        destruct (t_pc ts') eqn:Hpc'.
        { (* an immediate call *)
          destruct Hm as (Him & r & Hr & Hl & Ho & Hw). split.
          - left. split; [exact Hpc'|]. rewrite Hr, app_length, Nat.add_1_r. cbn [length].
            rewrite Hsk', Ec. reflexivity.
          - intros j c' r' Hc' Hr'. rewrite Hr in Hr'.
            destruct (nth_error_snoc _ _ _ _ Hr') as [[Hr'' _]|[-> ->]]; [eapply Bold; eassumption|].
            assert (c' = c) by congruence. subst c'.
            exists n, n, n. split; [exact Sa|]. split.
            { split; [exact Hn|]. split; [reflexivity|]. exists ts, ts'.
              split; [exact Ht|]. split; [exact Ht'|]. split; [reflexivity|exact Hr]. }
            split; [lia|]. split; [lia|]. split; [congruence|]. split; [exact Hl|].
            split; [congruence|congruence]. }
        all: destruct Hm as (Him & Hr & Hh); (split;
          [right; exists c, n; rewrite Hpc', Hr, Ec; split; [exact Hsk|]; split; [exact Sa|];
           split; [lia|exact Hh]
          |rewrite Hr; exact Bold]).
      - (* the thread continues its call *)
        destruct (hist_step n ts g' ts' s c Hn Ht St Hg Hs Hh) as [Ec Hm].
        destruct (skipn_cons_nth _ _ _ _ Hsk) as [Hnth Hsk'].
        destruct (t_pc ts') eqn:Hpc'.
        { (* the call returns *)
          destruct Hm as (r & Hr & q & Bq & Hl & Ho & Hw). split.
          - left. split; [exact Hpc'|]. rewrite Hr, app_length, Nat.add_1_r. cbn [length].
            rewrite Hsk', Ec. reflexivity.
          - intros j c' r' Hc' Hr'. rewrite Hr in Hr'.
            destruct (nth_error_snoc _ _ _ _ Hr') as [[Hr'' _]|[-> ->]]; [eapply Bold; eassumption|].
            assert (c' = c) by congruence. subst c'.
            exists s, n, q. split; [exact Hst|]. split.
            { split; [exact Hn|]. split; [reflexivity|]. exists ts, ts'.
              split; [exact Ht|]. split; [exact Ht'|]. split; [reflexivity|exact Hr]. }
            split; [lia|]. split; [lia|]. split; [intros _; lia|]. split; [exact Hl|].
            split; [exact Ho|].
            intros W. destruct (Hw W) as (p & o & Bp & Ip). exists p, o. split; [exact Bp|].
            eapply wlog_mono; [|exact Ip]. lia. }
        all: destruct Hm as (Hr & Hh'); (split;
          [right; exists c, s; rewrite Hpc', Hr, Ec; split; [exact Hsk|]; split; [exact Hst|];
           split; [lia|exact Hh']
          |rewrite Hr; exact Bold]).
    Qed.

    Theorem hist_inv n : (n <= NN)%nat -> HistInv n.
    Proof.
      induction n as [|n IH]; intros Hn; [apply hist_init|].
      apply hist_step_inv; [lia|]. apply IH. lia.
    Qed.


    (* ------------------------------------------------------------------------------ *)
    (* each call applies at most one operation: a second measure, 2 * finished calls + 1
       once the operation of the call in progress has been applied *)
    Definition mu2 (ts : tstate) : nat :=
      (2 * length (t_res ts) + (if applied_pc (t_pc ts) then 1 else 0))%nat.
    Definition mu2_at (i t : nat) : nat := match tst i t with Some ts => mu2 ts | None => 0%nat end.

    Lemma tst_self' i g' ts' : (i < NN)%nat -> step (st i) (who i) = Some g' ->
      g_thr g' = tset (g_thr (st i)) (who i) ts' -> tst (S i) (who i) = Some ts'.
    Proof.
      intros Hi E Et. unfold tst. rewrite (st_S_some i g' Hi E), Et. apply tget_tset_same.
    Qed.

    Lemma mu2_S i t : (i < NN)%nat -> (mu2_at i t <= mu2_at (S i) t)%nat.
    Proof.
      intros Hi. unfold mu2_at. destruct (Nat.eq_dec t (who i)) as [->|Nt].
      2:{ rewrite (tst_other i t Hi Nt). lia. }
      destruct (step (st i) (who i)) as [g'|] eqn:E.
      2:{ unfold tst. rewrite (st_S_none i Hi E). lia. }
      destruct (tst i (who i)) as [ts|] eqn:Ht.
      2:{ unfold tst in Ht. rewrite (step_needs_thread _ _ Ht) in E. discriminate. }
      destruct (cstep_applied _ _ _ _ E Ht) as (ts' & Et & Hc).
      rewrite (tst_self' i g' ts' Hi E Et). unfold mu2.
      destruct Hc as [(-> & r & -> & _)|(-> & A & _)].
      - rewrite app_length. cbn [length applied_pc]. destruct (applied_pc (t_pc ts)); lia.
      - destruct (applied_pc (t_pc ts)); [rewrite (A eq_refl)|]; lia.
    Qed.

    Lemma mu2_mono t i i' : (i <= i')%nat -> (i' <= NN)%nat -> (mu2_at i t <= mu2_at i' t)%nat.
    Proof. apply (mono_le (fun i => mu2_at i t)). intros j Hj. apply mu2_S, Hj. Qed.

    (* the WLockW step: the operation is applied, the thread parks at WApplied *)
    Lemma wlockw_after i ts w : (i < NN)%nat -> tst i (who i) = Some ts -> t_pc ts = WLockW w ->
      exists un rolled,
        tst (S i) (who i) = Some (mkT (t_calls ts) (WApplied w un rolled) (t_res ts)).
    Proof.
      intros Hi Ht Hpc.
      destruct (C04_apply_never_panics H cmp cmp_refl cmp_eq cmp_antisym cmp_trans nops bad ckbad thr0
                  thr0_nodup cas0 cas0_sorted cas0_named NoCollideC (st i) (who i) ts w
                  (st_reach i) Ht Hpc) as (_ & _ & idx' & un & Ea).
      assert (Es : exists g', step (st i) (who i) = Some g' /\
                 exists rolled, g_thr g' = tset (g_thr (st i)) (who i)
                                            (mkT (t_calls ts) (WApplied w un rolled) (t_res ts))).
      { unfold cstep. unfold tst in Ht. rewrite Ht, Hpc. cbn zeta. rewrite Ea.
        eexists. split; [reflexivity|]. eexists. reflexivity. }
      destruct Es as (g' & Es & rolled & Et). exists un, rolled.
      eapply tst_self'; eassumption.
    Qed.

    (* an entry of the log records a WLockW step *)
    Lemma wlog_entry_at n e : In e (wlog n) ->
      (wl_p e < n)%nat /\ who (wl_p e) = wl_t e /\
      exists ts w, tst (wl_p e) (wl_t e) = Some ts /\ t_pc ts = WLockW w /\
                   wl_j e = length (t_res ts) /\ wl_o e = wop w.
    Proof.
      intros I. split; [apply wlog_lt, I|]. induction n as [|n IH]; [destruct I|].
      cbn [wlog] in I. apply in_app_or in I. destruct I as [I|I]; [apply IH, I|].
      apply wev_In in I. destruct I as (-> & -> & ts & w & A & B & C & D).
      split; [reflexivity|]. exists ts, w. repeat split; assumption.
    Qed.

    Lemma entry_mu2 n e : (n <= NN)%nat -> In e (wlog n) ->
      mu2_at (wl_p e) (wl_t e) = (2 * wl_j e)%nat /\
      mu2_at (S (wl_p e)) (wl_t e) = (2 * wl_j e + 1)%nat.
    Proof.
      intros Hn I. destruct (wlog_entry_at n e I) as (Hp & Hw & ts & w & Ht & Hpc & Hj & _).
      rewrite <- Hw in *. unfold mu2_at. rewrite Ht.
      destruct (wlockw_after (wl_p e) ts w ltac:(lia) Ht Hpc) as (un & rolled & Ht').
      rewrite Ht'. unfold mu2. cbn [t_pc t_res applied_pc]. rewrite Hpc, Hj. cbn [applied_pc].
      split; lia.
    Qed.

    (* at most one entry per (thread, call number) *)
    Theorem wlog_key_unique n e1 e2 : (n <= NN)%nat -> In e1 (wlog n) -> In e2 (wlog n) ->
      wl_t e1 = wl_t e2 -> wl_j e1 = wl_j e2 -> e1 = e2.
    Proof.
      intros Hn I1 I2 Et Ej.
      destruct (entry_mu2 n e1 Hn I1) as [A1 B1]. destruct (entry_mu2 n e2 Hn I2) as [A2 B2].
      destruct (wlog_entry_at n e1 I1) as (P1 & W1 & ts1 & w1 & T1 & C1 & J1 & O1).
      destruct (wlog_entry_at n e2 I2) as (P2 & W2 & ts2 & w2 & T2 & C2 & J2 & O2).
      destruct (Nat.lt_trichotomy (wl_p e1) (wl_p e2)) as [L|[L|L]].
      - exfalso. pose proof (mu2_mono (wl_t e1) (S (wl_p e1)) (wl_p e2) ltac:(lia) ltac:(lia)).
        rewrite Et in *. lia.
      - rewrite L, Et, T2 in T1. injection T1 as <-. rewrite C2 in C1. injection C1 as <-.
        destruct e1, e2. cbn [wl_p wl_t wl_j wl_o] in *. congruence.
      - exfalso. pose proof (mu2_mono (wl_t e1) (S (wl_p e2)) (wl_p e1) ltac:(lia) ltac:(lia)).
        rewrite Et in *. lia.
    Qed.

    (* every entry of thread t is for a finished call or for the call in progress, after its
       apply step *)
    Lemma wlog_phase n e ts : (n <= NN)%nat -> In e (wlog n) -> tst n (wl_t e) = Some ts ->
      (2 * wl_j e + 1 <= mu2 ts)%nat.
    Proof.
      intros Hn I Ht. destruct (entry_mu2 n e Hn I) as [_ B].
      pose proof (wlog_lt n e I) as P.
      pose proof (mu2_mono (wl_t e) (S (wl_p e)) n ltac:(lia) Hn) as M.
      unfold mu2_at in M at 2. rewrite Ht in M. lia.
    Qed.


    (* ------------------------------------------------------------------------------ *)
    (* the theorems *)

    Lemma tst_exists n t : tst 0 t <> None -> tst n t <> None.
    Proof. unfold tst, st. intros E. apply tget_run. exact E. Qed.

    Lemma prog_in t j c : nth_error (prog t) j = Some c ->
      exists cs, In (t, cs) thr0 /\ prog t = cs /\ tst 0 t <> None.
    Proof.
      unfold prog, tst. rewrite st_0. destruct (tget (g_thr g0) t) as [ts|] eqn:Ht.
      - intros _. cbn [init_c g_thr] in Ht. apply tget_init in Ht.
        destruct Ht as (cs & I & ->). exists cs. split; [exact I|]. split; [reflexivity|discriminate].
      - destruct j; discriminate.
    Qed.

    (* every finished call has an interval, a linearisation step inside it whose key map
       justifies the result and, when it writes, an entry in the log inside the interval *)
    Theorem C05_calls_linearizable n t ts j c r : (n <= NN)%nat -> tst n t = Some ts ->
      nth_error (prog t) j = Some c -> nth_error (t_res ts) j = Some r -> fin_hist n t j c r.
    Proof. intros Hn Ht Hc Hr. exact (proj2 (hist_inv n Hn t ts Ht) j c r Hc Hr). Qed.

    (* the same, stated from the end step *)
    Lemma ended_call e t j r c : ends_at e t j r -> nth_error (prog t) j = Some c ->
      fin_hist (S e) t j c r.
    Proof.
      intros (He & Hw & ts & ts' & G1 & G2 & Hj & Hr) Hc.
      apply (C05_calls_linearizable (S e) t ts'); [lia|exact G2|exact Hc|].
      rewrite Hr, nth_error_app2, Hj, Nat.sub_diag by lia. reflexivity.
    Qed.

    (* the value of key k at position i: hash and size of its item *)
    Definition val (i : nat) (k : bytes) : option (bytes * N) :=
      option_map (fun it => (ihash it, isize it)) (sm_get cmp (kmap i) k).

    Definition final_res (t j : nat) (r : cres) : Prop :=
      exists ts, tget (g_thr (run g0 sched)) t = Some ts /\ nth_error (t_res ts) j = Some r.

    Lemma final_fin t j c r : nth_error (prog t) j = Some c -> final_res t j r ->
      fin_hist NN t j c r.
    Proof.
      intros Hc (ts & Ht & Hr). rewrite <- st_final in Ht.
      eapply C05_calls_linearizable; [apply le_n|exact Ht|exact Hc|exact Hr].
    Qed.

    (* P2: a get returns 'absent' or the complete content that the key held at some position q
       strictly after the call was taken and not after its return; q is the thread's own
       last lookup step *)
    Theorem C05_read_linearizable t j k r :
      nth_error (prog t) j = Some (KGet k) -> final_res t j r -> r <> CErr ->
      exists s e q, starts_at s t j (KGet k) /\ ends_at e t j r /\ (s < q <= e)%nat /\
        own q t (KGet k) /\
        exists o, r = CBytes o /\ val q k = option_map (fun x => (H x, len x)) o /\
                  (forall x, o = Some x -> sm_get lex_cmp (g_cas (st q)) (H x) = Some x).
    Proof.
      intros Hc Hf NE. destruct (final_fin _ _ _ _ Hc Hf) as (s & e & q & A & B & _ & D & E & F & G & _).
      exists s, e, q. split; [exact A|]. split; [exact B|].
      split; [specialize (E eq_refl); lia|]. split; [apply G; reflexivity|].
      apply lin_inv in F; [|exact NE].
      cbn [lin_spec0] in F. unfold val. destruct (sm_get cmp (kmap q) k) as [it|] eqn:Gk.
      - destruct F as (x & -> & Ix & Hh & Hl). exists (Some x). split; [reflexivity|].
        cbn [option_map]. split; [rewrite Hh, Hl; reflexivity|].
        intros x' Ex. injection Ex as <-.
        destruct (C04_no_dangling H cmp cmp_refl cmp_eq cmp_antisym cmp_trans nops bad ckbad thr0 thr0_nodup
                    cas0 cas0_sorted cas0_named NoCollideC (st q) (st_reach q) k it Gk)
          as (c' & Gc & Hh' & _).
        rewrite Hh, Gc. f_equal.
        apply (lex_get_in _ _ _ (ci_cas_sorted _ _ _ _ _ _ (st_inv q))) in Gc.
        destruct (ci_cas_named _ _ _ _ _ _ (st_inv q) _ _ Gc) as [_ Ic'].
        apply NoCollideC; [exact Ic'|exact Ix|congruence].
      - subst r. exists None. split; [reflexivity|]. split; [reflexivity|]. intros x Ex. discriminate.
    Qed.

    (* the same, in the two-case form *)
    Corollary C05_read_linearizable_cases t j k r :
      nth_error (prog t) j = Some (KGet k) -> final_res t j r -> r <> CErr ->
      exists s e q, starts_at s t j (KGet k) /\ ends_at e t j r /\ (s < q <= e)%nat /\
        ((r = CBytes None /\ sm_get cmp (kmap q) k = None) \/
         (exists x it, r = CBytes (Some x) /\ sm_get cmp (kmap q) k = Some it /\
                       H x = ihash it /\ len x = isize it)).
    Proof.
      intros Hc Hf NE. destruct (final_fin _ _ _ _ Hc Hf) as (s & e & q & A & B & _ & D & E & F & _).
      exists s, e, q. split; [exact A|]. split; [exact B|].
      split; [specialize (E eq_refl); lia|].
      apply lin_inv in F; [|exact NE].
      cbn [lin_spec0] in F. destruct (sm_get cmp (kmap q) k) as [it|].
      - right. destruct F as (x & -> & _ & Hh & Hl). exists x, it.
        split; [reflexivity|]. split; [reflexivity|]. split; assumption.
      - left. split; [exact F|reflexivity].
    Qed.

    Theorem C05_get_size_linearizable t j k r :
      nth_error (prog t) j = Some (KGetSize k) -> final_res t j r ->
      exists s e q, starts_at s t j (KGetSize k) /\ ends_at e t j r /\ (s < q <= e)%nat /\
        own q t (KGetSize k) /\ r = CSize (option_map snd (val q k)).
    Proof.
      intros Hc Hf. destruct (final_fin _ _ _ _ Hc Hf) as (s & e & q & A & B & _ & D & E & F & G & _).
      exists s, e, q. split; [exact A|]. split; [exact B|].
      split; [specialize (E eq_refl); lia|]. split; [apply G; reflexivity|].
      apply lin_inv' in F; [|reflexivity].
      cbn [lin_spec0] in F. rewrite F. unfold val.
      destruct (sm_get cmp (kmap q) k); reflexivity.
    Qed.

    (* P2 in terms of the programs thr0 and of the final state *)
    Corollary C05_read_linearizable_thr0 t cs ts j k r :
      In (t, cs) thr0 -> nth_error cs j = Some (KGet k) ->
      tget (g_thr (run g0 sched)) t = Some ts -> nth_error (t_res ts) j = Some r -> r <> CErr ->
      exists s e q, starts_at s t j (KGet k) /\ ends_at e t j r /\ (s < q <= e)%nat /\
        ((r = CBytes None /\ val q k = None) \/
         (exists x, r = CBytes (Some x) /\ val q k = Some (H x, len x) /\
                    sm_get lex_cmp (g_cas (st q)) (H x) = Some x)).
    Proof.
      intros I Hc Ht Hr NE. rewrite <- (prog_thr0 t cs I) in Hc.
      destruct (C05_read_linearizable t j k r Hc (ex_intro _ ts (conj Ht Hr)) NE)
        as (s & e & q & A & B & C & _ & o & -> & V & K).
      exists s, e, q. split; [exact A|]. split; [exact B|]. split; [exact C|].
      destruct o as [x|]; cbn [option_map] in V.
      - right. exists x. split; [reflexivity|]. split; [exact V|]. apply K. reflexivity.
      - left. split; [reflexivity|exact V].
    Qed.

    (* P2 for get_range: a finished get_range(k, a, b) returns 'absent' or exactly what the
       sequential get_range computes from the item (H x, len x) that the key held at position q
       and from the blob x stored under that hash at position q: the answers decided from the
       item alone (empty range / InvalidRange: [pre_open]), else the bytes [a, min b (len x)) of
       x.  q is a step of the thread itself (its lookup, or the lookup / open of its retry),
       strictly after the call was taken and not after its return: never a mixture of two
       values, and never a range clamped with the size of one value and cut from another *)
    Theorem C05_range_read_linearizable t j k a b r :
      nth_error (prog t) j = Some (KGetRange k a b) -> final_res t j r -> r <> CErr ->
      exists s e q, starts_at s t j (KGetRange k a b) /\ ends_at e t j r /\ (s < q <= e)%nat /\
        own q t (KGetRange k a b) /\
        ((r = CBytes None /\ val q k = None) \/
         (exists x, val q k = Some (H x, len x) /\
                    sm_get lex_cmp (g_cas (st q)) (H x) = Some x /\
                    r = match pre_open (MRange a b) (mkItem (H x) (len x)) with
                        | Some r' => r'
                        | None => CBytes (Some (slice x a (N.min b (len x))))
                        end)).
    Proof.
      intros Hc Hf NE. destruct (final_fin _ _ _ _ Hc Hf) as (s & e & q & A & B & _ & D & E & F & G & _).
      exists s, e, q. split; [exact A|]. split; [exact B|].
      split; [specialize (E eq_refl); lia|]. split; [apply G; reflexivity|].
      apply lin_inv in F; [|exact NE].
      cbn [lin_spec0] in F. unfold val. destruct (sm_get cmp (kmap q) k) as [it|] eqn:Gk.
      - right.
        destruct (C04_no_dangling H cmp cmp_refl cmp_eq cmp_antisym cmp_trans nops bad ckbad thr0 thr0_nodup
                    cas0 cas0_sorted cas0_named NoCollideC (st q) (st_reach q) k it Gk)
          as (x & Gc & Hh & Hl).
        exists x. cbn [option_map]. rewrite Hh, Hl. split; [reflexivity|]. split; [exact Gc|].
        destruct it as [h sz]. cbn [ihash isize] in *. subst h sz.
        destruct (pre_open (MRange a b) (mkItem (H x) (len x))); [exact F|].
        destruct F as (x' & -> & Ix' & Hh' & _). cbn [isize].
        apply (lex_get_in _ _ _ (ci_cas_sorted _ _ _ _ _ _ (st_inv q))) in Gc.
        destruct (ci_cas_named _ _ _ _ _ _ (st_inv q) _ _ Gc) as [_ Ix].
        rewrite (NoCollideC x' x Ix' Ix Hh'). reflexivity.
      - left. split; [exact F|reflexivity].
    Qed.

    Corollary C05_range_read_linearizable_thr0 t cs ts j k a b r :
      In (t, cs) thr0 -> nth_error cs j = Some (KGetRange k a b) ->
      tget (g_thr (run g0 sched)) t = Some ts -> nth_error (t_res ts) j = Some r -> r <> CErr ->
      exists s e q, starts_at s t j (KGetRange k a b) /\ ends_at e t j r /\ (s < q <= e)%nat /\
        ((r = CBytes None /\ val q k = None) \/
         (exists x, val q k = Some (H x, len x) /\
                    sm_get lex_cmp (g_cas (st q)) (H x) = Some x /\
                    r = match pre_open (MRange a b) (mkItem (H x) (len x)) with
                        | Some r' => r'
                        | None => CBytes (Some (slice x a (N.min b (len x))))
                        end)).
    Proof.
      intros I Hc Ht Hr NE. rewrite <- (prog_thr0 t cs I) in Hc.
      destruct (C05_range_read_linearizable t j k a b r Hc (ex_intro _ ts (conj Ht Hr)) NE)
        as (s & e & q & A & B & C & _ & K).
      exists s, e, q. split; [exact A|]. split; [exact B|]. split; [exact C|exact K].
    Qed.

    (* iteration returns the key list of ONE position q (a snapshot): the thread's own IRead
       step, strictly after the call was taken and not after its return *)
    Theorem C05_iteration_is_a_snapshot t j r :
      nth_error (prog t) j = Some KIter -> final_res t j r ->
      exists s e q, starts_at s t j KIter /\ ends_at e t j r /\ (s < q <= e)%nat /\
        own q t KIter /\ r = CKeys (map fst (kmap q)).
    Proof.
      intros Hc Hf. destruct (final_fin _ _ _ _ Hc Hf) as (s & e & q & A & B & _ & D & E & F & G & _).
      exists s, e, q. split; [exact A|]. split; [exact B|].
      split; [specialize (E eq_refl); lia|]. split; [apply G; reflexivity|].
      apply lin_inv' in F; [exact F|reflexivity].
    Qed.

    Corollary C05_iteration_is_a_snapshot_thr0 t cs ts j r :
      In (t, cs) thr0 -> nth_error cs j = Some KIter ->
      tget (g_thr (run g0 sched)) t = Some ts -> nth_error (t_res ts) j = Some r ->
      exists s e q, starts_at s t j KIter /\ ends_at e t j r /\ (s < q <= e)%nat /\
        r = CKeys (map fst (kmap q)).
    Proof.
      intros I Hc Ht Hr. rewrite <- (prog_thr0 t cs I) in Hc.
      destruct (C05_iteration_is_a_snapshot t j r Hc (ex_intro _ ts (conj Ht Hr)))
        as (s & e & q & A & B & C & _ & K).
      exists s, e, q. split; [exact A|]. split; [exact B|]. split; [exact C|exact K].
    Qed.

    (* P5: remove reports the presence of the key as of its own scan step (parked at RRead) *)
    Theorem C05_remove_linearizable t j k r :
      nth_error (prog t) j = Some (KRemove k) -> final_res t j r -> r <> CErr ->
      exists s e q, starts_at s t j (KRemove k) /\ ends_at e t j r /\ (s < q <= e)%nat /\
        own q t (KRemove k) /\
        r = CBool (match val q k with Some _ => true | None => false end).
    Proof.
      intros Hc Hf NE. destruct (final_fin _ _ _ _ Hc Hf) as (s & e & q & A & B & _ & D & E & F & G & _).
      exists s, e, q. split; [exact A|]. split; [exact B|].
      split; [specialize (E eq_refl); lia|]. split; [apply G; reflexivity|].
      apply lin_inv in F; [|exact NE].
      cbn [lin_spec0] in F. rewrite F. unfold val.
      destruct (sm_get cmp (kmap q) k); reflexivity.
    Qed.

    (* remove_range reports the number of keys in range as of its own scan step (RRRead) *)
    Theorem C05_remove_range_linearizable t j lo hi r :
      nth_error (prog t) j = Some (KRemoveRange lo hi) -> final_res t j r -> r <> CErr ->
      exists s e q, starts_at s t j (KRemoveRange lo hi) /\ ends_at e t j r /\ (s < q <= e)%nat /\
        own q t (KRemoveRange lo hi) /\
        r = CNum (N.of_nat (length (keys_in cmp (kmap q) lo hi))).
    Proof.
      intros Hc Hf NE. destruct (final_fin _ _ _ _ Hc Hf) as (s & e & q & A & B & _ & D & E & F & G & _).
      exists s, e, q. split; [exact A|]. split; [exact B|].
      split; [specialize (E eq_refl); lia|]. split; [apply G; reflexivity|].
      apply lin_inv in F; [exact F|exact NE].
    Qed.

    (* ------------------------------------------------------------------------------ *)
    (* P4: the writes *)

    (* operation o is the write of call c (taken at step s) applied at step p *)
    Definition op_of_call (s p t : nat) (c : ccall) (o : rawop) : Prop :=
      match o with
      | RPut k h sz => exists x, c = KPut k x /\ h = H x /\ sz = len x
      | RRemove ks => exists q r, (s < q < p)%nat /\ own q t c /\ rm_scan q c ks r
      end.

    Lemma wk_op p s c t w : wk_hist p s c t w -> op_of_call s p t c (wop w).
    Proof.
      destruct w as [k h sz|ks r]; cbn [wk_hist wop op_of_call]; [auto|].
      intros (q & B & O & R). exists q, r. split; [exact B|split; [exact O|exact R]].
    Qed.

    (* every entry of the log is the write of a call, applied after the call was taken and
       before it returns; the call reports a write *)
    Theorem wlog_entry_call n e : (n <= NN)%nat -> In e (wlog n) ->
      exists c s, nth_error (prog (wl_t e)) (wl_j e) = Some c /\
        starts_at s (wl_t e) (wl_j e) c /\ (s < wl_p e)%nat /\
        op_of_call s (wl_p e) (wl_t e) c (wl_o e) /\
        (forall e' r, ends_at e' (wl_t e) (wl_j e) r -> (wl_p e < e')%nat /\ may_write c r).
    Proof.
      intros Hn I. destruct (wlog_entry_at n e I) as (Hp & Hw & ts & w & Ht & Hpc & Hj & Ho).
      destruct (entry_mu2 n e Hn I) as [_ M2].
      destruct (proj1 (hist_inv (wl_p e) ltac:(lia) _ _ Ht)) as [[X _]|(c & s & Hsk & Hst & Hs & Hh)];
        [rewrite Hpc in X; discriminate|].
      rewrite Hpc in Hh. cbn [pc_hist] in Hh. rewrite <- Hj in *.
      destruct (skipn_cons_nth _ _ _ _ Hsk) as [Hnth _].
      exists c, s. split; [exact Hnth|]. split; [exact Hst|]. split; [exact Hs|].
      split; [rewrite Ho; apply wk_op, Hh|].
      intros e' r (He' & Hw' & tse & tse' & G1 & G2 & L1 & R1).
      (* the end step is after the apply step *)
      assert (Lp : (wl_p e < e')%nat).
      { destruct (Nat.lt_trichotomy e' (wl_p e)) as [L|[L|L]]; [exfalso|exfalso|exact L].
        - pose proof (rl_mono (wl_t e) (S e') (wl_p e) ltac:(lia) ltac:(lia)) as M.
          unfold rl_at in M. rewrite G2, Ht, R1, app_length in M. cbn [length] in M. lia.
        - subst e'. rewrite <- Hw in *.
          destruct (wlockw_after (wl_p e) ts w ltac:(lia) Ht Hpc) as (un & rolled & Ht').
          rewrite Ht' in G2. injection G2 as <-. cbn [t_res] in R1.
          rewrite Ht in G1. injection G1 as <-.
          apply (f_equal (@length cres)) in R1. rewrite app_length in R1. cbn [length] in R1. lia. }
      split; [exact Lp|].
      (* at the end step the thread is past its apply step *)
      pose proof (mu2_mono (wl_t e) (S (wl_p e)) e' ltac:(lia) ltac:(lia)) as M.
      unfold mu2_at in M at 2. rewrite G1 in M. rewrite M2 in M. unfold mu2 in M. rewrite L1 in M.
      assert (Ap : applied_pc (t_pc tse) = true).
      { destruct (applied_pc (t_pc tse)); [reflexivity|lia]. }
      rewrite <- Hw' in *.
      destruct (step (st e') (who e')) as [g'|] eqn:St.
      2:{ exfalso. unfold tst in G2. rewrite (st_S_none e' He' St) in G2.
          unfold tst in G1. rewrite G1 in G2. injection G2 as <-.
          apply (f_equal (@length cres)) in R1. rewrite app_length in R1. cbn [length] in R1. lia. }
      destruct (cstep_applied _ _ _ _ St G1) as (ts2 & Et & Hcase).
      rewrite (tst_self' e' g' ts2 He' St Et) in G2. injection G2 as <-.
      destruct (proj1 (hist_inv e' ltac:(lia) _ _ G1)) as [[X _]|(c2 & s2 & Hsk2 & _ & _ & Hh2)];
        [rewrite X in Ap; discriminate|].
      rewrite L1 in Hsk2. destruct (skipn_cons_nth _ _ _ _ Hsk2) as [Hnth2 _].
      assert (c2 = c) by congruence. subst c2.
      destruct Hcase as [(_ & r2 & R2 & Hfin)|(R2 & _)].
      2:{ exfalso. rewrite R2 in R1. apply (f_equal (@length cres)) in R1.
          rewrite app_length in R1. cbn [length] in R1. lia. }
      rewrite R2 in R1. apply app_inv_head in R1. injection R1 as ->.
      destruct (Hfin Ap) as [(w2 & Hpc2 & ->)|[(e2 & Hpc2)| -> ]];
        [rewrite Hpc2 in Hh2; cbn [pc_hist] in Hh2|rewrite Hpc2 in Hh2; cbn [pc_hist] in Hh2|].
      - left. eapply wk_writes. apply Hh2.
      - left. destruct Hh2 as [_ K]. cbn [ck_hist] in K. apply K.
      - right. reflexivity.
    Qed.

    (* real time: if the call of e1 returned before the call of e2 was taken, e1 precedes e2 *)
    Theorem C05_write_order_respects_real_time n e1 e2 eA rA sB cB :
      (n <= NN)%nat -> In e1 (wlog n) -> In e2 (wlog n) ->
      ends_at eA (wl_t e1) (wl_j e1) rA -> starts_at sB (wl_t e2) (wl_j e2) cB ->
      (eA < sB)%nat -> (wl_p e1 < wl_p e2)%nat.
    Proof.
      intros Hn I1 I2 EA SB L.
      destruct (wlog_entry_call n e1 Hn I1) as (c1 & s1 & _ & _ & _ & _ & K1).
      destruct (wlog_entry_call n e2 Hn I2) as (c2 & s2 & _ & S2 & L2 & _).
      destruct (K1 _ _ EA) as [L1 _].
      destruct (starts_at_unique _ _ _ _ _ _ SB S2) as [-> _]. lia.
    Qed.

    (* when every thread has finished, every call has returned *)
    Lemma all_finished_res t j c : all_finished (run g0 sched) = true ->
      nth_error (prog t) j = Some c -> exists r, final_res t j r.
    Proof.
      intros AF Hc. destruct (prog_in t j c Hc) as (cs & _ & _ & Ex).
      apply (tst_exists NN) in Ex. destruct (tst NN t) as [ts|] eqn:Ht; [|contradiction].
      destruct (proj1 (hist_inv NN (le_n _) _ _ Ht)) as [[Hpc Hsk]|(c2 & s2 & _ & _ & _ & Hh)].
      - unfold tst in Ht. rewrite st_final in Ht.
        assert (Hcalls : t_calls ts = []).
        { apply tget_In in Ht. unfold all_finished in AF. rewrite forallb_forall in AF.
          specialize (AF _ Ht). cbn [snd] in AF. unfold finished_t in AF. rewrite Hpc in AF.
          destruct (t_calls ts); [reflexivity|discriminate]. }
        rewrite Hcalls in Hsk.
        assert (L : (j < length (t_res ts))%nat).
        { assert (Lj : (j < length (prog t))%nat) by (apply nth_error_Some; congruence).
          pose proof (skipn_length (length (t_res ts)) (prog t)) as SL.
          rewrite Hsk in SL. cbn [length] in SL. lia. }
        destruct (nth_error (t_res ts) j) as [r|] eqn:Hr; [|apply nth_error_None in Hr; lia].
        exists r, ts. split; assumption.
      - exfalso. unfold tst in Ht. rewrite st_final in Ht.
        apply tget_In in Ht. unfold all_finished in AF. rewrite forallb_forall in AF.
        specialize (AF _ Ht). cbn [snd] in AF. unfold finished_t in AF.
        destruct (t_pc ts); try discriminate. exact Hh.
    Qed.

    (* P4: after a complete run the key map is the fold, over the write log, of the
       operations of the calls; the log is ordered by the WLockW steps, each of which lies
       strictly inside the interval of its call (so the order respects real time); each call
       that reports a write has exactly one entry, and the others have none *)
    Theorem C05_final_is_linearization : all_finished (run g0 sched) = true ->
      let ws := wlog NN in
      km (g_idx (run g0 sched)) = fold_left (kstep cmp) (map wl_o ws) [] /\
      StronglySorted lt (map wl_p ws) /\
      (forall e, In e ws ->
         exists c s e' r, nth_error (prog (wl_t e)) (wl_j e) = Some c /\
           starts_at s (wl_t e) (wl_j e) c /\ ends_at e' (wl_t e) (wl_j e) r /\
           (s < wl_p e < e')%nat /\ may_write c r /\
           op_of_call s (wl_p e) (wl_t e) c (wl_o e)) /\
      (forall t j c r, nth_error (prog t) j = Some c -> final_res t j r -> writes c r = true ->
         exists e, In e ws /\ wl_t e = t /\ wl_j e = j) /\
      (forall e1 e2, In e1 ws -> In e2 ws -> wl_t e1 = wl_t e2 -> wl_j e1 = wl_j e2 -> e1 = e2).
    Proof.
      intros AF ws. split; [|split; [|split; [|split]]].
      - rewrite <- st_final. apply (C05_km_is_fold_of_writes NN (le_n _)).
      - apply wlog_sorted.
      - intros e I. destruct (wlog_entry_call NN e (le_n _) I) as (c & s & Hc & Hs & Ls & Ho & K).
        destruct (all_finished_res _ _ _ AF Hc) as (r & Hf).
        destruct (final_fin _ _ _ _ Hc Hf) as (s' & e' & _ & _ & B & _).
        destruct (K _ _ B) as [Lp W]. exists c, s, e', r.
        split; [exact Hc|]. split; [exact Hs|]. split; [exact B|]. split; [lia|].
        split; [exact W|exact Ho].
      - intros t j c r Hc Hf W.
        destruct (final_fin _ _ _ _ Hc Hf) as (s & e & q & _ & _ & _ & _ & _ & _ & _ & K).
        destruct (K W) as (p & o & _ & I). exists (mkWl p t j o).
        split; [exact I|split; reflexivity].
      - intros e1 e2. apply wlog_key_unique. apply le_n.
    Qed.

    (* ------------------------------------------------------------------------------ *)
    (* P3: a put that has returned is seen by every later read *)

    (* once a put of k is in the log, k holds its item unless a later entry writes k *)
    Lemma put_in_log n e k h sz : (n <= NN)%nat -> In e (wlog n) -> wl_o e = RPut k h sz ->
      sm_get cmp (kmap n) k = Some (mkItem h sz) \/
      exists e', In e' (wlog n) /\ (wl_p e < wl_p e')%nat /\ touches (wl_o e') k.
    Proof.
      intros Hn I Ho. rewrite (C05_km_is_fold_of_writes n Hn).
      pose proof (wlog_sorted n) as Srt.
      destruct (in_split _ _ I) as (l1 & l2 & E). rewrite E in *. clear E.
      rewrite map_app in Srt. apply StronglySorted_app_r in Srt. cbn [map] in Srt.
      inversion Srt as [|? ? _ F]; subst.
      rewrite map_app, fold_left_app. cbn [map fold_left]. rewrite Ho. cbn [kstep].
      destruct (touch_split (map wl_o l2) k) as [NT|(o & Io & T)].
      - left. rewrite fold_kstep_untouched; [apply (KX get_ins_same)| |exact NT].
        apply (KX sorted_ins). apply fold_kstep_sorted. constructor.
      - right. apply in_map_iff in Io. destruct Io as (e' & <- & Ie'). exists e'.
        split; [apply in_or_app; right; right; exact Ie'|]. split; [|exact T].
        rewrite Forall_forall in F. apply F. apply in_map. exact Ie'.
    Qed.

    Theorem C05_put_visible t j k x e rp u ju s ru :
      nth_error (prog t) j = Some (KPut k x) -> ends_at e t j rp -> rp <> CErr ->
      nth_error (prog u) ju = Some (KGet k) -> starts_at s u ju (KGet k) -> (e < s)%nat ->
      final_res u ju ru -> ru <> CErr ->
      exists p q eu, (p < e)%nat /\ ends_at eu u ju ru /\ (s < q <= eu)%nat /\
        In (mkWl p t j (RPut k (H x) (len x))) (wlog q) /\
        (ru = CBytes (Some x) \/
         exists e', In e' (wlog q) /\ (p < wl_p e')%nat /\ touches (wl_o e') k).
    Proof.
      intros Hc He NEp Hcu Hsu L Hf NEu.
      assert (Wp : writes (KPut k x) rp = true)
        by (cbn [writes]; rewrite (is_err_false _ NEp); reflexivity).
      (* the put and its entry *)
      destruct (ended_call _ _ _ _ _ He Hc) as (s0 & e0 & _ & A0 & B0 & _ & _ & _ & _ & _ & K0).
      destruct (ends_at_unique _ _ _ _ _ _ B0 He) as [-> _].
      destruct (K0 Wp) as (p & o & Bp & Ip).
      assert (HSe : (S e <= NN)%nat) by (destruct He as (X & _); lia).
      destruct (wlog_entry_call (S e) _ HSe Ip) as (c' & s' & Hc' & _ & _ & Ho & _).
      cbn [wl_t wl_j wl_o wl_p] in *. rewrite Hc in Hc'. injection Hc' as <-.
      assert (Eo : o = RPut k (H x) (len x)).
      { destruct o as [k' h sz|ks]; cbn [op_of_call] in Ho.
        - destruct Ho as (x' & Ex & -> & ->). injection Ex as -> ->. reflexivity.
        - destruct Ho as (q & r & _ & _ & [(k' & X & _)|(lo & hi & X & _)]); discriminate X. }
      subst o.
      (* the read *)
      destruct (final_fin _ _ _ _ Hcu Hf) as (s1 & e1 & q & A1 & B1 & Le1 & D1 & E1 & F1 & _).
      destruct (starts_at_unique _ _ _ _ _ _ A1 Hsu) as [-> _].
      specialize (E1 eq_refl).
      assert (Hq : (q <= NN)%nat) by (destruct B1 as (X & _); lia).
      assert (Iq : In (mkWl p t j (RPut k (H x) (len x))) (wlog q)).
      { eapply wlog_mono; [|exact Ip]. lia. }
      exists p, q, e1. split; [lia|]. split; [exact B1|]. split; [lia|]. split; [exact Iq|].
      destruct (put_in_log q _ k (H x) (len x) Hq Iq eq_refl) as [G|(e' & Ie' & Lp' & T)].
      - left. apply lin_inv in F1; [|exact NEu].
        cbn [lin_spec0] in F1. rewrite G in F1. cbn [ihash isize] in F1.
        destruct F1 as (x' & -> & Ix' & Hh & _).
        destruct (prog_in _ _ _ Hc) as (cs & Ics & Ep & _).
        assert (Ix : In x (allc thr0 cas0)).
        { unfold allc. apply in_or_app. left. eapply contents_in; [exact Ics|].
          rewrite <- Ep. eapply nth_error_In. exact Hc. }
        rewrite (NoCollideC x' x Ix' Ix Hh). reflexivity.
      - right. exists e'. cbn [wl_p] in Lp'. split; [exact Ie'|split; [exact Lp'|exact T]].
    Qed.


    (* the weaker form of P3, at the return of the put itself: at position e (the put's end
       step) the key holds the item of x, unless an entry applied after the put's own WLockW
       step p (and before e) has replaced or removed it *)
    Theorem C05_put_applied_at_return t j k x e rp :
      nth_error (prog t) j = Some (KPut k x) -> ends_at e t j rp -> rp <> CErr ->
      exists s p, starts_at s t j (KPut k x) /\ (s < p < e)%nat /\
        In (mkWl p t j (RPut k (H x) (len x))) (wlog e) /\
        (sm_get cmp (kmap e) k = Some (mkItem (H x) (len x)) \/
         exists e', In e' (wlog e) /\ (p < wl_p e')%nat /\ touches (wl_o e') k).
    Proof.
      intros Hc He NEp.
      assert (Wp : writes (KPut k x) rp = true)
        by (cbn [writes]; rewrite (is_err_false _ NEp); reflexivity).
      destruct (ended_call _ _ _ _ _ He Hc) as (s0 & e0 & _ & A0 & B0 & _ & _ & _ & _ & _ & K0).
      destruct (ends_at_unique _ _ _ _ _ _ B0 He) as [-> _].
      destruct (K0 Wp) as (p & o & Bp & Ip).
      assert (HSe : (S e <= NN)%nat) by (destruct He as (X & _); lia).
      destruct (wlog_entry_call (S e) _ HSe Ip) as (c' & s' & Hc' & _ & _ & Ho & _).
      cbn [wl_t wl_j wl_o wl_p] in *. rewrite Hc in Hc'. injection Hc' as <-.
      assert (Eo : o = RPut k (H x) (len x)).
      { destruct o as [k' h sz|ks]; cbn [op_of_call] in Ho.
        - destruct Ho as (x' & Ex & -> & ->). injection Ex as -> ->. reflexivity.
        - destruct Ho as (q & r & _ & _ & [(k' & X & _)|(lo & hi & X & _)]); discriminate X. }
      subst o.
      assert (Ie : In (mkWl p t j (RPut k (H x) (len x))) (wlog e)).
      { apply (wlog_cut e (S e)); [lia|exact Ip|cbn [wl_p]; lia]. }
      exists s0, p. split; [exact A0|]. split; [exact Bp|]. split; [exact Ie|].
      destruct (put_in_log e _ k (H x) (len x) ltac:(lia) Ie eq_refl) as [G|(e' & Ie' & Lp' & T)].
      - left. exact G.
      - right. exists e'. cbn [wl_p] in Lp'. split; [exact Ie'|split; [exact Lp'|exact T]].
    Qed.

  End Trace.
End Lin.

Print Assumptions ctrace_nth.
Print Assumptions starts_at_unique.
Print Assumptions ends_at_unique.
Print Assumptions hist_inv.
Print Assumptions C05_calls_linearizable.
Print Assumptions C05_read_linearizable.
Print Assumptions C05_read_linearizable_cases.
Print Assumptions C05_read_linearizable_thr0.
Print Assumptions C05_get_size_linearizable.
Print Assumptions C05_range_read_linearizable.
Print Assumptions C05_range_read_linearizable_thr0.
Print Assumptions C05_iteration_is_a_snapshot.
Print Assumptions C05_iteration_is_a_snapshot_thr0.
Print Assumptions C05_remove_linearizable.
Print Assumptions C05_remove_range_linearizable.
Print Assumptions C05_km_is_fold_of_writes.
Print Assumptions wlog_key_unique.
Print Assumptions wlog_entry_call.
Print Assumptions C05_write_order_respects_real_time.
Print Assumptions C05_final_is_linearization.
Print Assumptions C05_put_visible.
Print Assumptions C05_put_applied_at_return.

(* ------------------------------------------------------------------------------------ *)
(* the answer of C05_range_read_linearizable is the answer of the sequential model of get_range
   (theories/Range.v: CasInner::get_range + read_blob_range with its read_at loop, for every
   short-read behaviour [chunk] of the kernel) on the blob x with recorded size len x *)
Definition cres_of_rres (r : rres) : cres :=
  match r with RBytes b => CBytes (Some b) | RInvalidRange => CInvalid end.

Lemma range_answer_is_get_range (chunk : N -> N -> N) (h x : bytes) (a b : N) :
  match pre_open (MRange a b) (mkItem h (len x)) with
  | Some r' => r'
  | None => CBytes (Some (slice x a (N.min b (len x))))
  end = cres_of_rres (fst (get_range chunk (len x) x a b)).
Proof.
  cbn [pre_open isize]. unfold get_range.
  destruct (len x <=? a) eqn:E1; [reflexivity|]. apply N.leb_gt in E1.
  destruct (N.ltb_spec (N.min b (len x)) a) as [L|L].
  - rewrite read_blob_range_invalid by exact L. reflexivity.
  - rewrite read_blob_range_ok by exact L. cbn [fst cres_of_rres].
    rewrite slice_inside; [reflexivity|exact L|apply N.le_min_r].
Qed.
Print Assumptions range_answer_is_get_range.

(* ------------------------------------------------------------------------------------ *)
(* P6: a reader racing an overwriting writer, by computation (toyH, lex_cmp) *)

Definition progR : list (nat * list ccall) :=
  [(1%nat, [KPut [1] [10]; KPut [1] [20; 21]]); (2%nat, [KGet [1]])].

Lemma progR_nodup : NoDup (map fst progR).
Proof. cbn. repeat constructor; cbn; intuition discriminate. Qed.

Lemma progR_nocollide :
  forall a b, In a (allc progR []) -> In b (allc progR []) -> toyH a = toyH b -> a = b.
Proof. apply nocollide_list_sound. vm_compute. reflexivity. Qed.

(* schedule 1: the first put completes (steps 0..8); the reader takes its call (step 9) and
   looks the key up (step 10: it sees the item of [10]); the writer overwrites the key and
   unlinks the old blob (steps 11..20); the reader fails to open the old blob (21, 22),
   looks the key up again under the state lock (23) and opens the new blob (24) *)
Definition schedR1 : list nat :=
  repeat 1%nat 9 ++ [2; 2]%nat ++ repeat 1%nat 10 ++ [2; 2; 2; 2]%nat.

(* schedule 2: as before up to the lookup (step 10); the writer runs up to and including its
   WLockW step (11..17: the key now holds [20; 21]); the reader opens the OLD blob, which is
   still there (18, 19); the writer unlinks it and returns (20..22) *)
Definition schedR2 : list nat :=
  repeat 1%nat 9 ++ [2; 2]%nat ++ repeat 1%nat 7 ++ [2; 2]%nat ++ repeat 1%nat 3.

Notation stR := (st toyH lex_cmp 100 nobad false progR []).
Notation tstR := (tst toyH lex_cmp 100 nobad false progR []).
Notation valR := (val toyH lex_cmp 100 nobad false progR []).
Notation wlogR := (wlog toyH lex_cmp 100 nobad false progR []).

(* schedule 1: the reader returns the NEW content; witness position q = 24 (its open under
   the shared lock), inside its interval [9, 24]; at its first lookup (10) the key held the
   old content *)
Example race1_trace :
  tstR schedR1 9 2%nat = Some (mkT [KGet [1]] Idle []) /\
  valR schedR1 10 [1] = Some (toyH [10], 1) /\
  tstR schedR1 24 2%nat = Some (mkT [] (GOpenL [1] (mkItem (toyH [20; 21]) 2) MFull) []) /\
  valR schedR1 24 [1] = Some (toyH [20; 21], 2) /\
  tstR schedR1 25 2%nat = Some (mkT [] Idle [CBytes (Some [20; 21])]) /\
  wlogR schedR1 25 = [mkWl 6 1 0 (RPut [1] (toyH [10]) 1); mkWl 17 1 1 (RPut [1] (toyH [20; 21]) 2)] /\
  all_finished (stR schedR1 25) = true.
Proof. vm_compute. repeat split. Qed.

Example race1_witness :
  starts_at toyH lex_cmp 100 nobad false progR [] schedR1 9 2 0 (KGet [1]) /\
  ends_at toyH lex_cmp 100 nobad false progR [] schedR1 24 2 0 (CBytes (Some [20; 21])) /\
  own toyH lex_cmp 100 nobad false progR [] schedR1 24 2 (KGet [1]) /\
  valR schedR1 24 [1] = Some (toyH [20; 21], len [20; 21]).
Proof.
  split; [|split; [|split]].
  - split; [vm_compute; lia|]. split; [reflexivity|]. eexists. split; [vm_compute; reflexivity|].
    cbn. repeat split.
  - split; [vm_compute; lia|]. split; [reflexivity|]. eexists _, _.
    split; [vm_compute; reflexivity|]. split; [vm_compute; reflexivity|]. cbn. repeat split.
  - split; [vm_compute; lia|]. split; [reflexivity|]. eexists. split; [vm_compute; reflexivity|].
    cbn. right; right. eexists. reflexivity.
  - vm_compute. reflexivity.
Qed.

(* schedule 2: the reader returns the OLD content although the key holds the new one when it
   returns (position 19); witness position q = 10 (its lookup), inside its interval [9, 19];
   the overwrite is linearised at its WLockW step 17, between q and the reader's return *)
Example race2_trace :
  tstR schedR2 9 2%nat = Some (mkT [KGet [1]] Idle []) /\
  tstR schedR2 10 2%nat = Some (mkT [] (GRead [1] MFull) []) /\
  valR schedR2 10 [1] = Some (toyH [10], 1) /\
  valR schedR2 19 [1] = Some (toyH [20; 21], 2) /\
  tstR schedR2 20 2%nat = Some (mkT [] Idle [CBytes (Some [10])]) /\
  wlogR schedR2 23 = [mkWl 6 1 0 (RPut [1] (toyH [10]) 1); mkWl 17 1 1 (RPut [1] (toyH [20; 21]) 2)] /\
  all_finished (stR schedR2 23) = true.
Proof. vm_compute. repeat split. Qed.

Example race2_witness :
  starts_at toyH lex_cmp 100 nobad false progR [] schedR2 9 2 0 (KGet [1]) /\
  ends_at toyH lex_cmp 100 nobad false progR [] schedR2 19 2 0 (CBytes (Some [10])) /\
  own toyH lex_cmp 100 nobad false progR [] schedR2 10 2 (KGet [1]) /\
  valR schedR2 10 [1] = Some (toyH [10], len [10]).
Proof.
  split; [|split; [|split]].
  - split; [vm_compute; lia|]. split; [reflexivity|]. eexists. split; [vm_compute; reflexivity|].
    cbn. repeat split.
  - split; [vm_compute; lia|]. split; [reflexivity|]. eexists _, _.
    split; [vm_compute; reflexivity|]. split; [vm_compute; reflexivity|]. cbn. repeat split.
  - split; [vm_compute; lia|]. split; [reflexivity|]. eexists. split; [vm_compute; reflexivity|].
    cbn. left. reflexivity.
  - vm_compute. reflexivity.
Qed.

(* the general theorems on this program, for EVERY schedule *)
Example progR_reads_linearizable sched r :
  final_res toyH lex_cmp 100 nobad false progR [] sched 2 0 r ->
  exists s e q, starts_at toyH lex_cmp 100 nobad false progR [] sched s 2 0 (KGet [1]) /\
    ends_at toyH lex_cmp 100 nobad false progR [] sched e 2 0 r /\ (s < q <= e)%nat /\
    own toyH lex_cmp 100 nobad false progR [] sched q 2 (KGet [1]) /\
    exists o, r = CBytes o /\ valR sched q [1] = option_map (fun x => (toyH x, len x)) o /\
              (forall x, o = Some x -> sm_get lex_cmp (g_cas (stR sched q)) (toyH x) = Some x).
Proof.
  intros Hf.
  apply (C05_read_linearizable toyH lex_cmp lex_refl lex_eq lex_antisym lex_trans 100 nobad false progR
           progR_nodup [] I (fun h c (F : In (h, c) []) => match F with end) progR_nocollide
           sched 2 0 [1] r); [reflexivity|exact Hf|].
  (* without faults no result is the I/O error *)
  destruct Hf as (ts & Ht & Hr). intros ->. apply nth_error_In in Hr. revert Hr.
  apply (no_faults_no_errors toyH lex_cmp lex_refl lex_eq lex_antisym lex_trans 100 nobad false progR
           progR_nodup [] I (fun h c (F : In (h, c) []) => match F with end) progR_nocollide
           _ (fun _ => eq_refl) eq_refl (ex_intro _ sched eq_refl) 2%nat ts Ht).
Qed.

Example progR_final_linearization sched :
  all_finished (crun toyH lex_cmp 100 nobad false (init_c progR []) sched) = true ->
  km (g_idx (crun toyH lex_cmp 100 nobad false (init_c progR []) sched)) =
  fold_left (kstep lex_cmp) (map wl_o (wlogR sched (NN sched))) [].
Proof.
  intros AF.
  apply (C05_final_is_linearization toyH lex_cmp lex_refl lex_eq lex_antisym lex_trans 100 nobad false progR
           progR_nodup [] I (fun h c (F : In (h, c) []) => match F with end) progR_nocollide
           sched AF).
Qed.

Print Assumptions race1_trace.
Print Assumptions race1_witness.
Print Assumptions race2_trace.
Print Assumptions race2_witness.
Print Assumptions progR_reads_linearizable.
Print Assumptions progR_final_linearization.

(* ------------------------------------------------------------------------------------ *)
(* P6': a ranged read racing an overwrite by a LONGER value, and an iteration racing a put
   (program ConcExamples.progRI: thread 1 puts [1] := 3 bytes, [1] := 5 bytes, [2] := 1 byte;
   thread 2 reads the range [1, 4) of [1]; thread 3 iterates) *)
Notation tstRI := (tst toyH lex_cmp 100 nobad false progRI []).
Notation valRI := (val toyH lex_cmp 100 nobad false progRI []).
Notation kmapRI := (kmap toyH lex_cmp 100 nobad false progRI []).

(* old value: the reader looks the key up at step 10 (3-byte item), the overwrite is applied at
   step 18, the reader opens the old blob at step 20 and returns bytes [1, min 4 3) of it;
   witness q = 10 *)
Example range_race_old_witness :
  starts_at toyH lex_cmp 100 nobad false progRI [] schedRI_old 9 2 0 (KGetRange [1] 1 4) /\
  ends_at toyH lex_cmp 100 nobad false progRI [] schedRI_old 20 2 0 (CBytes (Some [11; 12])) /\
  own toyH lex_cmp 100 nobad false progRI [] schedRI_old 10 2 (KGetRange [1] 1 4) /\
  valRI schedRI_old 10 [1] = Some (toyH [10; 11; 12], len [10; 11; 12]) /\
  valRI schedRI_old 20 [1] = Some (toyH [20; 21; 22; 23; 24], 5) /\
  CBytes (Some [11; 12]) = CBytes (Some (slice [10; 11; 12] 1 (N.min 4 (len [10; 11; 12])))).
Proof.
  split; [|split; [|split; [|split; [|split]]]].
  - split; [vm_compute; lia|]. split; [reflexivity|]. eexists. split; [vm_compute; reflexivity|].
    cbn. repeat split.
  - split; [vm_compute; lia|]. split; [reflexivity|]. eexists _, _.
    split; [vm_compute; reflexivity|]. split; [vm_compute; reflexivity|]. cbn. repeat split.
  - split; [vm_compute; lia|]. split; [reflexivity|]. eexists. split; [vm_compute; reflexivity|].
    cbn. left. reflexivity.
  - vm_compute. reflexivity.
  - vm_compute. reflexivity.
  - vm_compute. reflexivity.
Qed.

(* new value: the old blob is gone when the reader opens it (step 22); the retry looks the key
   up again (step 23: the 5-byte item) and opens its blob under the shared lock (step 24):
   bytes [1, min 4 5) of the NEW value; witness q = 24 *)
Example range_race_new_witness :
  starts_at toyH lex_cmp 100 nobad false progRI [] schedRI_new 9 2 0 (KGetRange [1] 1 4) /\
  ends_at toyH lex_cmp 100 nobad false progRI [] schedRI_new 24 2 0 (CBytes (Some [21; 22; 23])) /\
  own toyH lex_cmp 100 nobad false progRI [] schedRI_new 24 2 (KGetRange [1] 1 4) /\
  valRI schedRI_new 10 [1] = Some (toyH [10; 11; 12], 3) /\
  valRI schedRI_new 24 [1] = Some (toyH [20; 21; 22; 23; 24], len [20; 21; 22; 23; 24]) /\
  CBytes (Some [21; 22; 23]) =
    CBytes (Some (slice [20; 21; 22; 23; 24] 1 (N.min 4 (len [20; 21; 22; 23; 24])))).
Proof.
  split; [|split; [|split; [|split; [|split]]]].
  - split; [vm_compute; lia|]. split; [reflexivity|]. eexists. split; [vm_compute; reflexivity|].
    cbn. repeat split.
  - split; [vm_compute; lia|]. split; [reflexivity|]. eexists _, _.
    split; [vm_compute; reflexivity|]. split; [vm_compute; reflexivity|]. cbn. repeat split.
  - split; [vm_compute; lia|]. split; [reflexivity|]. eexists. split; [vm_compute; reflexivity|].
    cbn. right; right. eexists. reflexivity.
  - vm_compute. reflexivity.
  - vm_compute. reflexivity.
  - vm_compute. reflexivity.
Qed.

(* the iteration racing the put of key [2] (applied at step 26): run before it (step 25) it
   returns the keys of position 25, run after it (step 27) those of position 27 *)
Definition schedIt_before : list nat := schedI0 ++ repeat 1%nat 5 ++ [3%nat].
Definition schedIt_after : list nat := schedI0 ++ repeat 1%nat 7 ++ [3%nat].

Example iter_race_witness :
  starts_at toyH lex_cmp 100 nobad false progRI [] schedIt_before 19 3 0 KIter /\
  ends_at toyH lex_cmp 100 nobad false progRI [] schedIt_before 25 3 0 (CKeys [[1]]) /\
  own toyH lex_cmp 100 nobad false progRI [] schedIt_before 25 3 KIter /\
  map fst (kmapRI schedIt_before 25) = [[1]] /\
  starts_at toyH lex_cmp 100 nobad false progRI [] schedIt_after 19 3 0 KIter /\
  ends_at toyH lex_cmp 100 nobad false progRI [] schedIt_after 27 3 0 (CKeys [[1]; [2]]) /\
  own toyH lex_cmp 100 nobad false progRI [] schedIt_after 27 3 KIter /\
  map fst (kmapRI schedIt_after 26) = [[1]] /\
  map fst (kmapRI schedIt_after 27) = [[1]; [2]].
Proof.
  split; [|split; [|split; [|split; [|split; [|split; [|split; [|split]]]]]]].
  - split; [vm_compute; lia|]. split; [reflexivity|]. eexists. split; [vm_compute; reflexivity|].
    cbn. repeat split.
  - split; [vm_compute; lia|]. split; [reflexivity|]. eexists _, _.
    split; [vm_compute; reflexivity|]. split; [vm_compute; reflexivity|]. cbn. repeat split.
  - split; [vm_compute; lia|]. split; [reflexivity|]. eexists. split; [vm_compute; reflexivity|].
    cbn. reflexivity.
  - vm_compute. reflexivity.
  - split; [vm_compute; lia|]. split; [reflexivity|]. eexists. split; [vm_compute; reflexivity|].
    cbn. repeat split.
  - split; [vm_compute; lia|]. split; [reflexivity|]. eexists _, _.
    split; [vm_compute; reflexivity|]. split; [vm_compute; reflexivity|]. cbn. repeat split.
  - split; [vm_compute; lia|]. split; [reflexivity|]. eexists. split; [vm_compute; reflexivity|].
    cbn. reflexivity.
  - vm_compute. reflexivity.
  - vm_compute. reflexivity.
Qed.

(* the general theorems on this program, for EVERY schedule *)
Lemma progRI_no_err sched t j r :
  final_res toyH lex_cmp 100 nobad false progRI [] sched t j r -> r <> CErr.
Proof.
  intros (ts & Ht & Hr) ->. apply nth_error_In in Hr. revert Hr.
  apply (no_faults_no_errors toyH lex_cmp lex_refl lex_eq lex_antisym lex_trans 100 nobad false progRI
           progRI_nodup [] I (fun h c (F : In (h, c) []) => match F with end) progRI_nocollide
           _ (fun _ => eq_refl) eq_refl (ex_intro _ sched eq_refl) t ts Ht).
Qed.

Example progRI_range_reads_linearizable sched r :
  final_res toyH lex_cmp 100 nobad false progRI [] sched 2 0 r ->
  exists s e q, starts_at toyH lex_cmp 100 nobad false progRI [] sched s 2 0 (KGetRange [1] 1 4) /\
    ends_at toyH lex_cmp 100 nobad false progRI [] sched e 2 0 r /\ (s < q <= e)%nat /\
    own toyH lex_cmp 100 nobad false progRI [] sched q 2 (KGetRange [1] 1 4) /\
    ((r = CBytes None /\ valRI sched q [1] = None) \/
     (exists x, valRI sched q [1] = Some (toyH x, len x) /\
                sm_get lex_cmp (g_cas (st toyH lex_cmp 100 nobad false progRI [] sched q)) (toyH x) = Some x /\
                r = match pre_open (MRange 1 4) (mkItem (toyH x) (len x)) with
                    | Some r' => r'
                    | None => CBytes (Some (slice x 1 (N.min 4 (len x))))
                    end)).
Proof.
  intros Hf.
  apply (C05_range_read_linearizable toyH lex_cmp lex_refl lex_eq lex_antisym lex_trans 100 nobad false
           progRI progRI_nodup [] I (fun h c (F : In (h, c) []) => match F with end) progRI_nocollide
           sched 2 0 [1] 1 4 r); [reflexivity|exact Hf|].
  eapply progRI_no_err; exact Hf.
Qed.

Example progRI_iteration_is_a_snapshot sched r :
  final_res toyH lex_cmp 100 nobad false progRI [] sched 3 0 r ->
  exists s e q, starts_at toyH lex_cmp 100 nobad false progRI [] sched s 3 0 KIter /\
    ends_at toyH lex_cmp 100 nobad false progRI [] sched e 3 0 r /\ (s < q <= e)%nat /\
    own toyH lex_cmp 100 nobad false progRI [] sched q 3 KIter /\
    r = CKeys (map fst (kmapRI sched q)).
Proof.
  intros Hf.
  apply (C05_iteration_is_a_snapshot toyH lex_cmp lex_refl lex_eq lex_antisym lex_trans 100 nobad false
           progRI progRI_nodup [] I (fun h c (F : In (h, c) []) => match F with end) progRI_nocollide
           sched 3 0 r); [reflexivity|exact Hf].
Qed.

Print Assumptions range_race_old_witness.
Print Assumptions range_race_new_witness.
Print Assumptions iter_race_witness.
Print Assumptions progRI_range_reads_linearizable.
Print Assumptions progRI_iteration_is_a_snapshot.
